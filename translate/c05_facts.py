"""C05 tie T1: regenerate the Column-builder facts from sqlframe/base/column.py (fail-closed).

Two mechanisms:
 (a) a tiny symbolic executor runs the *operator dunders, binary_op, inverse_binary_op, unary_op, eqNullSafe,
     isNull, isNotNull, between, like, ilike, rlike, startswith, endswith, substr* on symbolic arguments and
     obtains the sqlglot tree template each of them builds; the template is classified into
     (class, receiver-is-left, paren, str-operand-is-literal) etc.  Refactorings that build the same template
     give the same facts; anything the executor does not understand raises Untranslatable.
 (b) the helpers those methods rest on (Column.__init__, _lit, column_expression, invoke_expression_over_column,
     invoke_anonymous_function, functions.col/lit/when, Column.when/otherwise/isin/cast/alias/getItem/getField,
     element_at, element_at_using_brackets) are pinned by a hash of their AST (docstrings removed): their
     modelled behaviour (build in coq/theories/C05/Build.v) is only vouched for while they are unchanged.
"""
from __future__ import annotations

import ast
import hashlib
import os

from vlib.py2v import Untranslatable, find_class, find_func, load

BOP = {"EQ": "Eq", "NEQ": "Neq", "GT": "Gt", "GTE": "Ge", "LT": "Lt", "LTE": "Le", "And": "And", "Or": "Or",
       "Mod": "Mod", "Add": "Add", "Sub": "Sub", "Mul": "Mul", "Div": "Div", "NullSafeEQ": "Nse",
       "Like": "Like", "ILike": "ILike"}
# how sqlglot 26's DuckDB generator names the function classes used by the string methods (environment; tie T2
# compares the model's text with the real text on every run)
DUCKDB_FN = {"StartsWith": "STARTS_WITH", "RegexpLike": "REGEXP_MATCHES", "Substring": "SUBSTRING"}
FWD = {"__add__": "UAdd", "__sub__": "USub", "__mul__": "UMul", "__truediv__": "UDiv", "__mod__": "UMod",
       "__eq__": "UEq", "__ne__": "UNeq", "__lt__": "ULt", "__le__": "ULe", "__gt__": "UGt", "__ge__": "UGe",
       "__and__": "UAnd", "__or__": "UOr"}
REV = {"__radd__": "UAdd", "__rsub__": "USub", "__rmul__": "UMul", "__rtruediv__": "UDiv", "__rmod__": "UMod",
       "__rand__": "UAnd", "__ror__": "UOr"}
UOPS = ["UAdd", "USub", "UMul", "UDiv", "UMod", "UEq", "UNeq", "ULt", "ULe", "UGt", "UGe", "UAnd", "UOr"]

# Column.__init__, _lit, column_expression, ensure_col, copy and functions.col / lit are NOT pinned by hash (they are
# edited for reasons unrelated to C05, e.g. exotic literals): what the model assumes of them is probed behaviourally on
# every run by checks/c05.helper_probes and, on every sampled tree, by the T2 text comparison.
PINNED = {  # (file, class or None, function) -> hash of the normalised AST
    ("column.py", "Column", "invoke_expression_over_column"): "?",
    ("column.py", "Column", "invoke_anonymous_function"): "?",
    ("column.py", "Column", "when"): "?",
    ("column.py", "Column", "otherwise"): "?",
    ("column.py", "Column", "isin"): "?",
    ("column.py", "Column", "cast"): "?",
    ("column.py", "Column", "alias"): "?",
    ("column.py", "Column", "getItem"): "?",
    ("column.py", "Column", "getField"): "?",
    ("functions.py", None, "when"): "?",
    ("functions.py", None, "element_at"): "?",
    ("functions.py", None, "endswith"): "?",
    ("function_alternatives.py", None, "endswith_with_underscore"): "?",
    ("column.py", None, "_operand"): "?",
    ("column.py", None, "_connector_operand"): "?",
    ("function_alternatives.py", None, "element_at_using_brackets"): "?",
}
PIN_FILE = os.path.join(os.path.dirname(os.path.abspath(__file__)), "c05_pins.json")


def ast_hash(fn: ast.AST) -> str:
    """hash of the NORMALISED function (vlib.py2v.norm_hash): stable under docstring / comment / annotation / logging /
    local-renaming edits, sensitive to every executable difference"""
    from vlib import py2v
    return py2v.norm_hash(drop_unused_defaulted_params(fn))


def drop_unused_defaulted_params(fn: ast.FunctionDef) -> ast.FunctionDef:
    """a parameter that has a default and is never read in the body cannot change what the function does for the calls
    the model makes (which do not pass it), e.g. a keyword accepted only for PySpark compatibility: it is left out of
    the pinned hash.  Everything else (used parameters, their defaults, the body) stays in."""
    import copy
    fn = copy.deepcopy(fn)
    used = {n.id for st in fn.body for n in ast.walk(st) if isinstance(n, ast.Name)}
    a = fn.args
    n_def = len(a.defaults)
    pos = a.args
    # only trailing unused defaulted positionals are dropped (dropping one in the middle would shift positions)
    trailing_args, trailing_defs = list(pos), list(a.defaults)
    while trailing_defs and trailing_args[-1].arg not in used:
        trailing_args.pop()
        trailing_defs.pop()
    a.args, a.defaults = trailing_args, trailing_defs
    kw, kwd = [], []
    for arg, d in zip(a.kwonlyargs, a.kw_defaults):
        if d is not None and arg.arg not in used:
            continue
        kw.append(arg)
        kwd.append(d)
    a.kwonlyargs, a.kw_defaults = kw, kwd
    return fn


# ------------------------------------------------------------------------------------------------
# symbolic values
#   ('self',)                 the receiver Column
#   ('arg', name, kind)       an argument; kind 'col' (a Column), 'str' (bare str), 'py' (other bare Python value)
#   ('litcol', x)             the Column _lit(x)/lit(x)/Column(x) makes of a bare non-str value / of a str via _lit
#   ('parsecol', x)           Column(<bare str>)  -- parsed as SQL, i.e. a column NAME
#   ('wrap', e)               Column(<expression e>)
#   expressions: ('E', who) the (unaliased) expression of a Column; ('L', x) literal of bare value x;
#                ('N', x) column named by bare str x; ('node', cls, {k: expr}); ('cls', name); ('const', v)
# ------------------------------------------------------------------------------------------------

class Sym:
    def __init__(self, cls_node: ast.ClassDef):
        self.cls = cls_node
        self.methods = {n.name: n for n in cls_node.body if isinstance(n, ast.FunctionDef)}
        self.depth = 0

    # -- helpers ------------------------------------------------------------------------------------
    def is_column(self, v):
        return isinstance(v, tuple) and v[0] in ("self", "litcol", "parsecol", "wrap") or \
            (isinstance(v, tuple) and v[0] == "arg" and v[2] == "col")

    def expr_of(self, v, keep_alias=False):
        if v == ("self",):
            return ("E", "self")
        if v[0] == "arg" and v[2] == "col":
            return ("EA" if keep_alias else "E", v[1])   # .expression keeps an Alias node, .column_expression drops it
        if v[0] == "litcol":
            return ("L", v[1])
        if v[0] == "parsecol":
            return ("N", v[1])
        if v[0] == "wrap":
            return v[1]
        raise Untranslatable(f".expression of non-Column value {v!r}")

    def make_column(self, v):
        """Column(v) as Column.__init__ (pinned) does it"""
        if self.is_column(v):
            return v
        if v[0] == "arg" and v[2] == "str":
            return ("parsecol", v[1])
        if v[0] == "arg" and v[2] in ("py", "int", "int0"):
            return ("litcol", v[1])
        if v[0] == "const":
            if isinstance(v[1], str):
                return ("parsecol", repr(v[1]))
            return ("litcol", repr(v[1]))
        if v[0] in ("node", "E", "EA", "L", "N", "W", "WC"):
            return ("wrap", v)
        raise Untranslatable(f"Column({v!r})")

    def make_lit(self, v):
        """Column._lit(v) / functions.lit(v) on a bare value (pinned)"""
        if v[0] == "arg" and v[2] in ("str", "py", "int", "int0"):
            return ("litcol", v[1])
        if v[0] == "const":
            return ("litcol", repr(v[1]))
        raise Untranslatable(f"_lit({v!r})")

    # -- interpreter -------------------------------------------------------------------------------
    def call_method(self, name, args, kwargs):
        if name not in self.methods:
            raise Untranslatable(f"method Column.{name} not found")
        fn = self.methods[name]
        self.depth += 1
        if self.depth > 6:
            raise Untranslatable("call depth")
        from vlib import py2v
        static = any(isinstance(d, ast.Name) and d.id == "staticmethod" for d in fn.decorator_list)
        fn = py2v.normalize_func(fn, rename_locals=False)      # no docstrings, annotations, logging, `pass`
        params = [a.arg for a in fn.args.args]
        if not static:
            params = params[1:]                                # drop self/cls
        defaults = fn.args.defaults
        env = {"self": ("self",)}
        for i, p in enumerate(params):
            if i < len(args):
                env[p] = args[i]
            elif p in kwargs:
                env[p] = kwargs.pop(p)
            else:
                j = i - (len(params) - len(defaults))
                if j < 0:
                    raise Untranslatable(f"missing argument {p} of {name}")
                env[p] = self.ev(defaults[j], {})
        if fn.args.kwarg:
            if kwargs:
                raise Untranslatable(f"**{fn.args.kwarg.arg} with values in {name}")
            env["**" + fn.args.kwarg.arg] = {}
        elif kwargs:
            raise Untranslatable(f"unexpected keyword {list(kwargs)} for {name}")
        r = self.run(fn.body, env)
        self.depth -= 1
        if r is None:
            raise Untranslatable(f"{name}: control reaches end without return")
        return r

    def run(self, stmts, env):
        for s in stmts:
            if isinstance(s, ast.Expr) and isinstance(s.value, ast.Constant):
                continue
            if isinstance(s, ast.ImportFrom):
                continue
            if isinstance(s, ast.Assign) and len(s.targets) == 1 and isinstance(s.targets[0], ast.Name):
                env[s.targets[0].id] = self.ev(s.value, env)
                continue
            if isinstance(s, ast.Return):
                if s.value is None:
                    raise Untranslatable("bare return")
                return self.ev(s.value, env)
            if isinstance(s, ast.If):
                t = self.ev(s.test, env)
                if t[0] != "const" or not isinstance(t[1], bool):
                    raise Untranslatable("if-condition not decidable: " + ast.unparse(s.test))
                r = self.run(s.body if t[1] else s.orelse, env)
                if r is not None:
                    return r
                continue
            raise Untranslatable("statement " + ast.unparse(s)[:80])
        return None

    def ev(self, n, env):
        if isinstance(n, ast.Constant):
            return ("const", n.value)
        if isinstance(n, ast.Name):
            if n.id in env:
                return env[n.id]
            if n.id in ("str", "int", "Column", "exp", "cls", "isinstance", "_operand", "_connector_operand", "get_func_from_session"):
                return ("name", n.id)
            raise Untranslatable(f"unknown name {n.id}")
        if isinstance(n, ast.Attribute):
            if isinstance(n.value, ast.Name) and n.value.id in ("exp", "expression") and n.value.id not in env:
                return ("cls", n.attr)
            base = self.ev(n.value, env)
            if n.attr in ("column_expression", "expression") and self.is_column(base):
                return self.expr_of(base, keep_alias=(n.attr == "expression"))
            if base == ("self",) or base == ("name", "cls") or base == ("name", "Column"):
                return ("method", n.attr)
            raise Untranslatable("attribute " + ast.unparse(n))
        if isinstance(n, ast.UnaryOp) and isinstance(n.op, ast.Not):
            v = self.ev(n.operand, env)
            if v[0] == "const" and isinstance(v[1], bool):
                return ("const", not v[1])
            raise Untranslatable("not on " + repr(v))
        if isinstance(n, ast.BoolOp):
            is_and = isinstance(n.op, ast.And)
            for v in n.values:                      # short-circuit, as Python does
                x = self.ev(v, env)
                if x[0] != "const" or not isinstance(x[1], bool):
                    raise Untranslatable("and/or on undecided operand: " + ast.unparse(v))
                if x[1] != is_and:
                    return ("const", x[1])
            return ("const", is_and)
        if isinstance(n, ast.Compare) and len(n.ops) == 1 and isinstance(n.ops[0], (ast.In, ast.NotIn)) \
                and isinstance(n.comparators[0], ast.Tuple):
            a = self.ev(n.left, env)
            elts = [self.ev(e, env) for e in n.comparators[0].elts]
            if a[0] == "cls" and all(e[0] == "cls" for e in elts):
                r = a in elts
                return ("const", r if isinstance(n.ops[0], ast.In) else not r)
            raise Untranslatable("membership test " + ast.unparse(n))
        if isinstance(n, ast.Compare) and len(n.ops) == 1 and isinstance(n.ops[0], (ast.Eq, ast.NotEq, ast.Lt, ast.LtE)):
            a, b = self.ev(n.left, env), self.ev(n.comparators[0], env)
            if a[0] == "arg" and a[2] in ("int0", "int") and b == ("const", 0) and isinstance(n.ops[0], (ast.Eq, ast.NotEq)):
                r = a[2] == "int0"
                return ("const", r if isinstance(n.ops[0], ast.Eq) else not r)
            raise Untranslatable("comparison " + ast.unparse(n))     # e.g. `startPos < 1`: undecided for an arbitrary int
        if isinstance(n, ast.IfExp):
            t = self.ev(n.test, env)
            if t[0] != "const" or not isinstance(t[1], bool):
                raise Untranslatable("conditional not decidable: " + ast.unparse(n.test))
            return self.ev(n.body if t[1] else n.orelse, env)
        if isinstance(n, ast.Call):
            return self.call(n, env)
        raise Untranslatable("expression " + ast.unparse(n)[:80])

    def call(self, n, env):
        f = self.ev(n.func, env)
        args = [self.ev(a, env) for a in n.args]
        kwargs = {}
        for k in n.keywords:
            if k.arg is None:
                v = env.get("**" + ast.unparse(k.value))
                if v != {}:
                    raise Untranslatable("**" + ast.unparse(k.value))
                continue
            kwargs[k.arg] = self.ev(k.value, env)
        if f == ("name", "isinstance"):
            x, t = args
            if t == ("name", "str"):
                return ("const", x[0] == "arg" and x[2] == "str")
            if t == ("name", "Column"):
                return ("const", self.is_column(x))
            if t == ("name", "int"):
                if x[0] == "arg" and x[2] in ("int0", "int"):
                    return ("const", True)
                if x[0] == "arg" and x[2] in ("str", "col"):
                    return ("const", False)
                if x[0] == "const":
                    return ("const", isinstance(x[1], int))
                raise Untranslatable("isinstance(<bare value of unknown type>, int)")
            raise Untranslatable("isinstance against " + repr(t))
        if f in (("name", "_operand"), ("name", "_connector_operand")):
            if len(args) != 1 or kwargs:
                raise Untranslatable("_operand(...) arity")
            return ("W" if f[1] == "_operand" else "WC", args[0])
        if f == ("name", "get_func_from_session"):
            if len(args) != 1 or args[0][0] != "const":
                raise Untranslatable("get_func_from_session argument")
            return ("sessfn", args[0][1])
        if f[0] == "sessfn":
            if f[1] == "endswith" and len(args) == 2 and not kwargs:
                # functions.endswith on a DuckDB session -> endswith_with_underscore -> ENDS_WITH(...), auto-aliased (pinned)
                return ("wrap", ("node", "Anonymous:ENDS_WITH",
                                 {"this": self.expr_of(self.make_column(args[0])), "args": (self.expr_of(self.make_column(args[1])),)}))
            raise Untranslatable("session function " + f[1])
        if f == ("name", "Column"):
            if len(args) != 1 or kwargs:
                raise Untranslatable("Column(...) arity")
            return self.make_column(args[0])
        if f[0] == "cls":
            if args:
                raise Untranslatable("positional arguments to exp." + f[1])
            return ("node", f[1], kwargs)
        if f[0] == "method":
            m = f[1]
            if m == "_lit":
                return self.make_lit(args[0])
            if m == "invoke_expression_over_column":
                pos = list(args)
                col = pos.pop(0) if pos else kwargs.pop("column")
                klass = pos.pop(0) if pos else kwargs.pop("callable_expression")
                if pos:
                    raise Untranslatable("invoke_expression_over_column: extra positional arguments")
                if klass[0] != "cls":
                    raise Untranslatable("invoke_expression_over_column class")
                kw = {"this": self.expr_of(col)}
                kw.update(kwargs)      # values are expressions; ensure_col(expr).column_expression == expr (pinned)
                return ("wrap", ("node", klass[1], kw))
            if m == "invoke_anonymous_function":
                col, name = args[0], args[1]
                if name[0] != "const":
                    raise Untranslatable("anonymous function name")
                rest = [self.expr_of(self.make_column(a)) for a in args[2:]]
                return ("wrap", ("node", "Anonymous:" + name[1].upper(), {"this": self.expr_of(col), "args": tuple(rest)}))
            return self.call_method(m, args, kwargs)
        raise Untranslatable("call " + ast.unparse(n)[:80])


def _strip_wrap(v):
    if v[0] != "wrap":
        raise Untranslatable(f"method does not return Column(<expression>): {v!r}")
    return v[1]


def classify_bin(sym: Sym, name: str):
    """(cls, self_left, paren, strlit) of a binary dunder / eqNullSafe"""
    res = {}
    for kind in ("col", "str", "py"):
        t = _strip_wrap(sym.call_method(name, [("arg", "other", kind)], {}))
        paren = False
        if t[0] == "node" and t[1] == "Paren" and set(t[2]) == {"this"}:
            paren, t = True, t[2]["this"]
        if not (t[0] == "node" and set(t[2]) == {"this", "expression"}):
            raise Untranslatable(f"{name}: template {t!r}")
        cls, a, b = t[1], t[2]["this"], t[2]["expression"]
        wa = {"W": "WAll", "WC": "WConn"}.get(a[0], "WNone")
        wb = {"W": "WAll", "WC": "WConn"}.get(b[0], "WNone")
        if wa != wb:
            raise Untranslatable(f"{name}: the two operands are passed on differently ({wa} / {wb})")
        if wa != "WNone":
            a, b = a[1], b[1]
        if cls not in BOP:
            raise Untranslatable(f"{name}: sqlglot class exp.{cls} is outside the modelled operator set")
        if a == ("E", "self"):
            left, o = True, b
        elif b == ("E", "self"):
            left, o = False, a
        else:
            raise Untranslatable(f"{name}: receiver is not an operand: {t!r}")
        res[kind] = ((cls, left, paren, wa), o)
    (k1, o1), (k2, o2), (k3, o3) = res["col"], res["str"], res["py"]
    (c1, l1, p1, w1) = k1
    if k1 != k2 or k1 != k3:
        raise Untranslatable(f"{name}: shape depends on the operand's Python type")
    if o1 != ("E", "other") or o3 != ("L", "other") or o2 not in (("L", "other"), ("N", "other")):
        raise Untranslatable(f"{name}: operand templates {o1!r} {o2!r} {o3!r}")
    return BOP[c1], l1, p1, o2 == ("L", "other"), w1


def classify_un(sym: Sym, name: str):
    t = _strip_wrap(sym.call_method(name, [], {}))
    if not (t[0] == "node" and t[1] in ("Neg", "Not") and set(t[2]) == {"this"}):
        raise Untranslatable(f"{name}: template {t!r}")
    x = t[2]["this"]
    paren = False
    if x[0] == "node" and x[1] == "Paren" and set(x[2]) == {"this"}:
        paren, x = True, x[2]["this"]
    if x != ("E", "self"):
        raise Untranslatable(f"{name}: operand {x!r}")
    return t[1] == "Not", paren


def _unw(x, flags):
    """strip an _operand(...) marker, remembering whether it was there"""
    if x[0] == "W":
        flags.append(True)
        return x[1]
    flags.append(False)
    return x


def shapes(sym: Sym):
    """verdicts on the remaining small methods;
    returns (ok, isnotnull_paren, like classes, fn names, pred_opwrap, between_unalias, notes)"""
    notes = []
    ok = True
    wraps = []          # does each predicate method pass its operands through _operand?
    NULL = ("node", "Null", {})

    def is_node(t):
        if t[0] == "node" and t[1] == "Is" and set(t[2]) == {"this", "expression"} and t[2]["expression"] == NULL:
            return _unw(t[2]["this"], wraps) == ("E", "self")
        return False

    t = _strip_wrap(sym.call_method("isNull", [], {}))
    if not is_node(t):
        ok = False
        notes.append(f"isNull builds {t!r}")
    t = _strip_wrap(sym.call_method("isNotNull", [], {}))
    inn_paren = False
    if t[0] == "node" and t[1] == "Not" and set(t[2]) == {"this"} and is_node(t[2]["this"]):
        pass
    elif t[0] == "node" and t[1] == "Not" and t[2]["this"][0] == "node" and t[2]["this"][1] == "Paren" \
            and is_node(t[2]["this"][2]["this"]):
        inn_paren = True
    else:
        ok = False
        notes.append(f"isNotNull builds {t!r}")
    unalias = set()
    for kinds, lit in ((("col", "col"), False), (("py", "py"), True), (("str", "str"), True)):
        t = _strip_wrap(sym.call_method("between", [("arg", "lowerBound", kinds[0]), ("arg", "upperBound", kinds[1])], {}))
        good = t[0] == "node" and t[1] == "Between" and set(t[2]) == {"this", "low", "high"}
        if good:
            th, lo, hi = (_unw(t[2][k], wraps) for k in ("this", "low", "high"))
            if lit:
                good = th == ("E", "self") and lo == ("L", "lowerBound") and hi == ("L", "upperBound")
            else:
                good = th == ("E", "self") and lo[0] in ("E", "EA") and hi[0] == lo[0] \
                    and lo[1] == "lowerBound" and hi[1] == "upperBound"
                unalias.add(lo[0] == "E")
        if not good:
            ok = False
            notes.append(f"between{kinds} builds {t!r}")
    like = {}
    for m in ("like", "ilike"):
        t = _strip_wrap(sym.call_method(m, [("arg", "other", "str")], {}))
        if not (t[0] == "node" and t[1] in BOP and set(t[2]) == {"this", "expression"}
                and t[2]["expression"] == ("L", "other") and _unw(t[2]["this"], wraps) == ("E", "self")):
            raise Untranslatable(f"{m}: template {t!r}")
        like[m] = BOP[t[1]]
    if len(set(wraps)) != 1:
        raise Untranslatable("isNull/isNotNull/between/like/ilike disagree on passing their operands through _operand")
    fns = {}
    t = _strip_wrap(sym.call_method("rlike", [("arg", "regexp", "str")], {}))
    if not (t[0] == "node" and t[2] == {"this": ("E", "self"), "expression": ("L", "regexp")}):
        raise Untranslatable(f"rlike: template {t!r}")
    fns["rlike"] = fn_name(t[1])
    for m in ("startswith", "endswith"):
        names = set()
        for kind, want in (("str", ("L", "value")), ("col", ("E", "value"))):
            t = _strip_wrap(sym.call_method(m, [("arg", "value", kind)], {}))
            if t[0] == "node" and t[1].startswith("Anonymous:") and t[2] == {"this": ("E", "self"), "args": (want,)}:
                names.add(t[1].split(":", 1)[1])
            elif t[0] == "node" and set(t[2]) == {"this", "expression"} and t[2]["this"] == ("E", "self") \
                    and t[2]["expression"] in (want, ("EA", "value")):
                names.add(fn_name(t[1]))     # invoke_expression_over_column unaliases its keyword arguments (pinned)
            else:
                raise Untranslatable(f"{m}: template {t!r}")
        if len(names) != 1:
            raise Untranslatable(f"{m}: function depends on the argument type")
        fns[m] = names.pop()
    t = _strip_wrap(sym.call_method("substr", [("arg", "startPos", "int"), ("arg", "length", "int")], {}))
    if not (t[0] == "node" and t[2] == {"this": ("E", "self"), "start": ("L", "startPos"), "length": ("L", "length")}):
        ok = False
        notes.append(f"substr builds {t!r}")
    fns["substr"] = fn_name(t[1]) if t[0] == "node" else "?"
    # a bare position 0 (Spark reads it as 1)
    t = _strip_wrap(sym.call_method("substr", [("arg", "startPos", "int0"), ("arg", "length", "int")], {}))
    if t[0] == "node" and t[2] == {"this": ("E", "self"), "start": ("L", "1"), "length": ("L", "length")}:
        zero_as_one = True
    elif t[0] == "node" and t[2] == {"this": ("E", "self"), "start": ("L", "startPos"), "length": ("L", "length")}:
        zero_as_one = False
    else:
        raise Untranslatable(f"substr(0, n): template {t!r}")
    t = _strip_wrap(sym.call_method("substr", [("arg", "startPos", "col"), ("arg", "length", "col")], {}))
    if not (t[0] == "node" and t[2]["this"] == ("E", "self") and t[2].get("start", ("?",))[1:] == ("startPos",)
            and t[2].get("length", ("?",))[1:] == ("length",)):
        ok = False
        notes.append(f"substr(col, col) builds {t!r}")
    return ok, inn_paren, like, fns, wraps[0], unalias == {True}, zero_as_one, notes


ARITH = {"Add", "Sub", "Mul", "Div", "Mod"}
EXPECTED_OPEN = {"EQ", "NEQ", "GT", "GTE", "LT", "LTE", "NullSafeEQ", "Is", "Not", "In", "Between", "Like", "ILike", "And", "Or"} | ARITH
EXPECTED_OPEN_CONN = {"And", "Or"} | ARITH


def _class_tuple(tree, name):
    for st in tree.body:
        if isinstance(st, ast.Assign) and len(st.targets) == 1 and isinstance(st.targets[0], ast.Name) \
                and st.targets[0].id == name:
            if not isinstance(st.value, ast.Tuple):
                raise Untranslatable(f"{name} is not a tuple literal")
            names = set()
            for e in st.value.elts:
                if not (isinstance(e, ast.Attribute) and isinstance(e.value, ast.Name) and e.value.id == "exp"):
                    raise Untranslatable(f"{name} element " + ast.unparse(e))
                names.add(e.attr)
            return names
    raise Untranslatable(f"{name} not found")


def check_operand_classes(tree):
    """the tuples _operand / _connector_operand test against must be exactly the classes Build.is_open /
    Build.is_open_conn model (fail-closed)"""
    a, b = _class_tuple(tree, "_UNPARENTHESIZED_OPERANDS"), _class_tuple(tree, "_UNPARENTHESIZED_CONNECTOR_OPERANDS")
    if a != EXPECTED_OPEN:
        raise Untranslatable(f"_UNPARENTHESIZED_OPERANDS = {sorted(a)} differs from the modelled set (Build.is_open)")
    if b != EXPECTED_OPEN_CONN:
        raise Untranslatable(f"_UNPARENTHESIZED_CONNECTOR_OPERANDS = {sorted(b)} differs from the modelled set (Build.is_open_conn)")
    return {"_operand": sorted(a), "_connector_operand": sorted(b)}


def fn_name(cls: str) -> str:
    if cls not in DUCKDB_FN:
        raise Untranslatable(f"exp.{cls}: no modelled DuckDB function name")
    return DUCKDB_FN[cls]


def pins(repo: str):
    out = {}
    trees = {}
    for (fname, cls, fn) in PINNED:
        path = os.path.join(repo, "sqlframe", "base", fname)
        if path not in trees:
            trees[path] = load(path)[0]
        tree = trees[path]
        node = None
        if cls:
            for m in find_class(tree, cls).body:
                if isinstance(m, ast.FunctionDef) and m.name == fn:
                    node = m
        else:
            for m in tree.body:
                if isinstance(m, ast.FunctionDef) and m.name == fn:
                    node = m
        if node is None and fn in ("_operand", "_connector_operand"):
            out[f"{fname}:{fn}"] = "absent"
            continue
        if node is None:
            raise Untranslatable(f"{fname}: {cls or ''}.{fn} not found")
        out[f"{fname}:{cls + '.' if cls else ''}{fn}"] = ast_hash(node)
    return out


def bf(c, l, p, s, w):
    return f"(mkBF {c} {str(l).lower()} {str(p).lower()} {str(s).lower()} {w})"


def generate(repo: str):
    """-> (coq text, facts list).  Raises Untranslatable."""
    import json
    from vlib.core import strlit
    path = os.path.join(repo, "sqlframe", "base", "column.py")
    tree, src = load(path)
    colcls = find_class(tree, "Column")
    sym = Sym(colcls)
    facts = []
    # (b) pinned helpers
    got = pins(repo)
    want = json.load(open(PIN_FILE))
    diff = sorted(k for k in want if got.get(k) != want[k])
    if diff:
        raise Untranslatable("helpers the builder model rests on have changed (AST hash): " + ", ".join(diff))
    for k, v in got.items():
        facts.append({"name": "pin:" + k, "source": k, "hash": v})
    # (a) symbolic execution
    fwd, rev = {}, {}
    for m, u in FWD.items():
        fwd[u] = classify_bin(sym, m)
    for m, u in REV.items():
        rev[u] = classify_bin(sym, m)
    if "__div__" in sym.methods and classify_bin(sym, "__div__") != fwd["UDiv"]:
        raise Untranslatable("__div__ and __truediv__ differ")
    if "__rdiv__" in sym.methods and classify_bin(sym, "__rdiv__") != rev["UDiv"]:
        raise Untranslatable("__rdiv__ and __rtruediv__ differ")
    nse = classify_bin(sym, "eqNullSafe")
    neg = classify_un(sym, "__neg__")
    inv = classify_un(sym, "__invert__")
    open_classes = check_operand_classes(tree)
    ok, inn_paren, like, fns, pred_wrap, btw_unalias, zero_as_one, notes = shapes(sym)
    for u in UOPS:
        facts.append({"name": f"fwd[{u}]", "source": "column.py:Column dunder", "value": list(fwd[u])})
    for u in rev:
        facts.append({"name": f"rev[{u}]", "source": "column.py:Column reflected dunder", "value": list(rev[u])})
    facts += [{"name": "eqNullSafe", "value": list(nse)}, {"name": "__neg__(not,paren)", "value": list(neg)},
              {"name": "__invert__(not,paren)", "value": list(inv)},
              {"name": "shapes_ok", "value": ok, "notes": notes}, {"name": "isNotNull inner paren", "value": inn_paren},
              {"name": "like classes", "value": like}, {"name": "_operand classes", "value": open_classes},
              {"name": "pred_opwrap", "value": pred_wrap}, {"name": "between_unalias", "value": btw_unalias},
              {"name": "substr_zero_as_one", "value": zero_as_one}, {"name": "function names (DuckDB)", "value": fns},
              {"name": "getItem offsets: literal key / Column key / Column key containing a numeric literal", "value": [1, 0, 0], "source": "pinned getItem + element_at_using_brackets + sqlglot DuckDB index offset"}]
    lines = ["(* generated by translate/c05_facts.py from sqlframe/base/column.py -- do not edit *)",
             "From SF Require Import C05.Build.", "Open Scope string_scope.", ""]
    lines.append("Definition gen_fwd (o : uop) : binfact :=\n  match o with")
    for u in UOPS:
        lines.append(f"  | {u} => {bf(*fwd[u])}")
    lines.append("  end.")
    lines.append("Definition gen_rev (o : uop) : binfact :=\n  match o with")
    for u in UOPS:
        lines.append(f"  | {u} => {bf(*rev[u]) if u in rev else '(mkBF Add true false false WNone)'}")
    lines.append("  end.")
    b = lambda x: str(x).lower()
    lines.append("Definition gen_cfg : cfg :=\n  mkCfg gen_fwd gen_rev " + bf(*nse)
                 + f"\n    (mkUF {b(neg[0])} {b(neg[1])}) (mkUF {b(inv[0])} {b(inv[1])}) {b(inn_paren)} {b(ok)}"
                 + f"\n    {like['like']} {like['ilike']} {strlit(fns['rlike'])} {strlit(fns['startswith'])} "
                 + f"{strlit(fns['endswith'])} {strlit(fns['substr'])} 1%Z 0%Z 0%Z {b(pred_wrap)} {b(btw_unalias)} {b(zero_as_one)}.")
    return "\n".join(lines) + "\n", facts


if __name__ == "__main__":
    import json
    import sys
    repo = sys.argv[1] if len(sys.argv) > 1 else "/repo"
    if "--pin" in sys.argv:
        json.dump(pins(repo), open(PIN_FILE, "w"), indent=1, sort_keys=True)
        print("pinned", PIN_FILE)
    else:
        print(generate(repo)[0])
