"""T1 for C14: regenerate the writer facts from /repo (fail-closed) and emit Gen/C14Facts.v.

Read from source, on every run:
  sat_plan        base/readerwriter.py  _BaseDataFrameWriter.saveAsTable   (mode -> INSERT | CREATE [IF NOT EXISTS|OR REPLACE])
  validate_mode   base/readerwriter.py  _BaseDataFrameWriter._validate_mode
  after_validate  duckdb/readwriter.py  DuckDBDataFrameWriter._write        (skip / NotImplementedError / COPY)
  path_mode       base/readerwriter.py  csv / json / parquet                (the expression handed to _write(mode=...))
  add_if_absent   base/catalog.py       _BaseCatalog.add_table              (`if self._schema.find(table): return`)
  byname_source   base/readerwriter.py  insertInto                          (where byName takes the column order from)
plus shape checks (no value emitted, Untranslatable when the shape is gone): mode() stores its argument in _mode;
insertInto builds exp.Insert and executes; reader.table = add_table + get_columns_from_schema + SELECT of those columns;
_get_expressions puts the SELECT into the Create / Insert container.

The translator is a small symbolic executor over `ast`: straight-line code, `if` with early return/raise, tuple
assignment, `x or y` on Optional[str], `in {...}`, `==`, `str(x)`.  Anything else raises Untranslatable.
"""
from __future__ import annotations

import ast
import os

from vlib import py2v
from vlib.core import strlit
from vlib.py2v import Untranslatable, dotted


def fmethod(tree, cls, name):
    """the method, normalised (docstrings, annotations, logging statements, typing.cast, pass stripped; names kept):
    edits that cannot change behaviour do not reach the matchers below"""
    return py2v.normalize_func(py2v.find_method(tree, cls, name), rename_locals=False)


def fhash(f, src=None):
    return py2v.norm_hash(f, rename_locals=False)


# ---- expressions ---------------------------------------------------------------------------------

def truthy(term: str, ty: str) -> str:
    if ty == "bool":
        return term
    if ty == "none":
        return "false"
    if ty == "optbool":
        return f"(py_truthy_optbool {term})"
    if ty == "str":
        return f'(negb (String.eqb {term} ""))'
    if ty == "optstr":
        return f'(negb (String.eqb (py_or_str {term} "") ""))'
    raise Untranslatable(f"truth value of a {ty}")


class Sym:
    """env: python (dotted) name -> (coq term, type); types: optstr str bool optbool none"""

    def __init__(self, path_exists_term: str | None = None, calls: dict | None = None):
        self.path_exists_term = path_exists_term
        self.calls = calls or {}      # dotted callee -> ([dotted argument names], coq term, type)
        self.n = 0

    def fresh(self, base: str) -> str:
        self.n += 1
        return f"{base}_{self.n}"

    def is_path_exists(self, n) -> bool:
        # pathlib.Path(path).exists()
        return (isinstance(n, ast.Call) and not n.args and not n.keywords and isinstance(n.func, ast.Attribute)
                and n.func.attr == "exists" and isinstance(n.func.value, ast.Call)
                and dotted(n.func.value.func) in ("pathlib.Path", "Path")
                and len(n.func.value.args) == 1 and dotted(n.func.value.args[0]) == "path")

    def e(self, n, env) -> tuple[str, str]:
        if isinstance(n, ast.Constant):
            v = n.value
            if v is None:
                return "None", "none"
            if isinstance(v, bool):
                return ("true" if v else "false"), "bool"
            if isinstance(v, str):
                return strlit(v), "str"
            raise Untranslatable(f"constant {v!r}")
        d = dotted(n)
        if d is not None:
            if d in env:
                return env[d]
            raise Untranslatable(f"unknown name {d}")
        if self.path_exists_term and self.is_path_exists(n):
            return self.path_exists_term, "bool"
        if isinstance(n, ast.Call) and dotted(n.func) in self.calls:
            argnames, term, ty = self.calls[dotted(n.func)]
            if [dotted(a) for a in n.args] == argnames and not n.keywords:
                return term, ty
            raise Untranslatable(f"call of {dotted(n.func)} with other arguments")
        if isinstance(n, ast.Call) and dotted(n.func) == "str" and len(n.args) == 1 and not n.keywords:
            a, ta = self.e(n.args[0], env)
            if ta == "optstr":
                return f"(py_str_opt {a})", "str"
            if ta == "str":
                return a, "str"
            if ta == "none":
                return strlit("None"), "str"
            raise Untranslatable(f"str() of a {ta}")
        if isinstance(n, ast.BoolOp):
            parts = [self.e(x, env) for x in n.values]
            if isinstance(n.op, ast.Or):
                acc, tacc = parts[-1]
                for a, ta in reversed(parts[:-1]):
                    if ta == "optstr" and tacc == "str":
                        acc, tacc = f"(py_or_str {a} {acc})", "str"
                    elif ta == "optstr" and tacc in ("optstr", "none"):
                        acc, tacc = f"(py_or_opt {a} {acc})", "optstr"
                    elif ta == "str" and tacc == "str":
                        acc, tacc = f'(if String.eqb {a} "" then {acc} else {a})', "str"
                    elif ta == "none":
                        pass
                    elif ta == "bool" and tacc == "bool":
                        acc, tacc = f"(orb {a} {acc})", "bool"
                    else:
                        raise Untranslatable(f"`or` on {ta} / {tacc}")
                return acc, tacc
            acc = truthy(*parts[-1])
            for a, ta in reversed(parts[:-1]):
                acc = f"(andb {truthy(a, ta)} {acc})"
            return acc, "bool"
        if isinstance(n, ast.UnaryOp) and isinstance(n.op, ast.Not):
            a, ta = self.e(n.operand, env)
            return f"(negb {truthy(a, ta)})", "bool"
        if isinstance(n, ast.Compare) and len(n.ops) == 1:
            op = n.ops[0]
            a, ta = self.e(n.left, env)
            rhs = n.comparators[0]
            if isinstance(op, (ast.In, ast.NotIn)):
                if not isinstance(rhs, (ast.Set, ast.Tuple, ast.List)):
                    raise Untranslatable("`in` on a non-literal collection")
                if ta != "str":
                    raise Untranslatable(f"`in` with a {ta} on the left")
                items = []
                for x in rhs.elts:
                    if not (isinstance(x, ast.Constant) and isinstance(x.value, str)):
                        raise Untranslatable("`in` collection member is not a string literal")
                    items.append(f"(String.eqb {a} {strlit(x.value)})")
                acc = "false"
                for it in reversed(items):
                    acc = f"(orb {it} {acc})"
                return (acc if isinstance(op, ast.In) else f"(negb {acc})"), "bool"
            b, tb = self.e(rhs, env)
            if isinstance(op, (ast.Is, ast.IsNot)) and tb == "none":
                if ta == "none":
                    t = "true"
                elif ta in ("optstr", "optbool"):
                    t = f"(match {a} with None => true | Some _ => false end)"
                else:
                    raise Untranslatable(f"`is None` on a {ta}")
                return (t if isinstance(op, ast.Is) else f"(negb {t})"), "bool"
            if isinstance(op, (ast.Eq, ast.NotEq)):
                if ta == "str" and tb == "str":
                    t = f"(String.eqb {a} {b})"
                elif ta == "optstr" and tb == "str":
                    t = f"(optstr_eqb {a} (Some {b}))"
                elif ta == "optstr" and tb == "none":
                    t = f"(optstr_eqb {a} None)"
                else:
                    raise Untranslatable(f"== between {ta} and {tb}")
                return (t if isinstance(op, ast.Eq) else f"(negb {t})"), "bool"
            raise Untranslatable("comparison " + type(op).__name__)
        if isinstance(n, ast.IfExp):
            c, tc = self.e(n.test, env)
            a, ta = self.e(n.body, env)
            b, tb = self.e(n.orelse, env)
            if {ta, tb} <= {"optstr", "none"}:
                return f"(if {truthy(c, tc)} then {a} else {b})", "optstr"
            if ta == tb:
                return f"(if {truthy(c, tc)} then {a} else {b})", ta
            if {ta, tb} <= {"bool", "none", "optbool"}:
                def lift(x, t):
                    return x if t == "optbool" else "None" if t == "none" else f"(Some {x})"
                return f"(if {truthy(c, tc)} then {lift(a, ta)} else {lift(b, tb)})", "optbool"
            raise Untranslatable(f"conditional expression with branches {ta} / {tb}")
        raise Untranslatable("expression " + ast.dump(n)[:120])

    # ---- statements ------------------------------------------------------------------------------
    def block(self, stmts, env, h) -> str:
        """h: handler object with .ret(node, env, sym), .raise_(node, env, sym), .other(stmt, env, sym) -> new env | None,
        .end(env, sym)"""
        stmts = [s for s in stmts if not (isinstance(s, ast.Expr) and isinstance(s.value, ast.Constant))]
        if not stmts:
            return h.end(env, self)
        s, rest = stmts[0], stmts[1:]
        if isinstance(s, ast.Return):
            return h.ret(s.value, env, self)
        if isinstance(s, ast.Raise):
            return h.raise_(s, env, self)
        new_env = h.other(s, env, self)
        if new_env is not None:
            return self.block(rest, new_env, h)
        if isinstance(s, ast.Assign) and len(s.targets) == 1:
            tgt = s.targets[0]
            if isinstance(tgt, ast.Name):
                pairs = [(tgt.id, s.value)]
            elif isinstance(tgt, ast.Tuple) and isinstance(s.value, ast.Tuple) and len(tgt.elts) == len(s.value.elts) \
                    and all(isinstance(x, ast.Name) for x in tgt.elts):
                pairs = [(x.id, v) for x, v in zip(tgt.elts, s.value.elts)]
            else:
                raise Untranslatable("assignment shape: " + ast.dump(s)[:120])
            vals = [(name, *self.e(v, env)) for name, v in pairs]   # all right-hand sides in the old environment
            env = dict(env)
            lets = []
            for name, term, ty in vals:
                if ty == "none":
                    env[name] = ("None", "none")
                    continue
                v = self.fresh(name)
                lets.append(f"let {v} := {term} in ")
                env[name] = (v, ty)
            return "(" + "".join(lets) + self.block(rest, env, h) + ")"
        if isinstance(s, ast.If):
            c, tc = self.e(s.test, env)
            a = self.block(list(s.body) + rest, env, h) if not _terminates(s.body) else self.block(list(s.body), env, h)
            if s.orelse:
                b = self.block(list(s.orelse) + rest, env, h) if not _terminates(s.orelse) \
                    else self.block(list(s.orelse), env, h)
            else:
                b = self.block(rest, env, h)
            return f"(if {truthy(c, tc)} then {a} else {b})"
        raise Untranslatable("statement " + type(s).__name__ + ": " + ast.dump(s)[:100])


def _terminates(stmts) -> bool:
    if not stmts:
        return False
    last = stmts[-1]
    if isinstance(last, (ast.Return, ast.Raise)):
        return True
    if isinstance(last, ast.If):
        return _terminates(last.body) and bool(last.orelse) and _terminates(last.orelse)
    return False


def _kw(call: ast.Call) -> dict:
    out = {}
    for k in call.keywords:
        if k.arg is None:
            # **{...literal dict...}
            if isinstance(k.value, ast.Dict) and all(isinstance(x, ast.Constant) and isinstance(x.value, str) for x in k.value.keys):
                for kk, vv in zip(k.value.keys, k.value.values):
                    out[kk.value] = vv
            else:
                raise Untranslatable("** argument that is not a literal dict")
        else:
            out[k.arg] = k.value
    return out


def _is_has_connection_collect(s) -> bool:
    """if self._session._has_connection: df.collect()"""
    return (isinstance(s, ast.If) and not s.orelse and dotted(s.test) == "self._session._has_connection"
            and len(s.body) == 1 and isinstance(s.body[0], ast.Expr) and isinstance(s.body[0].value, ast.Call)
            and dotted(s.body[0].value.func) == "df.collect" and not s.body[0].value.args)


def _is_to_table(n, var: str) -> bool:
    return isinstance(n, ast.Call) and dotted(n.func) == "exp.to_table" and len(n.args) == 1 and dotted(n.args[0]) == var


# ---- saveAsTable -----------------------------------------------------------------------------------

class SatHandler:
    def __init__(self, unsupported_params=()):
        self.unsupported_params = set(unsupported_params)

    def ret(self, node, env, sym):
        # return self.insertInto(name)
        if isinstance(node, ast.Call) and dotted(node.func) == "self.insertInto":
            if len(node.args) == 1 and not node.keywords and dotted(node.args[0]) == "name" and env.get("name") == ("name", "tname"):
                return "SatInsert"
            raise Untranslatable("saveAsTable: insertInto called with other arguments")
        # return self.copy(_df=df)
        if isinstance(node, ast.Call) and dotted(node.func) == "self.copy" and not node.args:
            kw = _kw(node)
            if set(kw) == {"_df"} and dotted(kw["_df"]) == "df":
                d = env.get("df")
                if not d or d[1] != "df-create":
                    raise Untranslatable("saveAsTable: returned frame does not carry the Create container")
                if not env.get("#executed"):
                    raise Untranslatable("saveAsTable: the statement is no longer executed (df.collect())")
                return d[0]
        raise Untranslatable("saveAsTable: return " + ast.dump(node)[:100])

    def raise_(self, node, env, sym):
        raise Untranslatable("saveAsTable: raise on a path of the domain")

    def end(self, env, sym):
        raise Untranslatable("saveAsTable: falls off the end")

    def other(self, s, env, sym):
        # if <optional parameter> is not None: raise NotImplementedError(...)      (the parameter left at None is the domain)
        if isinstance(s, ast.If) and not s.orelse and isinstance(s.test, ast.Compare) \
                and dotted(s.test.left) in self.unsupported_params \
                and isinstance(s.test.ops[0], ast.IsNot) and isinstance(s.test.comparators[0], ast.Constant) \
                and s.test.comparators[0].value is None and len(s.body) == 1 and isinstance(s.body[0], ast.Raise) \
                and isinstance(s.body[0].exc, ast.Call) and dotted(s.body[0].exc.func) == "NotImplementedError":
            return env
        if isinstance(s, ast.Assign) and len(s.targets) == 1 and isinstance(s.targets[0], ast.Name):
            t, v = s.targets[0].id, s.value
            # name = normalize_string(name, from_dialect="input", is_table=True)
            if t == "name" and isinstance(v, ast.Call) and dotted(v.func) == "normalize_string" \
                    and len(v.args) == 1 and dotted(v.args[0]) == "name":
                return env
            if t == "output_expression_container":
                if not (isinstance(v, ast.Call) and dotted(v.func) == "exp.Create" and not v.args):
                    raise Untranslatable("saveAsTable: container is not exp.Create(...)")
                kw = _kw(v)
                if set(kw) != {"this", "kind", "exists", "replace"}:
                    raise Untranslatable(f"saveAsTable: exp.Create keywords {sorted(kw)}")
                if not _is_to_table(kw["this"], "name"):
                    raise Untranslatable("saveAsTable: Create target is not exp.to_table(name, ...)")
                if not (isinstance(kw["kind"], ast.Constant) and kw["kind"].value == "TABLE"):
                    raise Untranslatable("saveAsTable: kind is not 'TABLE'")
                ex = truthy(*sym.e(kw["exists"], env))
                rp = truthy(*sym.e(kw["replace"], env))
                env = dict(env)
                env[t] = (f"(SatCreate {ex} {rp})", "create")
                return env
            if t == "df":
                if isinstance(v, ast.Call) and dotted(v.func) == "self._df.copy" and not v.args:
                    kw = _kw(v)
                    if set(kw) == {"output_expression_container"} and dotted(kw["output_expression_container"]) == "output_expression_container" \
                            and env.get("output_expression_container", ("", ""))[1] == "create":
                        env = dict(env)
                        env["df"] = (env["output_expression_container"][0], "df-create")
                        return env
                raise Untranslatable("saveAsTable: df = ... has another shape")
        if _is_has_connection_collect(s):
            if env.get("df", ("", ""))[1] != "df-create":
                raise Untranslatable("saveAsTable: collect() before the container is attached")
            env = dict(env)
            env["#executed"] = True
            return env
        return None


def sat_plan(tree, src):
    f = fmethod(tree, "_BaseDataFrameWriter", "saveAsTable")
    a = f.args
    if a.vararg or a.posonlyargs or a.kwonlyargs:
        raise Untranslatable("saveAsTable: *args / positional-only / keyword-only parameters")
    args = [x.arg for x in a.args]
    if args[:2] != ["self", "name"] or "mode" not in args[2:]:
        raise Untranslatable(f"saveAsTable parameters {args}")
    # every parameter after `name` must default to None; those other than `mode` may only occur as
    # `if <p> is not None: raise NotImplementedError(...)` (PySpark-compatible keywords that are not supported): with the
    # default they cannot change what the call does
    if len(a.defaults) != len(args) - 2 or not all(isinstance(d, ast.Constant) and d.value is None for d in a.defaults):
        raise Untranslatable("saveAsTable: a parameter after `name` does not default to None")
    extra = [p for p in args[2:] if p != "mode"]
    for p in extra:
        uses = [n for n in ast.walk(f) if isinstance(n, ast.Name) and n.id == p]
        guards = [st for st in f.body if isinstance(st, ast.If) and isinstance(st.test, ast.Compare) and dotted(st.test.left) == p]
        if len(uses) != len(guards):
            raise Untranslatable(f"saveAsTable: parameter {p} is used outside its NotImplementedError guard")
    if a.kwarg and any(isinstance(n, ast.Name) and n.id == a.kwarg.arg for n in ast.walk(f)):
        raise Untranslatable("saveAsTable: **options are used")
    sym = Sym(calls={"self._session.catalog.tableExists": (["name"], "table_exists", "bool")})
    env = {"mode": ("arg_mode", "optstr"), "self._mode": ("self_mode", "optstr"), "name": ("name", "tname"),
           "self._session._has_connection": ("true", "bool")}      # the check's domain: a session with a connection
    term = sym.block(f.body, env, SatHandler(extra))
    return term, fhash(f)


# ---- _validate_mode / _write -------------------------------------------------------------------------

class ValidateHandler:
    def ret(self, node, env, sym):
        if isinstance(node, ast.Tuple) and len(node.elts) == 2:
            m, tm = sym.e(node.elts[0], env)
            sk, ts = sym.e(node.elts[1], env)
            if tm == "str" and ts == "bool":
                return f"(VOk {m} {sk})"
        raise Untranslatable("_validate_mode: return value is not (mode: str, skip: bool)")

    def raise_(self, node, env, sym):
        exc = node.exc
        if isinstance(exc, ast.Call) and dotted(exc.func) == "FileExistsError":
            return "VRaiseExists"
        raise Untranslatable("_validate_mode: raises something else than FileExistsError")

    def end(self, env, sym):
        raise Untranslatable("_validate_mode: falls off the end")

    def other(self, s, env, sym):
        return None


def validate_mode(tree, src):
    f = fmethod(tree, "_BaseDataFrameWriter", "_validate_mode")
    args = [a.arg for a in f.args.args]
    if args != ["self", "path", "mode"]:
        raise Untranslatable(f"_validate_mode parameters {args}")
    sym = Sym(path_exists_term="path_exists")
    term = sym.block(f.body, {"mode": ("mode0", "optstr")}, ValidateHandler())
    return term, fhash(f)


class WriteHandler:
    def ret(self, node, env, sym):
        if node is None:
            return "WSkip"
        raise Untranslatable("_write: returns a value")

    def raise_(self, node, env, sym):
        exc = node.exc
        if isinstance(exc, ast.Call) and dotted(exc.func) == "NotImplementedError":
            return "WNotImpl"
        raise Untranslatable("_write: raises something else than NotImplementedError")

    def end(self, env, sym):
        if env.get("#copy"):
            return "WCopy"
        raise Untranslatable("_write: no COPY statement reached")

    def other(self, s, env, sym):
        if isinstance(s, ast.Assign) and len(s.targets) == 1 and isinstance(s.targets[0], ast.Name):
            t, v = s.targets[0].id, s.value
            if t == "options" and isinstance(v, ast.Call) and dotted(v.func) == "to_csv":
                return env
            if t == "expressions" and isinstance(v, ast.Call) and dotted(v.func) == "self._df._get_expressions" \
                    and not v.args and not v.keywords:
                return env
        if isinstance(s, ast.For):
            # the last expression of the frame goes into  COPY (<sql>) TO '<path>' (<options>)
            copies = []
            for n in ast.walk(s):
                if isinstance(n, ast.JoinedStr):
                    consts = [x.value for x in n.values if isinstance(x, ast.Constant)]
                    names = [dotted(x.value) for x in n.values if isinstance(x, ast.FormattedValue)]
                    copies.append((consts, names))
            if copies != [(["COPY (", ") TO '", "' (", ")"], ["sql", "path", "options"])]:
                raise Untranslatable(f"_write: COPY statement text changed: {copies}")
            sqls = [n for n in ast.walk(s) if isinstance(n, ast.Assign) and dotted(n.targets[0]) == "sql"]
            if len(sqls) != 1 or not (isinstance(sqls[0].value, ast.Call)
                                      and dotted(sqls[0].value.func) == "self._df.session._to_sql"
                                      and len(sqls[0].value.args) == 1 and dotted(sqls[0].value.args[0]) == "expression"):
                raise Untranslatable("_write: sql = ... changed")
            colls = [n for n in ast.walk(s) if isinstance(n, ast.Call) and dotted(n.func) == "self._df.session._collect"]
            if len(colls) != 2:
                raise Untranslatable("_write: expected two _collect calls in the loop")
            env = dict(env)
            env["#copy"] = True
            return env
        return None


def after_validate(tree, src):
    f = fmethod(tree, "DuckDBDataFrameWriter", "_write")
    args = [a.arg for a in f.args.args]
    if args != ["self", "path", "mode"] or f.args.kwarg is None:
        raise Untranslatable(f"DuckDB _write parameters {args}")
    body = [s for s in f.body if not (isinstance(s, ast.Expr) and isinstance(s.value, ast.Constant))]
    s0 = body[0]
    ok0 = (isinstance(s0, ast.Assign) and isinstance(s0.targets[0], ast.Tuple)
           and [dotted(x) for x in s0.targets[0].elts] == ["mode", "skip"]
           and isinstance(s0.value, ast.Call) and dotted(s0.value.func) == "self._validate_mode"
           and [dotted(x) for x in s0.value.args] == ["path", "mode"] and not s0.value.keywords)
    if not ok0:
        raise Untranslatable("_write: first statement is not `mode, skip = self._validate_mode(path, mode)`")
    sym = Sym()
    term = sym.block(body[1:], {"mode": ("mode", "str"), "skip": ("skip", "bool")}, WriteHandler())
    return term, fhash(f)


def cleans_new_path_debris(tree) -> bool:
    """does DuckDB's _write remove what a failed COPY left at a path that did not exist before?  Recognised shapes:
    no try around the COPY (False), or exactly
        existed = pathlib.Path(path).exists()
        try: <the COPY>
        except Exception:
            if not existed [and pathlib.Path(path).is_file()]: pathlib.Path(path).unlink()
            raise
    (True).  Anything else around the COPY is not translated."""
    f = fmethod(tree, "DuckDBDataFrameWriter", "_write")
    tries = [n for n in ast.walk(f) if isinstance(n, ast.Try)]
    if not tries:
        return False
    if len(tries) != 1:
        raise Untranslatable("_write: more than one try")
    t = tries[0]

    def is_path(n, attr):
        return (isinstance(n, ast.Call) and not n.args and isinstance(n.func, ast.Attribute) and n.func.attr == attr
                and isinstance(n.func.value, ast.Call) and dotted(n.func.value.func) in ("pathlib.Path", "Path")
                and [dotted(a) for a in n.func.value.args] == ["path"])
    ok_body = (len(t.body) == 1 and isinstance(t.body[0], ast.Expr) and isinstance(t.body[0].value, ast.Call)
               and dotted(t.body[0].value.func) == "self._df.session._collect"
               and len(t.body[0].value.args) == 1 and isinstance(t.body[0].value.args[0], ast.JoinedStr))
    if not ok_body or t.orelse or t.finalbody or len(t.handlers) != 1:
        raise Untranslatable("_write: try around the COPY has another shape")
    h = t.handlers[0]
    if dotted(h.type) not in ("Exception", "BaseException") or len(h.body) != 2:
        raise Untranslatable("_write: except clause has another shape")
    guard, rer = h.body
    if not (isinstance(rer, ast.Raise) and rer.exc is None):
        raise Untranslatable("_write: the exception is not re-raised")
    test = guard.test if isinstance(guard, ast.If) else None
    conj = test.values if isinstance(test, ast.BoolOp) and isinstance(test.op, ast.And) else [test]
    ok_guard = (isinstance(guard, ast.If) and not guard.orelse and len(guard.body) == 1
                and isinstance(conj[0], ast.UnaryOp) and isinstance(conj[0].op, ast.Not) and dotted(conj[0].operand) == "existed"
                and all(is_path(c, "is_file") or is_path(c, "exists") for c in conj[1:])
                and isinstance(guard.body[0], ast.Expr) and is_path(guard.body[0].value, "unlink"))
    if not ok_guard:
        raise Untranslatable("_write: cleanup is not `if not existed: Path(path).unlink()`")
    assigns = [n for n in ast.walk(f) if isinstance(n, ast.Assign) and any(dotted(x) == "existed" for x in n.targets)]
    if len(assigns) != 1 or not is_path(assigns[0].value, "exists"):
        raise Untranslatable("_write: `existed` is not pathlib.Path(path).exists() taken once")
    # ... and it is taken before the COPY, in the same block as the try
    for n in ast.walk(f):
        for fld in ("body", "orelse"):
            blk = getattr(n, fld, None)
            if isinstance(blk, list) and t in blk:
                if assigns[0] in blk and blk.index(assigns[0]) < blk.index(t):
                    return True
    raise Untranslatable("_write: `existed` is not taken right before the COPY")


# ---- csv / json / parquet: which mode reaches _write -----------------------------------------------------

def path_mode(tree, src):
    out, hashes = {}, {}
    for m in ("csv", "json", "parquet"):
        f = fmethod(tree, "_BaseDataFrameWriter", m)
        params = [a.arg for a in f.args.args]
        if params[:3] != ["self", "path", "mode"]:
            raise Untranslatable(f"{m}: parameters {params[:3]}")
        calls = [n for n in ast.walk(f) if isinstance(n, ast.Call) and dotted(n.func) == "self._write"]
        if len(calls) != 1 or calls[0].args:
            raise Untranslatable(f"{m}: expected one self._write(keyword...) call")
        body = [s for s in f.body if not (isinstance(s, ast.Expr) and isinstance(s.value, ast.Constant))]
        if len(body) != 1 or not (isinstance(body[0], ast.Expr) and body[0].value is calls[0]):
            raise Untranslatable(f"{m}: body is more than the _write call")
        kw = _kw(calls[0])
        if dotted(kw.get("path")) != "path":
            raise Untranslatable(f"{m}: path= is not the path argument")
        if not (isinstance(kw.get("format"), ast.Constant) and kw["format"].value == m):
            raise Untranslatable(f"{m}: format= is not '{m}'")
        if "mode" not in kw:
            raise Untranslatable(f"{m}: no mode= handed to _write")
        sym = Sym()
        term, ty = sym.e(kw["mode"], {"mode": ("arg_mode", "optstr"), "self._mode": ("self_mode", "optstr")})
        if ty == "none":
            term, ty = "None", "optstr"
        if ty != "optstr":
            raise Untranslatable(f"{m}: mode= expression has type {ty}")
        out[m] = term
        hashes[m] = fhash(f)
    return out, hashes


# ---- shape facts -----------------------------------------------------------------------------------------

FIELDS = {"mode": "_mode", "by_name": "_by_name", "state_format_to_write": "_state_format_to_write"}   # ctor param -> attribute
COPY_TEXT = ("self.__class__(**{k[1:] if k.startswith('_') else k: v for k, v in object_to_dict(self, **kwargs).items()})")


def builder_facts(tree):
    """what mode(), byName and format() do to the writer's flags (mode, by_name, format), as Coq functions on wflags.
    Recognised bodies: `return self.copy(<kw>=e, ...)` (copy() keeps every attribute and overrides the named ones),
    `return self.__class__(<args>)` / `type(self)(<args>)` (only what is passed survives, the rest gets the constructor's
    defaults), `self._<field> = e; ...; return self`.  Values: the method's own parameter, a literal, or self._<field>."""
    init = fmethod(tree, "_BaseDataFrameWriter", "__init__")
    params = [a.arg for a in init.args.args]
    if params != ["self", "df", "mode", "by_name", "state_format_to_write"]:
        raise Untranslatable(f"writer __init__ parameters {params}")
    defaults = [ast.unparse(d) for d in init.args.defaults]
    if defaults != ["None", "False", "None"]:
        raise Untranslatable(f"writer __init__ defaults {defaults}")
    assigned = {dotted(st.targets[0]): dotted(st.value) for st in init.body if isinstance(st, ast.Assign)}
    want = {"self._df": "df", **{f"self.{a}": pname for pname, a in FIELDS.items()}}
    if assigned != want:
        raise Untranslatable(f"writer __init__ assignments {assigned}")
    cp = fmethod(tree, "_BaseDataFrameWriter", "copy")
    if not (len(cp.body) == 1 and isinstance(cp.body[0], ast.Return) and ast.unparse(cp.body[0].value) == COPY_TEXT
            and cp.args.kwarg and cp.args.kwarg.arg == "kwargs" and [a.arg for a in cp.args.args] == ["self"]):
        raise Untranslatable("writer copy(): no longer rebuilds the writer from all its attributes + overrides")
    CUR = {"mode": "(w_mode w)", "by_name": "(w_by_name w)", "state_format_to_write": "(w_format w)"}
    DEF = {"mode": "None", "by_name": "false", "state_format_to_write": "None"}

    def value(n, field, param, param_is_str):
        if param and dotted(n) == param:
            return "(Some arg)" if param_is_str and field != "by_name" else "arg"
        if isinstance(n, ast.Constant):
            v = n.value
            if field == "by_name" and isinstance(v, bool):
                return "true" if v else "false"
            if field != "by_name" and v is None:
                return "None"
            if field != "by_name" and isinstance(v, str):
                return f"(Some {strlit(v)})"
            raise Untranslatable(f"builder: literal {v!r} for {field}")
        d = dotted(n)
        for pname, attr in FIELDS.items():
            if d == f"self.{attr}":
                if pname != field:
                    raise Untranslatable(f"builder: {field} set from {d}")
                return CUR[field]
        raise Untranslatable(f"builder: value {ast.unparse(n)} for {field}")

    def flags_of(name, param_is_str):
        f = fmethod(tree, "_BaseDataFrameWriter", name)
        ps = [a.arg for a in f.args.args]
        if len(ps) > 2 or f.args.vararg or f.args.kwarg or f.args.kwonlyargs:
            raise Untranslatable(f"{name}(): parameters {ps}")
        param = ps[1] if len(ps) == 2 else None
        body = list(f.body)
        if not body or not isinstance(body[-1], ast.Return):
            raise Untranslatable(f"{name}(): does not end in return")
        ret = body[-1].value
        out = dict(CUR)
        if dotted(ret) == "self":
            for st in body[:-1]:
                tgt = dotted(st.targets[0]) if isinstance(st, ast.Assign) and len(st.targets) == 1 else None
                fld = next((p for p, a in FIELDS.items() if tgt == f"self.{a}"), None)
                if fld is None:
                    raise Untranslatable(f"{name}(): statement {ast.unparse(st)[:60]}")
                out[fld] = value(st.value, fld, param, param_is_str)
            return out, py2v.norm_hash(f, rename_locals=False)
        if len(body) != 1 or not isinstance(ret, ast.Call):
            raise Untranslatable(f"{name}(): body shape")
        callee = dotted(ret.func)
        is_ctor = callee == "self.__class__" or (isinstance(ret.func, ast.Call) and dotted(ret.func.func) == "type"
                                                 and [dotted(a) for a in ret.func.args] == ["self"])
        if callee == "self.copy":
            if ret.args:
                raise Untranslatable(f"{name}(): positional arguments to copy()")
            for k, v in _kw(ret).items():
                key = k[1:] if k.startswith("_") else k
                if key == "df" and dotted(v) == "self._df":
                    continue
                if key not in FIELDS:
                    raise Untranslatable(f"{name}(): copy({k}=...)")
                out[key] = value(v, key, param, param_is_str)
            return out, py2v.norm_hash(f, rename_locals=False)
        if is_ctor:
            out = dict(DEF)
            names = ["df", "mode", "by_name", "state_format_to_write"]
            given = dict(zip(names, ret.args))
            for k, v in _kw(ret).items():
                if k in given or k not in names:
                    raise Untranslatable(f"{name}(): constructor argument {k}")
                given[k] = v
            dfv = given.pop("df", None)
            if dfv is None or not (dotted(dfv) == "self._df" or (isinstance(dfv, ast.Call) and dotted(dfv.func) == "self._df.copy"
                                                                  and not dfv.args and not dfv.keywords)):
                raise Untranslatable(f"{name}(): the new writer does not carry the same frame")
            for k, v in given.items():
                out[k] = value(v, k, param, param_is_str)
            return out, py2v.norm_hash(f, rename_locals=False)
        raise Untranslatable(f"{name}(): returns {ast.unparse(ret)[:60]}")

    res = {}
    for name, is_str in (("mode", False), ("byName", False), ("format", True)):
        res[name] = flags_of(name, is_str)
    def mk(o):
        return f"mkW {o['mode']} {o['by_name']} {o['state_format_to_write']}"
    text = [f"Definition b_mode (w : wflags) (arg : option string) : wflags := {mk(res['mode'][0])}.",
            f"Definition b_byname (w : wflags) : wflags := {mk(res['byName'][0])}.",
            f"Definition b_format (w : wflags) (arg : string) : wflags := {mk(res['format'][0])}.",
            "Definition gen_bcfg : bcfg := mkB b_mode b_byname b_format."]
    facts = [{"name": f"builder:{n}", "from": f"base/readerwriter.py: _BaseDataFrameWriter.{n} (+ copy, __init__)", "hash": h,
              "value": o} for n, (o, h) in res.items()]
    return text, facts


def insert_into(tree, src):
    f = fmethod(tree, "_BaseDataFrameWriter", "insertInto")
    body = [s for s in f.body if not isinstance(s, (ast.ImportFrom, ast.Import))
            and not (isinstance(s, ast.Expr) and isinstance(s.value, ast.Constant))]
    if len(body) != 6:
        raise Untranslatable(f"insertInto: expected 6 statements, found {len(body)}")
    s0, s1, s2, s3, s4, s5 = body
    ok0 = (isinstance(s0, ast.Assign) and dotted(s0.targets[0]) == "tableName" and isinstance(s0.value, ast.Call)
           and dotted(s0.value.func) == "normalize_string" and dotted(s0.value.args[0]) == "tableName")
    if not ok0:
        raise Untranslatable("insertInto: table name normalisation changed")
    if not (isinstance(s1, ast.Assign) and dotted(s1.targets[0]) == "output_expression_container"
            and isinstance(s1.value, ast.Call) and dotted(s1.value.func) == "exp.Insert" and not s1.value.args):
        raise Untranslatable("insertInto: container is not exp.Insert(...)")
    kw = _kw(s1.value)
    if set(kw) != {"this", "overwrite"} or not _is_to_table(kw["this"], "tableName") or dotted(kw["overwrite"]) != "overwrite":
        raise Untranslatable("insertInto: exp.Insert arguments changed")
    if not (isinstance(s2, ast.Assign) and dotted(s2.targets[0]) == "df" and isinstance(s2.value, ast.Call)
            and dotted(s2.value.func) == "self._df.copy"
            and dotted(_kw(s2.value).get("output_expression_container")) == "output_expression_container"):
        raise Untranslatable("insertInto: df = self._df.copy(output_expression_container=...) changed")
    # if self._by_name: columns = <source>(tableName, ...); df = df._convert_leaf_to_cte().select(*columns)
    if not (isinstance(s3, ast.If) and dotted(s3.test) == "self._by_name" and not s3.orelse and len(s3.body) == 2):
        raise Untranslatable("insertInto: byName branch changed")
    c0, c1 = s3.body

    def columns_source(st):
        """`columns = <call or comprehension over call>(tableName ...)` -> dotted name of the call that yields the names"""
        if not (isinstance(st, ast.Assign) and dotted(st.targets[0]) == "columns"):
            raise Untranslatable("insertInto: columns = ... changed")
        v = st.value
        if isinstance(v, ast.ListComp) and len(v.generators) == 1 and not v.generators[0].ifs:
            # [normalize_string(name, ...) for name in <call>(tableName)]
            g = v.generators[0]
            if not (isinstance(v.elt, ast.Call) and dotted(v.elt.func) == "normalize_string"
                    and len(v.elt.args) == 1 and dotted(v.elt.args[0]) == dotted(g.target)):
                raise Untranslatable("insertInto: byName column comprehension changed")
            v = g.iter
        if not (isinstance(v, ast.Call) and v.args and dotted(v.args[0]) == "tableName"):
            raise Untranslatable("insertInto: columns = ... changed")
        return dotted(v.func)

    CACHE = "self._session.catalog._schema.column_names"
    ENGINE = ("self._session.catalog.get_columns", "self._session.catalog.listColumns")
    if isinstance(c0, ast.Try):
        # try: columns = <engine lookup>   except NotImplementedError: columns = <declared columns>   (no catalog to ask)
        ok_try = (len(c0.body) == 1 and len(c0.handlers) == 1 and not c0.orelse and not c0.finalbody
                  and dotted(c0.handlers[0].type) == "NotImplementedError" and len(c0.handlers[0].body) == 1)
        if not ok_try:
            raise Untranslatable("insertInto: byName try/except changed")
        first, fallback = columns_source(c0.body[0]), columns_source(c0.handlers[0].body[0])
        if first in ENGINE and fallback == CACHE:
            source = "ByEngine"        # on a session with a connection (the check's domain) the engine answers
        else:
            raise Untranslatable(f"insertInto: byName columns come from {first} / {fallback}")
    else:
        srcname = columns_source(c0)
        if srcname == CACHE:
            source = "ByCache"
        elif srcname in ENGINE:
            source = "ByEngine"
        else:
            raise Untranslatable(f"insertInto: byName columns come from {srcname}")
    oksel = (isinstance(c1, ast.Assign) and dotted(c1.targets[0]) == "df" and isinstance(c1.value, ast.Call)
             and isinstance(c1.value.func, ast.Attribute) and c1.value.func.attr == "select"
             and isinstance(c1.value.func.value, ast.Call) and dotted(c1.value.func.value.func) == "df._convert_leaf_to_cte"
             and len(c1.value.args) == 1 and isinstance(c1.value.args[0], ast.Starred)
             and dotted(c1.value.args[0].value) == "columns")
    if not oksel:
        raise Untranslatable("insertInto: df = df._convert_leaf_to_cte().select(*columns) changed")
    if not _is_has_connection_collect(s4):
        raise Untranslatable("insertInto: statement is no longer executed (df.collect())")
    if not (isinstance(s5, ast.Return) and isinstance(s5.value, ast.Call) and dotted(s5.value.func) == "self.copy"
            and dotted(_kw(s5.value).get("_df")) == "df"):
        raise Untranslatable("insertInto: return changed")
    return source, fhash(f)


def add_table_policy(tree, src):
    f = fmethod(tree, "_BaseCatalog", "add_table")
    body = [s for s in f.body if not (isinstance(s, ast.Expr) and isinstance(s.value, ast.Constant))]
    if not (isinstance(body[0], ast.Assign) and dotted(body[0].targets[0]) == "table"
            and isinstance(body[0].value, ast.Call) and dotted(body[0].value.func) == "self.ensure_table"):
        raise Untranslatable("add_table: first statement changed")
    last = body[-1]
    if not (isinstance(last, ast.Expr) and isinstance(last.value, ast.Call)
            and dotted(last.value.func) == "self._schema.add_table"):
        raise Untranslatable("add_table: does not end in self._schema.add_table(...)")
    early = [s for s in body[1:-1] if isinstance(s, ast.If) and any(isinstance(x, ast.Return) for x in s.body)]
    if len(early) == 1 and early[0] is body[1] and isinstance(early[0].test, ast.Call) \
            and dotted(early[0].test.func) == "self._schema.find" and dotted(early[0].test.args[0]) == "table" \
            and len(early[0].body) == 1 and early[0].body[0].value is None and not early[0].orelse:
        keep = True                    # add-if-absent: `if self._schema.find(table): return`
    elif not early:
        # update-or-add: every `return` sits inside `if column_mapping is None:` and only gives up when the engine cannot
        # be asked (except NotImplementedError) or knows no column of the table (`existing and not column_mapping`)
        rets = [n for st in body for n in ast.walk(st) if isinstance(n, ast.Return)]
        lookups = [st for st in body if isinstance(st, ast.If) and isinstance(st.test, ast.Compare)
                   and dotted(st.test.left) == "column_mapping" and isinstance(st.test.ops[0], ast.Is)]
        if len(lookups) != 1:
            raise Untranslatable("add_table: `if column_mapping is None:` block not found")
        inside = [n for n in ast.walk(lookups[0]) if isinstance(n, ast.Return)]
        if len(inside) != len(rets):
            raise Untranslatable("add_table: a return outside the engine-lookup block")
        allowed = 0
        for n in ast.walk(lookups[0]):
            if isinstance(n, ast.ExceptHandler) and dotted(n.type) == "NotImplementedError":
                allowed += sum(1 for x in ast.walk(n) if isinstance(x, ast.Return))
            if isinstance(n, ast.If) and isinstance(n.test, ast.BoolOp) and isinstance(n.test.op, ast.And) \
                    and [ast.unparse(v) for v in n.test.values] == ["existing", "not column_mapping"]:
                allowed += sum(1 for x in n.body if isinstance(x, ast.Return))
        if allowed != len(rets):
            raise Untranslatable("add_table: early-return logic changed")
        keep = False
    else:
        raise Untranslatable("add_table: early-return logic changed")
    # the columns of a new entry come from the engine
    if not any(isinstance(n, ast.Call) and dotted(n.func) == "self.get_columns" for n in ast.walk(f)):
        raise Untranslatable("add_table: columns no longer fetched with self.get_columns(table)")
    return keep, fhash(f)


def reader_table(tree, src):
    f = fmethod(tree, "_BaseDataFrameReader", "table")
    calls = [dotted(n.func) for n in ast.walk(f) if isinstance(n, ast.Call)]
    need = ["self.session.catalog.add_table", "self.session.catalog.get_columns_from_schema", "self.session._create_table"]
    for c in need:
        if calls.count(c) != 1:
            raise Untranslatable(f"reader.table: call {c} not found exactly once")
    cols = [s for s in f.body if isinstance(s, ast.Assign) and dotted(s.targets[0]) == "columns"]
    if len(cols) != 1 or dotted(cols[0].value.func) != "self.session.catalog.get_columns_from_schema":
        raise Untranslatable("reader.table: columns = catalog.get_columns_from_schema(table) changed")
    sel = [n for n in ast.walk(f) if isinstance(n, ast.Call) and isinstance(n.func, ast.Attribute) and n.func.attr == "select"
           and n.args and isinstance(n.args[0], ast.Starred) and dotted(n.args[0].value) == "columns"]
    if len(sel) != 1:
        raise Untranslatable("reader.table: SELECT of the cached columns changed")
    return fhash(f)


def get_expressions_containers(tree, src):
    f = fmethod(tree, "BaseDataFrame", "_get_expressions")
    found = {"Create": False, "Insert": False}
    for n in ast.walk(f):
        if isinstance(n, ast.If) and isinstance(n.test, ast.Compare) and dotted(n.test.left) == "expression_type" \
                and dotted(n.test.comparators[0]) in ("exp.Create", "exp.Insert"):
            kind = dotted(n.test.comparators[0]).split(".")[1]
            sets = [c for c in ast.walk(ast.Module(body=n.body, type_ignores=[]))
                    if isinstance(c, ast.Call) and dotted(c.func) == "expression.set"
                    and isinstance(c.args[0], ast.Constant) and c.args[0].value == "expression"]
            copies = [c for c in ast.walk(ast.Module(body=n.body, type_ignores=[]))
                      if isinstance(c, ast.Call) and dotted(c.func) == "df.output_expression_container.copy"]
            if len(sets) == 1 and len(copies) == 1:
                found[kind] = True
    if not all(found.values()):
        raise Untranslatable(f"_get_expressions: container branches changed: {found}")
    return fhash(f)


def generate(repo: str):
    rw_tree, rw_src = py2v.load(os.path.join(repo, "sqlframe/base/readerwriter.py"))
    dk_tree, dk_src = py2v.load(os.path.join(repo, "sqlframe/duckdb/readwriter.py"))
    cat_tree, cat_src = py2v.load(os.path.join(repo, "sqlframe/base/catalog.py"))
    df_tree, df_src = py2v.load(os.path.join(repo, "sqlframe/base/dataframe.py"))
    sat, sat_h = sat_plan(rw_tree, rw_src)
    val, val_h = validate_mode(rw_tree, rw_src)
    aft, aft_h = after_validate(dk_tree, dk_src)
    cleans = cleans_new_path_debris(dk_tree)
    pm, pm_h = path_mode(rw_tree, rw_src)
    b_text, b_facts = builder_facts(rw_tree)
    byname, ins_h = insert_into(rw_tree, rw_src)
    keep, add_h = add_table_policy(cat_tree, cat_src)
    tab_h = reader_table(rw_tree, rw_src)
    ge_h = get_expressions_containers(df_tree, df_src)
    L = ["(* GENERATED from /repo on every run by translate/c14_facts.py -- do not edit *)",
         "From SF Require Import Base.Val C14.Writer C14.Builder.",
         "Open Scope string_scope.",
         f"Definition sat_plan (table_exists : bool) (arg_mode self_mode : option string) : sat_action :=\n  {sat}.",
         f"Definition validate_mode (path_exists : bool) (mode0 : option string) : vres :=\n  {val}.",
         f"Definition after_validate (mode : string) (skip : bool) : wact :=\n  {aft}.",
         "Definition path_mode (f : fmt) (arg_mode self_mode : option string) : option string :=\n"
         f"  match f with FCsv => {pm['csv']} | FJson => {pm['json']} | FParquet => {pm['parquet']} end.",
         f"Definition add_if_absent : bool := {'true' if keep else 'false'}.",
         f"Definition byname_source : byname_src := {byname}.",
         f"Definition cleans_new_path_debris : bool := {'true' if cleans else 'false'}.",
         "Definition gen_cfg : cfg := mkCfg sat_plan validate_mode after_validate path_mode add_if_absent byname_source "
         "cleans_new_path_debris."] + b_text
    facts = [
        {"name": "sat_plan", "from": "base/readerwriter.py: _BaseDataFrameWriter.saveAsTable", "hash": sat_h, "text": sat},
        {"name": "validate_mode", "from": "base/readerwriter.py: _BaseDataFrameWriter._validate_mode", "hash": val_h, "text": val},
        {"name": "after_validate", "from": "duckdb/readwriter.py: DuckDBDataFrameWriter._write", "hash": aft_h, "text": aft},
        {"name": "cleans_new_path_debris", "from": "duckdb/readwriter.py: DuckDBDataFrameWriter._write (try/except around COPY)", "hash": aft_h, "value": cleans},
        {"name": "path_mode", "from": "base/readerwriter.py: csv/json/parquet -> self._write(mode=...)", "hash": pm_h, "value": pm},
        {"name": "byname_source", "from": "base/readerwriter.py: insertInto (+ Insert container, executed)", "hash": ins_h, "value": byname},
        {"name": "add_if_absent", "from": "base/catalog.py: _BaseCatalog.add_table", "hash": add_h, "value": keep},
        {"name": "reader_table_selects_cached_columns", "from": "base/readerwriter.py: _BaseDataFrameReader.table", "hash": tab_h, "value": True},
        {"name": "containers_receive_select", "from": "base/dataframe.py: _get_expressions Create/Insert", "hash": ge_h, "value": True},
    ]
    return "\n".join(L) + "\n", facts + b_facts


if __name__ == "__main__":
    import sys
    t, _ = generate(sys.argv[1] if len(sys.argv) > 1 else "/repo")
    print(t)
