(* GENERATED from /repo on every run by translate/c06_facts.py -- do not edit *)
From SF Require Import C06.AggCheck.
From Gen Require Import C01Facts.
Definition agg_select_append : bool := false.
Definition agg_select_keys_first : bool := true.
Definition group_uses_unaliased : bool := true.
Definition sets_use_unaliased : bool := true.
Definition dict_key_is_col : bool := true.
Definition short_lit (m : shortfn) : string := match m with ShAvg => "avg"%string | ShMean => "avg"%string | ShMax => "max"%string | ShMin => "min"%string | ShSum => "sum"%string end.
Definition canon_fn (func_name : string) : string := (if String.eqb func_name "mean"%string then "avg"%string else func_name).
Definition name_fmt (func_name name : string) : string := (sapp func_name (sapp "("%string (sapp (if String.eqb name "*"%string then "1"%string else name) (sapp ")"%string ""%string)))).
Definition cube_having : bool := true.
Definition gid_guard (is_gid old_empty : bool) : bool := is_gid.
Definition fmt_lowers_fn : bool := true.
Definition through_sanitize : bool := true.
Definition sanitize_on_duckdb : bool := false.
Definition fn_class (fn : string) : option string := if String.eqb fn "count"%string then Some "Count"%string else if String.eqb fn "sum"%string then Some "Sum"%string else if String.eqb fn "avg"%string then Some "Avg"%string else if String.eqb fn "mean"%string then Some "Avg"%string else if String.eqb fn "min"%string then Some "Min"%string else if String.eqb fn "max"%string then Some "Max"%string else if String.eqb fn "count_distinct"%string then Some "CountDistinct"%string else None.
Definition count_star : bool := true.
Definition count_arg : string := "*"%string.
Definition count_alias : string := "count"%string.
Definition dfagg_is_groupby_agg : bool := true.
Definition cube_idx (n : nat) : list nat := (rev (seq 0 (n + 1%nat)%nat)).
Definition k_groupBy_gen : option opk := (Some GROUP_BY).
Definition k_cube_gen : option opk := None.
Definition k_dfagg_gen : option opk := (Some SELECT).
Definition gen_gcfg : gcfg := mkGcfg wrap_needed_group init_wraps_group group_agg_kind k_groupBy_gen k_cube_gen k_dfagg_gen agg_select_append cube_having (gid_guard true false).
Definition gen_ncfg : ncfg := mkNcfg short_lit canon_fn name_fmt through_sanitize sanitize_on_duckdb fn_class count_star count_alias dict_key_is_col.
Definition group_cfg : cfg := mkCfg wrap_needed_group kind_of init_wraps_group order_append limit_merge.
