"""T1 for C01/C06/C07/C11/...: regenerate the clause-ordering facts from /repo (fail-closed).

Reads sqlframe/base/operations.py (Operation enum, both wrappers) and dataframe.py (decorator of
every public method, append= flag of orderBy, how orderBy turns a sort column and its `ascending` flag into an ORDER BY
term (direction, NULL placement), the merge expression of limit, select's append default), column.py (the flags of
Column.asc/desc/...) and emits Gen/C01Facts.v.
"""
from __future__ import annotations

import ast
import os
import re

from vlib import py2v
from vlib.py2v import Untranslatable, dotted

OPK = ["INIT", "NO_OP", "FROM", "WHERE", "GROUP_BY", "HAVING", "SELECT", "ORDER_BY", "LIMIT"]


def enum_values(tree):
    cls = py2v.find_class(tree, "Operation")
    vals = {}
    for st in cls.body:
        if isinstance(st, ast.Assign) and len(st.targets) == 1 and isinstance(st.targets[0], ast.Name):
            vals[st.targets[0].id] = py2v.const_eval(st.value, {})
    if sorted(vals) != sorted(OPK):
        raise Untranslatable(f"Operation members changed: {sorted(vals)}")
    return vals


def _is_convert(call, recv: str) -> bool:
    """<recv>._convert_leaf_to_cte()"""
    return (isinstance(call, ast.Call) and not call.args and not call.keywords
            and dotted(call.func) == recv + "._convert_leaf_to_cte")


def wrapper_facts(tree, src, deco_name: str, recv: str):
    """recv is 'self' (operation) or 'self._df' (group_operation).  Returns dict of Coq texts."""
    deco = py2v.find_func(tree, deco_name)
    wrapper = py2v.find_func(deco, "wrapper")
    body = [s for s in wrapper.body if not (isinstance(s, ast.Expr) and isinstance(s.value, ast.Constant))]
    if len(body) != 7:
        raise Untranslatable(f"{deco_name}.wrapper: expected 7 statements, found {len(body)}")
    s0, s1, s2, s3, s4, s5, s6 = body
    tr = py2v.Tr(
        types={"last_op": "opk", "new_op": "opk", "op": "opk"},
        env={**{f"Operation.{k}": (k, "opk") for k in OPK},
             f"{recv}.last_op": ("last_op", "opk"),
             "eq:opk": ("opk_eqb", "fn"), "lt:opk": ("opk_ltb", "fn"), "le:opk": ("opk_leb", "fn"),
             "gt:opk": ("opk_gtb", "fn"), "ge:opk": ("opk_geb", "fn")},
        calls={}, helpers=py2v.module_helpers(tree))
    # s0: if <recv>.last_op == Operation.INIT: <recv> = <recv>._convert_leaf_to_cte(); <recv>.last_op = Operation.NO_OP
    if not isinstance(s0, ast.If) or s0.orelse:
        raise Untranslatable(f"{deco_name}: first statement is not the INIT `if`")
    t0, _ = tr.e(s0.test)
    if t0 != "(opk_eqb last_op INIT)":
        raise Untranslatable(f"{deco_name}: INIT test reads {t0}")
    init_wraps = False
    init_sets_noop = False
    for st in s0.body:
        if isinstance(st, ast.Assign) and dotted(st.targets[0]) == recv and _is_convert(st.value, recv):
            init_wraps = True
        elif isinstance(st, ast.Assign) and dotted(st.targets[0]) == recv + ".last_op" \
                and dotted(st.value) == "Operation.NO_OP":
            init_sets_noop = True
        else:
            raise Untranslatable(f"{deco_name}: unexpected statement in INIT branch")
    if not init_sets_noop:
        raise Untranslatable(f"{deco_name}: INIT branch no longer sets last_op = NO_OP")
    # s1: last_op = <recv>.last_op
    if not (isinstance(s1, ast.Assign) and dotted(s1.targets[0]) == "last_op"
            and dotted(s1.value) == recv + ".last_op"):
        raise Untranslatable(f"{deco_name}: `last_op = {recv}.last_op` not found")
    # s2: new_op = <expr over op,last_op>
    if not (isinstance(s2, ast.Assign) and dotted(s2.targets[0]) == "new_op"):
        raise Untranslatable(f"{deco_name}: `new_op = ...` not found")
    new_kind, tnk = tr.e(s2.value)
    if tnk != "opk":
        raise Untranslatable("new_op is not an Operation")
    # s3: if <test>: <recv> = <recv>._convert_leaf_to_cte()
    if not (isinstance(s3, ast.If) and not s3.orelse and len(s3.body) == 1
            and isinstance(s3.body[0], ast.Assign) and dotted(s3.body[0].targets[0]) == recv
            and _is_convert(s3.body[0].value, recv)):
        raise Untranslatable(f"{deco_name}: wrap statement has another shape")
    test, tt = tr.e(s3.test)
    if tt != "bool":
        raise Untranslatable("wrap test is not boolean")
    # s4: df = func(self, *args, **kwargs); s5: df.last_op = new_op; s6: return df
    ok4 = isinstance(s4, ast.Assign) and dotted(s4.targets[0]) == "df" and isinstance(s4.value, ast.Call) \
        and dotted(s4.value.func) == "func"
    ok5 = isinstance(s5, ast.Assign) and dotted(s5.targets[0]) == "df.last_op" and dotted(s5.value) == "new_op"
    ok6 = isinstance(s6, ast.Return) and dotted(s6.value) == "df"
    if not (ok4 and ok5 and ok6):
        raise Untranslatable(f"{deco_name}: tail (call / set last_op / return) has another shape")
    return {"init_wraps": init_wraps, "new_kind": new_kind, "test": test,
            "hash": py2v.src_hash(wrapper, src)}


def method_decorators(tree, cls_name: str, deco: str) -> dict:
    """method name -> Operation member given to @operation(...) (None when undecorated)."""
    cls = py2v.find_class(tree, cls_name)
    out = {}
    for st in cls.body:
        if not isinstance(st, ast.FunctionDef):
            continue
        kind = None
        for d in st.decorator_list:
            if isinstance(d, ast.Call) and dotted(d.func) == deco and len(d.args) == 1:
                k = dotted(d.args[0])
                if not k or not k.startswith("Operation.") or k.split(".")[1] not in OPK:
                    raise Untranslatable(f"decorator argument of {st.name}: {k}")
                kind = k.split(".")[1]
        if st.name in out and kind is None:
            continue  # overload stubs
        out[st.name] = kind
    return out


def order_append(tree):
    f = py2v.find_method(tree, "BaseDataFrame", "orderBy")
    calls = [n for n in ast.walk(f) if isinstance(n, ast.Call) and isinstance(n.func, ast.Attribute)
             and n.func.attr == "order_by"]
    if len(calls) != 1:
        raise Untranslatable(f"orderBy: expected one .order_by(...) call, found {len(calls)}")
    for kw in calls[0].keywords:
        if kw.arg == "append":
            if isinstance(kw.value, ast.Constant) and isinstance(kw.value.value, bool):
                return kw.value.value
            raise Untranslatable("orderBy: append= is not a literal")
    return True  # sqlglot's default


class _NoneAsFalse(ast.NodeTransformer):
    """a flag argument of a sqlglot node that is None (or missing) reads as False: `E or None`, `None if asc else True`"""
    def visit_Constant(self, n):
        return ast.copy_location(ast.Constant(value=False), n) if n.value is None else n


def _strip_or_none(n):
    import copy
    return ast.fix_missing_locations(_NoneAsFalse().visit(copy.deepcopy(n)))


def order_key_facts(tree, src):
    """How orderBy turns a sort column that is not already an Ordered node, and the flag it was given through
    `ascending`, into an ORDER BY term: (desc as a function of the flag, nulls_first as a function of the flag, default of
    `ascending`).  The one call that builds the term is looked up anywhere in the method (comprehension or loop); local
    names that are assigned exactly once are read through.  Two shapes of that call are read, anything else fails closed:
      P  sqlglot.parse_one(f"{<col>.expression.sql(...)} {<'DESC' or ''>}", dialect=<the session's input dialect>, into=exp.Ordered)
         -- the text is parsed with the session's input dialect (Spark), which supplies Spark's default NULL placement
      D  exp.Ordered(this=..., desc=<E1>, nulls_first=<E2>)   -- the flags are written out"""
    f = py2v.find_method(tree, "BaseDataFrame", "orderBy")
    # ascending default: `if ascending is None: ascending = [<const>] * len(columns)`
    default = None
    for st in ast.walk(f):
        if isinstance(st, ast.If) and isinstance(st.test, ast.Compare) and dotted(st.test.left) == "ascending" \
                and len(st.test.ops) == 1 and isinstance(st.test.ops[0], ast.Is) \
                and isinstance(st.test.comparators[0], ast.Constant) and st.test.comparators[0].value is None:
            a = st.body[0] if len(st.body) == 1 else None
            if isinstance(a, ast.Assign) and dotted(a.targets[0]) == "ascending" and isinstance(a.value, ast.BinOp) \
                    and isinstance(a.value.op, ast.Mult) and isinstance(a.value.left, ast.List) \
                    and len(a.value.left.elts) == 1 and isinstance(a.value.left.elts[0], ast.Constant) \
                    and isinstance(a.value.left.elts[0].value, bool):
                default = a.value.left.elts[0].value
    if default is None:
        raise Untranslatable("orderBy: default of `ascending` (`if ascending is None: ascending = [<bool>] * len(columns)`) not found")
    # names assigned exactly once by a plain `name = expr` / `name: T = expr` (read through), and loop / comprehension variables
    assigned, count, loopvars = {}, {}, {}
    for n in ast.walk(f):
        tgt = val = None
        if isinstance(n, ast.Assign) and len(n.targets) == 1 and isinstance(n.targets[0], ast.Name):
            tgt, val = n.targets[0].id, n.value
        elif isinstance(n, ast.AnnAssign) and isinstance(n.target, ast.Name) and n.value is not None:
            tgt, val = n.target.id, n.value
        if tgt:
            count[tgt] = count.get(tgt, 0) + 1
            assigned[tgt] = val
        if isinstance(n, (ast.For, ast.comprehension)):
            for x in ast.walk(n.target):
                if isinstance(x, ast.Name):
                    loopvars[x.id] = n.iter

    def through(n):
        for _ in range(4):
            if isinstance(n, ast.Name) and count.get(n.id) == 1 and n.id not in loopvars:
                n = assigned[n.id]
            else:
                break
        return n

    def from_ascending(name):
        it = loopvars.get(name)
        if it is None:
            return False
        names = {x.id for x in ast.walk(it) if isinstance(x, ast.Name)}
        for _ in range(3):
            names |= {y.id for x in list(names) if count.get(x) == 1 for y in ast.walk(assigned[x]) if isinstance(y, ast.Name)}
        return "ascending" in names

    builders = [n for n in ast.walk(f) if isinstance(n, ast.Call) and
                (dotted(n.func) == "exp.Ordered" or
                 (dotted(n.func) == "sqlglot.parse_one" and any(k.arg == "into" and dotted(k.value) == "exp.Ordered" for k in n.keywords)))]
    if len(builders) != 1:
        raise Untranslatable(f"orderBy: expected one call that builds an ORDER BY term (parse_one(..., into=exp.Ordered) or exp.Ordered(...)), found {len(builders)}")
    term = builders[0]
    callee = dotted(term.func)
    kws = {k.arg: k.value for k in term.keywords}

    def flag_expr(e):
        """translate a boolean expression over exactly one loop variable that comes from `ascending`"""
        e = through(e)
        free = {x.id for x in ast.walk(e) if isinstance(x, ast.Name)}
        if len(free) != 1:
            raise Untranslatable(f"orderBy: direction expression mentions {sorted(free)}")
        flag = next(iter(free))
        if not from_ascending(flag):
            raise Untranslatable(f"orderBy: `{flag}` is not an element of `ascending`")
        txt, ty = py2v.Tr(types={flag: "bool"}, env={}, calls={}).e(e)
        if ty != "bool":
            raise Untranslatable("orderBy: direction expression is not boolean")
        return re.sub(r"\b" + re.escape(flag) + r"\b", "asc", txt)

    if callee == "sqlglot.parse_one":
        if dotted(through(kws.get("dialect"))) != "self.session.input_dialect" or len(term.args) != 1 \
                or not isinstance(term.args[0], ast.JoinedStr) or set(kws) != {"dialect", "into"}:
            raise Untranslatable("orderBy: parse_one(...) is not (f-string, dialect=<self.session.input_dialect>, into=exp.Ordered)")
        parts = term.args[0].values
        # f"{<col>.expression.sql(dialect=...)} {<direction word>}"
        ok = (len(parts) == 3 and isinstance(parts[0], ast.FormattedValue) and isinstance(parts[0].value, ast.Call)
              and isinstance(parts[0].value.func, ast.Attribute) and parts[0].value.func.attr == "sql"
              and (dotted(parts[0].value.func.value) or "").endswith(".expression")
              and isinstance(parts[1], ast.Constant) and parts[1].value == " "
              and isinstance(parts[2], ast.FormattedValue))
        if not ok:
            raise Untranslatable("orderBy: sort text is not f\"{<col>.expression.sql(...)} {<'DESC' or ''>}\"")
        ife = through(parts[2].value)
        if not isinstance(ife, ast.IfExp):
            raise Untranslatable("orderBy: direction word is not a conditional")
        lits = (ife.body.value if isinstance(ife.body, ast.Constant) else None,
                ife.orelse.value if isinstance(ife.orelse, ast.Constant) else None)
        c = flag_expr(ife.test)
        if lits == ("DESC", "") or lits == ("DESC", "ASC"):
            desc = c
        elif lits == ("", "DESC") or lits == ("ASC", "DESC"):
            desc = f"(negb {c})"
        else:
            raise Untranslatable(f"orderBy: direction words {lits}")
        return {"shape": "text parsed with the input dialect", "flag": "asc", "desc": desc,
                "nulls_first": f"(spark_text_nulls_first {desc})", "default": default, "hash": py2v.src_hash(f, src)}
    # exp.Ordered(...)
    if term.args or set(kws) - {"this", "desc", "nulls_first"} or "this" not in kws:
        raise Untranslatable("orderBy: exp.Ordered(...) with other arguments")
    if "nulls_first" not in kws:
        raise Untranslatable("orderBy: exp.Ordered without nulls_first (the NULL placement would be the engine's default)")

    def flag_or_const(e):
        e = _strip_or_none(through(e))
        if isinstance(e, ast.Constant) and isinstance(e.value, bool):
            return "true" if e.value else "false"
        return flag_expr(e)

    desc = flag_or_const(kws["desc"]) if "desc" in kws else "false"
    nf = flag_or_const(kws["nulls_first"])
    return {"shape": "exp.Ordered built directly", "flag": "asc", "desc": desc, "nulls_first": nf, "default": default,
            "hash": py2v.src_hash(f, src)}


ORDER_METHODS = ["asc", "asc_nulls_first", "asc_nulls_last", "desc", "desc_nulls_first", "desc_nulls_last"]


def column_order_methods(tree):
    """Column.asc / desc / asc_nulls_first / ...: (desc, nulls_first) of the exp.Ordered node each builds; `name = other` aliases"""
    cls = py2v.find_class(tree, "Column")
    out = {}
    for st in cls.body:
        if isinstance(st, ast.FunctionDef) and st.name in ORDER_METHODS:
            calls = [n for n in ast.walk(st) if isinstance(n, ast.Call) and dotted(n.func) == "exp.Ordered"]
            if len(calls) != 1:
                raise Untranslatable(f"Column.{st.name}: expected one exp.Ordered(...), found {len(calls)}")
            kws = {k.arg: k.value for k in calls[0].keywords}
            vals = []
            for key in ("desc", "nulls_first"):
                v = kws.get(key)
                if not (isinstance(v, ast.Constant) and isinstance(v.value, bool)):
                    raise Untranslatable(f"Column.{st.name}: {key}= is not a literal bool")
                vals.append(v.value)
            out[st.name] = tuple(vals)
    for st in cls.body:
        if isinstance(st, ast.Assign) and len(st.targets) == 1 and isinstance(st.targets[0], ast.Name) \
                and st.targets[0].id in ORDER_METHODS:
            src_name = dotted(st.value)
            if src_name not in out:
                raise Untranslatable(f"Column.{st.targets[0].id} = {src_name}: not an ordering method")
            out[st.targets[0].id] = out[src_name]
    missing = [m for m in ORDER_METHODS if m not in out]
    if missing:
        raise Untranslatable(f"Column ordering methods not found: {missing}")
    return out


def limit_merge(tree, src):
    f = py2v.find_method(tree, "BaseDataFrame", "limit")
    body = [s for s in f.body if not (isinstance(s, ast.Expr) and isinstance(s.value, ast.Constant))]
    if len(body) != 2 or not isinstance(body[0], ast.If) or not isinstance(body[1], ast.Return):
        raise Untranslatable("limit: body shape changed")
    iff = body[0]
    # if limit_exp := self.expression.args.get("limit"):
    if not (isinstance(iff.test, ast.NamedExpr) and iff.test.target.id == "limit_exp") or iff.orelse:
        raise Untranslatable("limit: existing-limit test changed")
    if len(iff.body) != 1 or not isinstance(iff.body[0], ast.Assign) or dotted(iff.body[0].targets[0]) != "num":
        raise Untranslatable("limit: merge statement changed")

    def existing(tr, n):
        # int(limit_exp.expression.this)
        if len(n.args) == 1 and dotted(n.args[0]) == "limit_exp.expression.this":
            return "m", "Z"
        raise Untranslatable("limit: int(...) of something else")

    def mk(fn):
        def g(tr, n):
            parts = [tr.e(a) for a in n.args]
            if len(parts) != 2 or any(t != "Z" for _, t in parts):
                raise Untranslatable("min/max arity or type")
            return f"({fn} {parts[0][0]} {parts[1][0]})", "Z"
        return g

    tr = py2v.Tr(types={"num": "Z"}, env={}, calls={"int": existing, "min": mk("Z.min"), "max": mk("Z.max")})
    term, ty = tr.e(iff.body[0].value)
    if ty != "Z":
        raise Untranslatable("limit: merged value is not an int")
    # return self.copy(expression=self.expression.limit(num))
    ret = body[1].value
    okret = (isinstance(ret, ast.Call) and dotted(ret.func) == "self.copy" and len(ret.keywords) == 1
             and ret.keywords[0].arg == "expression" and isinstance(ret.keywords[0].value, ast.Call)
             and dotted(ret.keywords[0].value.func) == "self.expression.limit"
             and len(ret.keywords[0].value.args) == 1 and dotted(ret.keywords[0].value.args[0]) == "num")
    if not okret:
        raise Untranslatable("limit: return statement changed")
    return term, py2v.src_hash(f, src)


def select_append_default(tree):
    f = py2v.find_method(tree, "BaseDataFrame", "select")
    for n in ast.walk(f):
        if isinstance(n, ast.Assign) and isinstance(n.targets[0], ast.Subscript) \
                and dotted(n.targets[0].value) == "kwargs" \
                and isinstance(n.targets[0].slice, ast.Constant) and n.targets[0].slice.value == "append":
            v = n.value
            if isinstance(v, ast.Call) and dotted(v.func) == "kwargs.get" and len(v.args) == 2 \
                    and isinstance(v.args[1], ast.Constant) and isinstance(v.args[1].value, bool):
                return v.args[1].value
            raise Untranslatable("select: append default is not a literal")
    raise Untranslatable("select: append default not found")


NAMES = {"NSelect": "select", "NWhere": "where", "NOrderBy": "orderBy", "NLimit": "limit", "NDistinct": "distinct"}


def generate(repo: str):
    ops_tree, ops_src = py2v.load(os.path.join(repo, "sqlframe/base/operations.py"))
    df_tree, df_src = py2v.load(os.path.join(repo, "sqlframe/base/dataframe.py"))
    gr_tree, gr_src = py2v.load(os.path.join(repo, "sqlframe/base/group.py"))
    vals = enum_values(ops_tree)
    w_df = wrapper_facts(ops_tree, ops_src, "operation", "self")
    w_gr = wrapper_facts(ops_tree, ops_src, "group_operation", "self._df")
    decos = method_decorators(df_tree, "BaseDataFrame", "operation")
    gdecos = method_decorators(gr_tree, "_BaseGroupedData", "group_operation")
    oa = order_append(df_tree)
    lm, lm_hash = limit_merge(df_tree, df_src)
    sa = select_append_default(df_tree)
    ok = order_key_facts(df_tree, df_src)
    col_tree, _ = py2v.load(os.path.join(repo, "sqlframe/base/column.py"))
    com = column_order_methods(col_tree)
    for n, m in NAMES.items():
        if decos.get(m) is None:
            raise Untranslatable(f"method {m} has no @operation decorator")
    L = []
    L.append("(* GENERATED from /repo on every run by translate/c01_facts.py -- do not edit *)")
    L.append("From SF Require Import Model.Chain.")
    L.append("Open Scope Z_scope.")
    L.append("Definition rank (k : opk) : Z := match k with " +
             " | ".join(f"{k} => ({vals[k]})" for k in OPK) + " end.")
    L.append("Definition opk_ltb a b := Z.ltb (rank a) (rank b).")
    L.append("Definition opk_leb a b := Z.leb (rank a) (rank b).")
    L.append("Definition opk_gtb a b := Z.gtb (rank a) (rank b).")
    L.append("Definition opk_geb a b := Z.geb (rank a) (rank b).")
    L.append(f"Definition wrap_needed_df (last_op new_op : opk) : bool := {w_df['test']}.")
    L.append(f"Definition wrap_needed_group (last_op new_op : opk) : bool := {w_gr['test']}.")
    L.append(f"Definition new_kind_df (op last_op : opk) : opk := {w_df['new_kind']}.")
    L.append(f"Definition new_kind_group (op last_op : opk) : opk := {w_gr['new_kind']}.")
    L.append(f"Definition init_wraps_df : bool := {'true' if w_df['init_wraps'] else 'false'}.")
    L.append(f"Definition init_wraps_group : bool := {'true' if w_gr['init_wraps'] else 'false'}.")
    L.append("Definition kind_of (n : opname) : opk := match n with " +
             " | ".join(f"{n} => {decos[m]}" for n, m in NAMES.items()) + " end.")
    L.append(f"Definition order_append : bool := {'true' if oa else 'false'}.")
    L.append(f"Definition select_append_default : bool := {'true' if sa else 'false'}.")
    L.append(f"Definition limit_merge (num m : Z) : Z := {lm}.")
    L.append("Definition gen_cfg : cfg := mkCfg wrap_needed_df kind_of init_wraps_df order_append limit_merge.")
    # decorator table of every method, for other properties (C04/C06/C07)
    L.append("Definition decorator_table : list (string * option opk) := [")
    L.append(";\n".join(f'  ("{m}"%string, {("Some " + k) if k else "None"})' for m, k in sorted(decos.items())
                        if not m.startswith("__")))
    L.append("].")
    L.append(f"Definition group_agg_kind : option opk := {('Some ' + gdecos['agg']) if gdecos.get('agg') else 'None'}.")
    # direction / NULL placement of the ORDER BY terms orderBy builds from a sort column and its `ascending` flag
    L.append("(* environment: a sort key written as SQL text and parsed with the session's input dialect (Spark) gets Spark's "
             "default NULL placement: ASC -> NULLS FIRST, DESC -> NULLS LAST *)")
    L.append("Definition spark_text_nulls_first (desc : bool) : bool := negb desc.")
    L.append(f"Definition order_flag_desc ({ok['flag']} : bool) : bool := {ok['desc']}.")
    L.append(f"Definition order_flag_nulls_first ({ok['flag']} : bool) : bool := {ok['nulls_first']}.")
    L.append(f"Definition order_default_asc : bool := {'true' if ok['default'] else 'false'}.")
    L.append("Definition column_order_methods : list (string * (bool * bool)) := [" + "; ".join(
        f'("{m}"%string, ({str(com[m][0]).lower()}, {str(com[m][1]).lower()}))' for m in ORDER_METHODS) + "].")
    facts = [
        {"name": "rank", "from": "operations.py: class Operation", "value": vals},
        {"name": "wrap_needed_df", "from": "operations.py: operation.wrapper", "hash": w_df["hash"], "text": w_df["test"]},
        {"name": "wrap_needed_group", "from": "operations.py: group_operation.wrapper", "hash": w_gr["hash"], "text": w_gr["test"]},
        {"name": "new_kind", "text": w_df["new_kind"]},
        {"name": "init_wraps", "value": w_df["init_wraps"]},
        {"name": "kind_of", "from": "dataframe.py decorators", "value": {m: decos[m] for m in NAMES.values()}},
        {"name": "order_append", "from": "dataframe.py: orderBy .order_by(append=)", "value": oa},
        {"name": "select_append_default", "value": sa},
        {"name": "limit_merge", "from": "dataframe.py: limit", "hash": lm_hash, "text": lm},
        {"name": "decorator_table", "value": {m: k for m, k in decos.items() if not m.startswith("_")}},
        {"name": "order_flag_desc / order_flag_nulls_first / order_default_asc", "from": "dataframe.py: orderBy (" + ok["shape"] + ")",
         "hash": ok["hash"], "text": f"desc = {ok['desc']}; nulls_first = {ok['nulls_first']}; default ascending = {ok['default']}"},
        {"name": "column_order_methods", "from": "column.py: Column.asc/desc/...", "value": {m: list(v) for m, v in com.items()}},
    ]
    return "\n".join(L) + "\n", facts
