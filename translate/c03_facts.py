"""T1 for C03: regenerate, from /repo's source, the argument plumbing between
   BaseDataFrame.sql / collect / _collect / _get_expressions and _BaseSession._collect / _to_sql / _optimize,
and the CTE-hash format.  Fail-closed: any shape this reader does not recognise raises Untranslatable.

Emits Gen/C03Facts.v:  gen_facts : Render.facts, hash_prefix, hash_len, optimize_rule_edit ...
The DuckDB reserved-word table (an ENVIRONMENT table, read from the engine at run time) is emitted by
checks/c03.py into the same file through `reserved=`.
"""
from __future__ import annotations

import ast
import os

from vlib import py2v
from vlib.py2v import Untranslatable, dotted

PARAM = {"optimize": "POptimize", "quote_identifiers": "PQuote", "pretty": "PPretty"}


def real_method(tree, cls, name):
    """the non-@overload definition of cls.name"""
    c = py2v.find_class(tree, cls)
    found = []
    for n in c.body:
        if isinstance(n, ast.FunctionDef) and n.name == name:
            if any((dotted(d) or "").endswith("overload") for d in n.decorator_list):
                continue
            found.append(n)
    if len(found) != 1:
        raise Untranslatable(f"{cls}.{name}: expected exactly one non-overload definition, found {len(found)}")
    return found[0]


def defaults_of(f: ast.FunctionDef) -> dict:
    """parameter name -> default AST node (or absent)"""
    out = {}
    pos = f.args.posonlyargs + f.args.args
    for a, d in zip(pos[len(pos) - len(f.args.defaults):], f.args.defaults):
        out[a.arg] = d
    for a, d in zip(f.args.kwonlyargs, f.args.kw_defaults):
        if d is not None:
            out[a.arg] = d
    return out


def bool_default(f, name) -> bool:
    d = defaults_of(f).get(name)
    if not (isinstance(d, ast.Constant) and isinstance(d.value, bool)):
        raise Untranslatable(f"{f.name}: default of {name} is not a literal bool")
    return d.value


def none_default(f, name):
    d = defaults_of(f).get(name)
    if not (isinstance(d, ast.Constant) and d.value is None):
        raise Untranslatable(f"{f.name}: default of {name} is not None")


def strip_doc(body):
    return [s for s in body if not (isinstance(s, ast.Expr) and isinstance(s.value, ast.Constant)
                                    and isinstance(s.value.value, str))]


def assigned_names(f) -> set:
    out = set()
    for n in ast.walk(f):
        if isinstance(n, (ast.Assign, ast.AugAssign, ast.AnnAssign)):
            tgts = n.targets if isinstance(n, ast.Assign) else [n.target]
            for t in tgts:
                for m in ast.walk(t):
                    if isinstance(m, ast.Name):
                        out.add(m.id)
        if isinstance(n, ast.NamedExpr):
            out.add(n.target.id)
        if isinstance(n, (ast.For, ast.comprehension)):
            for m in ast.walk(n.target):
                if isinstance(m, ast.Name):
                    out.add(m.id)
    return out


def barg(call: ast.Call, kw: str, params: set) -> str:
    """how keyword argument `kw` is given at this call site, as a Coq `barg`"""
    vals = [k.value for k in call.keywords if k.arg == kw]
    if len(vals) > 1:
        raise Untranslatable(f"keyword {kw} given twice")
    if not vals:
        return "Default"
    v = vals[0]
    if isinstance(v, ast.Constant) and isinstance(v.value, bool):
        return f"(Const {'true' if v.value else 'false'})"
    if isinstance(v, ast.Name) and v.id in params and v.id in PARAM:
        return f"(Fwd {PARAM[v.id]})"
    raise Untranslatable(f"argument {kw}={ast.unparse(v)} is neither a forwarded switch nor a literal")


def only_keywords(call: ast.Call, allowed: set, npos: int, star_kwargs_ok=False):
    if len(call.args) != npos:
        raise Untranslatable(f"call {ast.unparse(call.func)}: {len(call.args)} positional arguments, expected {npos}")
    for k in call.keywords:
        if k.arg is None:
            if not (star_kwargs_ok and dotted(k.value) == "kwargs"):
                raise Untranslatable(f"call {ast.unparse(call.func)}: **{ast.unparse(k.value)}")
        elif k.arg not in allowed:
            raise Untranslatable(f"call {ast.unparse(call.func)}: unexpected keyword {k.arg}")


def sql_facts(df_tree, df_src):
    f = real_method(df_tree, "BaseDataFrame", "sql")
    params = {a.arg for a in f.args.args + f.args.kwonlyargs}
    for p in ("dialect", "optimize", "pretty", "quote_identifiers", "openai_config", "as_list"):
        if p not in params:
            raise Untranslatable(f"sql(): parameter {p} missing")
    d_opt, d_pretty, d_quote = (bool_default(f, "optimize"), bool_default(f, "pretty"),
                                bool_default(f, "quote_identifiers"))
    none_default(f, "dialect")
    none_default(f, "openai_config")
    if bool_default(f, "as_list") is not False:
        raise Untranslatable("sql(): as_list default changed")
    re_assigned = assigned_names(f) & {"optimize", "pretty", "quote_identifiers", "openai_config", "as_list"}
    if re_assigned:
        raise Untranslatable(f"sql(): re-assigns {sorted(re_assigned)}")
    body = strip_doc(f.body)
    if len(body) != 5:
        raise Untranslatable(f"sql(): expected 5 top-level statements, found {len(body)}")
    s_dialect, s_results, s_for, s_aslist, s_ret = body
    # dialect = Dialect.get_or_raise(dialect) if dialect else self.session.output_dialect
    ok = (isinstance(s_dialect, ast.Assign) and dotted(s_dialect.targets[0]) == "dialect"
          and isinstance(s_dialect.value, ast.IfExp) and dotted(s_dialect.value.test) == "dialect"
          and isinstance(s_dialect.value.body, ast.Call) and dotted(s_dialect.value.body.func) == "Dialect.get_or_raise"
          and len(s_dialect.value.body.args) == 1 and dotted(s_dialect.value.body.args[0]) == "dialect")
    if not ok:
        raise Untranslatable("sql(): dialect selection has another shape")
    default_is_output = dotted(s_dialect.value.orelse) == "self.session.output_dialect"
    if not (isinstance(s_results, ast.Assign) and isinstance(s_results.targets[0], ast.Name)
            and isinstance(s_results.value, ast.List) and not s_results.value.elts):
        raise Untranslatable("sql(): `results = []` not found")
    res_name = s_results.targets[0].id      # local names are free
    if not (isinstance(s_for, ast.For) and isinstance(s_for.target, ast.Name) and not s_for.orelse
            and isinstance(s_for.iter, ast.Call) and dotted(s_for.iter.func) == "self._get_expressions"):
        raise Untranslatable("sql(): loop over self._get_expressions(...) not found")
    loopvar = s_for.target.id
    ge = s_for.iter
    only_keywords(ge, {"optimize", "openai_config", "quote_identifiers"}, 0)
    for k in ge.keywords:
        if k.arg == "openai_config" and dotted(k.value) != "openai_config":
            raise Untranslatable("sql(): openai_config is not forwarded as is")
    lb = s_for.body
    if len(lb) != 3:
        raise Untranslatable(f"sql(): loop body has {len(lb)} statements, expected 3")
    s_tosql, s_openai, s_append = lb
    if not (isinstance(s_tosql, ast.Assign) and isinstance(s_tosql.targets[0], ast.Name)
            and isinstance(s_tosql.value, ast.Call) and dotted(s_tosql.value.func) == "self.session._to_sql"):
        raise Untranslatable("sql(): `sql = self.session._to_sql(...)` not found")
    sql_name = s_tosql.targets[0].id
    ts = s_tosql.value
    only_keywords(ts, {"dialect", "pretty", "quote_identifiers"}, 1, star_kwargs_ok=True)
    if dotted(ts.args[0]) != loopvar:
        raise Untranslatable("sql(): _to_sql is not applied to the loop variable")
    dial = [k.value for k in ts.keywords if k.arg == "dialect"]
    dialect_forwarded = len(dial) == 1 and dotted(dial[0]) == "dialect"
    if not (isinstance(s_openai, ast.If) and dotted(s_openai.test) == "openai_config" and not s_openai.orelse):
        raise Untranslatable("sql(): the statement after _to_sql is not `if openai_config:`")
    if not (isinstance(s_append, ast.Expr) and isinstance(s_append.value, ast.Call)
            and dotted(s_append.value.func) == res_name + ".append" and len(s_append.value.args) == 1
            and dotted(s_append.value.args[0]) == sql_name):
        raise Untranslatable("sql(): `results.append(sql)` not found")
    if not (isinstance(s_aslist, ast.If) and dotted(s_aslist.test) == "as_list" and len(s_aslist.body) == 1
            and isinstance(s_aslist.body[0], ast.Return) and dotted(s_aslist.body[0].value) == res_name):
        raise Untranslatable("sql(): `if as_list: return results` not found")
    r = s_ret.value if isinstance(s_ret, ast.Return) else None
    if not (isinstance(r, ast.Call) and isinstance(r.func, ast.Attribute) and r.func.attr == "join"
            and isinstance(r.func.value, ast.Constant) and r.func.value.value == ";\n"
            and len(r.args) == 1 and dotted(r.args[0]) == res_name):
        raise Untranslatable("sql(): final `';\\n'.join(results)` not found")
    return {
        "sql_ge_optimize": barg(ge, "optimize", params), "sql_ge_quote": barg(ge, "quote_identifiers", params),
        "sql_ts_quote": barg(ts, "quote_identifiers", params), "sql_ts_pretty": barg(ts, "pretty", params),
        "sql_ts_dialect_forwarded": dialect_forwarded, "sql_dialect_default_is_output": default_is_output,
        "sql_defaults": (d_opt, d_quote, d_pretty), "hash": py2v.src_hash(f, df_src),
    }


def collect_facts(df_tree, df_src):
    c = real_method(df_tree, "BaseDataFrame", "collect")
    body = strip_doc(c.body)
    if not (len(body) == 1 and isinstance(body[0], ast.Return) and isinstance(body[0].value, ast.Call)
            and dotted(body[0].value.func) == "self._collect"):
        raise Untranslatable("collect(): is not `return self._collect(...)`")
    passes = bool(body[0].value.args or body[0].value.keywords)
    f = real_method(df_tree, "BaseDataFrame", "_collect")
    if f.args.args[1:] or f.args.kwonlyargs or f.args.vararg or f.args.kwarg is None:
        raise Untranslatable("_collect(): signature is not (self, **kwargs)")
    body = strip_doc(f.body)
    r = body[0].value if len(body) == 1 and isinstance(body[0], ast.Return) else None
    if not (isinstance(r, ast.Call) and dotted(r.func) == "self.session._collect" and len(r.args) == 1
            and isinstance(r.args[0], ast.Call) and dotted(r.args[0].func) == "self._get_expressions"
            and all(k.arg is None and dotted(k.value) == "kwargs" for k in r.keywords)):
        raise Untranslatable("_collect(): is not `return self.session._collect(self._get_expressions(...), **kwargs)`")
    ge = r.args[0]
    only_keywords(ge, {"optimize", "quote_identifiers"}, 0)
    return {"col_ge_optimize": barg(ge, "optimize", set()), "col_ge_quote": barg(ge, "quote_identifiers", set()),
            "collect_passes_kwargs": passes, "hash": py2v.src_hash(f, df_src)}


def get_expressions_facts(df_tree, df_src):
    f = real_method(df_tree, "BaseDataFrame", "_get_expressions")
    d_opt, d_quote = bool_default(f, "optimize"), bool_default(f, "quote_identifiers")
    none_default(f, "openai_config")
    if assigned_names(f) & {"optimize", "quote_identifiers"}:
        raise Untranslatable("_get_expressions: re-assigns optimize / quote_identifiers")
    loops = [s for s in f.body if isinstance(s, ast.For)]
    if len(loops) != 1:
        raise Untranslatable("_get_expressions: expected one loop over the select expressions")
    lb = loops[0].body
    # expected prefix of the loop body:
    #   select_expression = select_expression.transform(replace_id_value, replacement_mapping).assert_is(exp.Select)
    #   self._set_display_names(select_expression)
    #   if optimize: select_expression = cast(.., self.session._optimize(select_expression, quote_identifiers=quote_identifiers))
    #   elif openai_config: ...
    #   select_expression = df._replace_cte_names_with_hashes(select_expression)
    if len(lb) < 4:
        raise Untranslatable("_get_expressions: loop body too short")
    s0, s1, s2, s3 = lb[:4]
    ok0 = (isinstance(s0, ast.Assign) and dotted(s0.targets[0]) == "select_expression"
           and "replace_id_value" in ast.unparse(s0.value) and ast.unparse(s0.value).startswith("select_expression.transform("))
    ok1 = (isinstance(s1, ast.Expr) and isinstance(s1.value, ast.Call)
           and dotted(s1.value.func) == "self._set_display_names" and len(s1.value.args) == 1
           and dotted(s1.value.args[0]) == "select_expression")
    if not (ok0 and ok1):
        raise Untranslatable("_get_expressions: identifier replacement / display names prefix changed")
    if not (isinstance(s2, ast.If) and dotted(s2.test) == "optimize"):
        raise Untranslatable("_get_expressions: `if optimize:` not found")
    calls = [n for n in ast.walk(ast.Module(body=s2.body, type_ignores=[])) if isinstance(n, ast.Call)
             and dotted(n.func) == "self.session._optimize"]
    if len(s2.body) != 1 or len(calls) != 1 or not isinstance(s2.body[0], ast.Assign) \
            or dotted(s2.body[0].targets[0]) != "select_expression":
        raise Untranslatable("_get_expressions: optimize branch is not one assignment of self.session._optimize(...)")
    oc = calls[0]
    only_keywords(oc, {"quote_identifiers"}, 1)
    if dotted(oc.args[0]) != "select_expression":
        raise Untranslatable("_get_expressions: _optimize is not applied to select_expression")
    opt_quote = barg(oc, "quote_identifiers", {"quote_identifiers"})
    if opt_quote != "(Fwd PQuote)":
        raise Untranslatable(f"_get_expressions: _optimize gets quote_identifiers {opt_quote}")
    # the else-branch may only be `elif openai_config:`
    if s2.orelse:
        if not (len(s2.orelse) == 1 and isinstance(s2.orelse[0], ast.If) and dotted(s2.orelse[0].test) == "openai_config"
                and not s2.orelse[0].orelse):
            raise Untranslatable("_get_expressions: else-branch of `if optimize` is not `elif openai_config:`")
    ok3 = (isinstance(s3, ast.Assign) and dotted(s3.targets[0]) == "select_expression"
           and isinstance(s3.value, ast.Call) and dotted(s3.value.func) in ("df._replace_cte_names_with_hashes",
                                                                           "self._replace_cte_names_with_hashes")
           and len(s3.value.args) == 1 and dotted(s3.value.args[0]) == "select_expression")
    if not ok3:
        raise Untranslatable("_get_expressions: CTE re-hashing does not follow the optimize branch")
    # every other read of the two switches
    uses_q = [n for n in ast.walk(f) if isinstance(n, ast.Name) and n.id == "quote_identifiers"]
    inside = [n for n in ast.walk(ast.Module(body=s2.body, type_ignores=[])) if isinstance(n, ast.Name)
              and n.id == "quote_identifiers"]
    uses_o = [n for n in ast.walk(f) if isinstance(n, ast.Name) and n.id == "optimize"]
    only_under = len(uses_q) == len(inside) and len(uses_o) == 1
    return {"ge_default_optimize": d_opt, "ge_default_quote": d_quote,
            "ge_quote_only_under_optimize": only_under, "ge_same_tail_for_both": True,
            "hash": py2v.src_hash(f, df_src)}


def session_facts(se_tree, se_src):
    ts = real_method(se_tree, "_BaseSession", "_to_sql")
    d_quote, d_pretty = bool_default(ts, "quote_identifiers"), bool_default(ts, "pretty")
    none_default(ts, "dialect")
    body = strip_doc(ts.body)
    r = body[0].value if len(body) == 1 and isinstance(body[0], ast.Return) else None
    if not (isinstance(r, ast.Call) and dotted(r.func) == "normalize_string" and len(r.args) == 1
            and dotted(r.args[0]) == ts.args.args[1].arg):
        raise Untranslatable("_to_sql: is not `return normalize_string(sql, ...)`")
    kw = {k.arg: k.value for k in r.keywords}
    if set(kw) != {"from_dialect", "to_dialect", "is_query", "quote_identifiers", "pretty"}:
        raise Untranslatable(f"_to_sql: normalize_string keywords are {sorted(kw)}")
    if dotted(kw["from_dialect"]) != "self.input_dialect":
        raise Untranslatable("_to_sql: from_dialect is not self.input_dialect")
    td = kw["to_dialect"]
    exec_default = (isinstance(td, ast.BoolOp) and isinstance(td.op, ast.Or) and len(td.values) == 2
                    and dotted(td.values[0]) == "dialect" and dotted(td.values[1]) == "self.execution_dialect")
    if not (isinstance(kw["is_query"], ast.Constant) and kw["is_query"].value is True):
        raise Untranslatable("_to_sql: is_query is not True")
    if dotted(kw["quote_identifiers"]) != "quote_identifiers" or dotted(kw["pretty"]) != "pretty":
        raise Untranslatable("_to_sql: quote_identifiers / pretty are not forwarded as is")
    sc = real_method(se_tree, "_BaseSession", "_collect")
    sc_quote = bool_default(sc, "quote_identifiers")
    if bool_default(sc, "skip_normalization") is not False or bool_default(sc, "skip_rows") is not False:
        raise Untranslatable("session._collect: skip_* defaults changed")
    tosql_calls = [n for n in ast.walk(sc) if isinstance(n, ast.Call) and dotted(n.func) == "self._to_sql"]
    if len(tosql_calls) != 1:
        raise Untranslatable(f"session._collect: {len(tosql_calls)} calls of self._to_sql")
    c = tosql_calls[0]
    only_keywords(c, {"quote_identifiers", "pretty", "dialect"}, 1)
    # the call must be the non-skip_normalization branch of the conditional, and be what _execute receives
    src = ast.unparse(sc)
    if "if skip_normalization else self._to_sql(" not in src.replace("\n", " "):
        raise Untranslatable("session._collect: _to_sql is not the default branch of the skip_normalization conditional")
    if "self._execute(sql)" not in src:
        raise Untranslatable("session._collect: self._execute(sql) not found")
    return {"ts_default_quote": d_quote, "ts_default_pretty": d_pretty,
            "ts_dialect_default_is_execution": exec_default,
            "col_ts_quote": barg(c, "quote_identifiers", {"quote_identifiers"}),
            "col_ts_pretty": barg(c, "pretty", set()),
            "col_ts_dialect_given": any(k.arg == "dialect" for k in c.keywords),
            "scollect_default_quote": sc_quote,
            "hash": py2v.src_hash(ts, se_src) + "/" + py2v.src_hash(sc, se_src)}


def optimize_facts(se_tree, se_src):
    f = real_method(se_tree, "_BaseSession", "_optimize")
    src = ast.unparse(f)
    d_quote = bool_default(f, "quote_identifiers")
    body = strip_doc(f.body)
    if len(body) != 5:
        raise Untranslatable(f"_optimize: expected 5 statements, found {len(body)}")
    s_d, s_norm, s_rules, s_if, s_ret = body
    ok = (ast.unparse(s_d) == "dialect = dialect or self.input_dialect"
          and ast.unparse(s_norm) == "normalize_identifiers(expression, dialect=dialect)"
          and ast.unparse(s_rules) == "rules = list(OPTIMIZER_RULES)")
    if not ok:
        raise Untranslatable("_optimize: prefix (dialect / normalize_identifiers / rules) changed")
    if not (isinstance(s_if, ast.If) and dotted(s_if.test) == "quote_identifiers"
            and [ast.unparse(x) for x in s_if.body] == ["quote_identifiers_func(expression, dialect=dialect)"]
            and [ast.unparse(x) for x in s_if.orelse] == ["rules.remove(quote_identifiers_func)"]):
        raise Untranslatable("_optimize: the rule-list edit changed")
    r = s_ret.value if isinstance(s_ret, ast.Return) else None
    if not (isinstance(r, ast.Call) and dotted(r.func) == "optimize" and len(r.args) == 1 and dotted(r.args[0]) == "expression"):
        raise Untranslatable("_optimize: does not return optimize(expression, ...)")
    kws = {k.arg: ast.unparse(k.value) for k in r.keywords}
    expected = {"dialect": "dialect", "schema": "self.catalog._schema", "infer_schema": "True",
                "quote_identifiers": "quote_identifiers", "rules": "rules"}
    # the one rule option sqlframe sets: alias references are NOT expanded by qualify (repair of the
    # where / sibling-item alias capture); absent = sqlglot's default (True).  Anything else is unknown.
    expand = kws.pop("expand_alias_refs", "True")
    if expand not in ("True", "False"):
        raise Untranslatable(f"_optimize: expand_alias_refs={expand}")
    if kws != expected:
        raise Untranslatable(f"_optimize: optimize(...) keywords are {kws}")
    # where OPTIMIZER_RULES comes from
    imp = [n for n in ast.walk(se_tree) if isinstance(n, ast.ImportFrom) and any(a.asname == "OPTIMIZER_RULES" for a in n.names)]
    if not (len(imp) == 1 and imp[0].module == "sqlglot.optimizer" and
            [a.name for a in imp[0].names if a.asname == "OPTIMIZER_RULES"] == ["RULES"]):
        raise Untranslatable("OPTIMIZER_RULES is no longer sqlglot.optimizer.RULES")
    return {"optimize_default_quote": d_quote, "expand_alias_refs": expand == "True", "hash": py2v.src_hash(f, se_src)}


def hash_facts(df_tree, df_src):
    f = real_method(df_tree, "BaseDataFrame", "_create_hash_from_expression")
    fmt = None
    for n in ast.walk(f):
        if isinstance(n, ast.Assign) and dotted(n.targets[0]) == "hash":
            v = n.value
            # f"t{zlib.crc32(value)}"[:9]
            if (isinstance(v, ast.Subscript) and isinstance(v.value, ast.JoinedStr) and isinstance(v.slice, ast.Slice)
                    and v.slice.lower is None and isinstance(v.slice.upper, ast.Constant) and v.slice.step is None):
                parts = v.value.values
                if (len(parts) == 2 and isinstance(parts[0], ast.Constant) and isinstance(parts[1], ast.FormattedValue)
                        and ast.unparse(parts[1].value) == "zlib.crc32(value)"):
                    fmt = (parts[0].value, int(v.slice.upper.value))
    if fmt is None:
        raise Untranslatable("_create_hash_from_expression: `hash = f\"t{zlib.crc32(value)}\"[:9]` not found")
    g = real_method(df_tree, "BaseDataFrame", "_replace_cte_names_with_hashes")
    src = ast.unparse(g)
    need = ["for cte in expression.ctes:", "old_name_id = cte.args['alias'].this",
            "self._create_hash_from_expression(cte.this)", "replacement_mapping[old_name_id] = new_hashed_id",
            "expression = expression.transform(replace_id_value, replacement_mapping)"]
    for s in need:
        if s not in src:
            raise Untranslatable(f"_replace_cte_names_with_hashes: `{s}` not found")
    return {"hash_prefix": fmt[0], "hash_len": fmt[1], "hash": py2v.src_hash(f, df_src) + "/" + py2v.src_hash(g, df_src)}


def no_engine_override(repo):
    """the DuckDB classes must not redefine any of the modelled methods"""
    names = {"sql", "collect", "_collect", "_get_expressions", "_to_sql", "_optimize",
             "_replace_cte_names_with_hashes", "_create_hash_from_expression", "_convert_leaf_to_cte",
             "_add_ctes_to_expression"}
    bad = []
    for rel in ("sqlframe/duckdb/dataframe.py", "sqlframe/duckdb/session.py", "sqlframe/base/mixins/dataframe_mixins.py"):
        p = os.path.join(repo, rel)
        if not os.path.exists(p):
            continue
        tree, _ = py2v.load(p)
        for n in ast.walk(tree):
            if isinstance(n, ast.FunctionDef) and n.name in names:
                bad.append(f"{rel}:{n.name}")
    if bad:
        raise Untranslatable("modelled method overridden in an engine/mixin class: " + ", ".join(bad))


def b(x):
    return "true" if x else "false"


def collect_render_cfg(facts):
    """(quote_identifiers, pretty) with which collect() renders, computed from the regenerated plumbing exactly as
    Render.collect_quote / Render.collect_pretty do (the check also asks Coq and compares)"""
    v = {}
    for f in facts:
        if isinstance(f.get("value"), dict):
            v.update(f["value"])

    def resolve(arg, env_quote, default):
        if arg == "Default":
            return default
        if arg.startswith("(Const"):
            return "true" in arg
        if arg == "(Fwd PQuote)":
            return env_quote
        return False      # Fwd POptimize / PPretty: collect_env maps them to false

    return (resolve(v["col_ts_quote"], v["scollect_default_quote"], v["ts_default_quote"]),
            resolve(v["col_ts_pretty"], v["scollect_default_quote"], v["ts_default_pretty"]))


def generate(repo: str, reserved=None):
    df_tree, df_src = py2v.load(os.path.join(repo, "sqlframe/base/dataframe.py"))
    se_tree, se_src = py2v.load(os.path.join(repo, "sqlframe/base/session.py"))
    no_engine_override(repo)
    sq = sql_facts(df_tree, df_src)
    co = collect_facts(df_tree, df_src)
    ge = get_expressions_facts(df_tree, df_src)
    se = session_facts(se_tree, se_src)
    op = optimize_facts(se_tree, se_src)
    ha = hash_facts(df_tree, df_src)
    L = ["(* GENERATED from /repo on every run by translate/c03_facts.py -- do not edit *)",
         "From Coq Require Import List String.", "Import ListNotations.",
         "From SF Require Import C03.Render.", "Open Scope string_scope.",
         "Definition gen_facts : facts := {|",
         f"  sql_ge_optimize := {sq['sql_ge_optimize']};", f"  sql_ge_quote := {sq['sql_ge_quote']};",
         f"  sql_ts_quote := {sq['sql_ts_quote']};", f"  sql_ts_pretty := {sq['sql_ts_pretty']};",
         f"  sql_ts_dialect_forwarded := {b(sq['sql_ts_dialect_forwarded'])};",
         f"  sql_dialect_default_is_output := {b(sq['sql_dialect_default_is_output'])};",
         f"  sql_defaults := ({b(sq['sql_defaults'][0])}, {b(sq['sql_defaults'][1])}, {b(sq['sql_defaults'][2])});",
         f"  col_ge_optimize := {co['col_ge_optimize']};", f"  col_ge_quote := {co['col_ge_quote']};",
         f"  col_ts_quote := {se['col_ts_quote']};", f"  col_ts_pretty := {se['col_ts_pretty']};",
         f"  col_ts_dialect_given := {b(se['col_ts_dialect_given'])};",
         f"  scollect_default_quote := {b(se['scollect_default_quote'])};",
         f"  collect_passes_kwargs := {b(co['collect_passes_kwargs'])};",
         f"  ge_default_optimize := {b(ge['ge_default_optimize'])};", f"  ge_default_quote := {b(ge['ge_default_quote'])};",
         f"  ts_default_quote := {b(se['ts_default_quote'])};", f"  ts_default_pretty := {b(se['ts_default_pretty'])};",
         f"  ts_dialect_default_is_execution := {b(se['ts_dialect_default_is_execution'])};",
         f"  ge_quote_only_under_optimize := {b(ge['ge_quote_only_under_optimize'])};",
         f"  ge_same_tail_for_both := {b(ge['ge_same_tail_for_both'])} |}}.",
         f'Definition hash_prefix : string := "{ha["hash_prefix"]}".',
         f"Definition hash_len : nat := {ha['hash_len']}.",
         f"Definition optimize_default_quote : bool := {b(op['optimize_default_quote'])}.",
         f"Definition optimize_expands_alias_refs : bool := {b(op['expand_alias_refs'])}."]
    if reserved is not None:
        from vlib.core import strlit
        L.append("(* ENVIRONMENT table: select keyword_name from duckdb_keywords() where keyword_category in "
                 "('reserved','type_function'), read from the installed DuckDB at run time *)")
        L.append("Definition reserved : list string := [" + "; ".join(strlit(k) for k in reserved) + "].")
    facts = [
        {"name": "sql() plumbing", "from": "dataframe.py: BaseDataFrame.sql", "hash": sq["hash"],
         "value": {k: v for k, v in sq.items() if k != "hash"}},
        {"name": "collect() plumbing", "from": "dataframe.py: BaseDataFrame.collect/_collect", "hash": co["hash"],
         "value": {k: v for k, v in co.items() if k != "hash"}},
        {"name": "_get_expressions switches", "from": "dataframe.py: BaseDataFrame._get_expressions", "hash": ge["hash"],
         "value": {k: v for k, v in ge.items() if k != "hash"}},
        {"name": "_to_sql / session._collect", "from": "session.py", "hash": se["hash"],
         "value": {k: v for k, v in se.items() if k != "hash"}},
        {"name": "_optimize rule-list edit", "from": "session.py: _BaseSession._optimize", "hash": op["hash"],
         "value": "rules = list(sqlglot.optimizer.RULES); quote_identifiers_func applied first when quoting, "
                  "removed from the list otherwise; expand_alias_refs=" + str(op["expand_alias_refs"])},
        {"name": "CTE hash format", "from": "dataframe.py: _create_hash_from_expression / _replace_cte_names_with_hashes",
         "hash": ha["hash"], "value": {"prefix": ha["hash_prefix"], "len": ha["hash_len"]}},
        {"name": "no engine override", "from": "duckdb/dataframe.py, duckdb/session.py, mixins/dataframe_mixins.py",
         "value": "none of the modelled methods is redefined"},
    ]
    if reserved is not None:
        facts.append({"name": "reserved (environment)", "from": "duckdb_keywords()", "value": len(reserved)})
    return "\n".join(L) + "\n", facts
