(* GENERATED from /repo on every run by translate/c18_facts.py -- do not edit *)
From Coq Require Import List String ZArith Bool.
From SF Require Import C18.Session C18.Compile C18.Facts.
Import ListNotations.
Local Open Scope string_scope.
Local Open Scope Z_scope.
Definition alias_scoped_f : bool := true.
Definition schema_aia_f : bool := false.
Definition schema_drops_view_f : bool := true.
Definition wrap_needed_f (new_op last_op : Z) : bool := ((Z.ltb new_op last_op) || ((Z.eqb last_op new_op) && (Z.eqb new_op (5)))).
Definition gen_cfg : cfg := mkCfg alias_scoped_f schema_aia_f schema_drops_view_f (-1) (0) (1) (2) (5) wrap_needed_f.
Definition op_noop_value : Z := (0).
Definition hash_prefix : string := "t".
Definition hash_len : nat := 9%nat.
Definition hash_over_rendered_text : bool := true.
Definition counter_start : nat := 1%nat.
Definition singleton_session : bool := true.
Definition registry_accesses : list (string * string * string) := [
  ("BaseDataFrame.__init__", "_random_branch_id", "draw");
  ("BaseDataFrame.__init__", "_random_sequence_id", "draw");
  ("BaseDataFrame.__init__", "temp_views", "df_attr");
  ("BaseDataFrame._add_ctes_to_expression", "_auto_incrementing_name", "draw");
  ("BaseDataFrame._resolve_pending_hints", "name_to_sequence_id_mapping", "index");
  ("BaseDataFrame._resolve_pending_hints", "name_to_sequence_id_mapping", "member");
  ("BaseDataFrame.alias", "_add_alias_to_mapping", "call");
  ("BaseDataFrame.alias", "_random_sequence_id", "draw");
  ("BaseDataFrame.createOrReplaceTempView", "temp_views", "store");
  ("ListColumnsFromInfoSchemaMixin.listColumns", "temp_views", "get");
  ("ListTablesFromInfoSchemaMixin.listTables", "temp_views", "keys");
  ("TypedColumnsFromTempViewMixin._typed_columns", "_random_id", "draw");
  ("_BaseDataFrameReader.table", "temp_views", "get");
  ("_BaseSession.__init__", "incrementing_id", "init");
  ("_BaseSession.__init__", "known_branch_ids", "init");
  ("_BaseSession.__init__", "known_ids", "init");
  ("_BaseSession.__init__", "known_sequence_ids", "init");
  ("_BaseSession.__init__", "name_to_sequence_id_mapping", "init");
  ("_BaseSession.__init__", "temp_views", "init");
  ("_BaseSession._add_alias_to_mapping", "name_to_sequence_id_mapping", "append");
  ("_BaseSession._auto_incrementing_name", "incrementing_id", "incr");
  ("_BaseSession._auto_incrementing_name", "incrementing_id", "read");
  ("_BaseSession._random_branch_id", "_random_id", "draw");
  ("_BaseSession._random_branch_id", "known_branch_ids", "add");
  ("_BaseSession._random_id", "known_ids", "add");
  ("_BaseSession._random_sequence_id", "_random_id", "draw");
  ("_BaseSession._random_sequence_id", "known_sequence_ids", "add");
  ("_BaseSession.createDataFrame", "_auto_incrementing_name", "draw");
  ("_BaseSession.sql", "temp_views", "get");
  ("_BaseSession.sql", "temp_views", "truth");
  ("normalize.replace_alias_name_with_cte_name", "name_to_sequence_id_mapping", "index");
  ("normalize.replace_alias_name_with_cte_name", "name_to_sequence_id_mapping", "member");
  ("normalize.replace_branch_and_sequence_ids_with_cte_name", "known_branch_ids", "member");
  ("normalize.replace_branch_and_sequence_ids_with_cte_name", "known_ids", "member")
].
Definition set_iterations : list string := [].
Definition session_accessors : list (string * string) := [("_BaseSession.execution_dialect_name", "property"); ("_BaseSession.read", "property"); ("_BaseSession.catalog", "cached_property"); ("_BaseSession._conn", "property"); ("_BaseSession._cur", "cached_property"); ("_BaseSession.default_time_format", "property"); ("_BaseSession._has_connection", "property"); ("_BaseSession.udf", "property"); ("_BaseSession._auto_incrementing_name", "property"); ("_BaseSession._random_branch_id", "property"); ("_BaseSession._random_sequence_id", "property"); ("_BaseSession._random_id", "property"); ("_BaseSession._join_hint_names", "property"); ("_BaseSession._is_bigquery", "property"); ("_BaseSession._is_databricks", "property"); ("_BaseSession._is_duckdb", "property"); ("_BaseSession._is_postgres", "property"); ("_BaseSession._is_redshift", "property"); ("_BaseSession._is_snowflake", "property"); ("_BaseSession._is_spark", "property"); ("_BaseSession._is_standalone", "property"); ("DuckDBSession._cur", "cached_property"); ("DuckDBSession._is_duckdb", "property")].
Definition inplace_builder_calls : list string := [].
Definition temp_object_names : list (string * string) := [("databricks/readwriter.DatabricksDataFrameWriter._write:tmp_table", "fresh"); ("spark/readwriter.SparkDataFrameReader.load:tmp_view_key", "fresh")].
