(* generated from /repo by translate/c09_facts.py -- do not edit *)
From Coq Require Import List String.
From SF Require Import C09.Lex C09.Values C09.Pipeline C09.Schema.
Import ListNotations.

Definition gen_infer_chain : chain ikind :=
  [([CRow], GAlways, KStruct);
   ([CDict], GAlways, KMap);
   ([CList; CSet; CTuple], GAlways, KArray);
   ([CBool], GAlways, KPrim TBool);
   ([CBytes], GAlways, KPrim TBinary);
   ([CInt], GAlways, KPrim TBigint);
   ([CFloat], GAlways, KPrim TDouble);
   ([CDatetime], GAlways, KDatetime);
   ([CDate], GAlways, KPrim TDate);
   ([CStr], GAlways, KPrim TString)].

Definition gen_lit_chain : chain lact :=
  [([CRow], GAlways, AStruct);
   ([CList; CSet], GAlways, AArray);
   ([CTuple], GAlways, ATuple);
   ([CDict], GAlways, AMap);
   ([CFloat], GNan, ANanCast TDouble);
   ([CFloat], GInf, AInfCast);
   ([CDatetime], GAlways, ATsCast);
   ([CStr], GNul, AStrNul)].

Definition gen_litfn_chain : chain fact :=
  [([CStr], GAlways, FStrNested);
   ([CFloat], GInf, FInfStr)].

Definition gen_tovalue_chain : chain vact :=
  [([CDict], GMapLike, VMap);
   ([CDict], GAlways, VRow);
   ([CList; CSet; CTuple], GTruthy, VList);
   ([CDatetime], GAlways, VStripTz);
   ([CDecimal], GAlways, VFloat)].

Definition gen_primitive_mapping : list (string * string) :=
  [("VARCHAR"%string, "VarcharType"%string);
   ("CHAR"%string, "CharType"%string);
   ("TEXT"%string, "StringType"%string);
   ("BINARY"%string, "BinaryType"%string);
   ("BOOLEAN"%string, "BooleanType"%string);
   ("INT"%string, "IntegerType"%string);
   ("BIGINT"%string, "LongType"%string);
   ("SMALLINT"%string, "ShortType"%string);
   ("TINYINT"%string, "ByteType"%string);
   ("FLOAT"%string, "FloatType"%string);
   ("DOUBLE"%string, "DoubleType"%string);
   ("DECIMAL"%string, "DecimalType"%string);
   ("DATETIME"%string, "TimestampType"%string);
   ("TIMESTAMP"%string, "TimestampType"%string);
   ("TIMESTAMPTZ"%string, "TimestampType"%string);
   ("TIMESTAMPLTZ"%string, "TimestampType"%string);
   ("TIMESTAMPNTZ"%string, "TimestampType"%string);
   ("DATE"%string, "DateType"%string);
   ("JSON"%string, "StringType"%string)].

Definition gen_cells_float_via_lit : bool := true.
Definition gen_sample_first_non_none : bool := true.
