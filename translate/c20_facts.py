"""T1 for C20: regenerate the facts the activate/deactivate model is parametric in (fail-closed).

Reads  sqlframe/__init__.py            ENGINE_TO_PREFIX, NAME_TO_FILE_OVERRIDE, the statement-by-statement shape of
                                       activate() (special names, Session->SparkSession rename, forced sub-module
                                       imports, whether ACTIVATE_CONFIG is reset), of deactivate() (what the re-import
                                       loop catches, whether ACTIVATE_CONFIG.clear() is protected) and of
                                       activate_context() (is deactivate() reached on the exceptional path)
       sqlframe/<engine>/__init__.py   names bound by each engine package, sub-modules loaded by importing it
       sqlframe/<engine>/              the *.py files
       sqlframe/<engine>/session.py    does Builder.session pass the stored kwargs; does the Builder import pyspark
       sqlframe/base/session.py        Builder.getOrCreate copies ACTIVATE_CONFIG, the conn key, _BaseSession.__new__
and emits Gen/C20Facts.v.  Every statement of the three functions must match a known shape; anything else raises
Untranslatable (reported by the check as a broken T1 tie).
"""
from __future__ import annotations

import ast
import os

from vlib import py2v
from vlib.core import strlit, listlit, boollit
from vlib.py2v import Untranslatable, dotted


# dialect names <-> identities used in the Coq terms (configuration values are compared as identities)
DIALECT_IDS = {"duckdb": 11, "spark": 12, "snowflake": 13, "bigquery": 14, "postgres": 15, "redshift": 16, "databricks": 17}
SLOTS = {"input_dialect": 0, "output_dialect": 1, "execution_dialect": 2}


def dump(node) -> str:
    return ast.dump(node, annotate_fields=True, include_attributes=False)


def stmt(src: str):
    return ast.parse(src).body[0]


def same(node, src: str) -> bool:
    return dump(node) == dump(stmt(src))


def strip_doc(body):
    return [s for s in body if not (isinstance(s, ast.Expr) and isinstance(s.value, ast.Constant)
                                    and isinstance(s.value.value, str))]


def str_dict(tree, name: str) -> list[tuple[str, str]]:
    for st in tree.body:
        if isinstance(st, ast.Assign) and len(st.targets) == 1 and dotted(st.targets[0]) == name:
            if not isinstance(st.value, ast.Dict):
                raise Untranslatable(f"{name} is not a dict literal")
            out = []
            for k, v in zip(st.value.keys, st.value.values):
                if not (isinstance(k, ast.Constant) and isinstance(k.value, str)
                        and isinstance(v, ast.Constant) and isinstance(v.value, str)):
                    raise Untranslatable(f"{name}: non-literal entry")
                out.append((k.value, v.value))
            if len(set(k for k, _ in out)) != len(out):
                raise Untranslatable(f"{name}: duplicate key")
            return out
    raise Untranslatable(f"{name} not found")


def top_func(tree, name: str) -> ast.FunctionDef:
    for st in tree.body:
        if isinstance(st, ast.FunctionDef) and st.name == name:
            return st
    raise Untranslatable(f"function {name} not found at module level")


def params(f: ast.FunctionDef) -> list[str]:
    a = f.args
    if a.vararg or a.kwarg or a.kwonlyargs or a.posonlyargs:
        raise Untranslatable(f"{f.name}: unexpected parameter kinds")
    return [x.arg for x in a.args]


# ---------------------------------------------------------------------------------------------------
# activate()

ACT_MANDATORY = [
    ("import_sqlframe", "import sqlframe"),
    ("import_testing", "from sqlframe import testing"),
    ("mock", "pyspark_mock = MagicMock()"),
    ("mock_file", 'pyspark_mock.__file__ = "pyspark"'),
    ("reg_top", 'sys.modules["pyspark"] = pyspark_mock'),
    ("mock_testing", "pyspark_mock.testing = testing"),
    ("reg_testing", 'sys.modules["pyspark.testing"] = testing'),
    ("store_conn", None),
    ("store_config", "for key, value in (config or {}).items():\n    ACTIVATE_CONFIG[key] = value"),
    ("no_engine", "if not engine:\n    return"),
    ("lower", "engine = engine.lower()"),
    ("check_engine", None),
    ("prefix", "prefix = ENGINE_TO_PREFIX[engine]"),
    ("import_pkg", 'engine_module = importlib.import_module(f"sqlframe.{engine}")'),
    ("reg_sql", 'sys.modules["pyspark.sql"] = engine_module'),
    ("mock_sql", "pyspark_mock.sql = engine_module"),
    ("copy_dict", "types = engine_module.__dict__.copy()"),
    ("resolved", "resolved_files = set()"),
    ("loop", None),
]


def _store_conn(st):
    """if conn: ACTIVATE_CONFIG["<key>"] = conn   -> key"""
    if not (isinstance(st, ast.If) and not st.orelse and dotted(st.test) == "conn" and len(st.body) == 1):
        return None
    a = st.body[0]
    if not (isinstance(a, ast.Assign) and len(a.targets) == 1 and isinstance(a.targets[0], ast.Subscript)
            and dotted(a.targets[0].value) == "ACTIVATE_CONFIG" and isinstance(a.targets[0].slice, ast.Constant)
            and isinstance(a.targets[0].slice.value, str) and dotted(a.value) == "conn"):
        return None
    return a.targets[0].slice.value


def _check_engine(st):
    """if engine not in ENGINE_TO_PREFIX: raise ValueError(...)"""
    return (isinstance(st, ast.If) and not st.orelse and len(st.body) == 1 and isinstance(st.body[0], ast.Raise)
            and dump(st.test) == dump(stmt("engine not in ENGINE_TO_PREFIX").value))


def _forced_import(st):
    """importlib.import_module(f"sqlframe.{engine}.<sub>")  (value discarded or bound to a throw-away name) -> sub"""
    call = None
    if isinstance(st, ast.Expr):
        call = st.value
    elif isinstance(st, ast.Assign) and len(st.targets) == 1 and isinstance(st.targets[0], ast.Name) \
            and st.targets[0].id.startswith("_"):
        call = st.value
    if not (isinstance(call, ast.Call) and dotted(call.func) == "importlib.import_module" and len(call.args) == 1
            and not call.keywords and isinstance(call.args[0], ast.JoinedStr)):
        return None
    js = call.args[0].values
    if not (len(js) == 3 and isinstance(js[0], ast.Constant) and js[0].value == "sqlframe."
            and isinstance(js[1], ast.FormattedValue) and dotted(js[1].value) == "engine"
            and isinstance(js[2], ast.Constant) and isinstance(js[2].value, str) and js[2].value.startswith(".")):
        return None
    sub = js[2].value[1:]
    if not sub.isidentifier():
        return None
    return sub


def _loop(st):
    """the registration loop -> (specials, rename_from, rename_to)"""
    if not (isinstance(st, ast.For) and not st.orelse and dump(st.target) == dump(stmt("name, obj = 0").targets[0])
            and dump(st.iter) == dump(stmt("types.items()").value) and len(st.body) == 1
            and isinstance(st.body[0], ast.If) and not st.body[0].orelse):
        raise Untranslatable("activate: registration loop header has another shape")
    cond = st.body[0].test
    if not (isinstance(cond, ast.BoolOp) and isinstance(cond.op, ast.Or) and len(cond.values) == 2
            and dump(cond.values[0]) == dump(stmt("name.startswith(prefix)").value)
            and isinstance(cond.values[1], ast.Compare) and dotted(cond.values[1].left) == "name"
            and len(cond.values[1].ops) == 1 and isinstance(cond.values[1].ops[0], ast.In)
            and isinstance(cond.values[1].comparators[0], (ast.List, ast.Tuple, ast.Set))):
        raise Untranslatable("activate: registration condition has another shape")
    specials = []
    for el in cond.values[1].comparators[0].elts:
        if not (isinstance(el, ast.Constant) and isinstance(el.value, str)):
            raise Untranslatable("activate: non-literal special name")
        specials.append(el.value)
    body = st.body[0].body
    if len(body) != 7:
        raise Untranslatable(f"activate: registration body has {len(body)} statements, expected 7")
    b0, b1, b2, b3, b4, b5, b6 = body
    if not same(b0, 'name_without_prefix = name.replace(prefix, "")'):
        raise Untranslatable("activate: prefix removal has another shape")
    if not (isinstance(b1, ast.If) and not b1.orelse and len(b1.body) == 1 and isinstance(b1.test, ast.Compare)
            and dotted(b1.test.left) == "name_without_prefix" and len(b1.test.ops) == 1
            and isinstance(b1.test.ops[0], ast.Eq) and isinstance(b1.test.comparators[0], ast.Constant)
            and isinstance(b1.body[0], ast.Assign) and dotted(b1.body[0].targets[0]) == "name_without_prefix"
            and isinstance(b1.body[0].value, ast.Constant)):
        raise Untranslatable("activate: Session rename has another shape")
    ren = (b1.test.comparators[0].value, b1.body[0].value.value)
    if not all(isinstance(x, str) for x in ren):
        raise Untranslatable("activate: rename constants are not strings")
    if not same(b2, "setattr(engine_module, name_without_prefix, obj)"):
        raise Untranslatable("activate: setattr on the engine package has another shape")
    if not same(b3, "file = NAME_TO_FILE_OVERRIDE.get(name_without_prefix, name_without_prefix).lower()"):
        raise Untranslatable("activate: file computation has another shape")
    if not same(b4, 'engine_file = importlib.import_module(f"sqlframe.{engine}.{file}")'):
        raise Untranslatable("activate: engine file import has another shape")
    if not same(b5, 'if engine_file not in resolved_files:\n    sys.modules[f"pyspark.sql.{file}"] = engine_file\n'
                    '    resolved_files.add(engine_file)'):
        raise Untranslatable("activate: sys.modules registration has another shape")
    if not same(b6, "setattr(engine_file, name_without_prefix, obj)"):
        raise Untranslatable("activate: setattr on the engine file has another shape")
    return specials, ren


# ---- canonicalisation of edits that cannot change behaviour -------------------------------------------------------
# Before the statement shapes are matched, a function is brought into the canonical spelling:
#   * docstrings, annotations, logging statements, `pass`, typing.cast are dropped (py2v's normaliser);
#   * `for ...: if not C: continue; REST`  ->  `for ...: if C: REST`;
#   * `x in NAME` where NAME is a module-level constant bound once to a literal list/tuple/set of strings -> the literal;
#   * `v = helper(name, prefix)` where helper is a module-level function whose (normalised) body is the prefix removal
#     followed by the Session rename -> those two statements, inlined;
#   * local variables are renamed to the canonical names by order of first binding.
# Anything else is left as it is and then has to match the shapes below (fail-closed).

ACT_LOCALS = ["pyspark_mock", "key", "value", "prefix", "engine_module", "types", "resolved_files", "name", "obj",
              "name_without_prefix", "file", "engine_file"]
DEACT_LOCALS = ["pyspark_imports", "k", "v"]


def module_str_constants(tree) -> dict:
    """module-level NAME = <literal list/tuple/set of strings>, bound exactly once and never rebound or mutated by name"""
    count, val = {}, {}
    for st in tree.body:
        tgts = []
        if isinstance(st, ast.Assign):
            tgts = [t for t in st.targets if isinstance(t, ast.Name)]
        elif isinstance(st, (ast.AnnAssign, ast.AugAssign)) and isinstance(st.target, ast.Name):
            tgts = [st.target]
        for tg in tgts:
            count[tg.id] = count.get(tg.id, 0) + 1
            v = getattr(st, "value", None)
            if isinstance(st, ast.Assign) and isinstance(v, (ast.List, ast.Tuple, ast.Set)) \
                    and all(isinstance(e, ast.Constant) and isinstance(e.value, str) for e in v.elts):
                val[tg.id] = v
    out = {k: v for k, v in val.items() if count.get(k) == 1}
    for n in ast.walk(tree):                       # NAME.append(...), NAME += ..., `global NAME`: not a constant
        if isinstance(n, ast.Global):
            for g in n.names:
                out.pop(g, None)
        if isinstance(n, ast.Attribute) and isinstance(n.value, ast.Name) and n.value.id in out \
                and n.attr in ("append", "extend", "insert", "remove", "pop", "clear", "add", "discard", "update", "sort", "reverse"):
            out.pop(n.value.id, None)
    return out


def _unprefix_helper(fn: ast.FunctionDef):
    """(from, to) if fn(name, prefix) is `x = name.replace(prefix, ""); if x == FROM: x = TO / return TO; return x`"""
    try:
        body = py2v.norm_body(fn, rename_locals=True, rename_params=True)
    except Untranslatable:
        return None
    if len(fn.args.args) != 2 or fn.args.vararg or fn.args.kwarg or fn.args.kwonlyargs or fn.args.defaults or fn.decorator_list:
        return None
    if len(body) != 3 or not same(body[0], '_v0 = _p0.replace(_p1, "")') or not same(body[2], "return _v0"):
        return None
    b1 = body[1]
    if not (isinstance(b1, ast.If) and not b1.orelse and len(b1.body) == 1 and isinstance(b1.test, ast.Compare)
            and dotted(b1.test.left) == "_v0" and len(b1.test.ops) == 1 and isinstance(b1.test.ops[0], ast.Eq)
            and isinstance(b1.test.comparators[0], ast.Constant) and isinstance(b1.test.comparators[0].value, str)):
        return None
    inner = b1.body[0]
    if isinstance(inner, ast.Return) and isinstance(inner.value, ast.Constant) and isinstance(inner.value.value, str):
        return b1.test.comparators[0].value, inner.value.value
    if isinstance(inner, ast.Assign) and dotted(inner.targets[0]) == "_v0" and isinstance(inner.value, ast.Constant) \
            and isinstance(inner.value.value, str):
        return b1.test.comparators[0].value, inner.value.value
    return None


def canonical_function(tree, fn: ast.FunctionDef, canon_locals: list, skip_local=lambda st: False) -> ast.FunctionDef:
    consts = module_str_constants(tree)
    helpers = py2v.module_helpers(tree)
    fn = py2v.normalize_func(fn, rename_locals=False)

    class C(ast.NodeTransformer):
        def visit_For(self, node):
            node = self.generic_visit(node)
            b = node.body
            if len(b) >= 2 and isinstance(b[0], ast.If) and not b[0].orelse and len(b[0].body) == 1 \
                    and isinstance(b[0].body[0], ast.Continue) and isinstance(b[0].test, ast.UnaryOp) \
                    and isinstance(b[0].test.op, ast.Not) \
                    and not any(isinstance(x, (ast.Continue, ast.Break)) for r in b[1:] for x in ast.walk(r)):
                node.body = [ast.If(test=b[0].test.operand, body=b[1:], orelse=[])]
            return node

        def visit_Compare(self, node):
            node = self.generic_visit(node)
            if len(node.ops) == 1 and isinstance(node.ops[0], (ast.In, ast.NotIn)) and isinstance(node.comparators[0], ast.Name) \
                    and node.comparators[0].id in consts:
                node.comparators = [ast.List(elts=list(consts[node.comparators[0].id].elts), ctx=ast.Load())]
            return node

    fn = C().visit(fn)

    def inline(stmts):
        out = []
        for st in stmts:
            for fld in ("body", "orelse", "finalbody"):
                if isinstance(getattr(st, fld, None), list) and not isinstance(st, ast.FunctionDef):
                    setattr(st, fld, inline(getattr(st, fld)))
            if isinstance(st, ast.Assign) and len(st.targets) == 1 and isinstance(st.targets[0], ast.Name) \
                    and isinstance(st.value, ast.Call) and isinstance(st.value.func, ast.Name) and st.value.func.id in helpers \
                    and len(st.value.args) == 2 and not st.value.keywords and all(isinstance(a, ast.Name) for a in st.value.args):
                ft = _unprefix_helper(helpers[st.value.func.id])
                if ft is not None:
                    v, a0, a1 = st.targets[0].id, st.value.args[0].id, st.value.args[1].id
                    out.append(stmt(f'{v} = {a0}.replace({a1}, "")'))
                    out.append(stmt(f"if {v} == {ft[0]!r}:\n    {v} = {ft[1]!r}"))
                    continue
            out.append(st)
        return out

    fn.body = inline(fn.body)
    # the canonical spelling of the registration condition uses a list
    for n in ast.walk(fn):
        if isinstance(n, ast.Compare) and len(n.ops) == 1 and isinstance(n.ops[0], ast.In) \
                and isinstance(n.comparators[0], (ast.Tuple, ast.Set)) \
                and all(isinstance(e, ast.Constant) and isinstance(e.value, str) for e in n.comparators[0].elts):
            n.comparators = [ast.List(elts=list(n.comparators[0].elts), ctx=ast.Load())]
    prm = {a.arg for a in fn.args.args}
    skip = set()
    for st in ast.walk(fn):
        if isinstance(st, ast.Assign) and skip_local(st):
            skip |= {t.id for t in st.targets if isinstance(t, ast.Name)}
    locs = [n for n in py2v._local_names(fn, prm) if n not in skip]
    if len(locs) != len(canon_locals):
        raise Untranslatable(f"{fn.name}: {len(locs)} local variables {locs}, the modelled function has {len(canon_locals)}")
    rename = dict(zip(locs, canon_locals))
    fn = py2v._Normaliser(rename).visit(fn)
    ast.fix_missing_locations(fn)
    return fn


def activate_facts(tree, src):
    f0 = top_func(tree, "activate")
    if params(f0) != ["engine", "conn", "config"]:
        raise Untranslatable("activate: parameters changed")
    f = canonical_function(tree, f0, ACT_LOCALS, skip_local=lambda st: _forced_import(st) is not None)
    f.lineno = f0.lineno
    body = strip_doc(f.body)
    i = 0
    out = {"forced": [], "reset": False}
    for st in body:
        if i >= len(ACT_MANDATORY):
            raise Untranslatable(f"activate: unexpected statement after the registration loop (line {st.lineno})")
        key, tmpl = ACT_MANDATORY[i]
        ok = False
        if tmpl is not None:
            ok = same(st, tmpl)
        elif key == "store_conn":
            k = _store_conn(st)
            if k is not None:
                out["conn_key"] = k
                ok = True
        elif key == "check_engine":
            ok = _check_engine(st)
        elif key == "loop":
            if isinstance(st, ast.For):
                out["specials"], out["rename"] = _loop(st)
                ok = True
        if ok:
            i += 1
            continue
        # optional statements, each only where it has the modelled meaning
        names_done = [k for k, _ in ACT_MANDATORY[:i]]
        if same(st, "ACTIVATE_CONFIG.clear()") and "store_conn" not in names_done:
            out["reset"] = True
            continue
        sub = _forced_import(st)
        if sub is not None and "import_pkg" in names_done and "copy_dict" not in names_done:
            out["forced"].append(sub)
            continue
        raise Untranslatable(f"activate: a statement matches no known shape (expected `{key}`): "
                             f"{ast.unparse(st)[:80]!r}")
    if i != len(ACT_MANDATORY):
        raise Untranslatable(f"activate: statement `{ACT_MANDATORY[i][0]}` is missing")
    out["hash"] = py2v.norm_hash(f0)
    out["line"] = f0.lineno
    return out


# ---------------------------------------------------------------------------------------------------
# deactivate()

def deactivate_facts(tree, src):
    f0 = top_func(tree, "deactivate")
    if params(f0):
        raise Untranslatable("deactivate: parameters changed")
    f = py2v.normalize_func(f0, rename_locals=False)      # noise stripped; local names are captured below, not fixed
    f.lineno = f0.lineno
    body = strip_doc(f.body)
    clear_first = clear_last = in_finally = False
    if body and same(body[0], "ACTIVATE_CONFIG.clear()"):
        clear_first = True
        body = body[1:]
    if body and same(body[-1], "ACTIVATE_CONFIG.clear()"):
        clear_last = True
        body = body[:-1]
    if len(body) == 1 and isinstance(body[0], ast.Try) and not body[0].handlers and not body[0].orelse \
            and len(body[0].finalbody) == 1 and same(body[0].finalbody[0], "ACTIVATE_CONFIG.clear()"):
        in_finally = True
        body = body[0].body
    if not (clear_first or clear_last or in_finally):
        raise Untranslatable("deactivate: ACTIVATE_CONFIG.clear() not found where expected")
    if len(body) != 3:
        raise Untranslatable(f"deactivate: expected collect / delete / re-import, found {len(body)} statements")
    s0, s1, s2 = body
    # s0: L = [x for x in sys.modules if x.startswith("pyspark")]   (L, x: any names)
    if not (isinstance(s0, ast.Assign) and len(s0.targets) == 1 and isinstance(s0.targets[0], ast.Name)
            and isinstance(s0.value, ast.ListComp) and len(s0.value.generators) == 1
            and isinstance(s0.value.generators[0].target, ast.Name)):
        raise Untranslatable("deactivate: collection of the pyspark keys has another shape")
    L, x = s0.targets[0].id, s0.value.generators[0].target.id
    if L == x or not same(s0, f'{L} = [{x} for {x} in sys.modules if {x}.startswith("pyspark")]'):
        raise Untranslatable("deactivate: collection of the pyspark keys has another shape")
    # s1: every collected key is deleted -- by filtering a copy of sys.modules with the list, or by walking the list itself
    #     (the list was computed from sys.modules in the statement before: every key is present, exactly once)
    ok1 = False
    if isinstance(s1, ast.For) and not s1.orelse:
        tg = s1.target
        if isinstance(tg, ast.Tuple) and len(tg.elts) == 2 and all(isinstance(e, ast.Name) for e in tg.elts):
            a, b = tg.elts[0].id, tg.elts[1].id
            ok1 = len({a, b, L}) == 3 and same(s1, f"for {a}, {b} in sys.modules.copy().items():\n    if {a} in {L}:\n"
                                                   f"        del sys.modules[{a}]")
        elif isinstance(tg, ast.Name):
            a = tg.id
            ok1 = a != L and same(s1, f"for {a} in {L}:\n    del sys.modules[{a}]")
    if not ok1:
        raise Untranslatable("deactivate: deletion loop has another shape")
    if not (isinstance(s2, ast.For) and not s2.orelse and isinstance(s2.target, ast.Name) and s2.target.id != L
            and dotted(s2.iter) == L and len(s2.body) == 1 and isinstance(s2.body[0], ast.Try)):
        raise Untranslatable("deactivate: re-import loop has another shape")
    k = s2.target.id
    tr = s2.body[0]
    if not (len(tr.body) == 1 and same(tr.body[0], f"sys.modules[{k}] = importlib.import_module({k})")
            and not tr.orelse and not tr.finalbody and len(tr.handlers) == 1
            and len(tr.handlers[0].body) == 1 and isinstance(tr.handlers[0].body[0], ast.Pass)):
        raise Untranslatable("deactivate: try/except in the re-import loop has another shape")
    h = tr.handlers[0].type
    hn = None if h is None else dotted(h)
    if hn in ("ImportError", "ModuleNotFoundError"):
        catch = "CatchImportError"
    elif h is None or hn in ("Exception", "BaseException"):
        catch = "CatchAll"
    else:
        raise Untranslatable(f"deactivate: handler type {hn!r} not understood")
    return {"catch": catch, "protected": clear_first or in_finally, "hash": py2v.norm_hash(f0), "line": f0.lineno}


# ---------------------------------------------------------------------------------------------------
# activate_context()

def context_facts(tree, src):
    f = top_func(tree, "activate_context")
    if params(f) != ["engine", "conn", "config"]:
        raise Untranslatable("activate_context: parameters changed")
    if [dotted(d) for d in f.decorator_list] != ["contextmanager"]:
        raise Untranslatable("activate_context: decorators changed")
    body = strip_doc(py2v.norm_body(f, rename_locals=False))
    act, yld, deact = "activate(engine, conn, config)", "yield", "deactivate()"

    def is_try_finally(t, inner):
        return (isinstance(t, ast.Try) and not t.handlers and not t.orelse and len(t.finalbody) == 1
                and same(t.finalbody[0], deact) and len(t.body) == len(inner)
                and all(same(a, b) for a, b in zip(t.body, inner)))

    if len(body) == 3 and same(body[0], act) and same(body[1], yld) and same(body[2], deact):
        fin = False
    elif len(body) == 2 and same(body[0], act) and is_try_finally(body[1], [yld]):
        fin = True
    elif len(body) == 1 and is_try_finally(body[0], [act, yld]):
        fin = True
    else:
        raise Untranslatable("activate_context: body matches no known shape")
    return {"finally": fin, "hash": py2v.src_hash(f, src), "line": f.lineno}


# ---------------------------------------------------------------------------------------------------
# engine packages

def module_level_stmts(body):
    """statements executed when the module is imported (not inside def/lambda; TYPE_CHECKING blocks skipped)"""
    for st in body:
        if isinstance(st, (ast.FunctionDef, ast.AsyncFunctionDef)):
            continue
        if isinstance(st, ast.If):
            t = dotted(st.test)
            if t in ("t.TYPE_CHECKING", "TYPE_CHECKING", "typing.TYPE_CHECKING"):
                yield from module_level_stmts(st.orelse)
                continue
            yield from module_level_stmts(st.body)
            yield from module_level_stmts(st.orelse)
            continue
        if isinstance(st, ast.Try):
            yield from module_level_stmts(st.body)
            for h in st.handlers:
                yield from module_level_stmts(h.body)
            yield from module_level_stmts(st.orelse)
            yield from module_level_stmts(st.finalbody)
            continue
        if isinstance(st, (ast.With, ast.For, ast.While)):
            yield from module_level_stmts(st.body)
            continue
        if isinstance(st, ast.ClassDef):
            yield from module_level_stmts(st.body)
            continue
        yield st


def engine_subs_imported(tree, engine: str, files: set[str]) -> list[str]:
    pre = f"sqlframe.{engine}"
    out = []
    for st in module_level_stmts(tree.body):
        if isinstance(st, ast.ImportFrom) and st.level == 0 and st.module:
            if st.module.startswith(pre + "."):
                out.append(st.module[len(pre) + 1:].split(".")[0])
            elif st.module == pre:
                out += [a.name for a in st.names if a.name in files]
        elif isinstance(st, ast.ImportFrom) and st.level > 0:
            raise Untranslatable(f"relative import in sqlframe.{engine}")
        elif isinstance(st, ast.Import):
            for a in st.names:
                if a.name.startswith(pre + "."):
                    out.append(a.name[len(pre) + 1:].split(".")[0])
    return out


def package_facts(repo: str, engine: str):
    d = os.path.join(repo, "sqlframe", engine)
    init = os.path.join(d, "__init__.py")
    if not os.path.isfile(init):
        raise Untranslatable(f"sqlframe/{engine}/__init__.py missing")
    files = sorted(f[:-3] for f in os.listdir(d) if f.endswith(".py") and f != "__init__.py")
    tree, src = py2v.load(init)
    names, direct = [], []
    for st in strip_doc(tree.body):
        if isinstance(st, ast.ImportFrom) and st.level == 0 and st.module and st.module.startswith(f"sqlframe.{engine}."):
            sub = st.module[len(f"sqlframe.{engine}."):]
            if "." in sub or sub not in files:
                raise Untranslatable(f"sqlframe/{engine}/__init__.py imports from unknown sub-module {sub}")
            direct.append(sub)
            for a in st.names:
                if a.name == "*":
                    raise Untranslatable(f"sqlframe/{engine}/__init__.py: star import")
                names.append(a.asname or a.name)
        elif isinstance(st, ast.Assign) and len(st.targets) == 1 and dotted(st.targets[0]) == "__all__":
            continue
        elif isinstance(st, ast.ImportFrom) and st.module == "__future__":
            continue
        else:
            raise Untranslatable(f"sqlframe/{engine}/__init__.py: statement at line {st.lineno} not understood")
    # sub-modules loaded transitively when the package is imported
    loaded, todo = [], list(direct)
    while todo:
        sub = todo.pop(0)
        if sub in loaded:
            continue
        loaded.append(sub)
        p = os.path.join(d, sub + ".py")
        t2, _ = py2v.load(p)
        for s2 in engine_subs_imported(t2, engine, set(files)):
            if s2 not in files:
                raise Untranslatable(f"sqlframe/{engine}/{sub}.py imports unknown sub-module {s2}")
            if s2 not in loaded:
                todo.append(s2)
    return {"names": names, "init": loaded, "files": files, "hash": py2v.src_hash(tree, src) if False else
            __import__("hashlib").sha1(src.encode()).hexdigest()[:12]}


def engine_session_facts(repo: str, engine: str):
    """(takes_conn, selfref, cached) from sqlframe/<engine>/session.py"""
    p = os.path.join(repo, "sqlframe", engine, "session.py")
    tree, src = py2v.load(p)
    builders = [n for n in ast.walk(tree) if isinstance(n, ast.ClassDef) and n.name == "Builder"]
    if len(builders) != 1:
        raise Untranslatable(f"sqlframe/{engine}/session.py: expected exactly one Builder class")
    b = builders[0]
    sess = [n for n in b.body if isinstance(n, ast.FunctionDef) and n.name == "session"]
    if len(sess) != 1:
        raise Untranslatable(f"sqlframe/{engine}/session.py: Builder.session not found")
    decos = [dotted(d) for d in sess[0].decorator_list]
    if decos == ["property"]:
        cached = False
    elif decos in (["cached_property"], ["functools.cached_property"]):
        cached = True
    else:
        raise Untranslatable(f"sqlframe/{engine}/session.py: Builder.session decorators {decos} not understood")
    rets = [n for n in ast.walk(sess[0]) if isinstance(n, ast.Return)]
    if len(rets) != 1 or not isinstance(rets[0].value, ast.Call):
        raise Untranslatable(f"sqlframe/{engine}/session.py: Builder.session has another shape")
    call = rets[0].value
    if call.args:
        raise Untranslatable(f"sqlframe/{engine}/session.py: Builder.session passes positional arguments")
    if not call.keywords:
        takes = False
    elif len(call.keywords) == 1 and call.keywords[0].arg is None and dotted(call.keywords[0].value) == "self._session_kwargs":
        takes = True
    else:
        raise Untranslatable(f"sqlframe/{engine}/session.py: Builder.session keyword arguments not understood")
    selfref = False
    for fn in ast.walk(b):
        if isinstance(fn, ast.FunctionDef):
            for n in ast.walk(fn):
                if isinstance(n, ast.ImportFrom) and n.module and n.module.split(".")[0] == "pyspark":
                    selfref = True
                if isinstance(n, ast.Import) and any(a.name.split(".")[0] == "pyspark" for a in n.names):
                    selfref = True
    return takes, selfref, cached


def base_session_facts(repo: str):
    p = os.path.join(repo, "sqlframe", "base", "session.py")
    tree, src = py2v.load(p)
    cls = py2v.find_class(tree, "_BaseSession")
    new = [n for n in cls.body if isinstance(n, ast.FunctionDef) and n.name == "__new__"]
    if len(new) != 1:
        raise Untranslatable("_BaseSession.__new__ not found")
    body = strip_doc(new[0].body)
    g0 = "if _BaseSession._instance is None:\n    _BaseSession._instance = super().__new__(cls)"
    g1 = ("if _BaseSession._instance is None or not isinstance(_BaseSession._instance, cls):\n"
          "    _BaseSession._instance = super().__new__(cls)")
    if len(body) == 2 and same(body[1], "return _BaseSession._instance") and same(body[0], g0):
        glob = True
    elif len(body) == 2 and same(body[1], "return _BaseSession._instance") and same(body[0], g1):
        glob = False
    else:
        raise Untranslatable("_BaseSession.__new__ matches no known shape")
    builder = [n for n in cls.body if isinstance(n, ast.ClassDef) and n.name == "Builder"]
    if len(builder) != 1:
        raise Untranslatable("_BaseSession.Builder not found")
    b = builder[0]
    consts = {}
    for st in b.body:
        if isinstance(st, ast.Assign) and len(st.targets) == 1 and isinstance(st.targets[0], ast.Name) \
                and isinstance(st.value, ast.Constant) and isinstance(st.value.value, str):
            consts[st.targets[0].id] = st.value.value
    if "SQLFRAME_CONN_KEY" not in consts:
        raise Untranslatable("Builder.SQLFRAME_CONN_KEY not found")
    goc = [n for n in b.body if isinstance(n, ast.FunctionDef) and n.name == "getOrCreate"]
    if len(goc) != 1:
        raise Untranslatable("Builder.getOrCreate not found")
    gb = strip_doc(goc[0].body)
    want = ["from sqlframe import ACTIVATE_CONFIG",
            "for k, v in ACTIVATE_CONFIG.items():\n    self._set_config(k, v)",
            "self._set_session_properties()",
            "return self.session"]
    if len(gb) != len(want) or not all(same(a, w) for a, w in zip(gb, want)):
        raise Untranslatable("Builder.getOrCreate matches no known shape")
    sc = [n for n in b.body if isinstance(n, ast.FunctionDef) and n.name == "_set_config"]
    if len(sc) != 1:
        raise Untranslatable("Builder._set_config not found")
    chain, mapkeys = set_config_facts(sc[0], consts)
    if (consts["SQLFRAME_CONN_KEY"], 3) not in chain or dict(chain).get(consts["SQLFRAME_CONN_KEY"]) != 3:
        raise Untranslatable("Builder._set_config no longer routes SQLFRAME_CONN_KEY to the session's conn argument")
    # __init__: the three dialect attributes start from the DEFAULT_* class constants
    init = [n for n in b.body if isinstance(n, ast.FunctionDef) and n.name == "__init__"]
    if len(init) != 1:
        raise Untranslatable("Builder.__init__ not found")
    for attr in SLOTS:
        want = f"self.{attr} = self.DEFAULT_{attr.upper()}"
        if not any(same(st, want) for st in init[0].body):
            raise Untranslatable(f"Builder.__init__ no longer starts {attr} from DEFAULT_{attr.upper()}")
    ssp = [n for n in b.body if isinstance(n, ast.FunctionDef) and n.name == "_set_session_properties"]
    if len(ssp) != 1:
        raise Untranslatable("Builder._set_session_properties not found")
    body = strip_doc(ssp[0].body)
    for attr in SLOTS:
        want = f"self.session.{attr} = Dialect.get_or_raise(self.{attr})"
        if sum(1 for st in body if same(st, want)) != 1:
            raise Untranslatable(f"_set_session_properties no longer copies the Builder's {attr} onto the session")
    for st in body:
        if isinstance(st, ast.Assign) and not any(same(st, f"self.session.{a} = Dialect.get_or_raise(self.{a})") for a in SLOTS):
            raise Untranslatable("_set_session_properties: unexpected assignment")
    defaults = {k: v for k, v in consts.items() if k.startswith("DEFAULT_")}
    return {"singleton_global": glob, "builder_conn_key": consts["SQLFRAME_CONN_KEY"], "chain": chain, "mapkeys": mapkeys,
            "defaults": defaults,
            "hash": py2v.src_hash(new[0], src) + "/" + py2v.src_hash(goc[0], src) + "/" + py2v.src_hash(sc[0], src)}


def set_config_facts(fn: ast.FunctionDef, consts: dict):
    """Builder._set_config -> (chain, mapkeys).
    chain:   the `if value is not None:` block must be ONE if/elif chain of `key == self.<CONST>` tests ending in an else
             that stores an opaque kwarg; each branch is one assignment to self.<dialect attr> or self._session_kwargs[...].
             Result: [(key string, slot)] in chain order (the model takes the first match, as Python does).
    mapkeys: the `if map:` block must be a sequence of `if self.<CONST> in map: <target> = map[self.<CONST>]`."""
    body = strip_doc(fn.body)
    if len(body) != 2 or not all(isinstance(x, ast.If) and not x.orelse for x in body):
        raise Untranslatable("_set_config: expected `if value is not None:` and `if map:`")
    b0, b1 = body
    if dump(b0.test) != dump(stmt("value is not None").value) or dotted(b1.test) != "map":
        raise Untranslatable("_set_config: guards changed")

    def const_key(node):
        d = dotted(node)
        if not d or not d.startswith("self.") or d[5:] not in consts:
            raise Untranslatable(f"_set_config: key {d} is not a Builder constant")
        return consts[d[5:]]

    def target_slot(tgt, valsrc):
        d = dotted(tgt)
        if d and d.startswith("self.") and d[5:] in SLOTS:
            return SLOTS[d[5:]]
        if isinstance(tgt, ast.Subscript) and dotted(tgt.value) == "self._session_kwargs" and isinstance(tgt.slice, ast.Constant):
            return {"conn": 3, "schema": 4}.get(tgt.slice.value, 9)
        raise Untranslatable("_set_config: assignment target not understood")

    chain = []
    if len(b0.body) != 1 or not isinstance(b0.body[0], ast.If):
        raise Untranslatable("_set_config: single-key block is not one if/elif chain")
    node = b0.body[0]
    while True:
        t = node.test
        if not (isinstance(t, ast.Compare) and dotted(t.left) == "key" and len(t.ops) == 1 and isinstance(t.ops[0], ast.Eq)):
            raise Untranslatable("_set_config: chain test is not `key == self.<CONST>`")
        k = const_key(t.comparators[0])
        if len(node.body) != 1 or not isinstance(node.body[0], ast.Assign) or dotted(node.body[0].value) != "value":
            raise Untranslatable("_set_config: chain branch is not a single `<target> = value`")
        chain.append((k, target_slot(node.body[0].targets[0], "value")))
        if len(node.orelse) == 1 and isinstance(node.orelse[0], ast.If):
            node = node.orelse[0]
            continue
        if not (len(node.orelse) == 1 and same(node.orelse[0], "self._session_kwargs[key] = value")):
            raise Untranslatable("_set_config: final else of the chain changed")
        break
    mapkeys = []
    for st in b1.body:
        if not (isinstance(st, ast.If) and not st.orelse and isinstance(st.test, ast.Compare) and len(st.test.ops) == 1
                and isinstance(st.test.ops[0], ast.In) and dotted(st.test.comparators[0]) == "map"
                and len(st.body) == 1 and isinstance(st.body[0], ast.Assign)
                and isinstance(st.body[0].value, ast.Subscript) and dotted(st.body[0].value.value) == "map"):
            raise Untranslatable("_set_config: map block statement not understood")
        k = const_key(st.test.left)
        if const_key(st.body[0].value.slice) != k:
            raise Untranslatable("_set_config: map block reads another key than it tests")
        mapkeys.append((k, target_slot(st.body[0].targets[0], "map")))
    return chain, mapkeys


def builder_defaults(repo: str, engine: str, base_defaults: dict):
    """DEFAULT_*_DIALECT of the engine's Builder (class constants override the base Builder's)"""
    p = os.path.join(repo, "sqlframe", engine, "session.py")
    tree, _ = py2v.load(p)
    b = [n for n in ast.walk(tree) if isinstance(n, ast.ClassDef) and n.name == "Builder"][0]
    d = dict(base_defaults)
    for st in b.body:
        if isinstance(st, ast.Assign) and len(st.targets) == 1 and isinstance(st.targets[0], ast.Name) \
                and st.targets[0].id.startswith("DEFAULT_"):
            if not (isinstance(st.value, ast.Constant) and isinstance(st.value.value, str)):
                raise Untranslatable(f"sqlframe/{engine}/session.py: {st.targets[0].id} is not a string literal")
            d[st.targets[0].id] = st.value.value
        for fn in ("_set_config", "_set_session_properties"):
            if isinstance(st, ast.FunctionDef) and st.name == fn:
                raise Untranslatable(f"sqlframe/{engine}/session.py overrides Builder.{fn}")
    out = []
    for a in ("DEFAULT_INPUT_DIALECT", "DEFAULT_OUTPUT_DIALECT", "DEFAULT_EXECUTION_DIALECT"):
        if d.get(a) not in DIALECT_IDS:
            raise Untranslatable(f"sqlframe/{engine}: {a} = {d.get(a)!r} is not a known dialect name")
        out.append(DIALECT_IDS[d[a]])
    return out


# ---------------------------------------------------------------------------------------------------

def assoc_lit(pairs):
    return listlit([f"({strlit(k)}, {strlit(v)})" for k, v in pairs])


def assoc_list_lit(pairs):
    return listlit([f"({strlit(k)}, {listlit([strlit(x) for x in v])})" for k, v in pairs])


def generate(repo: str):
    p = os.path.join(repo, "sqlframe", "__init__.py")
    tree, src = py2v.load(p)
    engines = str_dict(tree, "ENGINE_TO_PREFIX")
    override = str_dict(tree, "NAME_TO_FILE_OVERRIDE")
    act = activate_facts(tree, src)
    deact = deactivate_facts(tree, src)
    cx = context_facts(tree, src)
    bs = base_session_facts(repo)
    if bs["builder_conn_key"] != act["conn_key"]:
        raise Untranslatable(f"activate stores the connection under {act['conn_key']!r} but the Builder reads "
                             f"{bs['builder_conn_key']!r}")
    pk = {e: package_facts(repo, e) for e, _ in engines}
    noconn, selfref, cached = [], [], []
    for e, _ in engines:
        takes, sr, ca = engine_session_facts(repo, e)
        if not takes:
            noconn.append(e)
        if sr:
            selfref.append(e)
        if ca:
            cached.append(e)
    dfl = {e: builder_defaults(repo, e, bs["defaults"]) for e, _ in engines}
    text = "\n".join([
        "(* generated by translate/c20_facts.py from " + repo + " -- do not edit *)",
        "From SF Require Import C20.Activate.",
        "Definition gen_facts : facts := mkFacts",
        "  " + assoc_lit(engines),
        "  " + assoc_lit(override),
        "  " + listlit([strlit(x) for x in act["specials"]]),
        f"  ({strlit(act['rename'][0])}, {strlit(act['rename'][1])})",
        "  " + assoc_list_lit([(e, pk[e]["names"]) for e, _ in engines]),
        "  " + assoc_list_lit([(e, pk[e]["init"]) for e, _ in engines]),
        "  " + assoc_list_lit([(e, pk[e]["files"]) for e, _ in engines]),
        "  " + listlit([strlit(x) for x in act["forced"]]),
        "  " + boollit(act["reset"]),
        "  " + strlit(act["conn_key"]),
        "  " + boollit(cx["finally"]),
        "  " + deact["catch"],
        "  " + boollit(deact["protected"]),
        "  " + boollit(bs["singleton_global"]),
        "  " + listlit([strlit(x) for x in noconn]),
        "  " + listlit([strlit(x) for x in selfref]),
        "  " + listlit([strlit(x) for x in cached]),
        "  " + listlit([f"({strlit(k)}, {i})" for k, i in bs["chain"]]),
        "  " + listlit([f"({strlit(k)}, {i})" for k, i in bs["mapkeys"]]),
        "  " + listlit([f"({strlit(e)}, ({dfl[e][0]}, ({dfl[e][1]}, {dfl[e][2]})))" for e, _ in engines]) + ".",
        "",
    ])
    loc = "sqlframe/__init__.py"
    facts = [
        {"name": "ENGINE_TO_PREFIX", "source": loc, "value": dict(engines)},
        {"name": "NAME_TO_FILE_OVERRIDE", "source": loc, "value": dict(override)},
        {"name": "activate: specials/rename/forced/reset/conn_key", "source": f"{loc}:{act['line']}", "hash": act["hash"],
         "value": {k: act[k] for k in ("specials", "rename", "forced", "reset", "conn_key")}},
        {"name": "deactivate: catch/protected", "source": f"{loc}:{deact['line']}", "hash": deact["hash"],
         "value": {"catch": deact["catch"], "clear_protected": deact["protected"]}},
        {"name": "activate_context: finally", "source": f"{loc}:{cx['line']}", "hash": cx["hash"], "value": cx["finally"]},
        {"name": "_BaseSession.__new__/Builder.getOrCreate", "source": "sqlframe/base/session.py", "hash": bs["hash"],
         "value": {"singleton_global": bs["singleton_global"], "conn_key": bs["builder_conn_key"]}},
        {"name": "Builder._set_config chain / map block / default dialects", "source": "sqlframe/base/session.py",
         "value": {"chain": bs["chain"], "mapkeys": bs["mapkeys"], "defaults": dfl}},
        {"name": "Builder.session per engine", "source": "sqlframe/<engine>/session.py",
         "value": {"noconn": noconn, "selfref": selfref, "cached_session": cached}},
    ] + [{"name": f"package sqlframe.{e}", "source": f"sqlframe/{e}/__init__.py", "hash": pk[e]["hash"],
          "value": {"names": pk[e]["names"], "loaded_on_import": pk[e]["init"], "files": pk[e]["files"]}}
         for e, _ in engines]
    info = {"engines": [e for e, _ in engines], "prefix": dict(engines), "noconn": noconn, "selfref": selfref, "cached": cached,
            "ctx_finally": cx["finally"], "catch": deact["catch"], "clear_protected": deact["protected"],
            "forced": act["forced"], "reset": act["reset"], "singleton_global": bs["singleton_global"],
            "chain": bs["chain"], "mapkeys": bs["mapkeys"], "defaults": dfl,
            "conn_key": act["conn_key"], "files": {e: pk[e]["files"] for e, _ in engines}}
    return text, facts, info


if __name__ == "__main__":
    import sys
    t, f, i = generate(sys.argv[1] if len(sys.argv) > 1 else "/repo")
    print(t)
