(* GENERATED from /repo on every run by translate/c10_facts.py -- do not edit *)
From SF Require Import C10.Model.
From Coq Require Import ZArith.

Definition rank (k : opk) : Z := match k with INIT => (-1)%Z | NO_OP => (0)%Z | FROM => (1)%Z | WHERE => (2)%Z | GROUP_BY => (3)%Z | HAVING => (4)%Z | SELECT => (5)%Z | ORDER_BY => (6)%Z | LIMIT => (7)%Z end.
Definition opk_ltb a b := Z.ltb (rank a) (rank b).
Definition opk_leb a b := Z.leb (rank a) (rank b).
Definition opk_gtb a b := Z.gtb (rank a) (rank b).
Definition opk_geb a b := Z.geb (rank a) (rank b).
Definition wrap_needed_df (last_op new_op : opk) : bool := (orb (opk_ltb new_op last_op) (andb (opk_eqb last_op new_op) (opk_eqb new_op SELECT))).
Definition wrap_needed_group (last_op new_op : opk) : bool := (orb (opk_ltb new_op last_op) (andb (opk_eqb last_op new_op) (opk_eqb new_op SELECT))).
Definition new_kind_df (op last_op : opk) : opk := (if (negb (opk_eqb op NO_OP)) then op else last_op).
Definition new_kind_group (op last_op : opk) : opk := (if (negb (opk_eqb op NO_OP)) then op else last_op).
Definition gen_rec_of (m : meth) : rkind := match m with MCreate => RCopy | MSelect => RCopy | MWithColumn => RCopy | MWithColumnRenamed => RCopy | MToDF => RCopy | MDrop => RNone | MGroupBy => RNone | MGroupAgg => RCopy | MAgg => RCopy | MJoin => RNone | MFillna => RNone | MDropna => RNone | MDropDuplicates => RNone | MWhere => RNone | MOrderBy => RNone | MLimit => RNone | MDistinct => RNone end.
Definition gen_resel_of (m : meth) : rsel := match m with MCreate => SelPrivate | MSelect => SelPrivate | MWithColumn => SelPrivate | MWithColumnRenamed => SelPrivate | MToDF => SelPrivate | MDrop => SelPrivate | MGroupBy => SelPrivate | MGroupAgg => SelPrivate | MAgg => SelPrivate | MJoin => SelPrivate | MFillna => SelPrivate | MDropna => SelPrivate | MDropDuplicates => SelPrivate | MWhere => SelPrivate | MOrderBy => SelPrivate | MLimit => SelPrivate | MDistinct => SelPrivate end.
Definition gen_kind_of (m : meth) : option opk := match m with MCreate => None | MSelect => Some SELECT | MWithColumn => Some SELECT | MWithColumnRenamed => Some SELECT | MToDF => Some SELECT | MDrop => Some SELECT | MGroupBy => Some GROUP_BY | MGroupAgg => None | MAgg => Some SELECT | MJoin => Some FROM | MFillna => Some SELECT | MDropna => Some FROM | MDropDuplicates => Some SELECT | MWhere => Some WHERE | MOrderBy => Some ORDER_BY | MLimit => Some LIMIT | MDistinct => Some SELECT end.
Definition gen_cfg : cfg := mkCfg gen_rec_of gen_resel_of gen_kind_of wrap_needed_df new_kind_df true wrap_needed_group new_kind_group true (Some SELECT) true true false true true true true true true true true true true.

