"""T1 for C09: regenerate the isinstance dispatch chains and the type table from /repo (fail-closed).

Reads
  sqlframe/base/session.py    createDataFrame.get_default_data_type (first-row type inference),
                              _BaseSession._to_value / _to_row
  sqlframe/duckdb/session.py  DuckDBSession._try_get_map
  sqlframe/base/types.py      _create_row
  sqlframe/base/column.py     Column.__init__, Column._lit
  sqlframe/base/functions.py  lit
  sqlframe/base/util.py       sqlglot_to_spark.primitive_mapping (+ shape of the container branches)
and emits Gen/C09Facts.v:  gen_infer_chain, gen_lit_chain, gen_litfn_chain, gen_tovalue_chain, gen_primitive_mapping.

A chain is the ORDER of the `if isinstance(...)` tests with, per test, the classes, an extra guard and an action tag.
The action tag of a branch is recognised by comparing the branch body, after alpha-renaming of local names, with
the body the Coq handler models; any other body, test, or statement raises Untranslatable (never a guess).
"""
from __future__ import annotations

import ast
import os

from vlib import py2v
from vlib.py2v import Untranslatable, dotted

CLS = {"Row": "CRow", "dict": "CDict", "list": "CList", "set": "CSet", "tuple": "CTuple", "bool": "CBool",
       "bytes": "CBytes", "int": "CInt", "float": "CFloat", "datetime.datetime": "CDatetime",
       "datetime.date": "CDate", "str": "CStr", "Decimal": "CDecimal"}
PRIM = {"boolean": "TBool", "binary": "TBinary", "bigint": "TBigint", "double": "TDouble", "date": "TDate",
        "string": "TString"}


# ---- helpers ------------------------------------------------------------------------------------

def _pure(n) -> bool:
    """an expression that cannot have side effects or raise on the values the modelled functions see: names, attributes,
    constants, isinstance(...), not/and/or, comparisons"""
    for x in ast.walk(n):
        if isinstance(x, ast.Call):
            if dotted(x.func) != "isinstance":
                return False
        elif not isinstance(x, (ast.Name, ast.Attribute, ast.Constant, ast.UnaryOp, ast.Not, ast.BoolOp, ast.And, ast.Or,
                                ast.Compare, ast.Is, ast.IsNot, ast.Eq, ast.NotEq, ast.Tuple, ast.Load)):
            return False
    return True


class _Equiv(ast.NodeTransformer):
    """spellings with the same value, brought to one form:
       len([e for x in it if c]) > 0   ==   any(c for x in it)          (c pure)
       not all(c for x in it)          ==   any(not c for x in it)      (c pure)"""

    def visit_Compare(self, n):
        n = self.generic_visit(n)
        if len(n.ops) == 1 and isinstance(n.ops[0], ast.Gt) and isinstance(n.comparators[0], ast.Constant) \
                and n.comparators[0].value == 0 and isinstance(n.left, ast.Call) and dotted(n.left.func) == "len" \
                and len(n.left.args) == 1 and isinstance(n.left.args[0], ast.ListComp):
            lc = n.left.args[0]
            if len(lc.generators) == 1 and len(lc.generators[0].ifs) == 1 and not lc.generators[0].is_async \
                    and _pure(lc.generators[0].ifs[0]) and _pure(lc.elt):
                g = lc.generators[0]
                return ast.Call(func=ast.Name(id="any", ctx=ast.Load()),
                                args=[ast.GeneratorExp(elt=g.ifs[0], generators=[ast.comprehension(
                                    target=g.target, iter=g.iter, ifs=[], is_async=0)])], keywords=[])
        return n

    def visit_UnaryOp(self, n):
        n = self.generic_visit(n)
        if isinstance(n.op, ast.Not) and isinstance(n.operand, ast.Call) and dotted(n.operand.func) == "all" \
                and len(n.operand.args) == 1 and isinstance(n.operand.args[0], ast.GeneratorExp):
            ge = n.operand.args[0]
            if len(ge.generators) == 1 and not ge.generators[0].ifs and _pure(ge.elt):
                return ast.Call(func=ast.Name(id="any", ctx=ast.Load()),
                                args=[ast.GeneratorExp(elt=ast.UnaryOp(op=ast.Not(), operand=ge.elt),
                                                       generators=ge.generators)], keywords=[])
        return n


def _uses(node, name) -> int:
    return sum(1 for n in ast.walk(node) if isinstance(n, ast.Name) and n.id == name)


def _simplify_stmts(stmts):
    """value-preserving rewrites on a statement list (applied before normalisation):
       x = []; for t in it: x.append(e)      ->   x = [e for t in it]        (the loop does nothing else, no else:)
       x = E; return R (x used once in R)    ->   return R[x := E]            (x is a temporary introduced for readability)
    nested statement lists are rewritten too"""
    out = []
    for st in stmts:
        for field in ("body", "orelse", "finalbody"):
            if isinstance(getattr(st, field, None), list) and not isinstance(st, ast.FunctionDef):
                setattr(st, field, _simplify_stmts(getattr(st, field)))
        prev = out[-1] if out else None
        if isinstance(st, ast.For) and not st.orelse and len(st.body) == 1 and isinstance(prev, (ast.Assign, ast.AnnAssign)):
            tgt = prev.targets[0] if isinstance(prev, ast.Assign) and len(prev.targets) == 1 else getattr(prev, "target", None)
            b = st.body[0]
            if isinstance(tgt, ast.Name) and isinstance(prev.value, ast.List) and not prev.value.elts \
                    and isinstance(b, ast.Expr) and isinstance(b.value, ast.Call) and dotted(b.value.func) == tgt.id + ".append" \
                    and len(b.value.args) == 1 and not b.value.keywords and _uses(b.value.args[0], tgt.id) == 0 \
                    and _uses(st.iter, tgt.id) == 0:
                out[-1] = ast.Assign(targets=[ast.Name(id=tgt.id, ctx=ast.Store())], value=ast.ListComp(
                    elt=b.value.args[0], generators=[ast.comprehension(target=st.target, iter=st.iter, ifs=[], is_async=0)]))
                continue
        if isinstance(st, ast.Return) and st.value is not None and isinstance(prev, ast.Assign) and len(prev.targets) == 1 \
                and isinstance(prev.targets[0], ast.Name) and _uses(st.value, prev.targets[0].id) == 1 \
                and sum(_uses(o, prev.targets[0].id) for o in out[:-1]) == 0:
            name, val = prev.targets[0].id, prev.value

            class Sub(ast.NodeTransformer):
                def visit_Name(self, n):
                    return val if n.id == name and isinstance(n.ctx, ast.Load) else n
            # only when the temporary is evaluated first in R anyway or R's other parts are names/attributes (no reordering
            # of effects): accept calls whose other arguments are plain names
            others_plain = all(isinstance(n, (ast.Name, ast.Attribute, ast.Call, ast.Load, ast.Constant, ast.keyword))
                               for n in ast.walk(st.value)) and sum(isinstance(n, ast.Call) for n in ast.walk(st.value)) == 1
            if others_plain:
                out[-1] = ast.Return(value=Sub().visit(st.value))
                continue
        out.append(st)
    return out


def canon(nodes) -> str:
    """dump of the statements after vlib.py2v's normalisation (docstrings, comments, annotations, typing.cast, logging
    statements and `pass` removed, local variables alpha-renamed) and the value-preserving rewrites of _Equiv: two
    fragments with the same canon differ only in ways that cannot change behaviour"""
    import copy
    nodes = [copy.deepcopy(n) for n in nodes]
    if len(nodes) == 1 and isinstance(nodes[0], ast.FunctionDef):
        fn = nodes[0]
        fn.name, fn.decorator_list = "_f", []
        fn.body = _simplify_stmts(fn.body)
        norm = py2v.normalize_func(fn, rename_params=True)
    else:
        fn = ast.FunctionDef(name="_f", args=ast.arguments(posonlyargs=[], args=[], kwonlyargs=[], kw_defaults=[], defaults=[]),
                             body=_simplify_stmts(nodes) or [ast.Pass()], decorator_list=[], returns=None, type_comment=None)
        norm = py2v.normalize_func(fn)
    norm = _Equiv().visit(norm)
    return ast.dump(norm, include_attributes=False)


def canon_src(src: str) -> str:
    return canon(ast.parse(src).body)


def same(nodes, src: str) -> bool:
    return canon(nodes) == canon_src(src)


def classes_of(node, value_name: str):
    """isinstance(<value_name>, X) -> list of Coq class names"""
    if not (isinstance(node, ast.Call) and dotted(node.func) == "isinstance" and len(node.args) == 2
            and not node.keywords and dotted(node.args[0]) == value_name):
        raise Untranslatable("test is not isinstance(%s, ...): %s" % (value_name, ast.dump(node)[:120]))
    spec = node.args[1]
    elts = spec.elts if isinstance(spec, ast.Tuple) else [spec]
    out = []
    for e in elts:
        d = dotted(e)
        if d not in CLS:
            raise Untranslatable(f"isinstance against unknown class {d}")
        out.append(CLS[d])
    return out


def flatten_chain(stmts):
    """[(test, body)] of a sequence of `if ...: ... return` statements and elif chains; + trailing statements"""
    out = []
    rest = list(stmts)
    while rest and isinstance(rest[0], ast.If):
        node = rest.pop(0)
        while True:
            if not py2v._returns(node.body):
                raise Untranslatable("a dispatch branch does not end in return (line %d)" % node.lineno)
            out.append((node.test, node.body))
            if len(node.orelse) == 1 and isinstance(node.orelse[0], ast.If):
                node = node.orelse[0]
                continue
            if node.orelse:
                rest = list(node.orelse) + rest
            break
    return out, rest


def strip_doc(stmts):
    return [s for s in stmts if not (isinstance(s, ast.Expr) and isinstance(s.value, ast.Constant))
            and not isinstance(s, (ast.Import, ast.ImportFrom))]


def coq_chain(name, ty, entries):
    items = [f"([{'; '.join(cs)}], {g}, {a})" for cs, g, a in entries]
    return f"Definition {name} : chain {ty} :=\n  [" + ";\n   ".join(items) + "].\n"


# ---- get_default_data_type ----------------------------------------------------------------------

K_STRUCT = '''
row_types = []
for row_name, row_dtype in zip(value.__fields__, value):
    default_type = get_default_data_type(row_dtype)
    if not default_type:
        continue
    row_types.append((row_name, default_type))
return "struct<" + ", ".join(f"{k}: {v}" for (k, v) in row_types) + ">"
'''
K_MAP = '''
sample_row = seq_get(list(value.items()), 0)
if not sample_row:
    return None
key, value = sample_row
default_key = get_default_data_type(key)
default_value = get_default_data_type(value)
if not default_key or not default_value:
    return None
return f"map<{default_key}, {default_value}>"
'''
K_ARRAY = '''
if not value:
    return None
default_type = get_default_data_type(next(iter(value)))
if not default_type:
    return None
return f"array<{default_type}>"
'''
K_DATETIME = '''
if value.tzinfo:
    return "timestamptz"
return "timestamp"
'''


def infer_chain(tree, src):
    cdf = py2v.find_method(tree, "_BaseSession", "createDataFrame")
    f = py2v.find_func(cdf, "get_default_data_type")
    if [a.arg for a in f.args.args] != ["value"]:
        raise Untranslatable("get_default_data_type: parameters changed")
    body = strip_doc(f.body)
    branches, rest = flatten_chain(body)
    if not (len(rest) == 1 and isinstance(rest[0], ast.Return) and isinstance(rest[0].value, ast.Constant)
            and rest[0].value.value is None):
        raise Untranslatable("get_default_data_type: the chain does not end in `return None`")
    entries = []
    for test, b in branches:
        cs = classes_of(test, "value")
        if len(b) == 1 and isinstance(b[0], ast.Return) and isinstance(b[0].value, ast.Constant) \
                and isinstance(b[0].value.value, str):
            s = b[0].value.value
            if s not in PRIM:
                raise Untranslatable(f"get_default_data_type returns unknown type string {s!r}")
            act = f"KPrim {PRIM[s]}"
        elif same(b, K_STRUCT):
            act = "KStruct"
        elif same(b, K_MAP):
            act = "KMap"
        elif same(b, K_ARRAY):
            act = "KArray"
        elif same(b, K_DATETIME):
            act = "KDatetime"
        else:
            raise Untranslatable("get_default_data_type: branch at line %d has a body the model does not know" % test.lineno)
        entries.append((cs, "GAlways", act))
    # how the inferred string is used: exp.DataType.build(default_data_type, dialect="spark") if default_data_type else None
    builds = [n for n in ast.walk(cdf) if isinstance(n, ast.IfExp) and isinstance(n.body, ast.Call)
              and dotted(n.body.func) == "exp.DataType.build"]
    if len(builds) != 1 or any(dotted(n.test) != "default_data_type" or not (
            isinstance(n.orelse, ast.Constant) and n.orelse.value is None) for n in builds):
        raise Untranslatable("createDataFrame: use of the inferred type string changed")
    return entries, {"name": "gen_infer_chain", "where": f"sqlframe/base/session.py:{f.lineno}-{f.end_lineno}",
                     "hash": py2v.src_hash(f, src), "value": [f"{'|'.join(c)}->{a}" for c, _, a in entries]}


SEL_COLUMNS = '''
sel_columns = [
    (
        F.col(name).cast(data_type).alias(name).expression
        if data_type is not None
        else F.col(name).expression
    )
    for name, data_type in column_mapping.items()
]
'''


CELL_FN = '''
def cell(value: t.Any) -> Column:
    return Column._lit(value) if isinstance(value, float) else F.lit(value)
'''
COLUMN_SAMPLE = '''
def column_sample(i: int) -> t.Any:
    for row in rows:
        if isinstance(row, Row):
            row = row.asDict()
        if isinstance(row, dict):
            value = row.get(row_keys[i])
        elif isinstance(row, (list, tuple)):
            value = row[i] if i < len(row) else None
        else:
            value = row
        if value is not None:
            return value
    return None
'''
INFER_LOOP = '''
for i, (name, dtype) in enumerate(column_mapping.items()):
    if dtype is not None:
        updated_mapping[name] = dtype
        continue
    default_data_type = get_default_data_type(column_sample(i))
    updated_mapping[name] = (
        exp.DataType.build(default_data_type, dialect="spark") if default_data_type else None
    )
'''
ROW_KEYS = '''
row_keys: t.Optional[t.List[str]] = None
if isinstance(rows[0], Row):
    row_keys = list(rows[0].asDict())
elif isinstance(rows[0], dict):
    row_keys = list(rows[0])
if row_keys is not None and all(name in row_keys for name in column_mapping):
    row_keys = list(column_mapping)
'''
DATA_LOOP = '''
for row in rows:
    if isinstance(row, (list, tuple, dict)):
        if not row:
            data_expressions.append(exp.tuple_(exp.Null()))
            continue
        if isinstance(row, Row):
            row = row.asDict()
        if isinstance(row, dict):
            row = [row.get(key) for key in row_keys or row]
        data_expressions.append(exp.tuple_(*[cell(x).column_expression for x in row]))
    else:
        data_expressions.append(exp.tuple_(*[cell(row).column_expression]))
'''


def _stmt_after(cdf, pred):
    for n in ast.walk(cdf):
        if pred(n):
            return n
    return None


def cells_and_casts(tree, src):
    """every typed column is CAST to its type; float cells are written by Column._lit, other cells by F.lit;
    dict/Row rows are read by key; the type of a column is inferred from its first value that is not None"""
    cdf = py2v.find_method(tree, "_BaseSession", "createDataFrame")
    sel = [n for n in ast.walk(cdf) if isinstance(n, ast.Assign) and dotted(n.targets[0]) == "sel_columns"
           and isinstance(n.value, ast.ListComp)]
    if len(sel) != 1 or canon(sel) != canon_src(SEL_COLUMNS):
        raise Untranslatable("createDataFrame: the per-column CAST (sel_columns) changed")
    body = cdf.body
    cellf = [n for n in body if isinstance(n, ast.FunctionDef) and n.name == "cell"]
    if len(cellf) != 1 or canon(cellf) != canon_src(CELL_FN):
        raise Untranslatable("createDataFrame: the cell() helper (floats via Column._lit, others via F.lit) changed")
    samp = [n for n in body if isinstance(n, ast.FunctionDef) and n.name == "column_sample"]
    if len(samp) != 1 or canon(samp) != canon_src(COLUMN_SAMPLE):
        raise Untranslatable("createDataFrame: column_sample (first value that is not None) changed")
    loops = [n for n in body if isinstance(n, ast.For)]
    if len(loops) != 2 or canon([loops[0]]) != canon_src(INFER_LOOP) or canon([loops[1]]) != canon_src(DATA_LOOP):
        raise Untranslatable("createDataFrame: the type-inference loop or the VALUES loop changed")
    k0 = [i for i, n in enumerate(body) if isinstance(n, ast.AnnAssign) and dotted(n.target) == "row_keys"]
    if len(k0) != 1 or canon(body[k0[0]:k0[0] + 3]) != canon_src(ROW_KEYS):
        raise Untranslatable("createDataFrame: row_keys (dict/Row rows read by key) changed")
    where = f"sqlframe/base/session.py:{cdf.lineno}-{cdf.end_lineno}"
    return [{"name": "typed_columns_are_cast", "where": where, "hash": py2v.src_hash(sel[0], src), "value": True},
            {"name": "gen_cells_float_via_lit", "where": where, "hash": py2v.src_hash(cellf[0], src), "value": True},
            {"name": "gen_sample_first_non_none", "where": where, "hash": py2v.src_hash(samp[0], src), "value": True},
            {"name": "dict_rows_read_by_key", "where": where, "hash": py2v.src_hash(loops[1], src), "value": True}]


# ---- Column._lit ---------------------------------------------------------------------------------

A_STRUCT = '''
columns = [
    exp.PropertyEQ(
        this=exp.to_identifier(k).transform(
            _BaseSession().input_dialect.normalize_identifier, copy=False
        ),
        expression=cls._lit(v).expression,
    )
    for k, v in value.asDict().items()
]
return cls(exp.Struct(expressions=columns))
'''
A_ARRAY = "return cls(exp.Array(expressions=[cls._lit(x).expression for x in value]))"
A_TUPLE = "return cls(exp.Tuple(expressions=[cls._lit(x).expression for x in value]))"
A_MAP = '''
return cls(
    exp.VarMap(
        keys=exp.Array(expressions=[cls._lit(k).expression for k in value.keys()]),
        values=exp.Array(expressions=[cls._lit(v).expression for v in value.values()]),
    )
)
'''
A_NAN = {"TDouble": 'return cls(exp.cast(exp.Literal.string("NaN"), exp.DataType.build("double")))',
         "TFloat": 'return cls(exp.cast(exp.Literal.string("NaN"), exp.DataType.build("float")))'}
A_INF = 'return cls(exp.cast(exp.Literal.string(str(value)), exp.DataType.build("double")))'
INF_LIT_TEST = "isinstance(value, float) and math.isinf(value)"
NUL_TEST = 'isinstance(value, str) and "\\x00" in value'
A_STRNUL = '''
pieces: t.List[exp.Expression] = []
for i, part in enumerate(value.split("\\x00")):
    if i:
        pieces.append(exp.Chr(expressions=[exp.Literal.number(0)]))
    if part:
        pieces.append(exp.Literal.string(part))
return cls(exp.Concat(expressions=pieces))
'''
A_TS = '''
if value.tzinfo is None:
    value = value.isoformat(sep=" ")
    return cls(exp.cast(exp.Literal.string(value), exp.DataType.Type.TIMESTAMP))
else:
    value = value.astimezone(datetime.timezone.utc).isoformat(sep=" ")
    return cls(exp.cast(exp.Literal.string(value), exp.DataType.Type.TIMESTAMPTZ))
'''
NAN_TEST = "value is not None and isinstance(value, float) and math.isnan(value)"


def lit_chain(tree, src):
    f = py2v.find_method(tree, "Column", "_lit")
    body = strip_doc(f.body)
    branches, rest = flatten_chain(body)
    if not (len(rest) == 1 and same(rest, "return cls(exp.convert(value))")):
        raise Untranslatable("Column._lit: does not end in `return cls(exp.convert(value))`")
    entries = []
    nan_canon = canon_src(NAN_TEST)
    for test, b in branches:
        if canon([ast.Expr(test)]) == nan_canon:
            cs, g = ["CFloat"], "GNan"
        elif canon([ast.Expr(test)]) == canon_src(INF_LIT_TEST):
            cs, g = ["CFloat"], "GInf"
        elif canon([ast.Expr(test)]) == canon_src(NUL_TEST):
            cs, g = ["CStr"], "GNul"
        else:
            cs, g = classes_of(test, "value"), "GAlways"
        for snippet, act in ((A_STRNUL, "AStrNul"), (A_STRUCT, "AStruct"), (A_ARRAY, "AArray"), (A_TUPLE, "ATuple"), (A_MAP, "AMap"),
                             (A_NAN["TDouble"], "ANanCast TDouble"), (A_NAN["TFloat"], "ANanCast TFloat"),
                             (A_INF, "AInfCast"), (A_TS, "ATsCast")):
            if same(b, snippet):
                break
        else:
            raise Untranslatable("Column._lit: branch at line %d has a body the model does not know" % test.lineno)
        entries.append((cs, g, act))
    return entries, {"name": "gen_lit_chain", "where": f"sqlframe/base/column.py:{f.lineno}-{f.end_lineno}",
                     "hash": py2v.src_hash(f, src), "value": [f"{'|'.join(c)}/{g}->{a}" for c, g, a in entries]}


COLUMN_INIT = '''
from sqlframe.base.session import _BaseSession
if isinstance(expression, Column):
    expression = expression.expression
elif expression is None or not isinstance(expression, (str, exp.Expression)):
    expression = self._lit(expression).expression
elif not isinstance(expression, exp.Column):
    expression = sqlglot.maybe_parse(
        expression, dialect=_BaseSession().input_dialect
    ).transform(_BaseSession().input_dialect.normalize_identifier, copy=False)
if expression is None:
    raise ValueError(f"Could not parse {expression}")
self.expression: exp.Expression = expression
'''


def column_init(tree, src):
    f = py2v.find_method(tree, "Column", "__init__")
    if canon(f.body) != canon_src(COLUMN_INIT):
        raise Untranslatable("Column.__init__: routing of non-str values to _lit changed")
    return {"name": "column_ctor_lits_nonstr", "where": f"sqlframe/base/column.py:{f.lineno}-{f.end_lineno}",
            "hash": py2v.src_hash(f, src), "value": True}


# ---- functions.lit -------------------------------------------------------------------------------

F_STR = "return Column(expression.Literal.string(value))"
F_STR_NESTED = "return Column._lit(value)"
F_INF = "return Column(expression.Literal.string(str(value)))"
INF_TEST = 'isinstance(value, float) and value in {float("inf"), float("-inf")}'


def litfn_chain(tree, src):
    f = None
    for n in tree.body:
        if isinstance(n, ast.FunctionDef) and n.name == "lit":
            f = n
    if f is None:
        raise Untranslatable("functions.lit not found")
    body = strip_doc(f.body)
    branches, rest = flatten_chain(body)
    if not (len(rest) == 1 and same(rest, "return Column(value)")):
        raise Untranslatable("functions.lit: does not end in `return Column(value)`")
    entries = []
    inf_canon = canon_src(INF_TEST)
    for test, b in branches:
        if canon([ast.Expr(test)]) == inf_canon:
            cs, g = ["CFloat"], "GInf"
        else:
            cs, g = classes_of(test, "value"), "GAlways"
        if same(b, F_STR):
            act = "FStrLit"
        elif same(b, F_STR_NESTED):
            act = "FStrNested"
        elif same(b, F_INF):
            act = "FInfStr"
        else:
            raise Untranslatable("functions.lit: branch at line %d has a body the model does not know" % test.lineno)
        entries.append((cs, g, act))
    return entries, {"name": "gen_litfn_chain", "where": f"sqlframe/base/functions.py:{f.lineno}-{f.end_lineno}",
                     "hash": py2v.src_hash(f, src), "value": [f"{'|'.join(c)}/{g}->{a}" for c, g, a in entries]}


# ---- _to_value -----------------------------------------------------------------------------------

V_MAP = '''
return {
    normalize_string(k, from_dialect="execution", to_dialect="output")
    if isinstance(k, str)
    else k: cls._to_value(v)
    for k, v in map_value.items()
}
'''
V_ROW = "return cls._to_row(list(value.keys()), list(value.values()))"
V_LIST = "return [cls._to_value(x) for x in value]"
V_STRIP = "return value.replace(tzinfo=None)"
V_FLOAT = "return float(value)"
MAP_TEST = "(map_value := cls._try_get_map(value)) is not None"
TO_ROW = '''
from sqlframe.base.types import Row, _create_row
converted_values = []
for value in values:
    converted_values.append(cls._to_value(value))
return _create_row(columns, converted_values)
'''
TRY_GET_MAP = '''
if value and isinstance(value, dict):
    keys, values = value.get("key"), value.get("value")
    if isinstance(keys, list) and isinstance(values, list) and len(keys) == len(values):
        return dict(zip(keys, values))
    if len([k for k in value if not isinstance(k, str)]) > 0:
        return value
return None
'''
CREATE_ROW = '''
row = Row(*[float(x) if isinstance(x, Decimal) else x for x in values])
row.__fields__ = fields
return row
'''


CREATE_ROW_PLAIN = '''
row = Row(*values)
row.__fields__ = fields
return row
'''


def tovalue_chain(tree, src, duck_tree, duck_src, types_tree, types_src):
    f = py2v.find_method(tree, "_BaseSession", "_to_value")
    body = strip_doc(f.body)
    branches, rest = flatten_chain(body)
    if not (len(rest) == 1 and same(rest, "return value")):
        raise Untranslatable("_to_value: does not end in `return value`")
    entries = []
    for test, b in branches:
        if canon([ast.Expr(test)]) == canon_src(MAP_TEST):
            cs, g = ["CDict"], "GMapLike"
        elif isinstance(test, ast.BoolOp) and isinstance(test.op, ast.And) and len(test.values) == 2 \
                and dotted(test.values[1]) == "value":
            cs, g = classes_of(test.values[0], "value"), "GTruthy"
        else:
            cs, g = classes_of(test, "value"), "GAlways"
        for snippet, act in ((V_MAP, "VMap"), (V_ROW, "VRow"), (V_LIST, "VList"), (V_STRIP, "VStripTz"), (V_FLOAT, "VFloat")):
            if same(b, snippet):
                break
        else:
            raise Untranslatable("_to_value: branch at line %d has a body the model does not know" % test.lineno)
        entries.append((cs, g, act))
    tr = py2v.find_method(tree, "_BaseSession", "_to_row")
    if canon(strip_doc(tr.body)) != canon_src("\n".join(l for l in TO_ROW.splitlines() if not l.startswith("from "))):
        raise Untranslatable("_to_row: body changed")
    tg = py2v.find_method(duck_tree, "DuckDBSession", "_try_get_map")
    if canon(tg.body) != canon_src(TRY_GET_MAP):
        raise Untranslatable("DuckDBSession._try_get_map: body changed")
    cr = None
    for n in types_tree.body:
        if isinstance(n, ast.FunctionDef) and n.name == "_create_row":
            cr = n
    # either spelling: _create_row converts a Decimal member itself (older), or leaves the values alone (then the
    # Decimal -> float conversion is the VFloat branch of _to_value, which tovalue_chain_ok demands in any case)
    if cr is None:
        raise Untranslatable("types._create_row not found")
    if canon(cr.body) == canon_src(CREATE_ROW):
        create_row_kind = "positional Row, Decimal members converted to float"
    elif canon(cr.body) == canon_src(CREATE_ROW_PLAIN) and any(a == "VFloat" for _, _, a in entries):
        create_row_kind = "positional Row, values as given (Decimal converted by _to_value)"
    else:
        raise Untranslatable("types._create_row: body changed")
    facts = [
        {"name": "gen_tovalue_chain", "where": f"sqlframe/base/session.py:{f.lineno}-{f.end_lineno}",
         "hash": py2v.src_hash(f, src), "value": [f"{'|'.join(c)}/{g}->{a}" for c, g, a in entries]},
        {"name": "to_row_shape", "where": f"sqlframe/base/session.py:{tr.lineno}-{tr.end_lineno}",
         "hash": py2v.src_hash(tr, src), "value": "maps _to_value, then _create_row"},
        {"name": "try_get_map_shape", "where": f"sqlframe/duckdb/session.py:{tg.lineno}-{tg.end_lineno}",
         "hash": py2v.src_hash(tg, duck_src), "value": "map iff non-empty dict whose entries key and value are lists of equal length, or with a non-str key"},
        {"name": "create_row_shape", "where": f"sqlframe/base/types.py:{cr.lineno}-{cr.end_lineno}",
         "hash": py2v.src_hash(cr, types_src), "value": create_row_kind},
    ]
    return entries, facts


# ---- sqlglot_to_spark ------------------------------------------------------------------------------

TO_SPARK_TAIL = '''
if sqlglot_dtype.this in primitive_mapping:
    pyspark_class = primitive_mapping[sqlglot_dtype.this]
    if issubclass(pyspark_class, types.DataTypeWithLength) and sqlglot_dtype.expressions:
        return pyspark_class(length=int(sqlglot_dtype.expressions[0].this.this))
    elif issubclass(pyspark_class, types.DecimalType) and sqlglot_dtype.expressions:
        return pyspark_class(
            precision=int(sqlglot_dtype.expressions[0].this.this),
            scale=int(sqlglot_dtype.expressions[1].this.this),
        )
    return pyspark_class()
if sqlglot_dtype.this == exp.DataType.Type.ARRAY:
    return types.ArrayType(sqlglot_to_spark(sqlglot_dtype.expressions[0]))
elif sqlglot_dtype.this == exp.DataType.Type.MAP:
    return types.MapType(
        sqlglot_to_spark(sqlglot_dtype.expressions[0]),
        sqlglot_to_spark(sqlglot_dtype.expressions[1]),
    )
elif sqlglot_dtype.this in (exp.DataType.Type.STRUCT, exp.DataType.Type.OBJECT):
    return types.StructType(
        [
            types.StructField(
                name=field.this.alias_or_name,
                dataType=sqlglot_to_spark(field.args["kind"]),
            )
            for field in sqlglot_dtype.expressions
        ]
    )
raise NotImplementedError(f"Unsupported data type: {sqlglot_dtype}")
'''


DDL_BRANCH = '''
ddl = schema.strip()
if not (ddl.lower().startswith("struct<") and ddl.endswith(">")):
    ddl = f"struct<{ddl}>"
try:
    fields = exp.DataType.build(ddl, dialect=dialect).expressions
    value = {field.name: field.args["kind"] for field in fields}
except (KeyError, ParseError, TokenError):
    value = {}
if not value:
    value = {"value": schema.strip()}
'''


def ddl_parsing(tree, src):
    """the DDL-string branch of get_column_mapping_from_schema_input parses the string as a struct type with
    sqlglot and keeps the field names as written"""
    f = None
    for n in tree.body:
        if isinstance(n, ast.FunctionDef) and n.name == "get_column_mapping_from_schema_input":
            f = n
    if f is None:
        raise Untranslatable("get_column_mapping_from_schema_input not found")
    branch = None
    for n in ast.walk(f):
        if isinstance(n, ast.If) and isinstance(n.test, ast.Call) and dotted(n.test.func) == "isinstance" \
                and dotted(n.test.args[0]) == "schema" and dotted(n.test.args[1]) == "str":
            branch = n
    if branch is None or canon(branch.body) != canon_src(DDL_BRANCH):
        raise Untranslatable("get_column_mapping_from_schema_input: the DDL-string branch changed")
    return {"name": "ddl_string_parsed_as_struct_type", "where": f"sqlframe/base/util.py:{f.lineno}-{f.end_lineno}",
            "hash": py2v.src_hash(branch, src), "value": True}


def primitive_mapping(tree, src):
    f = None
    for n in tree.body:
        if isinstance(n, ast.FunctionDef) and n.name == "sqlglot_to_spark":
            f = n
    if f is None:
        raise Untranslatable("sqlglot_to_spark not found")
    body = strip_doc(f.body)
    if not (isinstance(body[0], ast.Assign) and dotted(body[0].targets[0]) == "primitive_mapping"
            and isinstance(body[0].value, ast.Dict)):
        raise Untranslatable("sqlglot_to_spark: primitive_mapping is not a dict literal")
    pairs = []
    for k, v in zip(body[0].value.keys, body[0].value.values):
        dk, dv = dotted(k), dotted(v)
        if not dk or not dk.startswith("exp.DataType.Type.") or not dv or not dv.startswith("types."):
            raise Untranslatable("primitive_mapping: entry is not exp.DataType.Type.X: types.Y")
        pairs.append((dk.rsplit(".", 1)[1], dv.split(".", 1)[1]))
    if canon(body[1:]) != canon_src(TO_SPARK_TAIL):
        raise Untranslatable("sqlglot_to_spark: container / lookup branches changed")
    return pairs, {"name": "gen_primitive_mapping", "where": f"sqlframe/base/util.py:{f.lineno}-{f.end_lineno}",
                   "hash": py2v.src_hash(f, src), "value": [f"{a}->{b}" for a, b in pairs]}


# ---- main ------------------------------------------------------------------------------------------

def generate(repo: str):
    def load(rel):
        return py2v.load(os.path.join(repo, rel))

    s_tree, s_src = load("sqlframe/base/session.py")
    d_tree, d_src = load("sqlframe/duckdb/session.py")
    t_tree, t_src = load("sqlframe/base/types.py")
    c_tree, c_src = load("sqlframe/base/column.py")
    f_tree, f_src = load("sqlframe/base/functions.py")
    u_tree, u_src = load("sqlframe/base/util.py")
    facts = []
    ich, fa = infer_chain(s_tree, s_src)
    facts.append(fa)
    facts += cells_and_casts(s_tree, s_src)
    lch, fa = lit_chain(c_tree, c_src)
    facts.append(fa)
    facts.append(column_init(c_tree, c_src))
    fch, fa = litfn_chain(f_tree, f_src)
    facts.append(fa)
    vch, fas = tovalue_chain(s_tree, s_src, d_tree, d_src, t_tree, t_src)
    facts += fas
    pm, fa = primitive_mapping(u_tree, u_src)
    facts.append(fa)
    facts.append(ddl_parsing(u_tree, u_src))
    text = ("(* generated from %s by translate/c09_facts.py -- do not edit *)\n" % repo
            + "From Coq Require Import List String.\n"
            + "From SF Require Import C09.Lex C09.Values C09.Pipeline C09.Schema.\nImport ListNotations.\n\n"
            + coq_chain("gen_infer_chain", "ikind", ich) + "\n"
            + coq_chain("gen_lit_chain", "lact", lch) + "\n"
            + coq_chain("gen_litfn_chain", "fact", fch) + "\n"
            + coq_chain("gen_tovalue_chain", "vact", vch) + "\n"
            + "Definition gen_primitive_mapping : list (string * string) :=\n  ["
            + ";\n   ".join(f'("{a}"%string, "{b}"%string)' for a, b in pm) + "].\n\n"
            + "Definition gen_cells_float_via_lit : bool := true.\nDefinition gen_sample_first_non_none : bool := true.\n")
    return text, facts


if __name__ == "__main__":
    import sys
    t, f = generate(sys.argv[1] if len(sys.argv) > 1 else "/repo")
    print(t)
    for x in f:
        print(x)
