"""T1 for C10: regenerate from /repo (fail-closed) the facts the name model is parametric in.

  * which DataFrame/session methods call `_update_display_name_mapping`, and on which object
    (`self` = the receiver, or a frame bound to `self.copy()` / `self._create_df(...)` = the new frame)
  * how drop / fillna / dropna close: through the public `select` on a copy (which records again) or
    through `select.__wrapped__(..., skip_update_display_name_mapping=True)`
  * the decorator class of every modelled method, the Operation enum and both wrapper predicates
    (read with translate/c01_facts helpers)
  * what `functions.col`, `Column.alias` and a `str` argument remember as display name
  * whether `columns`, the SQL of collect()/toPandas(), `schema` and `session._collect` use the map / keep case
"""
from __future__ import annotations

import ast
import os
import re

from vlib import py2v
from vlib.py2v import Untranslatable, dotted
from translate import c01_facts

OPK = c01_facts.OPK

# model method -> (class, python method)
DF_METHODS = {
    "MSelect": "select", "MWithColumn": "withColumn", "MWithColumnRenamed": "withColumnRenamed", "MToDF": "toDF",
    "MDrop": "drop", "MGroupBy": "groupBy", "MAgg": "agg", "MJoin": "join", "MFillna": "fillna", "MDropna": "dropna",
    "MDropDuplicates": "dropDuplicates", "MWhere": "where", "MOrderBy": "orderBy", "MLimit": "limit",
    "MDistinct": "distinct",
}
ALL_METH = ["MCreate", "MSelect", "MWithColumn", "MWithColumnRenamed", "MToDF", "MDrop", "MGroupBy", "MGroupAgg", "MAgg",
            "MJoin", "MFillna", "MDropna", "MDropDuplicates", "MWhere", "MOrderBy", "MLimit", "MDistinct"]
RECORD = "_update_display_name_mapping"
ALLOWED_GUARDS = {"'skip_update_display_name_mapping' not in kwargs", "not kwargs.get('skip_update_display_name_mapping')",
                  "not kwargs.get('skip_update_display_name_mapping', False)", "column.alias_or_name == existing"}


def _parents(func):
    par = {}
    for n in ast.walk(func):
        for ch in ast.iter_child_nodes(n):
            par[ch] = n
    return par


def _assignments(func):
    """name -> list of value expressions assigned to it anywhere in the function"""
    out: dict[str, list] = {}
    for n in ast.walk(func):
        if isinstance(n, ast.Assign) and len(n.targets) == 1 and isinstance(n.targets[0], ast.Name):
            out.setdefault(n.targets[0].id, []).append(n.value)
        elif isinstance(n, ast.AnnAssign) and isinstance(n.target, ast.Name) and n.value is not None:
            out.setdefault(n.target.id, []).append(n.value)
    return out


def _inline_temps(expr, assigns, depth=0):
    """source text of expr after replacing every local name that is assigned exactly once by its value (fail-closed: a name
    with several assignments, or a parameter, is left as it is)"""
    class Sub(ast.NodeTransformer):
        def visit_Name(self, node):
            vals = assigns.get(node.id)
            if isinstance(node.ctx, ast.Load) and vals and len(vals) == 1 and depth < 5:
                return ast.parse(_inline_temps(vals[0], assigns, depth + 1), mode="eval").body
            return node
    import copy as _copy
    return ast.unparse(Sub().visit(_copy.deepcopy(expr)))


def _origin(expr, assigns, seen=()):
    """'self' | 'copy' (a frame made by self.copy()/self._create_df()/x.copy() or derived from one) |
    'same' (a re-assignment `x = x.method(...)` of the name being resolved) | None (unknown)"""
    if isinstance(expr, ast.Name):
        if expr.id == "self":
            return "self"
        if expr.id in seen:
            return "same"
        vals = assigns.get(expr.id)
        if not vals:
            return None
        kinds = {_origin(v, assigns, seen + (expr.id,)) for v in vals}
        kinds.discard("same")
        if kinds == {"copy"}:
            return "copy"
        return None
    if isinstance(expr, ast.Attribute) and dotted(expr) == "self._df":
        return "copy"            # _BaseGroupedData.__init__ stores df.copy()
    if isinstance(expr, ast.Call) and isinstance(expr.func, ast.Attribute) and expr.func.attr == "__wrapped__" \
            and isinstance(expr.func.value, ast.Attribute):
        o = _origin(expr.func.value.value, assigns, seen)      # X.method.__wrapped__(X, ...): a frame derived from X
        return o if o in ("copy", "same") else None
    if isinstance(expr, ast.Call) and isinstance(expr.func, ast.Attribute):
        base = expr.func.value
        o = _origin(base, assigns, seen)
        if expr.func.attr in ("copy", "_create_df", "_convert_leaf_to_cte"):
            return "copy" if o in ("self", "copy") else o if o == "same" else None
        if expr.func.attr in ("select", "where", "filter", "withColumn", "drop", "limit", "orderBy"):
            # a frame derived from a copy stays a copy; derived from self: the method called on `self` may itself record
            # on self -> not a shape we model
            return o if o in ("copy", "same") else None
    return None


def _self_rebound_to_copy_before(func, par, call):
    """is there a statement `self = self.copy()` in a block enclosing `call`, before the statement that contains it?"""
    node = call
    while node in par:
        parent = par[node]
        for field in ("body", "orelse", "finalbody"):
            block = getattr(parent, field, None)
            if isinstance(block, list) and node in block:
                for st in block[:block.index(node)]:
                    if isinstance(st, ast.Assign) and len(st.targets) == 1 and dotted(st.targets[0]) == "self" \
                            and isinstance(st.value, ast.Call) and dotted(st.value.func) == "self.copy" \
                            and not st.value.args and not st.value.keywords:
                        return True
        if parent is func:
            break
        node = parent
    return False


def direct_record(func, label):
    """RNone | RRecv | RCopy for the direct calls of _update_display_name_mapping in func (fail-closed)."""
    par = _parents(func)
    assigns = _assignments(func)
    kinds = set()
    for n in ast.walk(func):
        if isinstance(n, ast.Call) and isinstance(n.func, ast.Attribute) and n.func.attr == RECORD:
            o = _origin(n.func.value, assigns)
            if o == "self" and _self_rebound_to_copy_before(func, par, n):
                o = "copy"           # `self = self.copy()` dominates the call: the receiver is no longer the user's frame
            if o == "self":
                kinds.add("RRecv")
            elif o == "copy":
                kinds.add("RCopy")
            else:
                raise Untranslatable(f"{label}: cannot tell on which object {ast.unparse(n.func)} records")
            p = n
            while p in par and p is not func:
                p = par[p]
                if isinstance(p, ast.If):
                    g = ast.unparse(p.test)
                    if g not in ALLOWED_GUARDS:
                        raise Untranslatable(f"{label}: the recording call is guarded by `{g}`")
                elif isinstance(p, (ast.While, ast.Try, ast.With, ast.FunctionDef, ast.Lambda)) and p is not func:
                    raise Untranslatable(f"{label}: the recording call sits in a {type(p).__name__}")
    if len(kinds) > 1:
        raise Untranslatable(f"{label}: records both on self and on a copy")
    return next(iter(kinds)) if kinds else "RNone"


def _wrapped_delegate(func):
    """name of X when the body ends in `return self.X.__wrapped__(self, ...)`, else None"""
    body = [st for st in func.body if not (isinstance(st, ast.Expr) and isinstance(st.value, ast.Constant))]
    if len(body) == 1 and isinstance(body[0], ast.Return) and isinstance(body[0].value, ast.Call):
        f = body[0].value.func
        d = dotted(f)
        if d and d.startswith("self.") and d.endswith(".__wrapped__") and body[0].value.args \
                and dotted(body[0].value.args[0]) == "self":
            return d.split(".")[1]
    return None


def reselect_kind(func, label):
    """how the method's CLOSING select (the last select call in the body) is made: SelPublicCopy | SelPrivate (fail-closed)"""
    assigns = _assignments(func)
    found = []
    for n in ast.walk(func):
        if not isinstance(n, ast.Call):
            continue
        d = dotted(n.func)
        if d and d.endswith(".select.__wrapped__"):
            recv = n.func.value.value            # X in X.select.__wrapped__
            if _origin(recv, assigns) not in ("self", "copy") or not n.args or dotted(n.args[0]) != dotted(recv):
                raise Untranslatable(f"{label}: `{d}` is applied to an object I cannot classify")
            kws = {k.arg for k in n.keywords}
            if "skip_update_display_name_mapping" not in kws:
                raise Untranslatable(f"{label}: select.__wrapped__ without skip_update_display_name_mapping")
            found.append((n.lineno, n.col_offset, "SelPrivate"))
        elif isinstance(n.func, ast.Attribute) and n.func.attr == "select":
            base = n.func.value
            bd = dotted(base) or ""
            if bd.endswith("expression") or bd in ("exp", "expression"):
                continue                       # sqlglot-level select on an expression tree
            o = _origin(base, assigns)
            if o == "copy":
                found.append((n.lineno, n.col_offset, "SelPublicCopy"))
            else:
                raise Untranslatable(f"{label}: `{ast.unparse(n.func)}` is called on an object I cannot classify")
    if not found:
        raise Untranslatable(f"{label}: no closing select found")
    return max(found)[2]


def col_facts(fn_tree):
    f = py2v.find_func(fn_tree, "col")
    src = ast.unparse(f)
    if "normalize_identifier" not in src:
        raise Untranslatable("functions.col no longer normalises the identifier")
    disp = None
    for n in ast.walk(f):
        if isinstance(n, ast.Dict):
            for k, v in zip(n.keys, n.values):
                if isinstance(k, ast.Constant) and k.value == "display_name":
                    disp = ast.unparse(v)
    if disp == "case_sensitive_expression.this.this":
        # the case-sensitive expression must be the un-normalised parse of the argument
        def is_parse(v):
            return (isinstance(v, ast.Call) and dotted(v.func) == "expression.to_column" and v.args
                    and dotted(v.args[0]) == "column_name")

        par = _parents(f)
        assigns = {}
        for n in ast.walk(f):
            if isinstance(n, ast.Assign) and len(n.targets) == 1 and isinstance(n.targets[0], ast.Name):
                assigns.setdefault(n.targets[0].id, []).append(n)
        cse = assigns.get("case_sensitive_expression", [])
        ok = len(cse) == 1 and is_parse(cse[0].value)
        if not ok and len(cse) == 1 and isinstance(cse[0].value, ast.Name):
            # case_sensitive_expression = parsed, where parsed = to_column(column_name) and may only be replaced for strings
            # that parse as a function call (names with parentheses: outside the names this model covers)
            src_assigns = assigns.get(cse[0].value.id, [])
            ok = bool(src_assigns) and is_parse(src_assigns[0].value)
            for a in src_assigns[1:]:
                guard = par.get(a)
                if not (isinstance(guard, ast.If) and ast.unparse(guard.test) == f"isinstance({cse[0].value.id}, expression.Func)"):
                    ok = False
        if not ok:
            raise Untranslatable("functions.col: case_sensitive_expression is not to_column(column_name)")
        return True
    if disp == "column_name":
        return False
    raise Untranslatable(f"functions.col: display_name is `{disp}`")


def alias_facts(col_tree):
    f = py2v.find_method(col_tree, "Column", "alias")
    arg = f.args.args[1].arg
    src = ast.unparse(f)
    if "normalize_identifiers" not in src or "parse_identifier" not in src:
        raise Untranslatable("Column.alias no longer builds a normalised identifier from the name")
    for n in ast.walk(f):
        if isinstance(n, ast.Dict):
            for k, v in zip(n.keys, n.values):
                if isinstance(k, ast.Constant) and k.value == "display_name":
                    if isinstance(v, ast.Name) and v.id == arg:
                        return True
                    raise Untranslatable(f"Column.alias: display_name is `{ast.unparse(v)}`")
    raise Untranslatable("Column.alias: no display_name recorded")


def update_facts(df_tree):
    f = py2v.find_method(df_tree, "BaseDataFrame", RECORD)
    src = ast.unparse(f)
    if "self.display_name_mapping.update(" not in src:
        raise Untranslatable(f"{RECORD}: does not update self.display_name_mapping")
    if ".alias_or_name for" not in src:
        raise Untranslatable(f"{RECORD}: keys are not the columns' alias_or_name")
    for n in ast.walk(f):
        if isinstance(n, ast.IfExp) and "display_name" in ast.unparse(n.body):
            if not (isinstance(n.test, ast.Call) and dotted(n.test.func) == "isinstance"):
                raise Untranslatable(f"{RECORD}: display-name choice is not an isinstance test")
            if isinstance(n.orelse, ast.Name) and dotted(n.test.args[0]) == n.orelse.id:
                return True          # a str argument is recorded as given
            if isinstance(n.orelse, ast.Call) and dotted(n.orelse.func) == "self._display_name" and len(n.orelse.args) == 1 \
                    and dotted(n.orelse.args[0]) == dotted(n.test.args[0]):
                h = ast.unparse(py2v.find_method(df_tree, "BaseDataFrame", "_display_name"))
                for needle in ("to_column(", ".name", "return name"):
                    if needle not in h:
                        raise Untranslatable(f"_display_name: `{needle}` not found")
                return False         # ... as the text of the identifier it denotes (back-ticks stripped)
            raise Untranslatable(f"{RECORD}: a non-Column argument is recorded as `{ast.unparse(n.orelse)}`")
    raise Untranslatable(f"{RECORD}: display-name choice not found")


def view_facts(df_tree, ses_tree):
    cls = py2v.find_class(df_tree, "BaseDataFrame")
    out = {}
    # columns
    f = next((st for st in cls.body if isinstance(st, ast.FunctionDef) and st.name == "columns"), None)
    if f is None:
        raise Untranslatable("BaseDataFrame.columns not found")
    src = ast.unparse(f)
    if "self._set_display_names(" in src and ".named_selects" in src:
        out["v_columns_map"] = True
    elif "self.expression.named_selects" in src and "_set_display_names" not in src:
        out["v_columns_map"] = False
    else:
        raise Untranslatable("columns: unknown shape")
    # _set_display_names + _get_expressions
    sd = ast.unparse(py2v.find_method(df_tree, "BaseDataFrame", "_set_display_names"))
    for needle in ("quote_preserving_alias_or_name(", "in self.display_name_mapping", "'case_sensitive': True"):
        if needle not in sd:
            raise Untranslatable(f"_set_display_names: `{needle}` not found")
    if "args.get('order')" in sd:
        for needle in ("not key.table", "renamed.get(quote_preserving_alias_or_name(key))", "key.set('this', display_name_identifier.copy())",
                       "renamed[column_name] = display_name_identifier"):
            if needle not in sd:
                raise Untranslatable(f"_set_display_names: rewrites ORDER BY keys in a shape I do not know (`{needle}` missing)")
        out["orderby_follows_display"] = True
    else:
        out["orderby_follows_display"] = False
    ge = ast.unparse(py2v.find_method(df_tree, "BaseDataFrame", "_get_expressions"))
    out["v_sql_map"] = "self._set_display_names(select_expression)" in ge or "._set_display_names(select_expression)" in ge
    for m in ("collect", "_collect", "toPandas"):
        ms = ast.unparse(py2v.find_method(df_tree, "BaseDataFrame", m))
        if m == "collect":
            if "self._collect(" not in ms:
                raise Untranslatable("collect does not go through _collect")
        elif "self._get_expressions(" not in ms:
            raise Untranslatable(f"{m} does not go through _get_expressions")
    # schema
    f = next((st for st in cls.body if isinstance(st, ast.FunctionDef) and st.name == "schema"), None)
    src = ast.unparse(f)
    out["schema_key_spark"] = False
    if "self.display_name_mapping.get(c.name, c.name)" in src:
        out["v_schema_map"] = True
    elif "self._schema_display_name(c.name)" in src:
        h = ast.unparse(py2v.find_method(df_tree, "BaseDataFrame", "_schema_display_name"))
        for needle in ("exp.parse_identifier(", "dialect=self.session.output_dialect).name",
                       "self.display_name_mapping.get(self.session._normalize_string(name), name)"):
            if needle not in h:
                raise Untranslatable(f"_schema_display_name: `{needle}` not found")
        out["v_schema_map"] = True
        out["schema_key_spark"] = True
    elif "display_name_mapping" not in src:
        out["v_schema_map"] = False
    else:
        raise Untranslatable("schema: unknown use of the display-name map")
    # session._collect
    cf = py2v.find_method(ses_tree, "_BaseSession", "_collect")
    sc = ast.unparse(cf)
    # the names must come from the cursor's description: the loop that parses `col[0]` iterates over self._cur.description,
    # possibly through temporaries introduced for readability (`cursor = self._cur; description = cursor.description`)
    loops = [n for n in ast.walk(cf) if isinstance(n, ast.For) and "'case_sensitive'" in ast.unparse(n)
             and isinstance(n.target, ast.Name) and f"{n.target.id}[0]" in ast.unparse(n)]
    if len(loops) != 1 or _inline_temps(loops[0].iter, _assignments(cf)) != "self._cur.description":
        raise Untranslatable("session._collect: the result columns are not read from the cursor description")
    out["v_collect_case"] = ("'case_sensitive': True" in sc and "to_string_literal=True" in sc
                             and "from_dialect='execution'" in sc and "to_dialect='output'" in sc)
    return out


def generate(repo: str):
    ops_tree, ops_src = py2v.load(os.path.join(repo, "sqlframe/base/operations.py"))
    df_tree, df_src = py2v.load(os.path.join(repo, "sqlframe/base/dataframe.py"))
    gr_tree, _ = py2v.load(os.path.join(repo, "sqlframe/base/group.py"))
    ses_tree, _ = py2v.load(os.path.join(repo, "sqlframe/base/session.py"))
    fn_tree, _ = py2v.load(os.path.join(repo, "sqlframe/base/functions.py"))
    col_tree, _ = py2v.load(os.path.join(repo, "sqlframe/base/column.py"))

    vals = c01_facts.enum_values(ops_tree)
    w_df = c01_facts.wrapper_facts(ops_tree, ops_src, "operation", "self")
    w_gr = c01_facts.wrapper_facts(ops_tree, ops_src, "group_operation", "self._df")
    decos = c01_facts.method_decorators(df_tree, "BaseDataFrame", "operation")
    gdecos = c01_facts.method_decorators(gr_tree, "_BaseGroupedData", "group_operation")

    # every method of the three classes that records at all (so that a NEW recorder is noticed)
    recorders = {}
    for cls_name, tree in (("BaseDataFrame", df_tree), ("_BaseGroupedData", gr_tree), ("_BaseSession", ses_tree)):
        cls = py2v.find_class(tree, cls_name)
        for st in cls.body:
            if isinstance(st, ast.FunctionDef) and st.name != RECORD:
                k = direct_record(st, f"{cls_name}.{st.name}")
                if k != "RNone":
                    recorders[f"{cls_name}.{st.name}"] = k
    modelled = {"BaseDataFrame." + m for m in DF_METHODS.values()} | {"BaseDataFrame.withColumns", "_BaseGroupedData.agg",
                                                                       "_BaseSession.createDataFrame"}
    extra = sorted(set(recorders) - modelled)
    if extra:
        raise Untranslatable(f"methods outside the model record display names: {extra}")

    rec = {}
    for m, py in DF_METHODS.items():
        f = py2v.find_method(df_tree, "BaseDataFrame", py)
        k = direct_record(f, py)
        if k == "RNone":
            dele = _wrapped_delegate(f)
            if dele:
                k = direct_record(py2v.find_method(df_tree, "BaseDataFrame", dele), dele)
        rec[m] = k
    rec["MGroupAgg"] = direct_record(py2v.find_method(gr_tree, "_BaseGroupedData", "agg"), "GroupedData.agg")
    rec["MCreate"] = direct_record(py2v.find_method(ses_tree, "_BaseSession", "createDataFrame"), "createDataFrame")

    resel = {m: "SelPrivate" for m in ALL_METH}
    for m in ("MDrop", "MFillna", "MDropna"):
        resel[m] = reselect_kind(py2v.find_method(df_tree, "BaseDataFrame", DF_METHODS[m]), DF_METHODS[m])
    # dropDuplicates(subset) is modelled as the composite withColumn / where / drop on a copy
    dd = ast.unparse(py2v.find_method(df_tree, "BaseDataFrame", "dropDuplicates"))
    # the helper column is called row_num / num_nulls -- literally, or through _unused_column_name('<that name>', <current columns>)
    # (underscores appended only when the frame already has such a column; such names are not generated)
    def helper_shapes(src, base, uses):
        lit = all(u.format(n=repr(base)) in src for u in uses)
        m = re.search(r"(\w+) = self\._unused_column_name\(" + re.escape(repr(base)) + r", ", src)
        var = m is not None and all(u.format(n=m.group(1)) in src for u in uses)
        if var:
            h = ast.unparse(py2v.find_method(df_tree, "BaseDataFrame", "_unused_column_name"))
            for needle in ("taken = {column.alias_or_name for column in columns}", "while name in taken", "return name"):
                if needle not in h:
                    raise Untranslatable(f"_unused_column_name: `{needle}` not found")
        return lit or var

    if not ("self.copy()" in dd and ".where(" in dd and helper_shapes(dd, "row_num", [".withColumn({n}", ".drop({n})"])):
        raise Untranslatable("dropDuplicates: composite shape (copy / withColumn(row_num) / where / drop(row_num)) changed")
    dn = ast.unparse(py2v.find_method(df_tree, "BaseDataFrame", "dropna"))
    if not ("append=True" in dn and ".where(" in dn and "*all_columns" in dn and helper_shapes(dn, "num_nulls", [".alias({n})"])):
        raise Untranslatable("dropna: composite shape (alias(num_nulls) appended / where / select(*all_columns)) changed")
    # agg delegates to groupBy().agg
    ag = ast.unparse(py2v.find_method(df_tree, "BaseDataFrame", "agg"))
    if "self.groupBy().agg(" not in ag:
        raise Untranslatable("agg: does not delegate to groupBy().agg")
    # join closes with the private select
    jn = py2v.find_method(df_tree, "BaseDataFrame", "join")
    if reselect_kind(jn, "join") != "SelPrivate":
        raise Untranslatable("join: does not close with the private select on a copy of self")
    jsrc = ast.unparse(jn)
    if "other_df.display_name_mapping" in jsrc or "other.display_name_mapping" in jsrc:
        for needle in ("new_df.display_name_mapping.update(", "other_df.display_name_mapping.items()", "not in left_names",
                       "left_names = {column.alias_or_name for column in self_columns}"):
            if needle not in jsrc:
                raise Untranslatable(f"join: merges the right frame's display names in a shape I do not know (`{needle}` missing)")
        join_merges = True
    else:
        join_merges = False
    # the helper that resolves join(on=[names]) is found through its call in join (`join_column_pairs, join_clause = self.<helper>(...)`),
    # not by its name
    helpers = {dotted(n.value.func).split(".", 1)[1] for n in ast.walk(jn)
               if isinstance(n, ast.Assign) and isinstance(n.targets[0], ast.Tuple)
               and [dotted(e) for e in n.targets[0].elts] == ["join_column_pairs", "join_clause"]
               and isinstance(n.value, ast.Call) and (dotted(n.value.func) or "").startswith("self.")}
    if len(helpers) != 1:
        raise Untranslatable(f"join: the helper that resolves the key names is not called as expected ({sorted(helpers)})")
    hj = ast.unparse(py2v.find_method(df_tree, "BaseDataFrame", helpers.pop()))
    if "join_column.expression.alias_or_name in cte.this.named_selects" in hj:
        join_key_bare = True
    elif "join_column.alias_or_name in cte.this.named_selects" in hj:
        join_key_bare = False
    else:
        raise Untranslatable("_handle_join_column_names_only: the key lookup in the CTE's named_selects changed")
    # how orderBy builds a sort term: read by C01's order_key_facts (comprehension or loop, temporaries read through)
    okf = c01_facts.order_key_facts(df_tree, df_src)
    ob = ast.unparse(py2v.find_method(df_tree, "BaseDataFrame", "orderBy"))
    if okf["shape"] == "text parsed with the input dialect":
        if "identify=" in ob:
            raise Untranslatable("orderBy: keys are rendered with identify= before being re-parsed (not modelled)")
        orderby_identify = False      # keys are rendered to text and re-parsed: bare keyword names fail
    elif okf["shape"] == "exp.Ordered built directly":
        terms = [n for n in ast.walk(py2v.find_method(df_tree, "BaseDataFrame", "orderBy"))
                 if isinstance(n, ast.Call) and dotted(n.func) == "exp.Ordered"]
        this = {k.arg: k.value for k in terms[0].keywords}["this"]
        if not re.fullmatch(r"\w+\.(column_expression|expression)(\.copy\(\))?", ast.unparse(this)):
            raise Untranslatable(f"orderBy: exp.Ordered(this={ast.unparse(this)}) is not the key's expression")
        orderby_identify = True       # keys are built directly: every name is accepted
    else:
        raise Untranslatable("orderBy: ordering keys are built in a shape I do not know")
    gb = py2v.find_method(df_tree, "BaseDataFrame", "groupBy")
    gbs = ast.unparse(gb)
    if ".set('table', None)" in gbs:
        for needle in ("if 'joins' not in self.expression.args", "find_all(exp.Column)"):
            if needle not in gbs:
                raise Untranslatable(f"groupBy: drops table qualifiers in a shape I do not know (`{needle}` missing)")
        groupby_unq = True
    else:
        groupby_unq = False
    td = ast.unparse(py2v.find_method(df_tree, "BaseDataFrame", "toDF"))
    if rec["MToDF"] != "RNone" and (".alias(" not in td or "exp.alias_(" in td):
        raise Untranslatable("toDF records display names but does not build its aliases with Column.alias")
    if rec["MToDF"] == "RNone" and "exp.alias_(col, new_col)" not in td:
        raise Untranslatable("toDF: alias construction changed")

    kinds = {}
    for m, py in DF_METHODS.items():
        kinds[m] = decos.get(py)
    kinds["MCreate"] = None
    kinds["MGroupAgg"] = None          # group wrapper: separate field
    gkind = gdecos.get("agg")

    col_ident = col_facts(fn_tree)
    alias_raw = alias_facts(col_tree)
    str_raw = update_facts(df_tree)
    views = view_facts(df_tree, ses_tree)

    def b(x):
        return "true" if x else "false"

    L = ["(* GENERATED from /repo on every run by translate/c10_facts.py -- do not edit *)",
         "From SF Require Import C10.Model.", "From Coq Require Import ZArith.", ""]
    L.append("Definition rank (k : opk) : Z := match k with " +
             " | ".join(f"{k} => ({vals[k]})%Z" for k in OPK) + " end.")
    L.append("Definition opk_ltb a b := Z.ltb (rank a) (rank b).")
    L.append("Definition opk_leb a b := Z.leb (rank a) (rank b).")
    L.append("Definition opk_gtb a b := Z.gtb (rank a) (rank b).")
    L.append("Definition opk_geb a b := Z.geb (rank a) (rank b).")
    L.append(f"Definition wrap_needed_df (last_op new_op : opk) : bool := {w_df['test']}.")
    L.append(f"Definition wrap_needed_group (last_op new_op : opk) : bool := {w_gr['test']}.")
    L.append(f"Definition new_kind_df (op last_op : opk) : opk := {w_df['new_kind']}.")
    L.append(f"Definition new_kind_group (op last_op : opk) : opk := {w_gr['new_kind']}.")
    L.append("Definition gen_rec_of (m : meth) : rkind := match m with " +
             " | ".join(f"{m} => {rec[m]}" for m in ALL_METH) + " end.")
    L.append("Definition gen_resel_of (m : meth) : rsel := match m with " +
             " | ".join(f"{m} => {resel[m]}" for m in ALL_METH) + " end.")
    L.append("Definition gen_kind_of (m : meth) : option opk := match m with " +
             " | ".join(f"{m} => {('Some ' + kinds[m]) if kinds[m] else 'None'}" for m in ALL_METH) + " end.")
    L.append("Definition gen_cfg : cfg := mkCfg gen_rec_of gen_resel_of gen_kind_of "
             f"wrap_needed_df new_kind_df {b(w_df['init_wraps'])} wrap_needed_group new_kind_group {b(w_gr['init_wraps'])} "
             f"{('(Some ' + gkind + ')') if gkind else 'None'} {b(col_ident)} {b(alias_raw)} {b(str_raw)} {b(join_merges)} {b(join_key_bare)} {b(views['schema_key_spark'])} "
             f"{b(orderby_identify)} {b(groupby_unq)} {b(views['orderby_follows_display'])} "
             f"{b(views['v_columns_map'])} {b(views['v_sql_map'])} {b(views['v_schema_map'])} {b(views['v_collect_case'])}.")
    facts = [
        {"name": "rec_of", "from": "dataframe.py/session.py/group.py: calls of _update_display_name_mapping", "value": rec},
        {"name": "all recorders", "value": recorders},
        {"name": "resel_of", "from": "dataframe.py: drop/fillna/dropna closing select", "value": {m: resel[m] for m in ("MDrop", "MFillna", "MDropna")}},
        {"name": "kind_of", "from": "dataframe.py decorators", "value": kinds},
        {"name": "group_agg_kind", "value": gkind},
        {"name": "rank", "from": "operations.py: class Operation", "value": vals},
        {"name": "wrap_needed_df", "hash": w_df["hash"], "text": w_df["test"]},
        {"name": "wrap_needed_group", "hash": w_gr["hash"], "text": w_gr["test"]},
        {"name": "new_kind", "text": w_df["new_kind"]},
        {"name": "init_wraps", "value": [w_df["init_wraps"], w_gr["init_wraps"]]},
        {"name": "col_disp_ident", "from": "functions.py: col", "value": col_ident},
        {"name": "alias_disp_raw", "from": "column.py: Column.alias", "value": alias_raw},
        {"name": "str_disp_raw", "from": "dataframe.py: _update_display_name_mapping", "value": str_raw},
        {"name": "join_merges", "from": "dataframe.py: join", "value": join_merges},
        {"name": "join_key_bare", "from": "dataframe.py: _handle_join_column_names_only", "value": join_key_bare},
        {"name": "orderby_identify", "from": "dataframe.py: orderBy", "value": orderby_identify},
        {"name": "groupby_unqualifies", "from": "dataframe.py: groupBy", "value": groupby_unq},
        {"name": "views", "from": "dataframe.py: columns/_set_display_names/_get_expressions/schema; session.py: _collect", "value": views},
    ]
    return "\n".join(L) + "\n", facts


if __name__ == "__main__":
    import sys
    text, facts = generate(sys.argv[1] if len(sys.argv) > 1 else "/repo")
    print(text)
