"""T1 for C08: regenerate from /repo (fail-closed)
  * Window's sentinel constants and `_calc_start_end.get_value_and_side` (window.py)
  * the frame kind each of rowsBetween / rangeBetween writes
  * (desc, nulls_first) of the six Column ordering methods (column.py)
  * whether WindowSpec.orderBy passes a bare key through or gives it an explicit null placement
"""
from __future__ import annotations

import ast
import os

from vlib import py2v
from vlib.py2v import Untranslatable, dotted

METHODS = {"asc": "MAsc", "desc": "MDesc", "asc_nulls_first": "MAscNF", "asc_nulls_last": "MAscNL",
           "desc_nulls_first": "MDescNF", "desc_nulls_last": "MDescNL"}


def ordering_flags(col_tree):
    cls = py2v.find_class(col_tree, "Column")
    defs = {}
    aliases = {}
    for st in cls.body:
        if isinstance(st, ast.FunctionDef) and st.name in METHODS:
            body = [s for s in st.body if not (isinstance(s, ast.Expr) and isinstance(s.value, ast.Constant))]
            # new_expression = exp.Ordered(this=self.column_expression, desc=B, nulls_first=B); return Column(new_expression)
            if len(body) != 2 or not isinstance(body[0], ast.Assign) or not isinstance(body[1], ast.Return):
                raise Untranslatable(f"Column.{st.name}: body shape changed")
            call = body[0].value
            if not (isinstance(call, ast.Call) and dotted(call.func) == "exp.Ordered"):
                raise Untranslatable(f"Column.{st.name}: does not build exp.Ordered")
            kw = {k.arg: k.value for k in call.keywords}
            if dotted(kw.get("this")) != "self.column_expression":
                raise Untranslatable(f"Column.{st.name}: this= is not self.column_expression")
            vals = []
            for a in ("desc", "nulls_first"):
                v = kw.get(a)
                if not (isinstance(v, ast.Constant) and isinstance(v.value, bool)):
                    raise Untranslatable(f"Column.{st.name}: {a}= is not a boolean literal")
                vals.append(v.value)
            r = body[1].value
            if not (isinstance(r, ast.Call) and dotted(r.func) == "Column" and dotted(r.args[0]) == dotted(body[0].targets[0])):
                raise Untranslatable(f"Column.{st.name}: return shape changed")
            defs[st.name] = tuple(vals)
        elif isinstance(st, ast.Assign) and len(st.targets) == 1 and isinstance(st.targets[0], ast.Name) \
                and st.targets[0].id in METHODS and isinstance(st.value, ast.Name):
            aliases[st.targets[0].id] = st.value.id
    out = {}
    for m in METHODS:
        if m in defs:
            out[m] = defs[m]
        elif m in aliases and aliases[m] in defs:
            out[m] = defs[aliases[m]]
        else:
            raise Untranslatable(f"Column.{m} not found")
    return out


def window_orderby_bare(win_tree):
    """How WindowSpec.orderBy turns its arguments into order expressions.
    Returns 'bare' when it uses Column.ensure_col(x).expression unchanged, 'spark_default' when a non-Ordered key is
    wrapped into exp.Ordered(..., nulls_first=True) (ascending, NULLs first), else fails closed."""
    f = py2v.find_method(win_tree, "WindowSpec", "orderBy")
    src = ast.unparse(f)
    comps = [n for n in ast.walk(f) if isinstance(n, ast.ListComp)]
    for c in comps:
        elt = c.elt
        if isinstance(elt, ast.Attribute) and elt.attr == "expression" and isinstance(elt.value, ast.Call) \
                and dotted(elt.value.func) == "Column.ensure_col":
            # is there any later wrapping into Ordered?
            if "Ordered" in src:
                break
            return "bare"
    if "Ordered" in src:
        # accept exactly: a helper/inline wrapping of non-Ordered keys with nulls_first=True and no desc=True
        calls = [n for n in ast.walk(f) if isinstance(n, ast.Call) and dotted(n.func) == "exp.Ordered"]
        if len(calls) == 1:
            kw = {k.arg: k.value for k in calls[0].keywords}
            nf = kw.get("nulls_first")
            d = kw.get("desc")
            if isinstance(nf, ast.Constant) and nf.value is True and (d is None or (isinstance(d, ast.Constant) and not d.value)):
                return "spark_default"
    raise Untranslatable("WindowSpec.orderBy: cannot tell how bare keys are ordered")


def _strip_doc_and_comments(body):
    return [st for st in body if not (isinstance(st, ast.Expr) and isinstance(st.value, ast.Constant))]


def spec_building(win_tree):
    """What partitionBy / orderBy do to the component they set: 'replace' (Spark) or 'append', fail-closed.
    Both must (1) start from `window_spec = self.copy()` (so the other components and the receiver are kept), (2) write
    exactly one component of window_spec.expression, (3) return window_spec."""
    out = {}
    for m, comp in (("partitionBy", "partition_by"), ("orderBy", "order")):
        f = py2v.find_method(win_tree, "WindowSpec", m)
        body = _strip_doc_and_comments(f.body)
        # the statements that compute `cols` / `expressions` (imports, flatten, ensure_col, Ordered wrapping) are the prefix
        idx = [i for i, st in enumerate(body) if isinstance(st, ast.Assign) and dotted(st.targets[0]) == "window_spec"]
        if len(idx) != 1:
            raise Untranslatable(f"WindowSpec.{m}: `window_spec = ...` not found exactly once")
        i = idx[0]
        cp = body[i].value
        if not (isinstance(cp, ast.Call) and dotted(cp.func) == "self.copy" and not cp.args and not cp.keywords):
            raise Untranslatable(f"WindowSpec.{m}: window_spec is not self.copy()")
        for st in body[:i]:
            # prefix may only bind local names (cols, expressions) or import
            if isinstance(st, (ast.Import, ast.ImportFrom)):
                continue
            if isinstance(st, ast.Assign) and all(isinstance(t_, ast.Name) and t_.id in ("cols", "expressions") for t_ in st.targets):
                if any(isinstance(n, ast.Attribute) and dotted(n) and dotted(n).startswith("self.") for n in ast.walk(st.value)):
                    raise Untranslatable(f"WindowSpec.{m}: the new keys depend on the receiver")
                continue
            raise Untranslatable(f"WindowSpec.{m}: unexpected statement before the copy: {ast.unparse(st)[:60]}")
        tail = body[i + 1:]
        if not tail or not (isinstance(tail[-1], ast.Return) and dotted(tail[-1].value) == "window_spec"):
            raise Untranslatable(f"WindowSpec.{m}: does not return window_spec")
        mid = tail[:-1]
        src = [ast.unparse(st) for st in mid]
        if comp == "partition_by":
            if src == ["window_spec.expression.set('partition_by', expressions)"]:
                out[m] = "replace"
            elif src == ["partition_by_expressions = window_spec.expression.args.get('partition_by', [])",
                         "partition_by_expressions.extend(expressions)",
                         "window_spec.expression.set('partition_by', partition_by_expressions)"]:
                out[m] = "append"
            else:
                raise Untranslatable(f"WindowSpec.{m}: unrecognised way of setting the partitioning: {src}")
        else:
            if src == ["window_spec.expression.set('order', exp.Order(expressions=expressions))"]:
                out[m] = "replace"
            elif src == ["if window_spec.expression.args.get('order') is None:\n    window_spec.expression.set('order', exp.Order(expressions=[]))",
                         "order_by = window_spec.expression.args['order'].expressions",
                         "order_by.extend(expressions)",
                         "window_spec.expression.args['order'].set('expressions', order_by)"]:
                out[m] = "append"
            else:
                raise Untranslatable(f"WindowSpec.{m}: unrecognised way of setting the ordering: {src}")
    # frames: copy, compute all five spec fields, merge with the new fields winning, return
    for m in ("rowsBetween", "rangeBetween"):
        f = py2v.find_method(win_tree, "WindowSpec", m)
        src = [ast.unparse(st) for st in _strip_doc_and_comments(f.body)]
        if len(src) != 5 or src[0] != "window_spec = self.copy()" or src[1] != "spec = self._calc_start_end(start, end)" \
                or not src[2].startswith("spec['kind'] = ") or src[4] != "return window_spec" or src[3] != \
                "window_spec.expression.set('spec', exp.WindowSpec(**{**window_spec.expression.args.get('spec', exp.WindowSpec()).args, **spec}))":
            raise Untranslatable(f"WindowSpec.{m}: body shape changed: {src}")
    # the receiver of the class-level entry points is a fresh, empty spec
    wcls = py2v.find_class(win_tree, "Window")
    for m, call in (("partitionBy", "WindowSpec().partitionBy(*cols)"), ("orderBy", "WindowSpec().orderBy(*cols)"),
                    ("rowsBetween", "WindowSpec().rowsBetween(start, end)"), ("rangeBetween", "WindowSpec().rangeBetween(start, end)")):
        fm = [st for st in wcls.body if isinstance(st, ast.FunctionDef) and st.name == m]
        if len(fm) != 1:
            raise Untranslatable(f"Window.{m} not found")
        b = _strip_doc_and_comments(fm[0].body)
        if len(b) != 1 or not isinstance(b[0], ast.Return) or ast.unparse(b[0].value) != call:
            raise Untranslatable(f"Window.{m}: is not `return {call}`")
    # copy() is a deep copy of the expression
    cp = py2v.find_method(win_tree, "WindowSpec", "copy")
    b = _strip_doc_and_comments(cp.body)
    if len(b) != 1 or ast.unparse(b[0]) != "return WindowSpec(self.expression.copy())":
        raise Untranslatable("WindowSpec.copy: is not `return WindowSpec(self.expression.copy())`")
    return out


def frame_kinds(win_tree):
    out = {}
    for m in ("rowsBetween", "rangeBetween"):
        f = py2v.find_method(win_tree, "WindowSpec", m)
        kinds = [st.value.value for st in ast.walk(f)
                 if isinstance(st, ast.Assign) and isinstance(st.targets[0], ast.Subscript)
                 and dotted(st.targets[0].value) == "spec" and isinstance(st.targets[0].slice, ast.Constant)
                 and st.targets[0].slice.value == "kind" and isinstance(st.value, ast.Constant)]
        if len(kinds) != 1:
            raise Untranslatable(f"WindowSpec.{m}: kind assignment not found")
        calls = [n for n in ast.walk(f) if isinstance(n, ast.Call) and dotted(n.func) == "self._calc_start_end"]
        if len(calls) != 1 or [dotted(a) for a in calls[0].args] != ["start", "end"]:
            raise Untranslatable(f"WindowSpec.{m}: does not call _calc_start_end(start, end)")
        out[m] = kinds[0]
    return out


def boundary_function(win_tree, calc):
    """_calc_start_end must compute (value, side) of each bound with ONE function f -- a nested function or a
    (static)method of WindowSpec -- as `a, b = f(start)`, `c, d = f(end)` and return
    {"start": a, "start_side": b, "end": c, "end_side": d}.  Returns (FunctionDef of f, its parameter name)."""
    body = _strip_doc_and_comments(calc.body)
    nested = {st.name: st for st in body if isinstance(st, ast.FunctionDef)}
    rest = [st for st in body if not isinstance(st, ast.FunctionDef)]
    if [a.arg for a in calc.args.args] != ["self", "start", "end"]:
        raise Untranslatable("_calc_start_end signature changed")
    if len(rest) != 3 or not isinstance(rest[2], ast.Return) or not isinstance(rest[2].value, ast.Dict):
        raise Untranslatable("_calc_start_end: expected two boundary computations and a returned dict")
    names, callees = [], []
    for st, arg in zip(rest[:2], ("start", "end")):
        if not (isinstance(st, ast.Assign) and len(st.targets) == 1 and isinstance(st.targets[0], ast.Tuple)
                and len(st.targets[0].elts) == 2 and all(isinstance(e, ast.Name) for e in st.targets[0].elts)
                and isinstance(st.value, ast.Call) and len(st.value.args) == 1 and not st.value.keywords
                and dotted(st.value.args[0]) == arg):
            raise Untranslatable(f"_calc_start_end: `v, side = f({arg})` not found")
        names.append([e.id for e in st.targets[0].elts])
        callees.append(dotted(st.value.func))
    if callees[0] != callees[1] or callees[0] is None:
        raise Untranslatable("_calc_start_end: the two bounds are not computed by the same function")
    # `start, start_side = f(start)` rebinds start before `f(end)`: fine, `end` is a different name; but refuse f(start) twice etc.
    d = rest[2].value
    got = {k.value: dotted(v) for k, v in zip(d.keys, d.values) if isinstance(k, ast.Constant)}
    want = {"start": names[0][0], "start_side": names[0][1], "end": names[1][0], "end_side": names[1][1]}
    if got != want or len(d.keys) != 4:
        raise Untranslatable(f"_calc_start_end: returned dict routes {got}, expected {want}")
    c = callees[0]
    if c in nested:
        fn = nested[c]
        params = [a.arg for a in fn.args.args]
    elif c.startswith("self.") or c.startswith("WindowSpec."):
        fn = py2v.find_method(win_tree, "WindowSpec", c.split(".", 1)[1])
        params = [a.arg for a in fn.args.args]
        decos = [dotted(x) for x in fn.decorator_list]
        if decos == ["staticmethod"]:
            pass
        elif decos == [] and params[:1] == ["self"]:
            params = params[1:]
        elif decos == ["classmethod"] and params[:1] == ["cls"]:
            params = params[1:]
        else:
            raise Untranslatable(f"boundary function {c}: unexpected decorators {decos}")
    else:
        raise Untranslatable(f"_calc_start_end: boundary function {c} not found")
    if len(params) != 1 or fn.args.vararg or fn.args.kwarg or fn.args.defaults or fn.args.kwonlyargs:
        raise Untranslatable(f"boundary function {c}: signature changed")
    return fn, params[0]


def generate(repo: str):
    win_tree, win_src = py2v.load(os.path.join(repo, "sqlframe/base/window.py"))
    col_tree, col_src = py2v.load(os.path.join(repo, "sqlframe/base/column.py"))
    wcls = py2v.find_class(win_tree, "Window")
    consts = py2v.class_constants(wcls, "Window")
    for k in ("unboundedPreceding", "unboundedFollowing", "currentRow"):
        if k not in consts:
            raise Untranslatable(f"Window.{k} is not a constant")
    calc = py2v.find_method(win_tree, "WindowSpec", "_calc_start_end")
    gvs, xname = boundary_function(win_tree, calc)

    def lit_expr(tr, n):
        # F.lit(<int expr>).expression
        call = n.value
        if isinstance(call, ast.Call) and dotted(call.func) == "F.lit" and len(call.args) == 1:
            a, ta = tr.e(call.args[0])
            if ta != "Z":
                raise Untranslatable("F.lit of a non-int")
            return f"(BLit {a})", "bvalue"
        raise Untranslatable(".expression of something else")

    def zabs(tr, n):
        a, ta = tr.e(n.args[0])
        if ta != "Z" or len(n.args) != 1:
            raise Untranslatable("abs")
        return f"(Z.abs {a})", "Z"

    tr = py2v.Tr(
        types={xname: "Z"},
        env={f"Window.{k}": (f"w_{k}", "Z") for k in consts if "." not in k},
        calls={"attr:expression": lit_expr, "abs": zabs},
        strs={"CURRENT ROW": ("BCurrentRow", "bvalue"), "UNBOUNDED": ("BUnbounded", "bvalue"),
              "PRECEDING": ("(Some Preceding)", "optside"), "FOLLOWING": ("(Some Following)", "optside")})
    term, ty = tr.body(gvs.body)
    flags = ordering_flags(col_tree)
    kinds = frame_kinds(win_tree)
    bare = window_orderby_bare(win_tree)
    building = spec_building(win_tree)
    L = ["(* GENERATED from /repo on every run by translate/c08_facts.py -- do not edit *)",
         "From SF Require Import C08.Window.", "Open Scope Z_scope."]
    for k, v in consts.items():
        if "." not in k and isinstance(v, int):
            L.append(f"Definition w_{k} : Z := ({v}).")
    L.append("Ltac unfold_window_consts := unfold " + ", ".join(f"w_{k}" for k, v in consts.items() if "." not in k and isinstance(v, int)) + " in *.")
    L.append(f"Definition get_value_and_side ({xname} : Z) : bvalue * option bside := {term}.")
    L.append("Definition order_flags (m : ometh) : bool * bool := match m with MBare => (false, false) | " +
             " | ".join(f"{c} => ({'true' if flags[m][0] else 'false'}, {'true' if flags[m][1] else 'false'})"
                        for m, c in METHODS.items()) + " end.")
    L.append(f'Definition rows_kind : string := "{kinds["rowsBetween"]}".')
    L.append(f'Definition range_kind : string := "{kinds["rangeBetween"]}".')
    L.append(f"Definition window_bare_key_is_spark_default : bool := {'true' if bare == 'spark_default' else 'false'}.")
    L.append(f"Definition part_replaces : bool := {'true' if building['partitionBy'] == 'replace' else 'false'}.")
    L.append(f"Definition order_replaces : bool := {'true' if building['orderBy'] == 'replace' else 'false'}.")
    facts = [
        {"name": "spec building", "from": "window.py: WindowSpec.partitionBy/orderBy/rowsBetween/rangeBetween/copy, Window.*",
         "value": building},
        {"name": "Window constants", "from": "window.py: class Window", "value": {k: v for k, v in consts.items() if "." not in k}},
        {"name": "get_value_and_side", "from": "window.py: WindowSpec._calc_start_end", "hash": py2v.src_hash(gvs, win_src), "text": term},
        {"name": "order_flags", "from": "column.py: asc/desc/...", "value": {m: list(v) for m, v in flags.items()}},
        {"name": "frame kinds", "value": kinds},
        {"name": "window bare key", "from": "window.py: WindowSpec.orderBy", "value": bare},
    ]
    return "\n".join(L) + "\n", facts
