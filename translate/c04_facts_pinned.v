(* GENERATED from /repo on every run by translate/c04_summary.py -- do not edit *)
From SF Require Import C04.Heap.
From Coq Require Import ZArith List String.
Import ListNotations.
Open Scope Z_scope.
Definition rank (k : opk) : Z := match k with INIT => (-1) | NO_OP => (0) | FROM => (1) | WHERE => (2) | GROUP_BY => (3) | HAVING => (4) | SELECT => (5) | ORDER_BY => (6) | LIMIT => (7) end.
Definition opk_ltb a b := Z.ltb (rank a) (rank b).
Definition opk_leb a b := Z.leb (rank a) (rank b).
Definition opk_gtb a b := Z.gtb (rank a) (rank b).
Definition opk_geb a b := Z.geb (rank a) (rank b).
Definition wrap_needed (last_op new_op : opk) : bool := (orb (opk_ltb new_op last_op) (andb (opk_eqb last_op new_op) (opk_eqb new_op SELECT))).
Definition new_kind (op last_op : opk) : opk := (if (negb (opk_eqb op NO_OP)) then op else last_op).
Definition init_wraps : bool := true.
Definition wrap_needed_group (last_op new_op : opk) : bool := (orb (opk_ltb new_op last_op) (andb (opk_eqb last_op new_op) (opk_eqb new_op SELECT))).
Definition new_kind_group (op last_op : opk) : opk := (if (negb (opk_eqb op NO_OP)) then op else last_op).
Definition init_wraps_group : bool := true.
(* does a call of a method decorated with [op] hand its body a COPY when the receiver's last_op is [last]? *)
Definition wraps (op last : opk) : bool :=
  if opk_eqb last INIT then orb init_wraps (wrap_needed NO_OP (new_kind op NO_OP))
  else wrap_needed last (new_kind op last).
Definition result_kind (op last : opk) : opk := new_kind op (if opk_eqb last INIT then NO_OP else last).
Open Scope string_scope.
Definition methods : list minfo := [
  mkM "__getattr__"%string None [] None [] false RetOther false;
  mkM "__getitem__"%string None [] None [] false RetOther false;
  mkM "__copy__"%string None [] None [] false RetDF false;
  mkM "latest_cte_name"%string None [] None [] false RetOther false;
  mkM "pending_join_hints"%string None [] None [] false RetOther false;
  mkM "pending_partition_hints"%string None [] None [] false RetOther false;
  mkM "columns"%string None [] None [] false RetOther false;
  mkM "na"%string None [] None [] false RetOther false;
  mkM "stat"%string None [] None [] false RetOther false;
  mkM "schema"%string None [] None [] true RetOther false;
  mkM "sparkSession"%string None [] None [] false RetOther false;
  mkM "sql"%string None [] None [mkW [] RSelf WHintObj] false RetOther false;
  mkM "copy"%string None [] None [] false RetDF false;
  mkM "select"%string (Some SELECT) [SELECT] (Some SELECT) [mkW [] RSelf WHintObj; mkW [SELECT] RSelf WDisplay; mkW [SELECT] RSelf WLast] false RetDF true;
  mkM "alias"%string (Some NO_OP) [NO_OP] (Some NO_OP) [mkW [] RSelf WHintObj; mkW [NO_OP] RSelf WHintObj] false RetDF false;
  mkM "where"%string (Some WHERE) [WHERE] (Some WHERE) [mkW [] RSelf WHintObj] false RetDF false;
  mkM "filter"%string (Some WHERE) [WHERE] (Some WHERE) [mkW [] RSelf WHintObj] false RetDF false;
  mkM "groupBy"%string (Some GROUP_BY) [GROUP_BY] (Some GROUP_BY) [mkW [] RSelf WHintObj] false RetGrouped false;
  mkM "groupby"%string (Some GROUP_BY) [GROUP_BY] (Some GROUP_BY) [mkW [] RSelf WHintObj] false RetGrouped false;
  mkM "agg"%string (Some SELECT) [GROUP_BY; SELECT] (Some SELECT) [mkW [] RSelf WHintObj; mkW [SELECT] RSelf WDisplay; mkW [SELECT] RSelf WHintObj] false RetDF false;
  mkM "crossJoin"%string (Some FROM) [FROM] (Some FROM) [mkW [] ROther WHintObj; mkW [] RSelf WHintObj] false RetDF false;
  mkM "join"%string (Some FROM) [FROM] (Some FROM) [mkW [] ROther WHintObj; mkW [] RSelf WHintObj] false RetDF false;
  mkM "orderBy"%string (Some ORDER_BY) [ORDER_BY] (Some ORDER_BY) [mkW [] RSelf WHintObj] false RetDF false;
  mkM "sort"%string (Some ORDER_BY) [ORDER_BY] (Some ORDER_BY) [mkW [] RSelf WHintObj] false RetDF false;
  mkM "union"%string (Some FROM) [FROM] (Some FROM) [mkW [] ROther WHintObj; mkW [] RSelf WHintObj; mkW [FROM] RSelf WHintObj] false RetDF false;
  mkM "unionAll"%string (Some FROM) [FROM] (Some FROM) [mkW [] ROther WHintObj; mkW [] RSelf WHintObj; mkW [FROM] RSelf WHintObj] false RetDF false;
  mkM "unionByName"%string (Some FROM) [FROM] (Some FROM) [mkW [] ROther WHintObj; mkW [] RSelf WHintObj; mkW [FROM] RSelf WHintObj] false RetDF false;
  mkM "intersect"%string (Some FROM) [FROM] (Some FROM) [mkW [] ROther WHintObj; mkW [] RSelf WHintObj; mkW [FROM] RSelf WHintObj] false RetDF false;
  mkM "intersectAll"%string (Some FROM) [FROM] (Some FROM) [mkW [] ROther WHintObj; mkW [] RSelf WHintObj; mkW [FROM] RSelf WHintObj] false RetDF false;
  mkM "exceptAll"%string (Some FROM) [FROM] (Some FROM) [mkW [] ROther WHintObj; mkW [] RSelf WHintObj; mkW [FROM] RSelf WHintObj] false RetDF false;
  mkM "distinct"%string (Some SELECT) [SELECT] (Some SELECT) [mkW [] RSelf WHintObj] false RetDF false;
  mkM "dropDuplicates"%string (Some SELECT) [SELECT] (Some SELECT) [mkW [] RSelf WHintObj; mkW [SELECT] RSelf WHintObj] false RetDF false;
  mkM "drop_duplicates"%string (Some SELECT) [SELECT] (Some SELECT) [mkW [] RSelf WHintObj; mkW [SELECT] RSelf WHintObj] false RetDF false;
  mkM "dropna"%string (Some FROM) [FROM] (Some FROM) [mkW [] RSelf WHintObj; mkW [FROM] RSelf WHintObj] false RetDF false;
  mkM "explain"%string None [] None [mkW [] RSelf WHintObj] true RetOther false;
  mkM "fillna"%string (Some SELECT) [SELECT] (Some SELECT) [mkW [] RSelf WHintObj; mkW [SELECT] RSelf WHintObj] false RetDF false;
  mkM "replace"%string (Some SELECT) [SELECT] (Some SELECT) [mkW [] RSelf WHintObj; mkW [SELECT] RSelf WHintObj] false RetDF false;
  mkM "withColumn"%string (Some SELECT) [SELECT] (Some SELECT) [mkW [] RSelf WHintObj; mkW [SELECT] RSelf WDisplay; mkW [SELECT] RSelf WLast] false RetDF true;
  mkM "withColumnRenamed"%string (Some SELECT) [SELECT] (Some SELECT) [mkW [] RSelf WHintObj; mkW [SELECT] RSelf WDisplay; mkW [SELECT] RSelf WLast] false RetDF true;
  mkM "withColumns"%string (Some SELECT) [SELECT] (Some SELECT) [mkW [] RSelf WHintObj; mkW [SELECT] RSelf WDisplay; mkW [SELECT] RSelf WLast] false RetDF true;
  mkM "drop"%string (Some SELECT) [SELECT] (Some SELECT) [mkW [] RSelf WHintObj; mkW [SELECT] RSelf WHintObj] false RetDF false;
  mkM "limit"%string (Some LIMIT) [LIMIT] (Some LIMIT) [mkW [] RSelf WHintObj] false RetDF false;
  mkM "toDF"%string None [] None [] false RetDF false;
  mkM "hint"%string (Some NO_OP) [NO_OP] (Some NO_OP) [mkW [] RSelf WHintObj] false RetDF false;
  mkM "repartition"%string (Some NO_OP) [NO_OP] (Some NO_OP) [mkW [] RSelf WHintObj] false RetDF false;
  mkM "coalesce"%string (Some NO_OP) [NO_OP] (Some NO_OP) [mkW [] RSelf WHintObj] false RetDF false;
  mkM "cache"%string None [] None [] false RetDF true;
  mkM "persist"%string None [] None [] false RetDF true;
  mkM "cube"%string None [] None [] false RetGrouped false;
  mkM "unpivot"%string (Some SELECT) [SELECT] (Some SELECT) [mkW [] RSelf WHintObj; mkW [SELECT] RSelf WHintObj] false RetDF false;
  mkM "collect"%string None [] None [mkW [] RSelf WHintObj] true RetOther false;
  mkM "head"%string None [LIMIT] None [mkW [] RSelf WHintObj] true RetOther false;
  mkM "first"%string None [LIMIT] None [mkW [] RSelf WHintObj] true RetOther false;
  mkM "show"%string None [] None [mkW [] RSelf WHintObj] true RetOther false;
  mkM "printSchema"%string None [] None [] true RetOther false;
  mkM "lineage"%string None [] None [mkW [] RSelf WHintObj] false RetOther false;
  mkM "toPandas"%string None [] None [mkW [] RSelf WHintObj] true RetOther false;
  mkM "createOrReplaceTempView"%string None [] None [mkW [] RSelf WHintObj] false RetOther false;
  mkM "count"%string None [] None [mkW [] RSelf WHintObj] true RetOther false;
  mkM "isEmpty"%string None [SELECT; LIMIT] None [mkW [] RSelf WHintObj; mkW [SELECT] RSelf WDisplay; mkW [SELECT] RSelf WLast] true RetOther false;
  mkM "approxQuantile"%string None [SELECT] None [mkW [] RSelf WHintObj; mkW [SELECT] RSelf WDisplay; mkW [SELECT] RSelf WLast] true RetOther false;
  mkM "corr"%string None [SELECT] None [mkW [] RSelf WHintObj; mkW [SELECT] RSelf WDisplay; mkW [SELECT] RSelf WLast] true RetOther false;
  mkM "cov"%string None [SELECT] None [mkW [] RSelf WHintObj; mkW [SELECT] RSelf WDisplay; mkW [SELECT] RSelf WLast] true RetOther false;
  mkM "toArrow"%string None [] None [mkW [] RSelf WHintObj] true RetOther false;
  mkM "cache@base"%string (Some NO_OP) [NO_OP] (Some NO_OP) [mkW [] RSelf WHintObj; mkW [NO_OP] RSelf WHintObj] false RetDF false;
  mkM "persist@base"%string (Some NO_OP) [NO_OP] (Some NO_OP) [mkW [] RSelf WHintObj; mkW [NO_OP] RSelf WHintObj] false RetDF false;
  mkM "groupBy.agg"%string (Some GROUP_BY) [GROUP_BY; SELECT] (Some SELECT) [mkW [] RSelf WHintObj] false RetDF false;
  mkM "groupBy.count"%string (Some GROUP_BY) [GROUP_BY; SELECT] (Some SELECT) [mkW [] RSelf WHintObj] false RetDF false;
  mkM "groupBy.mean"%string (Some GROUP_BY) [GROUP_BY; SELECT] (Some SELECT) [mkW [] RSelf WHintObj] false RetDF false;
  mkM "groupBy.avg"%string (Some GROUP_BY) [GROUP_BY; SELECT] (Some SELECT) [mkW [] RSelf WHintObj] false RetDF false;
  mkM "groupBy.max"%string (Some GROUP_BY) [GROUP_BY; SELECT] (Some SELECT) [mkW [] RSelf WHintObj] false RetDF false;
  mkM "groupBy.min"%string (Some GROUP_BY) [GROUP_BY; SELECT] (Some SELECT) [mkW [] RSelf WHintObj] false RetDF false;
  mkM "groupBy.sum"%string (Some GROUP_BY) [GROUP_BY; SELECT] (Some SELECT) [mkW [] RSelf WHintObj] false RetDF false;
  mkM "cube.agg"%string None [SELECT] (Some SELECT) [mkW [] RSelf WHintObj] false RetDF false;
  mkM "cube.count"%string None [SELECT] (Some SELECT) [mkW [] RSelf WHintObj] false RetDF false;
  mkM "cube.mean"%string None [SELECT] (Some SELECT) [mkW [] RSelf WHintObj] false RetDF false;
  mkM "cube.avg"%string None [SELECT] (Some SELECT) [mkW [] RSelf WHintObj] false RetDF false;
  mkM "cube.max"%string None [SELECT] (Some SELECT) [mkW [] RSelf WHintObj] false RetDF false;
  mkM "cube.min"%string None [SELECT] (Some SELECT) [mkW [] RSelf WHintObj] false RetDF false;
  mkM "cube.sum"%string None [SELECT] (Some SELECT) [mkW [] RSelf WHintObj] false RetDF false;
  mkM "na.drop"%string None [FROM] (Some FROM) [mkW [] RSelf WHintObj; mkW [FROM] RSelf WHintObj] false RetDF false;
  mkM "na.fill"%string None [SELECT] (Some SELECT) [mkW [] RSelf WHintObj; mkW [SELECT] RSelf WHintObj] false RetDF false;
  mkM "na.replace"%string None [SELECT] (Some SELECT) [mkW [] RSelf WHintObj; mkW [SELECT] RSelf WHintObj] false RetDF false;
  mkM "stat.approxQuantile"%string None [SELECT] None [mkW [] RSelf WHintObj; mkW [SELECT] RSelf WDisplay; mkW [SELECT] RSelf WLast] true RetOther false;
  mkM "stat.corr"%string None [SELECT] None [mkW [] RSelf WHintObj; mkW [SELECT] RSelf WDisplay; mkW [SELECT] RSelf WLast] true RetOther false;
  mkM "stat.cov"%string None [SELECT] None [mkW [] RSelf WHintObj; mkW [SELECT] RSelf WDisplay; mkW [SELECT] RSelf WLast] true RetOther false
].
Definition gen_facts : facts := mkF methods wraps result_kind.
