(* GENERATED from /repo on every run by translate/c08_facts.py -- do not edit *)
From SF Require Import C08.Window.
Open Scope Z_scope.
Definition w__JAVA_MIN_LONG : Z := (-9223372036854775808).
Definition w__JAVA_MAX_LONG : Z := (9223372036854775807).
Definition w__PRECEDING_THRESHOLD : Z := (-9223372036854775807).
Definition w__FOLLOWING_THRESHOLD : Z := (9223372036854775807).
Definition w_unboundedPreceding : Z := (-9223372036854775808).
Definition w_unboundedFollowing : Z := (9223372036854775807).
Definition w_currentRow : Z := (0).
Ltac unfold_window_consts := unfold w__JAVA_MIN_LONG, w__JAVA_MAX_LONG, w__PRECEDING_THRESHOLD, w__FOLLOWING_THRESHOLD, w_unboundedPreceding, w_unboundedFollowing, w_currentRow in *.
Definition get_value_and_side (x : Z) : bvalue * option bside := (if (Z.eqb x w_currentRow) then (BCurrentRow, None) else (if (Z.ltb x (0)%Z) then (let side := (Some Preceding) in (let value := (if (Z.leb x w__PRECEDING_THRESHOLD) then BUnbounded else (BLit (Z.abs x))) in (value, side))) else (let side := (Some Following) in (let value := (if (Z.geb x w__FOLLOWING_THRESHOLD) then BUnbounded else (BLit x)) in (value, side))))).
Definition order_flags (m : ometh) : bool * bool := match m with MBare => (false, false) | MAsc => (false, true) | MDesc => (true, false) | MAscNF => (false, true) | MAscNL => (false, false) | MDescNF => (true, true) | MDescNL => (true, false) end.
Definition rows_kind : string := "ROWS".
Definition range_kind : string := "RANGE".
Definition window_bare_key_is_spark_default : bool := true.
Definition part_replaces : bool := true.
Definition order_replaces : bool := true.
