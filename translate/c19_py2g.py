"""T1 for C19: fail-closed translator  Python `ast`  ->  Gallina over SF.C19.PyVal / SF.C19.Script.

The same translator reads
  * sqlframe/base/types.py          (class Row, _create_row)            side 'sf'
  * sqlframe/testing/utils.py       (assertDataFrameEqual, assertSchemaEqual and their nested helpers)
  * pyspark/sql/types.py, pyspark/testing/utils.py (installed PySpark, read as source)   side 'ps'
and emits, per side, two NON-RECURSIVE definitions
  row_body_<side> (M : rowm) : rowm              every Row method, dynamic dispatch / recursion goes through M
  cmp_body_<side> (M : rowm) (C : cmpm) : cmpm   every helper, recursion goes through C
Anything outside the recognised subset raises Untranslatable (never a guess).  What is deliberately not
translated (pandas / streaming branches of PySpark's helper, `import` statements, the text of error
messages) is returned as a list of `skipped` facts with the hash of the skipped source.
"""
from __future__ import annotations

import ast
import hashlib
import os

from vlib.py2v import Untranslatable, dotted
from vlib.core import strlit

PYSPARK = "/venv/lib/python3.12/site-packages/pyspark"

ISINSTANCE = {"list": "TList", "dict": "TDict", "Row": "TRow", "types.Row": "TRow", "float": "TFloat",
              "int": "TInt", "slice": "TSlice", "Decimal": "TDec", "StructType": "TStruct",
              "types.StructType": "TStruct", "tuple": "TTuple", "str": "TStr"}

RAISE = {"RowError": "ELib", "PySparkValueError": "ELib", "PySparkTypeError": "ELib", "KeyError": "EKey",
         "AttributeError": "EAttr", "RuntimeError": "ERuntime", "IndexError": "EIndex", "ValueError": "EValue",
         "TypeError": "EType", "SQLFrameException": "EArg", "DataFrameDiffError": "ERowsDiffer",
         "SchemaDiffError": "ESchemaDiffer"}
ERROR_CLASS = {"DIFFERENT_ROWS": "ERowsDiffer", "DIFFERENT_SCHEMA": "ESchemaDiffer",
               "INVALID_TYPE_DF_EQUALITY_ARG": "EArg", "UNSUPPORTED_DATA_TYPE": "EArg",
               "UNSUPPORTED_OPERATION": "EArg", "CANNOT_SET_TOGETHER": "ELib", "CANNOT_CONVERT_TYPE": "ELib",
               "TOO_MANY_VALUES": "ELib"}
EXCEPT = {"IndexError": "EIndex", "ValueError": "EValue", "KeyError": "EKey", "AttributeError": "EAttr",
          "TypeError": "EType"}

ROW_FIELDS = [  # (record field, python name, parameter kinds)
    ("m_new", "__new__"), ("m_create_row", "_create_row"), ("m_call", "__call__"), ("m_asDict", "asDict"),
    ("m_conv", "asDict.conv"), ("m_contains", "__contains__"), ("m_getitem", "__getitem__"),
    ("m_getattr", "__getattr__"), ("m_setattr", "__setattr__"), ("m_reduce", "__reduce__"),
    ("m_repr", "__repr__"),
]
CMP_FIELDS = [
    ("c_compare_vals", "assertDataFrameEqual.compare_rows.compare_vals", ["rtol", "atol"]),
    ("c_compare_rows", "assertDataFrameEqual.compare_rows", ["rtol", "atol"]),
    ("c_assert_rows_equal", "assertDataFrameEqual.assert_rows_equal", ["rtol", "atol"]),
    ("c_compare_schemas", "assertSchemaEqual.compare_schemas_ignore_nullable", []),
    ("c_compare_structfields", "assertSchemaEqual.compare_structfields_ignore_nullable", []),
    ("c_compare_datatypes", "assertSchemaEqual.compare_datatypes_ignore_nullable", []),
    ("c_assertSchemaEqual", "assertSchemaEqual", []),
    ("c_assertDataFrameEqual", "assertDataFrameEqual", []),
]
# local function name -> (record field, closure parameters passed first)
CMP_CALL = {q.split(".")[-1]: (f, clo) for f, q, clo in CMP_FIELDS}


def h(node, src):
    return hashlib.sha1((ast.get_source_segment(src, node) or "").encode()).hexdigest()[:12]


def strip_doc(stmts):
    return [s for s in stmts if not (isinstance(s, ast.Expr) and isinstance(s.value, ast.Constant))]


def terminates(stmts) -> bool:
    if not stmts:
        return False
    last = stmts[-1]
    if isinstance(last, (ast.Return, ast.Raise)):
        return True
    if isinstance(last, ast.If):
        return terminates(last.body) and bool(last.orelse) and terminates(last.orelse)
    if isinstance(last, ast.Try):
        return terminates(last.body) and all(terminates(hd.body) for hd in last.handlers)
    return False


def assigned_names(stmts) -> list[str]:
    out = []
    for s in stmts:
        for n in ast.walk(s):
            if isinstance(n, ast.FunctionDef):
                continue
            tgt = None
            if isinstance(n, ast.Assign) and len(n.targets) == 1:
                tgt = n.targets[0]
            elif isinstance(n, ast.AugAssign):
                tgt = n.target
            if isinstance(tgt, ast.Name) and tgt.id not in out:
                out.append(tgt.id)
    return out


def message_only_vars(fn: ast.FunctionDef) -> set[str]:
    """local variables whose value can only reach the text of an error message: every load of the variable
    is inside a `raise` statement or inside the right-hand side of an assignment to a message-only variable"""
    own = []   # statements of fn itself, nested function bodies excluded

    def collect(stmts):
        for st in stmts:
            if isinstance(st, ast.FunctionDef):
                continue
            own.append(st)
            for fld in ("body", "orelse", "finalbody"):
                collect(getattr(st, fld, []) or [])
            for hd in getattr(st, "handlers", []) or []:
                collect(hd.body)
    collect(fn.body)
    simple = [st for st in own if isinstance(st, (ast.Assign, ast.AugAssign, ast.Raise, ast.Return, ast.Expr))]
    heads = [st for st in own if isinstance(st, (ast.If, ast.For, ast.While))]
    cand = set(assigned_names(fn.body))
    # a loop target or a parameter is never message-only
    changed = True
    mo = set(cand)
    while changed:
        changed = False
        for x in sorted(mo):
            ok = True
            for st in simple:
                loads = {n.id for n in ast.walk(st) if isinstance(n, ast.Name) and isinstance(n.ctx, ast.Load)}
                if isinstance(st, ast.AugAssign) and isinstance(st.target, ast.Name):
                    loads.add(st.target.id)
                if x not in loads:
                    continue
                if isinstance(st, ast.Raise):
                    continue
                tgt = st.targets[0] if isinstance(st, ast.Assign) and len(st.targets) == 1 else getattr(st, "target", None)
                if isinstance(tgt, ast.Name) and tgt.id in mo:
                    continue
                ok = False
            for st in heads:
                hdr = st.test if isinstance(st, (ast.If, ast.While)) else st.iter
                if any(isinstance(n, ast.Name) and n.id == x for n in ast.walk(hdr)):
                    ok = False
            if not ok:
                mo.discard(x)
                changed = True
    return mo


class Fn:
    """translation of one function body"""

    def __init__(self, side: str, kind: str, qual: str, src: str, skipped: list):
        self.side, self.kind, self.qual, self.src, self.skipped = side, kind, qual, src, skipped
        self.n = 0
        self.locals: set[str] = set()
        self.self_name = None      # name of `self` when the method mutates it (returns the new self)
        self.returns_self = False
        self.closure: list[str] = []
        self.msg_only: set[str] = set()
        self.decomp: dict[str, tuple[str, str, str]] = {}

    # ---- helpers
    def fresh(self):
        self.n += 1
        return f"t{self.n}"

    def var(self, name):
        if name not in self.locals:
            raise Untranslatable(f"{self.qual}: free variable {name}")
        return "v_" + name

    def fail(self, node, what):
        raise Untranslatable(f"{self.side}:{self.qual}: {what}: {ast.dump(node)[:160]}")

    # ---- expressions, CPS: k receives a term of type pyval and returns a term of type res _
    def ev(self, n, k):
        pure = self.pure(n)
        if pure is not None:
            return k(pure)
        return self.mkbind(self.impure(n), k)

    def mkbind(self, term: str, k) -> str:
        """bind term k, kept in right-nested normal form:  bind (bind m f) k  =  bind m (fun y => bind (f y) k)
        and  bind (Ok v) k = k v  (monad laws; all binder names are fresh)"""
        inner = ok_inner(term)
        if inner is not None:
            return k(inner)
        if term in self.decomp:
            m, y, f = self.decomp[term]
            return self.mkbind_raw(m, y, self.mkbind(f, k))
        x = self.fresh()
        body = k(x)
        if body == f"(Ok {x})":
            return term
        return self.mkbind_raw(term, x, body)

    def mkbind_raw(self, m: str, x: str, body: str) -> str:
        t = f"(bind {m} (fun {x} => {body}))"
        self.decomp[t] = (m, x, body)
        return t

    def evs(self, nodes, k):
        """evaluate left to right, pass list of atoms"""
        def go(i, acc):
            if i == len(nodes):
                return k(acc)
            return self.ev(nodes[i], lambda v: go(i + 1, acc + [v]))
        return go(0, [])

    def pure(self, n):
        """term of type pyval for expressions that cannot raise and need no sub-evaluation, else None"""
        if isinstance(n, ast.Constant):
            v = n.value
            if v is None:
                return "VNone"
            if isinstance(v, bool):
                return f"(VBool {'true' if v else 'false'})"
            if isinstance(v, int):
                return f"(VInt ({v})%Z)"
            if isinstance(v, str):
                return f"(VStr {strlit_nl(v)})"
            self.fail(n, "constant")
        if isinstance(n, ast.Name):
            if n.id == "_create_row" and self.kind == "row" and n.id not in self.locals:
                return '(VFunc "_create_row")'      # the module-level function as a value (pickling)
            return self.var(n.id)
        if isinstance(n, ast.Tuple):
            ps = [self.pure(e) for e in n.elts]
            if all(p is not None for p in ps):
                return "(VTuple [" + "; ".join(ps) + "])"
            return None
        if isinstance(n, ast.UnaryOp) and isinstance(n.op, ast.Not):
            p = self.pure(n.operand)
            return None if p is None else f"(py_not {p})"
        if isinstance(n, ast.Compare) and len(n.ops) == 1:
            op, b = n.ops[0], n.comparators[0]
            a = self.pure(n.left)
            if a is None:
                return None
            if isinstance(op, (ast.Is, ast.IsNot)) and isinstance(b, ast.Constant) and b.value is None:
                return f"(VBool (is_none {a}))" if isinstance(op, ast.Is) else f"(VBool (negb (is_none {a})))"
            if isinstance(op, (ast.Eq, ast.NotEq)):
                pb = self.pure(b)
                if pb is not None:
                    return f"({'py_eq' if isinstance(op, ast.Eq) else 'py_ne'} {a} {pb})"
            return None
        if isinstance(n, ast.Call) and dotted(n.func) == "isinstance" and len(n.args) == 2 and not n.keywords:
            a = self.pure(n.args[0])
            if a is None:
                return None
            cl = n.args[1].elts if isinstance(n.args[1], ast.Tuple) else [n.args[1]]
            tys = []
            for c in cl:
                cd = dotted(c)
                if cd not in ISINSTANCE:
                    self.fail(n, f"isinstance against unknown class {cd}")
                tys.append(ISINSTANCE[cd])
            return f"(VBool (py_isinstance {a} [{'; '.join(tys)}]))"
        return None

    def impure(self, n) -> str:
        """term of type res pyval"""
        if isinstance(n, ast.BoolOp):
            # value of `a and b` / `a or b`
            def go(i):
                if i == len(n.values) - 1:
                    return self.ev(n.values[i], lambda v: f"(Ok {v})")
                if isinstance(n.op, ast.And):
                    return self.ev(n.values[i], lambda v: f"(if py_truth {v} then {go(i + 1)} else Ok {v})")
                return self.ev(n.values[i], lambda v: f"(if py_truth {v} then Ok {v} else {go(i + 1)})")
            return go(0)
        if isinstance(n, ast.UnaryOp) and isinstance(n.op, ast.Not):
            return self.ev(n.operand, lambda v: f"(Ok (py_not {v}))")
        if isinstance(n, ast.Compare):
            if len(n.ops) != 1:
                self.fail(n, "chained comparison")
            op, a, b = n.ops[0], n.left, n.comparators[0]
            if isinstance(op, (ast.Is, ast.IsNot)):
                if not (isinstance(b, ast.Constant) and b.value is None):
                    self.fail(n, "`is` with something other than None")
                t = "(VBool (is_none {v}))" if isinstance(op, ast.Is) else "(VBool (negb (is_none {v})))"
                return self.ev(a, lambda v: "(Ok " + t.format(v=v) + ")")
            fn = {ast.Eq: ("py_eq", True), ast.NotEq: ("py_ne", True), ast.Gt: ("py_gt", False),
                  ast.Lt: ("py_ltv", False), ast.GtE: ("py_ge", False), ast.LtE: ("py_le", False)}.get(type(op))
            if fn:
                f, tot = fn
                return self.evs([a, b], lambda vs: f"(Ok ({f} {vs[0]} {vs[1]}))" if tot else f"({f} {vs[0]} {vs[1]})")
            if isinstance(op, ast.In):
                return self.evs([a, b], lambda vs: f"(py_in M {vs[0]} {vs[1]})")
            self.fail(n, "comparison operator")
        if isinstance(n, ast.BinOp):
            if isinstance(n.op, ast.Mod):
                return self.evs([n.left, n.right], lambda vs: f"(py_format (m_repr M) {vs[0]} {vs[1]})")
            f = {ast.Add: "py_add", ast.Sub: "py_sub", ast.Mult: "py_mul", ast.Div: "py_div"}.get(type(n.op))
            if f:
                return self.evs([n.left, n.right], lambda vs: f"({f} {vs[0]} {vs[1]})")
            self.fail(n, "binary operator")
        if isinstance(n, ast.IfExp):
            return self.cond(n.test, self.ev(n.body, lambda v: f"(Ok {v})"), self.ev(n.orelse, lambda v: f"(Ok {v})"))
        if isinstance(n, ast.Tuple):
            return self.evs(list(n.elts), lambda vs: "(Ok (VTuple [" + "; ".join(vs) + "]))")
        if isinstance(n, ast.Attribute):
            return self.attribute(n)
        if isinstance(n, ast.Subscript):
            if isinstance(n.slice, ast.Slice):
                self.fail(n, "slice expression")
            return self.evs([n.value, n.slice], lambda vs: f"(py_getitem M {vs[0]} {vs[1]})")
        if isinstance(n, (ast.ListComp, ast.GeneratorExp)):
            return self.comp(n, "comp")
        if isinstance(n, ast.Call):
            return self.call(n)
        self.fail(n, "expression")

    def attribute(self, n: ast.Attribute) -> str:
        a = n.attr
        if a == "__fields__":
            return self.ev(n.value, lambda v: f"(attr_fields M {v})")
        table = {"schema": "df_schema", "name": "field_name", "dataType": "field_type",
                 "elementType": "element_type"}
        if a in table:
            return self.ev(n.value, lambda v: f"({table[a]} {v})")
        self.fail(n, "attribute ." + a)

    def comp(self, n, kind: str) -> str:
        """[e for x in it] / (e for ...) -> comp1/comp2 ; kind 'all' -> all1/all2"""
        if len(n.generators) != 1 or n.generators[0].ifs or n.generators[0].is_async:
            self.fail(n, "comprehension shape")
        g = n.generators[0]
        saved = set(self.locals)
        if isinstance(g.target, ast.Name):
            names = [g.target.id]
        elif isinstance(g.target, ast.Tuple) and len(g.target.elts) == 2 and all(isinstance(e, ast.Name) for e in g.target.elts):
            names = [e.id for e in g.target.elts]
        else:
            self.fail(n, "comprehension target")
        it = g.iter

        def body(itv):
            self.locals |= set(names)
            b = self.ev(n.elt, lambda v: f"(Ok {v})")
            self.locals = saved
            fn = f"{kind}{len(names)}"
            return f"({fn} (fun {' '.join('v_' + x for x in names)} => {b}) {itv})"
        return self.ev(it, body)

    def call(self, n: ast.Call) -> str:
        d = dotted(n.func)
        args, kws = list(n.args), n.keywords
        nargs = len(args)

        def simple(fn, arity, extra=""):
            if nargs != arity or kws or any(isinstance(a, ast.Starred) for a in args):
                self.fail(n, f"call of {d} with unexpected arguments")
            return self.evs(args, lambda vs: f"({fn}{extra} {' '.join(vs)})")

        # ---- builtins
        if d == "isinstance":
            if nargs != 2 or kws:
                self.fail(n, "isinstance arity")
            cl = args[1].elts if isinstance(args[1], ast.Tuple) else [args[1]]
            tys = []
            for c in cl:
                cd = dotted(c)
                if cd not in ISINSTANCE:
                    self.fail(n, f"isinstance against unknown class {cd}")
                tys.append(ISINSTANCE[cd])
            return self.ev(args[0], lambda v: f"(Ok (VBool (py_isinstance {v} [{'; '.join(tys)}])))")
        if d == "hasattr":
            if nargs != 2 or not (isinstance(args[1], ast.Constant) and args[1].value == "__fields__"):
                self.fail(n, "hasattr of something other than __fields__")
            return self.ev(args[0], lambda v: f"(py_hasattr_fields M {v})")
        if d == "len":
            return simple("py_len", 1)
        if d == "abs":
            return simple("py_abs", 1)
        if d == "float":
            return simple("py_float", 1)
        if d == "list":
            return simple("py_list", 1)
        if d == "tuple":
            return simple("py_tuple", 1)
        if d == "zip":
            return simple("py_zip", 2)
        if d == "zip_longest":
            return simple("py_zip_longest", 2)
        if d == "repr":
            return simple("py_reprv (m_repr M)", 1)
        if d == "str":
            return simple("py_strv (m_repr M)", 1)
        if d == "dict":
            z = args[0] if nargs == 1 and not kws else None
            if isinstance(z, ast.Call) and dotted(z.func) == "zip" and len(z.args) == 2 and not z.keywords \
                    and isinstance(z.args[1], ast.GeneratorExp):
                # dict(zip(A, (f(o) for o in B))): zip consumes the generator lazily, pair by pair
                ge = z.args[1]
                if len(ge.generators) != 1 or ge.generators[0].ifs or ge.generators[0].is_async \
                        or not isinstance(ge.generators[0].target, ast.Name):
                    self.fail(n, "generator shape inside dict(zip(...))")
                x = ge.generators[0].target.id
                saved = set(self.locals)

                def lazy(vs):
                    self.locals.add(x)
                    body = self.ev(ge.elt, lambda v: f"(Ok {v})")
                    self.locals = saved
                    return f"(dict_zip_lazy (fun v_{x} => {body}) {vs[0]} {vs[1]})"
                return self.evs([z.args[0], ge.generators[0].iter], lazy)
            if nargs == 1 and isinstance(args[0], ast.GeneratorExp):
                return self.mkbind(self.comp(args[0], 'comp'), lambda x: f"(py_dict {x})")
            return simple("py_dict", 1)
        if d == "all":
            if nargs == 1 and isinstance(args[0], ast.GeneratorExp) and not kws:
                return self.comp(args[0], "all")
            self.fail(n, "all() of something other than a generator expression")
        if d == "sorted":
            # sorted(xs, key=lambda x: str(x))
            if nargs == 1 and len(kws) == 1 and kws[0].arg == "key" and isinstance(kws[0].value, ast.Lambda):
                lam = kws[0].value
                if len(lam.args.args) == 1 and not lam.args.defaults:
                    x = lam.args.args[0].arg
                    saved = set(self.locals)

                    def body(itv):
                        self.locals.add(x)
                        b = self.ev(lam.body, lambda v: f"(Ok {v})")
                        self.locals = saved
                        return f"(sorted_by_str (fun v_{x} => {b}) {itv})"
                    return self.ev(args[0], body)
            self.fail(n, "sorted() shape")
        # ---- explicit base-class calls
        if d == "tuple.__new__":
            if nargs != 2 or dotted(args[0]) != "cls":
                self.fail(n, "tuple.__new__ shape")
            return self.ev(args[1], lambda v: f"(tuple_new_row {v})")
        if d == "tuple.__reduce__":
            return simple("tuple_reduce", 1)
        if isinstance(n.func, ast.Attribute) and isinstance(n.func.value, ast.Call) \
                and dotted(n.func.value.func) == "super":
            sup = n.func.value
            if [dotted(a) for a in sup.args] != ["Row", "self"]:
                self.fail(n, "super() arguments")
            fn = {"__getitem__": "tuple_getitem", "__contains__": "tuple_contains"}.get(n.func.attr)
            if fn is None or nargs != 1:
                self.fail(n, "super() method")
            return self.ev(args[0], lambda v: f"({fn} v_self {v})")
        # ---- Row construction / module-level helper
        if d == "_create_row" and self.kind == "row":
            return simple("m_create_row M", 2)
        if d == "Row" and self.kind == "row":
            if nargs == 1 and isinstance(args[0], ast.Starred) and not kws:
                return self.ev(args[0].value, lambda v: self.mkbind(f"(py_tuple {v})", lambda a: f"(m_new M {a} (VDict []))"))
            self.fail(n, "Row(...) call shape")
        if d == "conv" and self.kind == "row":
            return simple("m_conv M", 1)
        # ---- helpers of the assertion functions (recursion through C)
        if self.kind == "cmp" and d in CMP_CALL:
            f, clo = CMP_CALL[d]
            for c in clo:
                if c not in self.locals:
                    self.fail(n, f"closure variable {c} of {d} not in scope")
            pre = "".join(f" v_{c}" for c in clo)
            if kws or any(isinstance(a, ast.Starred) for a in args):
                self.fail(n, "helper call with keywords")
            return self.evs(args, lambda vs: f"({f} C{pre} {' '.join(vs)})")
        # ---- method calls
        if isinstance(n.func, ast.Attribute):
            m, recv = n.func.attr, n.func.value
            one = {"index": "py_index", "startswith": "str_startswith", "join": "py_join"}
            if m in one and nargs == 1 and not kws:
                if isinstance(args[0], ast.GeneratorExp):
                    ge = self.comp(args[0], "comp")
                    return self.ev(recv, lambda r: self.mkbind(ge, lambda x: f"({one[m]} {r} {x})"))
                return self.evs([recv, args[0]], lambda vs: f"({one[m]} {vs[0]} {vs[1]})")
            zero = {"values": "dict_values", "keys": "dict_keys", "items": "dict_items", "collect": "df_collect",
                    "typeName": "type_name"}
            if m in zero and nargs == 0 and not kws:
                return self.ev(recv, lambda r: f"({zero[m]} {r})")
            if m == "asDict" and nargs == 1 and not kws:
                return self.evs([recv, args[0]], lambda vs: f"(call_asDict M {vs[0]} {vs[1]})")
        self.fail(n, "call")

    # ---- conditions: Coq `if` on a bool
    def pure_bool(self, test):
        """Coq bool for a test whose evaluation cannot raise, else None"""
        if isinstance(test, ast.BoolOp):
            ps = [self.pure_bool(v) for v in test.values]
            if any(p is None for p in ps):
                return None
            op = " && " if isinstance(test.op, ast.And) else " || "
            return "(" + op.join(ps) + ")"
        if isinstance(test, ast.UnaryOp) and isinstance(test.op, ast.Not):
            p = self.pure_bool(test.operand)
            return None if p is None else f"(negb {p})"
        p = self.pure(test)
        if p is None:
            return None
        return truth(p)

    def cond(self, test, kt: str, kf: str) -> str:
        pb = self.pure_bool(test)
        if pb is not None:
            return f"(if {pb} then {kt} else {kf})"
        if isinstance(test, ast.BoolOp):
            vals = list(test.values)
            if isinstance(test.op, ast.And):
                acc = kt
                for v in reversed(vals):
                    acc = self.cond(v, acc, kf)
                return acc
            acc = kf
            for v in reversed(vals):
                acc = self.cond(v, kt, acc)
            return acc
        if isinstance(test, ast.UnaryOp) and isinstance(test.op, ast.Not):
            return self.cond(test.operand, kf, kt)
        return self.ev(test, lambda v: f"(if {truth(v)} then {kt} else {kf})")

    # ---- statements
    def block(self, stmts, ret, end) -> str:
        """stmts then `end()` if control falls through; ret(v) for `return v`"""
        stmts = strip_doc(stmts)
        if not stmts:
            return end()
        s, rest = stmts[0], stmts[1:]
        nxt = lambda: self.block(rest, ret, end)
        if isinstance(s, ast.FunctionDef):
            return nxt()          # nested helpers are translated separately
        if isinstance(s, (ast.Import, ast.ImportFrom)):
            self.skipped.append({"name": f"{self.side}:{self.qual}:import", "source_hash": h(s, self.src),
                                 "why": "import statement has no effect on the modelled values"})
            return nxt()
        if isinstance(s, ast.Pass):
            return nxt()
        if isinstance(s, ast.Return):
            if s.value is None:
                return ret("VNone")
            return self.ev(s.value, ret)
        if isinstance(s, ast.Raise):
            return self.raise_(s)
        if isinstance(s, ast.Expr):
            # a call evaluated for its effect (assertSchemaEqual(...), assert_rows_equal(...))
            return self.ev(s.value, lambda v: nxt())
        if isinstance(s, ast.If):
            skip = self.skip_if(s)
            if skip:
                self.skipped.append({"name": f"{self.side}:{self.qual}:{skip}", "source_hash": h(s, self.src),
                                     "why": "branch concerns pandas / Spark Connect / streaming inputs, outside the modelled input types (None, list, DataFrame)"})
                return nxt()
            saved = set(self.locals)
            has_ret = any(isinstance(x, ast.Return) for b in (s.body, s.orelse) for st in b for x in ast.walk(st))
            if rest and not has_ret and not terminates(s.body) and not terminates(s.orelse):
                # neither branch leaves the function: join point instead of duplicating the continuation
                a1 = [v for v in assigned_names(s.body) if v not in self.msg_only]
                a2 = [v for v in assigned_names(s.orelse) if v not in self.msg_only]
                state = list(dict.fromkeys(a1 + a2))
                for v in state:
                    if v not in saved and not (v in a1 and v in a2):
                        self.fail(s, f"variable {v} may be unbound after the if")
                pat = "tt" if not state else ("v_" + state[0] if len(state) == 1 else "(" + ", ".join("v_" + v for v in state) + ")")
                kt = self.block(s.body, ret, lambda: f"(Ok {pat})")
                self.locals = set(saved)
                kf = self.block(s.orelse, ret, lambda: f"(Ok {pat})")
                self.locals = saved | set(state)
                after = nxt()
                binder = "_" if not state else ("v_" + state[0] if len(state) == 1 else "'" + pat)
                return f"(bind {self.cond(s.test, kt, kf)} (fun {binder} => {after}))"
            kt = self.block(s.body, ret, nxt)
            self.locals = set(saved)
            kf = self.block(s.orelse, ret, nxt) if s.orelse else nxt()
            self.locals = saved
            return self.cond(s.test, kt, kf)
        if isinstance(s, (ast.Assign, ast.AugAssign)):
            t0 = s.targets[0] if isinstance(s, ast.Assign) else s.target
            if isinstance(t0, ast.Name) and t0.id in self.msg_only:
                self.skipped.append({"name": f"{self.side}:{self.qual}:message-text:{t0.id}", "source_hash": h(s, self.src),
                                     "why": "value only reaches the text of the error message (not compared)"})
                return nxt()
        if isinstance(s, ast.Assign):
            if len(s.targets) != 1:
                self.fail(s, "multiple assignment targets")
            tgt = s.targets[0]
            if isinstance(tgt, ast.Name):
                def k(v):
                    self.locals.add(tgt.id)
                    return f"(let v_{tgt.id} := {v} in {nxt()})"
                return self.ev(s.value, k)
            if isinstance(tgt, ast.Attribute) and isinstance(tgt.value, ast.Name) and self.kind == "row":
                # obj.attr = e  on a Row  ->  Row.__setattr__
                obj = tgt.value.id
                return self.ev(s.value, lambda v: f"(bind (m_setattr M {self.var(obj)} (VStr {strlit(tgt.attr)}) {v}) (fun v_{obj} => {nxt()}))")
            if isinstance(tgt, ast.Subscript) and dotted(tgt.value) == "self.__dict__" and self.kind == "row":
                self.returns_self = True
                return self.evs([tgt.slice, s.value], lambda vs: f"(bind (set_inst_dict v_self {vs[0]} {vs[1]}) (fun v_self => {nxt()}))")
            self.fail(s, "assignment target")
        if isinstance(s, ast.AugAssign) and isinstance(s.target, ast.Name) and isinstance(s.op, ast.Add):
            name = s.target.id
            return self.ev(s.value, lambda v: f"(bind (py_add {self.var(name)} {v}) (fun v_{name} => {nxt()}))")
        if isinstance(s, ast.Try):
            skip = self.skip_try(s)
            if skip:
                self.skipped.append({"name": f"{self.side}:{self.qual}:{skip}", "source_hash": h(s, self.src),
                                     "why": "optional pandas import; pandas inputs are outside the modelled input types"})
                return nxt()
            if s.orelse or s.finalbody or rest and not terminates([s]):
                self.fail(s, "try statement shape")
            saved = set(self.locals)
            body = self.block(s.body, ret, lambda: ret("VNone"))
            hs = []
            for hd in s.handlers:
                cls = dotted(hd.type) if hd.type is not None else None
                if cls not in EXCEPT or hd.name:
                    self.fail(hd, "except clause")
                self.locals = set(saved)
                hs.append(f"({EXCEPT[cls]}, {self.block(hd.body, ret, lambda: ret('VNone'))})")
            self.locals = saved
            return f"(try_ {body} [{'; '.join(hs)}])"
        if isinstance(s, ast.For):
            return self.for_(s, rest, ret, end)
        self.fail(s, "statement")

    def raise_(self, s: ast.Raise) -> str:
        e = s.exc
        if not isinstance(e, ast.Call):
            self.fail(s, "raise of a non-call")
        cls = dotted(e.func)
        if cls == "PySparkAssertionError":
            ec = [k.value.value for k in e.keywords if k.arg == "error_class" and isinstance(k.value, ast.Constant)]
            if len(ec) != 1 or ec[0] not in ERROR_CLASS:
                self.fail(s, "PySparkAssertionError without a known error_class")
            return f"(Raise {ERROR_CLASS[ec[0]]})"
        if cls == "RuntimeError" and self.qual == "assertSchemaEqual":
            return "(Raise EArg)"     # sqlframe: "actual/expected must be a StructType"
        if cls in RAISE:
            return f"(Raise {RAISE[cls]})"
        self.fail(s, f"raise of unknown exception class {cls}")

    def skip_if(self, s: ast.If):
        t = s.test
        if self.side == "ps" and isinstance(t, ast.Name) and t.id == "has_pandas":
            return "if-has_pandas"
        if self.side == "ps" and isinstance(t, ast.Attribute) and t.attr == "isStreaming" and not s.orelse \
                and len(s.body) == 1 and isinstance(s.body[0], ast.Raise):
            return "if-isStreaming"
        return None

    def skip_try(self, s: ast.Try):
        if self.side != "ps":
            return None
        ok = all(isinstance(x, (ast.Import, ast.ImportFrom)) or
                 (isinstance(x, ast.Assign) and dotted(x.targets[0]) == "has_pandas") for x in s.body)
        if ok and len(s.handlers) == 1 and dotted(s.handlers[0].type) == "ImportError" \
                and all(isinstance(x, ast.Pass) for x in s.handlers[0].body):
            return "try-import-pandas"
        return None

    def for_(self, s: ast.For, rest, ret, end) -> str:
        if s.orelse:
            self.fail(s, "for-else")
        if isinstance(s.target, ast.Tuple) and len(s.target.elts) == 2 and all(isinstance(e, ast.Name) for e in s.target.elts):
            names = [e.id for e in s.target.elts]
        elif isinstance(s.target, ast.Name):
            names = [s.target.id]
        else:
            self.fail(s, "for target")
        asg = [v for v in assigned_names(s.body) if v not in self.msg_only]
        state = [v for v in asg if v in self.locals]
        new = [v for v in asg if v not in self.locals]
        if new:
            self.fail(s, f"loop introduces new variables {new}")
        pat = "(" + ", ".join("v_" + v for v in state) + ")" if len(state) != 1 else "v_" + state[0]
        if not state:
            pat = "tt"
        spat = pat if state else "_"
        saved = set(self.locals)
        self.locals |= set(names)
        body = self.block(s.body, lambda v: f"(Ok (inr {v}))", lambda: f"(Ok (inl {pat}))")
        self.locals = saved
        fn = f"for{len(names)}"
        lam = f"(fun st {' '.join('v_' + x for x in names)} => let '{spat} := st in {body})" if state else \
              f"(fun (st : unit) {' '.join('v_' + x for x in names)} => {body})"
        after = self.block(rest, ret, end)

        def k(itv):
            return (f"(bind (as_iter {itv}) (fun l => bind ({fn} {lam} l {pat}) (fun r => match r with "
                    f"| inl {('st' if not state else pat) if state else '_'} => {after} | inr v => {ret('v')} end)))")
        return self.ev(s.iter, k)


def ok_inner(term: str):
    """X if term is literally (Ok X) with X an atom or a parenthesised term, else None"""
    if not (term.startswith("(Ok ") and term.endswith(")")):
        return None
    inner = term[4:-1]
    depth = 0
    for i, ch in enumerate(inner):
        if ch == "(":
            depth += 1
        elif ch == ")":
            depth -= 1
            if depth < 0:
                return None
        elif ch == " " and depth == 0:
            return None
    return inner if depth == 0 else None


def truth(term: str) -> str:
    """py_truth term, simplified when term is literally (VBool b)"""
    if term.startswith("(VBool ") and term.endswith(")"):
        inner = term[len("(VBool "):-1]
        depth = 0
        ok = True
        for ch in inner:
            if ch == "(":
                depth += 1
            elif ch == ")":
                depth -= 1
                if depth < 0:
                    ok = False
                    break
        if ok and depth == 0:
            return inner
    return f"(py_truth {term})"


def strlit_nl(s: str) -> str:
    """Coq string literal; a newline is written with the character 010"""
    if "\n" not in s:
        return strlit(s)
    parts = s.split("\n")
    return "(" + " ++ nl ++ ".join(strlit(p) for p in parts) + ")"


# ------------------------------------------------------------------------------------------------

def params_of(fn: ast.FunctionDef, drop_first: str | None):
    a = fn.args
    if a.posonlyargs or a.kwonlyargs:
        raise Untranslatable(f"{fn.name}: parameter kinds")
    names = [x.arg for x in a.args]
    if drop_first:
        if not names or names[0] != drop_first:
            raise Untranslatable(f"{fn.name}: first parameter is not {drop_first}")
        names = names[1:]
    if a.vararg:
        names.append(a.vararg.arg)
    if a.kwarg:
        names.append(a.kwarg.arg)
    return names


def find_nested(fn: ast.FunctionDef, name: str) -> ast.FunctionDef:
    for s in fn.body:
        if isinstance(s, ast.FunctionDef) and s.name == name:
            return s
    # one level inside `if`
    for s in fn.body:
        if isinstance(s, ast.If):
            for x in s.body:
                if isinstance(x, ast.FunctionDef) and x.name == name:
                    return x
    raise Untranslatable(f"nested function {fn.name}.{name} not found")


def last_def(body, cls, name):
    """the last (non-overload) definition of `name`"""
    found = None
    for s in body:
        if isinstance(s, cls) and s.name == name:
            found = s
    if found is None:
        raise Untranslatable(f"{name} not found")
    return found


ROW_SIG = {"m_new": 2, "m_create_row": 2, "m_call": 2, "m_asDict": 2, "m_conv": 1, "m_contains": 2,
           "m_getitem": 2, "m_getattr": 2, "m_setattr": 3, "m_reduce": 1, "m_repr": 1}
CMP_SIG = {"c_compare_vals": 4, "c_compare_rows": 4, "c_assert_rows_equal": 4, "c_compare_schemas": 2,
           "c_compare_structfields": 2, "c_compare_datatypes": 2, "c_assertSchemaEqual": 2,
           "c_assertDataFrameEqual": 5}


def translate_row(path: str, side: str):
    src = open(path).read()
    tree = ast.parse(src)
    cls = last_def(tree.body, ast.ClassDef, "Row")
    facts, skipped, fields = [], [], []
    methods = [s.name for s in cls.body if isinstance(s, ast.FunctionDef)]
    # overloads of __new__ appear several times; keep order of first appearance
    methods = list(dict.fromkeys(methods))
    bases = [dotted(b) for b in cls.bases]
    if bases != ["tuple"]:
        raise Untranslatable(f"{side}: Row bases are {bases}")
    for field, pyname in ROW_FIELDS:
        if pyname == "_create_row":
            fn = last_def(tree.body, ast.FunctionDef, "_create_row")
            params = params_of(fn, None)
        elif pyname == "asDict.conv":
            outer = last_def(cls.body, ast.FunctionDef, "asDict")
            fn = None
            for n in ast.walk(outer):
                if isinstance(n, ast.FunctionDef) and n.name == "conv":
                    fn = n
            if fn is None:
                raise Untranslatable(f"{side}: asDict.conv not found")
            params = params_of(fn, None)
        else:
            fn = last_def(cls.body, ast.FunctionDef, pyname)
            params = params_of(fn, "cls" if pyname == "__new__" else None)
        if len(params) != ROW_SIG[field]:
            raise Untranslatable(f"{side}: {pyname} has parameters {params}")
        if fn.decorator_list:
            raise Untranslatable(f"{side}: {pyname} is decorated")
        f = Fn(side, "row", pyname, src, skipped)
        f.locals = set(params)
        if pyname == "__setattr__":
            body = f.block(fn.body, lambda v: "(Ok v_self)", lambda: "(Ok v_self)")
            if not f.returns_self:
                raise Untranslatable(f"{side}: __setattr__ does not store into self.__dict__")
        else:
            body = f.block(fn.body, lambda v: f"(Ok {v})", lambda: "(Ok VNone)")
        fields.append(f"  {field} := fun {' '.join('v_' + p for p in params)} =>\n    {body}")
        facts.append({"name": f"{side}:Row.{pyname}", "source": f"{path}:{fn.lineno}", "source_hash": h(fn, src)})
    text = f"Definition row_body_{side} (M : rowm) : rowm := {{|\n" + ";\n".join(fields) + "\n|}.\n"
    text += f"Definition row_methods_{side} : list string := [" + "; ".join(strlit(m) for m in methods) + "].\n"
    facts.append({"name": f"{side}:Row.methods", "source": path, "value": methods})
    return text, facts, skipped


def free_names(fn: ast.FunctionDef):
    """names loaded in fn (including nested functions) that are not bound inside fn"""
    bound = set(params_of(fn, None))
    loads = set()
    for n in ast.walk(fn):
        if isinstance(n, ast.Name):
            if isinstance(n.ctx, ast.Store):
                bound.add(n.id)
            else:
                loads.add(n.id)
        elif isinstance(n, ast.FunctionDef) and n is not fn:
            bound.add(n.name)
            bound |= set(params_of(n, None))
        elif isinstance(n, ast.Lambda):
            bound |= {a.arg for a in n.args.args}
        elif isinstance(n, ast.comprehension):
            for t in ast.walk(n.target):
                if isinstance(t, ast.Name):
                    bound.add(t.id)
    return loads - bound


def translate_cmp(path: str, side: str):
    src = open(path).read()
    tree = ast.parse(src)
    facts, skipped, fields = [], [], []
    tops = {name: last_def(tree.body, ast.FunctionDef, name) for name in ("assertDataFrameEqual", "assertSchemaEqual")}
    for field, qual, clo in CMP_FIELDS:
        parts = qual.split(".")
        fn = tops[parts[0]]
        enclosing_params = set(params_of(fn, None))
        for p in parts[1:]:
            fn = find_nested(fn, p)
        params = params_of(fn, None)
        if len(parts) > 1:
            used = free_names(fn) & enclosing_params
            # closure variables actually used (transitively through nested helpers) must be the declared ones
            if not used <= set(clo):
                raise Untranslatable(f"{side}: {qual} uses enclosing variables {sorted(used)}; expected within {clo}")
        allp = clo + params
        if len(allp) != CMP_SIG[field]:
            raise Untranslatable(f"{side}: {qual} has parameters {params}")
        f = Fn(side, "cmp", parts[-1] if len(parts) > 1 else qual, src, skipped)
        f.qual = parts[-1]
        f.locals = set(allp)
        f.msg_only = message_only_vars(fn) - set(allp)
        body = f.block(fn.body, lambda v: f"(Ok {v})", lambda: "(Ok VNone)")
        fields.append(f"  {field} := fun {' '.join('v_' + p for p in allp)} =>\n    {body}")
        facts.append({"name": f"{side}:{qual}", "source": f"{path}:{fn.lineno}", "source_hash": h(fn, src)})
    text = f"Definition cmp_body_{side} (M : rowm) (C : cmpm) : cmpm := {{|\n" + ";\n".join(fields) + "\n|}.\n"
    return text, facts, skipped


HEADER = """(* generated by translate/c19_py2g.py from {paths} -- do not edit *)
From Coq Require Import ZArith String List Bool.
From SF Require Import C19.PyVal C19.Script.
Import ListNotations.
Open Scope string_scope.
Open Scope bool_scope.
"""


def generate(repo: str):
    """returns {'C19Sf': text, 'C19Ps': text}, facts, skipped"""
    out, facts, skipped = {}, [], []
    for side, tpath, upath in (
        ("sf", os.path.join(repo, "sqlframe/base/types.py"), os.path.join(repo, "sqlframe/testing/utils.py")),
        ("ps", os.path.join(PYSPARK, "sql/types.py"), os.path.join(PYSPARK, "testing/utils.py")),
    ):
        t1, f1, s1 = translate_row(tpath, side)
        t2, f2, s2 = translate_cmp(upath, side)
        out["C19" + side.capitalize()] = HEADER.format(paths=f"{tpath}, {upath}") + "\n" + t1 + "\n" + t2
        facts += f1 + f2
        skipped += s1 + s2
    seen, uniq = set(), []
    for x in skipped:
        key = (x["name"], x["source_hash"])
        if key not in seen:
            seen.add(key)
            uniq.append(x)
    return out, facts, uniq


if __name__ == "__main__":
    import sys
    o, f, s = generate(sys.argv[1] if len(sys.argv) > 1 else "/repo")
    for k, v in o.items():
        print(v)
    for x in s:
        print("(* skipped:", x, "*)")
