(** C11 -- all actions present the same data.  Property file: the full statement, the proved statement
    (closed by [exact] of the generic theorems of C11/Actions.v and C11/Names.v), the instantiation
    obligations on the facts regenerated from /repo on every run (Gen.C01Facts, Gen.C11Facts), non-vacuity
    examples, and Print Assumptions.  The four defects the full statement was once refuted by (head(0), show
    without rows, show with repeated names, colliding renamed name) are repaired in /repo; their witnesses are
    now positive examples below ([C11_formerly_refuted_*]) and corpus cases of the check. *)
From SF Require Import C11.Actions.
From Gen Require Import C01Facts C11Facts.
Open Scope Z_scope.

(** * Instantiation obligations (re-checked against /repo's current source on every run) *)
Lemma gen_cfg_ok : cfg_ok gen_cfg = true.
Proof. vm_compute. reflexivity. Qed.
Lemma gen_limit_ok : limit_ok gen_cfg.
Proof. intros x y Hx Hy. unfold gen_cfg, C01Facts.limit_merge; cbn [Chain.limit_merge]. lia. Qed.

(** head: [limit(n or 1)]; a scalar (first row or None) exactly when n is None; seq_get(collected, 0) *)
Lemma gen_head_ok : head_ok gen_afacts.
Proof.
  unfold head_ok, gen_afacts, head_arg, head_scalar, head_index; cbn [a_head_arg a_head_scalar a_head_index].
  split; [reflexivity|]. split; [|split; [reflexivity | split; [intro k; reflexivity | reflexivity]]].
  intros k Hk. reflexivity.
Qed.
Lemma gen_first_ok : first_ok gen_afacts.
Proof. reflexivity. Qed.
(** count: freeze the open block, REPLACE the select list by count( * ), return cell [0][0] *)
Lemma gen_count_ok : count_ok gen_afacts = true.
Proof. vm_compute. reflexivity. Qed.
(** isEmpty: [not bool(self.select(<one item>).head())] *)
Lemma gen_isempty_ok : isempty_ok gen_afacts = true.
Proof. vm_compute. reflexivity. Qed.
(** show: [limit(n)] *)
Lemma gen_show_ok : show_ok gen_afacts.
Proof. intro z. reflexivity. Qed.
(** show: the header does not need a first row, and the limit is written into the DataFrame's own block *)
Lemma gen_show_header : a_show_header_needs_row gen_afacts = false.
Proof. reflexivity. Qed.
Lemma gen_show_no_wrap : a_show_wraps gen_afacts = false.
Proof. reflexivity. Qed.
(** Row._unique_field_names: advance the suffix [_<n>], n = index, index+1, ..., until the name is unused *)
Lemma gen_ren_fresh : ren_fresh_spec (a_rename gen_afacts).
Proof. intros acc i f. reflexivity. Qed.
(** limit is never preceded by a wrap (LIMIT is the last clause) and no method is tagged INIT *)
Lemma gen_limit_in_place : limit_in_place_ok gen_cfg = true.
Proof. vm_compute. reflexivity. Qed.
(** collect / toPandas / toArrow hand the same (optimize, quote_identifiers, normalisation) to the connection *)
Lemma gen_paths_ok : paths_ok path_of = true.
Proof. vm_compute. reflexivity. Qed.
Lemma gen_arrow_order : arrow_executes_before_reading = true.
Proof. reflexivity. Qed.
(** no action method assigns an attribute of its receiver *)
Lemma gen_no_self_writes : no_self_writes action_writes = true.
Proof. vm_compute. reflexivity. Qed.

(** * The property *)
Notation collect := (Actions.collect).
Notation count := (count_model gen_afacts).
Notation isEmpty := (isempty_model gen_cfg gen_afacts).
Notation head := (head_model gen_cfg gen_afacts).
Notation first := (first_model gen_cfg gen_afacts).
Notation limit := (limit_df gen_cfg).
Notation show := (show_model gen_cfg gen_afacts).

(** what the property demands of the DataFrame state [d] on the input [input], for the argument [n] *)
Definition agree_full (d : df) (input : frame) (n : nat) : Prop :=
  let l := collect d input in
  count d input = Some (Z.of_nat (List.length l)) /\
  isEmpty d input = Nat.eqb (List.length l) 0 /\
  head None d input = HRow (hd_error l) /\
  first d input = HRow (hd_error l) /\
  head (Some n) d input = HList (firstn n l) /\
  collect (limit n d) input = firstn n l /\
  show n d input = STable (columns d) (firstn n l).

(** the property at full strength: every DataFrame a program builds (select lists may repeat a name),
    every input, every n *)
Definition C11_full : Prop :=
  forall ops input n, wf_frame input -> NoDup (cols input) ->
    agree_full (compile gen_cfg ops (init_df (cols input))) input n.

(** the header show() prints never repeats a name -- at full strength, for every field list *)
Definition C11_names_full : Prop := forall fs, NoDup (unique_field_names fs).

(** proved 1: the whole statement on C01's decidable domain [ops_ok] (the programs whose collect() C01 proves
    right; select lists there have distinct names) -- every input, every n including 0, header also without rows *)
Theorem C11_partial :
  forall ops input n, wf_frame input -> NoDup (cols input) ->
    ops_ok gen_cfg (init_df (cols input)) (cols input) ops = true ->
    agree_full (compile gen_cfg ops (init_df (cols input))) input n.
Proof.
  exact (fun ops input n =>
    all_actions gen_cfg gen_afacts gen_cfg_ok gen_limit_ok (ufn_id_f gen_rename gen_ren_fresh) ops input n
                gen_head_ok gen_first_ok gen_count_ok gen_isempty_ok gen_show_ok gen_show_header).
Qed.
Print Assumptions C11_partial.

(** proved 2: EVERY program (no domain predicate: select lists may repeat names, any ORDER BY keys), every input,
    every n -- everything except isEmpty; show prints the first n rows of collect() under a duplicate-free header
    whose cells are the column names or their index-suffixed forms *)
Theorem C11_all_programs :
  forall ops input n, wf_frame input -> NoDup (cols input) ->
    agree_any gen_cfg gen_afacts (compile gen_cfg ops (init_df (cols input))) input n.
Proof.
  exact (fun ops input n =>
    all_actions_any gen_cfg gen_afacts gen_limit_ok ops input n
                    gen_head_ok gen_first_ok gen_count_ok gen_show_ok gen_show_no_wrap gen_show_header gen_ren_fresh
                    gen_limit_in_place).
Qed.
Print Assumptions C11_all_programs.

(** count needs no domain at all: it holds for every state *)
Theorem C11_count_holds : forall d input, count d input = Some (Z.of_nat (List.length (collect d input))).
Proof. exact (fun d input => count_correct gen_afacts d input gen_count_ok). Qed.
Print Assumptions C11_count_holds.

Theorem C11_names_holds : C11_names_full.
Proof. exact (ufn_nodup_total gen_rename gen_ren_fresh). Qed.
Print Assumptions C11_names_holds.

Theorem C11_names_identity : forall fs, NoDup fs -> unique_field_names fs = fs.
Proof. exact (ufn_id_f gen_rename gen_ren_fresh). Qed.

(** toPandas / toArrow convert the result of the statement collect() runs -- for every renderer, every
    engine, and whatever the session executed before *)
Theorem C11_same_statement :
  forall (text result : Type) (render : spath -> df -> text) (exec : text -> frame -> result) k d input last,
    fetched render exec path_of arrow_executes_before_reading k d input last
    = Some (exec (render (path_of ACollect) d) input).
Proof.
  exact (fun text result render exec k d input last =>
    fetched_same render exec path_of arrow_executes_before_reading k d input last gen_paths_ok gen_arrow_order).
Qed.
Print Assumptions C11_same_statement.

(** no action alters the result of another: in any sequence every action returns what it returns alone *)
Theorem C11_actions_independent :
  forall (R : Type) (clobber : list string -> df -> df), (forall d, clobber [] d = d) ->
  forall (acts : list (string * (df -> R))) d, run action_writes clobber acts d = map (fun p => snd p d) acts.
Proof.
  exact (fun R clobber H acts d => actions_independent action_writes clobber H acts d gen_no_self_writes).
Qed.
Print Assumptions C11_actions_independent.

(** * The hypotheses are satisfiable by non-trivial values *)
Definition ex_input : frame :=
  mkFrame ["a"; "b"]%string [[VInt 2; VNull]; [VInt 1; VInt 5]; [VInt 2; VNull]; [VNull; VInt 7]].
Definition ex_ops : list op :=
  [OWhere (EBin Ge (ECoalesce (ECol "a") (ELit (VInt 9))) (ELit (VInt 1)));
   OOrderBy [mkKey (ECol "a") false true; mkKey (ECol "b") false true]; OLimit 3;
   OSelect [(EBin Add (ECol "a") (ELit (VInt 1)), "c"%string); (ECol "b", "b"%string)]].
Example C11_domain_nonempty :
  ops_ok gen_cfg (init_df (cols ex_input)) (cols ex_input) ex_ops = true /\
  show 2%nat (compile gen_cfg ex_ops (init_df (cols ex_input))) ex_input
    = STable ["c"; "b"]%string [[VNull; VInt 7]; [VInt 2; VInt 5]] /\
  count (compile gen_cfg ex_ops (init_df (cols ex_input))) ex_input = Some 3.
Proof. vm_compute. repeat split; reflexivity. Qed.
Example C11_names_example :
  unique_field_names ["a"; "a"; "b"; "a"]%string = ["a"; "a_1"; "b"; "a_3"]%string /\
  unique_field_names ["a_2"; "a"; "a"]%string = ["a_2"; "a"; "a_3"]%string.
Proof. vm_compute. split; reflexivity. Qed.

(** the witnesses that refuted the full statement before the repairs, now satisfied *)
Definition one_row : frame := mkFrame ["a"; "b"; "s"]%string [[VInt 1; VInt 2; VStr "x"]].
Example C11_formerly_refuted_head0 : head (Some 0%nat) (init_df (cols one_row)) one_row = HList [].
Proof. vm_compute. reflexivity. Qed.
Example C11_formerly_refuted_show_empty :
  show 0%nat (init_df (cols one_row)) one_row = STable ["a"; "b"; "s"]%string [].
Proof. vm_compute. reflexivity. Qed.
Example C11_formerly_refuted_show_duplicate_names :
  let d := compile gen_cfg [OSelect [(ECol "a", "x"%string); (ECol "b", "x"%string)]] (init_df (cols one_row)) in
  collect d one_row = [[VInt 1; VInt 2]] /\ show 1%nat d one_row = STable ["x"; "x_1"]%string [[VInt 1; VInt 2]].
Proof. vm_compute. split; reflexivity. Qed.
Example C11_formerly_refuted_names :
  show 1%nat (compile gen_cfg [OSelect [(ECol "a", "a_2"%string); (ECol "b", "a"%string); (ECol "s", "a"%string)]]
                      (init_df (cols one_row))) one_row
  = STable ["a_2"; "a"; "a_3"]%string [[VInt 1; VInt 2; VStr "x"]].
Proof. vm_compute. reflexivity. Qed.

(** the premises of the two environment-parametric theorems are satisfiable: a concrete renderer/engine pair, and the
    state transformer that really only changes the receiver when something is written *)
Example C11_same_statement_nonvacuous :
  fetched (fun p d => (p, cur d)) (fun t input => eval_block (snd t) input) path_of arrow_executes_before_reading
          AToArrow (init_df (cols ex_input)) ex_input None
  = Some ex_input.
Proof. vm_compute. reflexivity. Qed.
Example C11_independence_nonvacuous :
  let clobber := fun (ws : list string) (d : df) => match ws with [] => d | _ => wrap d end in
  (forall d, clobber [] d = d) /\
  run action_writes clobber [("count"%string, fun d => count d ex_input); ("collect"%string, fun d => Some (Z.of_nat (List.length (collect d ex_input))))]
      (compile gen_cfg ex_ops (init_df (cols ex_input))) = [Some 3; Some 3].
Proof. split; [reflexivity | vm_compute; reflexivity]. Qed.

(** What stays unproved of [C11_full]: isEmpty on programs outside [ops_ok] (and, like every C01-based statement,
    that collect() itself means what PySpark means there -- C01's subject). *)
