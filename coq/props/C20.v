(** C20 -- property file.  Only: the full statement, what is proved (closed by [exact] on generic theorems),
    instantiation obligations on the facts regenerated from /repo (they guard the SIZE of the proved domain),
    non-vacuity examples, refutation witnesses, Print Assumptions. *)
From SF Require Import C20.Activate C20.ActivateProof.
From Gen Require Import C20Facts.
Open Scope string_scope.

Definition engines := map fst (f_engines gen_facts).
Definition healthy : env := mkEnv true doc_subs ROk ["duckdb"; "postgres"; "snowflake"; "bigquery"].
Definition sandbox : env := mkEnv true doc_subs RRaise ["duckdb"; "postgres"; "snowflake"; "bigquery"].
Definition absent : env := mkEnv false doc_subs RAbsent ["duckdb"; "postgres"; "snowflake"; "bigquery"].

(** * the property at full strength: for every environment and every list of activate / deactivate / context enter /
    context exit (all exit kinds) / getOrCreate / import events -- of any length, not 5 -- every observation is one the
    property allows: documented paths yield the active engine's modules in every statement form, getOrCreate yields that
    engine's session with a connection given to that engine, deactivate and every context exit restore the
    never-activated import behaviour and empty the configuration, and no two engines are ever mixed *)
Definition C20_full : Prop :=
  forall en evs, conforms gen_facts en sinit evs (fst (run gen_facts en init_state evs)) = true.

(** * what is proved (1): the same statement on the decidable domain [in_domain gen_facts en evs]
      - one engine per history UNLESS [multi_mode gen_facts] holds (per-class session singleton, activate() resets the
        configuration, no Builder caches its session) -- then any number of engines; the restriction is needed only for
        the session (see C20_partial_no_mixture for everything else, and C20_refuted_singleton / _stale_config for why two
        engines break the session clause when the source lacks those three shapes),
      - every activate happens in a state where the sub-modules it does not register hold nothing foreign ([act_ok]),
      - context exits by exception only if activate_context reaches deactivate() on that path,
      - deactivate() does not meet a real module whose import raises something its loop does not swallow,
      - getOrCreate not under an engine whose Builder imports pyspark.sql.session *)
Theorem C20_partial :
  forall en evs, in_domain gen_facts en evs = true ->
    conforms gen_facts en sinit evs (fst (run gen_facts en init_state evs)) = true.
Proof. exact (fun en evs => run_conforms gen_facts en evs). Qed.
Print Assumptions C20_partial.

(** for ANY number of engines and any switching between them ([in_domain0]: the same conditions without the
    one-engine restriction), everything the property says about imports, restoration and configuration holds; only the
    identity of the session getOrCreate returns is left to C20_partial *)
Theorem C20_partial_no_mixture :
  forall en evs, in_domain0 gen_facts en evs = true ->
    conforms0 gen_facts en sinit evs (fst (run gen_facts en init_state evs)) = true.
Proof. exact (fun en evs => no_mixture gen_facts en evs). Qed.
Print Assumptions C20_partial_no_mixture.

(** restoration is proved without any domain restriction on the history or on the starting state *)
Theorem C20_deactivate_restores :
  forall en evs s0 fm p,
    let s := snd (deactivate gen_facts en (final gen_facts en s0 evs)) in
    fst (do_import gen_facts en fm p s) = base_view en p
    /\ (fst (deactivate gen_facts en (final gen_facts en s0 evs)) = EOk -> config s = []).
Proof. exact (fun en => deactivate_restores gen_facts en). Qed.
Print Assumptions C20_deactivate_restores.

Theorem C20_context_exit_is_deactivate :
  forall en k s, exit_deactivates gen_facts k = true -> step gen_facts en s (CtxExit k) = deactivate gen_facts en s.
Proof. exact (fun en => context_restores_on_any_exit gen_facts en). Qed.
Print Assumptions C20_context_exit_is_deactivate.

Theorem C20_activate_maps_documented_paths :
  forall en e c kv s fm p, act_ok gen_facts e s = true -> attr_inv s -> documented p = true ->
    exists m, fst (do_import gen_facts en fm p (snd (activate gen_facts e c kv s))) = EMod m /\ belongs e p m = true.
Proof. exact (fun en => activate_maps_documented_paths gen_facts en). Qed.
Print Assumptions C20_activate_maps_documented_paths.

(** config |-> session attributes, for every state of the Builder objects: an ACTIVATE_CONFIG entry that
    Builder._set_config routes to dialect slot i determines attribute i of the session getOrCreate returns *)
Theorem C20_dialects_given :
  forall en s e k i v,
    sql s = Some (SfPkg e) -> mem e (f_selfref gen_facts) = false ->
    assoc k (f_chain gen_facts) = Some i -> (i <? 3)%nat = true -> In (k, v) (config s) ->
    (forall k' v', In (k', v') (config s) -> assoc k' (f_chain gen_facts) = Some i -> v' = v) ->
    forall e0 c0, fst (get_or_create gen_facts en s) = GSession e0 c0 ->
    exists d, lastd (snd (get_or_create gen_facts en s)) = LSome d /\ nth_dial i d = v.
Proof. exact (fun en => goc_dialects_given gen_facts en). Qed.
Print Assumptions C20_dialects_given.

(** * instantiation obligations on the regenerated facts *)

(** Builder._set_config routes each documented dialect key to its own attribute -- in the single-key elif chain (the
    path ACTIVATE_CONFIG is replayed through) and in the map= block -- and the connection key to the conn argument *)
Lemma gen_chain_ok :
  forallb (fun ki => match assoc (fst ki) (f_chain gen_facts), assoc (fst ki) (f_mapkeys gen_facts) with
                     | Some i, Some j => Nat.eqb i (snd ki) && Nat.eqb j (snd ki)
                     | _, _ => false
                     end)
          [("sqlframe.input.dialect", 0); ("sqlframe.output.dialect", 1); ("sqlframe.execution.dialect", 2);
           (f_conn_key gen_facts, 3)] = true.
Proof. vm_compute. reflexivity. Qed.

(** every engine: the three dialects given to activate(), then to builder.config(key, value), then to
    builder.config(map=...) are the dialects of the session getOrCreate returns *)
Example gen_dialects_reach_session :
  forallb (fun e => mem e (f_selfref gen_facts) ||
    match fst (run gen_facts absent init_state
                 [Activate e (Some 1) [("sqlframe.input.dialect", 11); ("sqlframe.output.dialect", 13); ("sqlframe.execution.dialect", 15)];
                  GetOrCreate; ReadDialects;
                  BuilderConfig true [("sqlframe.execution.dialect", 14)]; BuilderConfig false [("sqlframe.output.dialect", 16)];
                  Activate e (Some 1) []; GetOrCreate; ReadDialects]) with
    | [_; _; (EDial (Some (11, (13, 15))), _); _; _; _; _; (EDial (Some (11, (16, 14))), _)] => true
    | _ => false
    end) engines = true.
Proof. vm_compute. reflexivity. Qed.


(** in a fresh interpreter activate(e) is in the domain for every documented engine *)
Lemma gen_fresh_activation_ok : forallb (fun e => act_ok gen_facts e init_state) engines = true.
Proof. vm_compute. reflexivity. Qed.

(** every documented sub-module except possibly `functions` is registered by activate itself, for every engine *)
Lemma gen_registers_documented :
  forallb (fun ep => forallb (fun f => mem f (reg_files gen_facts (fst ep) (snd ep) (attrs_after_import gen_facts (fst ep) init_state))
                                       || String.eqb f "functions") doc_subs) (f_engines gen_facts) = true.
Proof. vm_compute. reflexivity. Qed.

(** the side condition of no_mixture for all ordered pairs of engines: switching directly from e1 to e2 *)
Lemma gen_switch_ok :
  forallb (fun e1 => forallb (fun e2 =>
     act_ok gen_facts e2 (snd (activate gen_facts e1 None [] init_state))) engines) engines = true.
Proof. vm_compute. reflexivity. Qed.

(** ... and also after the first engine's functions module has been imported through pyspark.sql, provided the second
    engine's own functions module was imported before (what DataFrame code does on first use) *)
Lemma gen_switch_ok_after_use :
  forallb (fun e1 => forallb (fun e2 =>
     act_ok gen_facts e2
       (final gen_facts absent init_state
          [LoadFunctions e2; Activate e1 None []; Import FA (PSub "functions"); Import FB (PSub "types")])) engines) engines = true.
Proof. vm_compute. reflexivity. Qed.

(** every documented class is registered under its documented module, for every engine *)
Definition documented_classes : list (string * string) :=
  [("session", "SparkSession"); ("dataframe", "DataFrame"); ("dataframe", "DataFrameNaFunctions");
   ("dataframe", "DataFrameStatFunctions"); ("column", "Column"); ("catalog", "Catalog");
   ("readwriter", "DataFrameReader"); ("readwriter", "DataFrameWriter"); ("group", "GroupedData");
   ("window", "Window"); ("window", "WindowSpec"); ("udf", "UDFRegistration")].
Lemma gen_documented_classes_registered :
  forallb (fun e => forallb (fun fc =>
     existsb (fun r => String.eqb (fst r) (fst fc) && String.eqb (fst (snd r)) (snd fc)) (reg_table gen_facts e))
     documented_classes) engines = true.
Proof. vm_compute. reflexivity. Qed.

(** in a fresh interpreter, activate(e, conn) + getOrCreate + deactivate is in the domain for every engine whose Builder
    does not import pyspark itself -- i.e. C20_partial covers "getOrCreate yields that engine's session with the given
    connection" for all of them *)
Lemma gen_fresh_session_in_domain :
  forallb (fun e => mem e (f_selfref gen_facts)
                    || in_domain gen_facts absent [Activate e (Some 1) [("sqlframe.input.dialect", 11)]; GetOrCreate; Deactivate;
                                                   Import FA PSql; GetOrCreate]) engines = true.
Proof. vm_compute. reflexivity. Qed.

(** model validity: the names activate adds to a package never create new matches on a later activation *)
Lemma gen_names_closed :
  forallb (fun ep => forallb (fun r =>
     negb (name_matches gen_facts (snd ep) (fst (snd r)))
     || mem (fst (snd r)) (dict_names gen_facts (fst ep) (attrs_after_import gen_facts (fst ep) init_state)))
     (reg_table gen_facts (fst ep))) (f_engines gen_facts) = true.
Proof. vm_compute. reflexivity. Qed.

(** * the domain is inhabited by histories that exercise everything *)
Example C20_domain_nonempty_healthy :
  in_domain gen_facts healthy
    [LoadFunctions "duckdb"; Import FA PSql;
     CtxEnter "duckdb" (Some 1) [("sqlframe.input.dialect", 11)];
     Import FS (PSub "functions"); Import FB (PSub "types"); Import FA PTesting; GetOrCreate;
     CtxExit XNormal;
     Import FA (PSub "functions"); Import FS PTesting; GetOrCreate;
     Activate "duckdb" (Some 2) []; Import FB (PSub "session"); GetOrCreate; Activate "duckdb" None [];
     Deactivate; Import FA PTesting; Deactivate] = true.
Proof. vm_compute. reflexivity. Qed.

Example C20_domain_nonempty_absent :
  forallb (fun e => in_domain gen_facts absent
    [Activate e (Some 1) []; Import FA (PSub "functions"); Import FS (PSub "functions"); Import FB (PSub "functions");
     Deactivate; Import FA PSql; CtxEnter e (Some 2) []; Import FA (PSub "catalog"); CtxExit XNormal; Import FB PSql]) engines = true.
Proof. vm_compute. reflexivity. Qed.

(** every ordered pair of engines: activations, a context inside an activation, imports in all three forms, sessions
    requested, engine switched back and forth -- all in the no-mixture domain (the second engine's functions module was
    imported before its first activation, as DataFrame code does on first use) *)
Example C20_no_mixture_domain_all_pairs :
  forallb (fun e1 => forallb (fun e2 =>
    in_domain0 gen_facts absent
      [Activate e1 (Some 1) []; Import FA (PSub "functions"); GetOrCreate; LoadFunctions e2;
       CtxEnter e2 (Some 2) []; Import FS (PSub "functions"); Import FA (PSub "types"); Import FB (PSub "session"); GetOrCreate;
       CtxExit XNormal; Import FA PSql; Activate e1 None []; Activate e2 None []; Import FA (PSub "functions");
       Activate e1 None []; Import FS (PSub "functions"); Deactivate; Import FB PSql]) engines) engines = true.
Proof. vm_compute. reflexivity. Qed.

(** with the repaired session code the session clause holds for switching engines as well: every ordered pair of
    engines, sessions requested under each, switching back and forth, a raise-exit in between *)
Example C20_session_domain_all_pairs :
  multi_mode gen_facts && f_ctx_finally gen_facts = true ->
  forallb (fun e1 => forallb (fun e2 =>
    mem e1 (f_selfref gen_facts) || mem e2 (f_selfref gen_facts) ||
    in_domain gen_facts absent
      [Activate e1 (Some 1) []; GetOrCreate; CtxEnter e2 (Some 2) []; GetOrCreate; Import FA (PSub "functions");
       CtxExit XRaise; GetOrCreate; Activate e1 None []; GetOrCreate; Activate e2 (Some 1) []; GetOrCreate;
       Deactivate; Import FB PSql]) engines) engines = true.
Proof. intros H. vm_compute in H; first [discriminate H | vm_compute; reflexivity]. Qed.

(** * refutations of the full statement on the faithful model; each is conditional on the source still having the
    shape that causes it, so that a repaired source does not break this file *)
Ltac refute H := vm_compute in H; first [discriminate H | vm_compute; reflexivity].

Theorem C20_refuted_context_exception :
  f_ctx_finally gen_facts = false ->
  exists en evs, conforms gen_facts en sinit evs (fst (run gen_facts en init_state evs)) = false.
Proof. intros H. exists absent, [CtxEnter "duckdb" (Some 1) []; CtxExit XRaise]. refute H. Qed.
Print Assumptions C20_refuted_context_exception.

Theorem C20_refuted_deactivate_raises :
  (match f_catch gen_facts with CatchImportError => negb (f_clear_protected gen_facts) | CatchAll => false end) = true ->
  exists en evs, conforms gen_facts en sinit evs (fst (run gen_facts en init_state evs)) = false.
Proof. intros H. exists sandbox, [Activate "duckdb" (Some 1) []; Deactivate]. refute H. Qed.
Print Assumptions C20_refuted_deactivate_raises.

Theorem C20_refuted_stale_functions_real :
  mem "functions" (f_forced gen_facts) = false ->
  exists en evs, conforms gen_facts en sinit evs (fst (run gen_facts en init_state evs)) = false.
Proof. intros H. exists healthy, [Import FA PSql; Activate "duckdb" None []; Import FA (PSub "functions")]. refute H. Qed.
Print Assumptions C20_refuted_stale_functions_real.

Theorem C20_refuted_mixture_of_engines :
  mem "functions" (f_forced gen_facts) = false ->
  exists en evs, conforms gen_facts en sinit evs (fst (run gen_facts en init_state evs)) = false.
Proof.
  intros H. exists absent, [Activate "duckdb" None []; Import FA (PSub "functions");
                            Activate "standalone" None []; Import FA (PSub "functions")]. refute H.
Qed.
Print Assumptions C20_refuted_mixture_of_engines.

Theorem C20_refuted_singleton :
  f_singleton_global gen_facts = true ->
  exists en evs, conforms gen_facts en sinit evs (fst (run gen_facts en init_state evs)) = false.
Proof.
  intros H. exists absent, [Activate "duckdb" (Some 1) []; GetOrCreate; Deactivate; Activate "standalone" None []; GetOrCreate].
  refute H.
Qed.
Print Assumptions C20_refuted_singleton.

Theorem C20_refuted_stale_config :
  f_reset_config gen_facts = false ->
  exists en evs, conforms gen_facts en sinit evs (fst (run gen_facts en init_state evs)) = false.
Proof. intros H. exists absent, [Activate "postgres" (Some 1) []; Activate "duckdb" None []; GetOrCreate]. refute H. Qed.
Print Assumptions C20_refuted_stale_config.

Theorem C20_refuted_spark_builder :
  mem "spark" (f_selfref gen_facts) = true ->
  exists en evs, conforms gen_facts en sinit evs (fst (run gen_facts en init_state evs)) = false.
Proof. intros H. exists absent, [Activate "spark" (Some 1) []; GetOrCreate]. refute H. Qed.
Print Assumptions C20_refuted_spark_builder.
