(** C19 -- property file.  Contains only: instantiation lemmas on the definitions regenerated from
    /repo's and the installed PySpark's sources (Gen.C19Sf / Gen.C19Ps), the full statement, what is
    proved (closed by [exact] of a generic theorem), non-vacuity examples, and Print Assumptions.  Nothing is refuted any more: the two listed deviations
    were repaired in /repo (findings/C19.known.json, status fixed). *)
From Coq Require Import ZArith String List Bool PrimFloat.
From SF Require Import C19.PyVal C19.Script.
From Gen Require Import C19Sf C19Ps.
Import ListNotations.
Open Scope string_scope.

(* ---- instantiation obligations (re-checked against both sources on every run) ---------------- *)

(** every Row method of sqlframe (and _create_row) is the same function of the CPython primitives and of
    the methods it dispatches to as PySpark's -- unconditionally (since the repair "Row keeps the values it
    is given", sqlframe no longer converts a Decimal placed into a Row to float) *)
Lemma row_body_rel : forall M1 M2, relu M1 M2 -> relu (row_body_sf M1) (row_body_ps M2).
Proof.
  intros M1 M2 R.
  constructor;
    cbn [row_body_sf row_body_ps m_new m_create_row m_call m_asDict m_conv m_contains m_getitem
         m_getattr m_setattr m_reduce m_repr]; intros.
  all: solve [cong R].
Qed.

(** every helper of sqlframe.testing.utils is the same function as PySpark's *)
Lemma cmp_body_rel : forall P M1 M2 C1 C2,
  relp P M1 M2 -> relc C1 C2 -> relc (cmp_body_sf M1 C1) (cmp_body_ps M2 C2).
Proof.
  intros P M1 M2 C1 C2 R RC.
  constructor;
    cbn [cmp_body_sf cmp_body_ps c_compare_vals c_compare_rows c_assert_rows_equal c_compare_schemas
         c_compare_structfields c_compare_datatypes c_assertSchemaEqual c_assertDataFrameEqual]; intros.
  all: try solve [congc R RC].
  all: repeat match goal with |- context [is_none ?v] => destruct (is_none v) end;
       cbn [andb orb negb]; congc R RC.
Qed.

(** sqlframe's Row defines exactly PySpark's methods (so ==, <, hash, len, iteration stay tuple's)
    plus its own _unique_field_names *)
Lemma row_methods_same : row_methods_sf = (row_methods_ps ++ ["_unique_field_names"])%list.
Proof. vm_compute. reflexivity. Qed.

(** __getattr__ refuses dunder names in both, which is what makes hasattr(row, "__fields__") False on a
    Row without the instance attribute (the knot that [attr_fields] ties) *)
Lemma getattr_dunder_sf : forall M vals, m_getattr (row_body_sf M) (VRow None vals) (VStr "__fields__") = Raise EAttr.
Proof. intros. reflexivity. Qed.
Lemma getattr_dunder_ps : forall M vals, m_getattr (row_body_ps M) (VRow None vals) (VStr "__fields__") = Raise EAttr.
Proof. intros. reflexivity. Qed.

(* ---- the property -------------------------------------------------------------------------------- *)

Definition Rsf (n : nat) := tie row_body_sf n.
Definition Rps (n : nat) := tie row_body_ps n.
Definition Csf (n m : nat) := tiec (cmp_body_sf (Rsf n)) m.
Definition Cps (n m : nat) := tiec (cmp_body_ps (Rps n)) m.

(** full strength: every script of Row operations has the same outcome (value or exception class) under
    both Row implementations, and every helper returns / raises alike on every input and setting, at
    every recursion budget *)
Definition C19_full : Prop :=
  (forall n k s, run false (Rsf n) k s = run false (Rps n) k s) /\
  (forall n m, relc (Csf n m) (Cps n m)).

(** the Row half: all scripts, all budgets *)
Theorem C19_rows_hold : forall n k s, run false (Rsf n) k s = run false (Rps n) k s.
Proof. exact (script_equal_all row_body_sf row_body_ps row_body_rel). Qed.
Print Assumptions C19_rows_hold.

(** the helper half: all inputs, checkRowOrder, rtol, atol, budgets *)
Theorem C19_helpers_hold : forall n m, relc (Csf n m) (Cps n m).
Proof. exact (helpers_equal allok row_body_sf row_body_ps cmp_body_sf cmp_body_ps row_body_rel (cmp_body_rel allok)). Qed.
Print Assumptions C19_helpers_hold.

Theorem C19_holds : C19_full.
Proof. exact (conj C19_rows_hold C19_helpers_hold). Qed.
Print Assumptions C19_holds.

Corollary assert_df_equal_verdict : forall n m actual expected checkRowOrder rtol atol,
  c_assertDataFrameEqual (Csf n m) actual expected checkRowOrder rtol atol
  = c_assertDataFrameEqual (Cps n m) actual expected checkRowOrder rtol atol.
Proof. intros. apply (rc_assertDataFrameEqual _ _ (C19_helpers_hold n m)). Qed.

Corollary assert_schema_verdict : forall n m actual expected,
  c_assertSchemaEqual (Csf n m) actual expected = c_assertSchemaEqual (Cps n m) actual expected.
Proof. intros. apply (rc_assertSchemaEqual _ _ (C19_helpers_hold n m)). Qed.

Corollary compare_vals_equal : forall n m rtol atol a b,
  c_compare_vals (Csf n m) rtol atol a b = c_compare_vals (Cps n m) rtol atol a b.
Proof. intros. apply (rc_compare_vals _ _ (C19_helpers_hold n m)). Qed.

(* ---- non-vacuity ----------------------------------------------------------------------------------- *)

Definition ex_script : sx :=
  SList [ SRepr (SPickle (SNew [] [("a", SLit (VInt 1)); ("b", SNew [] [("c", SLit (VList [VFloat 0x1.8p+0 "1.5"; VNone]))])]));
          SAsDict (SCall (SNew [SLit (VStr "x"); SLit (VStr "y")] []) [SLit (VInt 1); SLit (VDict [(VStr "k", VInt 2)])]) true;
          SContains (SLit (VStr "x")) (SNew [] [("x", SLit VNone)]) ].

Example C19_example_value :
  run false (Rsf 30) 30 ex_script
  = OVal (VList [VStr "Row(a=1, b=Row(c=[1.5, None]))";
                 VDict [(VStr "x", VInt 1); (VStr "y", VDict [(VStr "k", VInt 2)])];
                 VBool true]).
Proof. vm_compute. reflexivity. Qed.

Definition f1e5 : pyval := VFloat 0x1.4f8b588e368f1p-17 "1e-05".
Definition f1e8 : pyval := VFloat 0x1.5798ee2308c3ap-27 "1e-08".
Definition row_a (v : pyval) : pyval := VRow (Some (VList [VStr "a"])) [v].

Example C19_helper_accepts_within_tolerance :
  c_assertDataFrameEqual (Csf 30 30) (VList [row_a (VFloat 1 "1.0")])
     (VList [row_a (VFloat 0x1.000001p+0 "1.0000000596046448")]) (VBool false) f1e5 f1e8 = Ok VNone.
Proof. vm_compute. reflexivity. Qed.

Example C19_helper_rejects_outside_tolerance :
  c_assertDataFrameEqual (Csf 30 30) (VList [row_a (VFloat 1 "1.0")])
     (VList [row_a (VFloat 0x1.1p+0 "1.0625")]) (VBool false) f1e5 f1e8 = Raise ERowsDiffer.
Proof. vm_compute. reflexivity. Qed.


(* ---- former refutation witnesses (defects repaired in /repo): they now agree ------------------------ *)

Definition dec15 : pyval := VDec "Decimal('1.5')" 0x1.8p+0 "1.5".

(** Row(x=Decimal('1.5')) keeps the Decimal under both implementations *)
Example C19_decimal_kept :
  run false (Rsf 10) 10 (SNew [] [("x", SLit dec15)]) = OVal (VRow (Some (VList [VStr "x"])) [dec15])
  /\ run false (Rps 10) 10 (SNew [] [("x", SLit dec15)]) = OVal (VRow (Some (VList [VStr "x"])) [dec15]).
Proof. split; vm_compute; reflexivity. Qed.

(** Decimal('1.000001') against 1.0 is rejected by both helpers (Decimal != float), each building its own rows *)
Definition dec1000001 : pyval := VDec "Decimal('1.000001')" 0x1.000010c6f7a0bp+0 "1.000001".
Definition rows_of (o : out) : pyval := match o with OVal v => VList [v] | _ => VList [] end.
Example C19_decimal_verdict_same :
  c_assertDataFrameEqual (Csf 12 12) (rows_of (run false (Rsf 12) 12 (SNew [] [("x", SLit dec1000001)])))
      (rows_of (run false (Rsf 12) 12 (SNew [] [("x", SLit (VFloat 1 "1.0"))]))) (VBool false) f1e5 f1e8
  = Raise ERowsDiffer.
Proof. vm_compute. reflexivity. Qed.
