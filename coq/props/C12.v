(** C12 -- property file: the full statement, what is proved of it (closed by [exact]), the instantiation
    obligations on the facts regenerated from /repo, non-vacuity examples, Print Assumptions. *)
From SF Require Import C12.Engines.
From Coq Require Import Permutation.
From Gen Require Import C01Facts C12Facts.
Open Scope string_scope.
Open Scope list_scope.

(** * Instantiation obligations (re-checked against /repo's current source on every run) *)

(** no engine package overrides a clause method, a CTE helper or the operation decorators *)
Lemma gen_engines_ok : engines_ok engine_facts core_df core_group = true.
Proof. vm_compute. reflexivity. Qed.
(** the clause configuration itself satisfies C01's side conditions *)
Lemma gen_cfg_ok : cfg_ok gen_cfg = true.
Proof. vm_compute. reflexivity. Qed.
Lemma gen_limit_ok : limit_ok gen_cfg.
Proof. intros a b Ha Hb. unfold gen_cfg, C01Facts.limit_merge; cbn [Chain.limit_merge]. lia. Qed.
(** `_is_<x>` is true on the session class of engine E exactly when x = E *)
Lemma gen_flags_one_hot : flags_one_hot base_facts engine_facts = true.
Proof. vm_compute. reflexivity. Qed.
(** default execution dialect = the engine; input/output dialect the same on every engine; __init__ wiring *)
Lemma gen_dialect_defaults_ok : dialect_defaults_ok base_facts engine_facts = true.
Proof. vm_compute. reflexivity. Qed.
Lemma gen_wiring_ok : wiring_ok base_facts = true.
Proof. vm_compute. reflexivity. Qed.
(** every modelled action of every engine emits only statements rendered into the execution dialect
    (call graph closed within 8 nested calls) *)
Lemma gen_plumbing_ok : plumbing_ok plumbing_facts 8 = true.
Proof. vm_compute. reflexivity. Qed.
Lemma gen_dfsql_ok : dfsql_ok plumbing_facts = true.
Proof. vm_compute. reflexivity. Qed.
Lemma gen_names_ok : names_ok plumbing_facts = true.
Proof. vm_compute. reflexivity. Qed.
Lemma gen_dispatch_ok : dispatch_ok func_facts base_facts engine_facts = true.
Proof. vm_compute. reflexivity. Qed.

(** the documented-sanitising table: only BigQuery rewrites generated column names *)
Definition documented_sanitising : list engine := [Bigquery].
Lemma gen_sanitising_ok : sanitising_ok base_facts engine_facts documented_sanitising = true.
Proof. vm_compute. reflexivity. Qed.
(** Spark time patterns are read in the input dialect and written for the execution dialect *)
Lemma gen_time_ok : time_ok time_facts = true.
Proof. vm_compute. reflexivity. Qed.

Definition nmE := nm base_facts engine_facts.
Definition cfgE := cfg_of engine_facts core_df core_group gen_cfg.

(** * The property at full strength.
    What a dialect IS -- how sqlglot renders a block chain into it, whether a text parses in it, what the
    engine answers -- is not definable offline; it is the parameter [W].  C12 says: in the real world W, for
    every engine, program and input, the rendered statement is valid, a fixed point of re-rendering, and
    denotes DuckDB's rows and names (up to letter case and the engine's sanitising). *)
Record world := mkWorld {
  w_render : string -> list block -> string;            (* dialect -> chain -> statement text *)
  w_parses : string -> string -> bool;                  (* dialect -> text -> valid? *)
  w_rerender : string -> string -> string;              (* dialect -> text -> parse and render again *)
  w_denote : string -> string -> frame -> option frame  (* dialect -> text -> input -> what the engine returns *) }.

Definition chain_of (X : engine) (c : cfg) (ops : list op) (ics : list string) : list block :=
  let d := compile c (view_ops base_facts engine_facts X ops) (init_df (view_cols base_facts engine_facts X ics)) in
  done d ++ [cur d].
Definition dia (X : engine) : string := exec_default base_facts engine_facts X.

Definition C12_full (W : world) : Prop :=
  forall E ops input, In E property_engines -> wf_frame input -> NoDup (cols input) ->
    exists cE cD, cfgE E = Some cE /\ cfgE Duckdb = Some cD /\
      let txt := w_render W (dia E) (chain_of E cE ops (cols input)) in
      w_parses W (dia E) txt = true /\ w_rerender W (dia E) txt = txt /\
      exists fe fd,
        w_denote W (dia E) txt input = Some fe /\
        w_denote W (dia Duckdb) (w_render W (dia Duckdb) (chain_of Duckdb cD ops (cols input))) input = Some fd /\
        Permutation (rows fe) (rows fd) /\
        Forall2 (fun g d => name_match (nmE E) g d = true) (cols fe) (cols fd).

(** * What is proved: the part of C12_full that does not depend on W -- everything sqlframe itself decides.
    (a) the chains handed to the renderer are the same on every engine up to names, and each denotes the
        sequential meaning under the block semantics (domain: C01's [ops_ok]);
    (b) every statement of every action sequence is rendered into the session's execution dialect,
        df.sql(dialect=X) into X, and result names are re-normalised execution -> output;
    (c) function dispatch is total and correct on what each engine's module exports, and the `_is_<engine>`
        flags are one-hot;
    (d) only the engines of the documented-sanitising table rewrite generated column names, and Spark time
        patterns are read in the input dialect and written for the execution dialect. *)
Definition C12_proved_fragment : Prop :=
  (forall E ops ics, exists cE cD, cfgE E = Some cE /\ cfgE Duckdb = Some cD /\
      erase_names (compile cE (view_ops base_facts engine_facts E ops) (init_df (view_cols base_facts engine_facts E ics)))
      = erase_names (compile cD (view_ops base_facts engine_facts Duckdb ops) (init_df (view_cols base_facts engine_facts Duckdb ics))))
  /\ (forall E ops input, wf_frame input -> NoDup (cols input) ->
        ops_ok gen_cfg (init_df (cols input)) (cols input) ops = true ->
        exists cE, cfgE E = Some cE /\ eval_df (compile cE ops (init_df (cols input))) input = spec_run ops input)
  /\ (forall E (s : sess) (acts : list string),
        (forall a, In a acts -> In a (action_names plumbing_facts E)) ->
        exists sts, run_seq plumbing_facts E string (deval s) 8 acts = Some sts /\ Forall (stmt_in_exec s) sts)
  /\ (forall (s : sess) (x : string),
        df_sql_a plumbing_facts string (deval s) (Some x) = Some x /\
        df_sql_a plumbing_facts string (deval s) None = Some (s_out s) /\
        deval s None (pf_to_sql_from plumbing_facts) = Some (s_in s))
  /\ (forall E s u,
        exists p, names_resolved plumbing_facts E = Some (p, VExec, VOut)
                  /\ (p = None \/ option_map (conc s u) p = Some (s_exec s))
                  /\ conc s u VExec = s_exec s /\ conc s u VOut = s_out s)
  /\ (forall E, In E property_engines -> forall n, In n (exports func_facts E) ->
        (forall fb, dispatch func_facts (default_sess base_facts engine_facts E) n fb = Found n) /\
        exists uns, sassoc n (ff_table func_facts) = Some (Some uns) /\ mem (engine_name E) uns = false)
  /\ (forall E X, flag base_facts engine_facts E X = true <-> X = E)
  /\ (forall E, existsb (engine_eqb E) documented_sanitising = false -> forall n, nmE E n = n)
  /\ (forall s,
        (forall k, In k time_reads -> exists d, sassoc k time_facts = Some d /\ deval s None d = Some (s_in s)) /\
        (forall k, In k time_writes -> exists d, sassoc k time_facts = Some d /\ deval s None d = Some (s_exec s))).

Theorem C12_partial : C12_proved_fragment.
Proof.
  split; [exact (core_engine_independent base_facts engine_facts core_df core_group gen_cfg gen_engines_ok)|].
  split; [exact (core_engine_semantics engine_facts core_df core_group gen_cfg gen_engines_ok gen_cfg_ok gen_limit_ok)|].
  split; [exact (every_statement_in_execution_dialect plumbing_facts 8 gen_plumbing_ok)|].
  split; [exact (df_sql_in_requested_dialect plumbing_facts gen_dfsql_ok)|].
  split; [exact (result_names_renormalised plumbing_facts gen_names_ok)|].
  split; [exact (dispatch_total_on_exports func_facts base_facts engine_facts gen_dispatch_ok)|].
  split; [exact (flags_one_hot_spec base_facts engine_facts gen_flags_one_hot)|].
  split; [exact (sanitising_spec base_facts engine_facts documented_sanitising gen_sanitising_ok)|].
  exact (time_formats_in_right_dialect time_facts gen_time_ok).
Qed.
Print Assumptions C12_partial.

(** * Non-vacuity *)
(** the action list is not empty and a non-trivial sequence on the Databricks class (whose saveAsTable splices
    hand-built text) emits statements *)
Example C12_actions_nonempty :
  exists sts, run_seq plumbing_facts Databricks aval aeval 8
                      ["collect"; "count"; "show"; "toPandas"; "saveAsTable"; "explain"; "createOrReplaceTempView"]
              = Some sts /\ (5 <=? List.length sts)%nat = true /\ forallb astmt_ok sts = true.
Proof. vm_compute. eexists. repeat split. Qed.
(** every engine exports functions; BigQuery sanitises, DuckDB does not *)
Example C12_exports_nonempty :
  forallb (fun E => (100 <=? List.length (exports func_facts E))%nat) property_engines = true
  /\ nmE Bigquery "max(a)" = "max_a_" /\ nmE Duckdb "max(a)" = "max(a)".
Proof. vm_compute. repeat split. Qed.
(** the engine-independence statement is about real programs: a chain with two blocks *)
Example C12_chain_nontrivial :
  match cfgE Snowflake with
  | Some c => List.length (done (compile c [OLimit 3; OWhere (EIsNull (ECol "a")); OSelect [(ECol "a", "max(a)")]]
                                         (init_df ["a"; "b"])))
  | None => 0%nat end = 2%nat.
Proof. vm_compute. reflexivity. Qed.

(** an observation, not part of the property: the fallback of get_func_from_session hands out functions that
    the engine's own module withholds because they are marked unsupported for every engine ("*") *)
Example C12_observation_fallback_star :
  existsb (fun n => negb (exported func_facts Duckdb n)
                    && match dispatch func_facts (default_sess base_facts engine_facts Duckdb) n true with
                       | Found m => String.eqb m n | _ => false end) (map fst fn_table) = true.
Proof. vm_compute. reflexivity. Qed.
