(** C07 -- property file (set operations).  Contains only: the instantiation obligations on the facts
    regenerated from /repo, the full statement, the proved statements (closed by [exact]), non-vacuity
    examples, the refutation witness of the full statement, and Print Assumptions. *)
From Coq Require Import Permutation Arith Lia.
From SF Require Import C07.SetModel C07.SetProof C07.ByName Model.ChainProof.
From Gen Require Import C01Facts C07Facts.
Open Scope nat_scope.

(** * instantiation obligations (re-checked against /repo's current source on every run) *)
Lemma gen_cfg_ok : cfg_ok gen_cfg = true.
Proof. vm_compute. reflexivity. Qed.

Lemma gen_limit_ok : limit_ok gen_cfg.
Proof. intros a b Ha Hb. unfold gen_cfg, C01Facts.limit_merge; cbn [Chain.limit_merge]. lia. Qed.

(** every method builds the operator whose SQL multiplicity law is PySpark's law for that method, its
    decorator leaves the DataFrame in a state the clause-ordering rule knows, and the receiver is the first
    operand of the operator node *)
Lemma gen_facts_ok : facts_ok gen_cfg gen_facts = true.
Proof. vm_compute. reflexivity. Qed.

(** a CTE is named by a crc32 of the SQL text ITSELF (no case folding / trimming in between) and at least the 8
    digits the model's "different text => different name" was validated with are kept: the model identifies a name
    with the content it was hashed from, and _add_ctes_to_expression leaves the other side's main SELECT pointing at
    a colliding name because the CTE of that name on this side has the same content *)
Lemma gen_names_are_content_hashes : hash_text_exact = true /\ 9 <= hash_name_chars.
Proof. split; [reflexivity | vm_compute; repeat constructor]. Qed.

(** the filter that tells a duplicated CTE apart is built from a fresh string and is ADDED to the CTE's own WHERE:
    [add_uuid] keeps the block of the CTE and tags it with a token no other CTE carries *)
Lemma gen_dedup_filter_keeps_the_cte : dedup_filter_fresh = true /\ dedup_filter_appended = true.
Proof. split; reflexivity. Qed.

(** * the multiset laws of the operators the methods really build: all multiplicities, rows with NULLs *)
Theorem C07_laws : forall (a b : list row) (r : row),
  count (bagop (sql_sem (flags MUnion)) a b) r = count a r + count b r
  /\ count (bagop (sql_sem (flags MUnionAll)) a b) r = count a r + count b r
  /\ count (bagop (sql_sem (flags MUnionByName)) a b) r = count a r + count b r
  /\ count (bagop (sql_sem (flags MIntersect)) a b) r = (if (0 <? count a r) && (0 <? count b r) then 1 else 0)
  /\ count (bagop (sql_sem (flags MIntersectAll)) a b) r = Nat.min (count a r) (count b r)
  /\ count (bagop (sql_sem (flags MExceptAll)) a b) r = count a r - count b r.
Proof.
  intros a b r.
  rewrite !(facts_sem gen_cfg gen_facts gen_facts_ok : forall m, sql_sem (flags m) = spark_sem m).
  rewrite !bagop_law. repeat split; reflexivity.
Qed.
Print Assumptions C07_laws.

(** NULL = NULL in all of them: a row of NULLs is counted like any other row *)
Example C07_null_rows_are_equal :
  count (bagop (sql_sem (flags MIntersectAll)) [[VNull; VNull]; [VNull; VNull]; [VNull; VInt 1]] [[VNull; VNull]; [VNull; VNull]; [VNull; VNull]]) [VNull; VNull] = 2
  /\ count (bagop (sql_sem (flags MExceptAll)) [[VNull; VNull]; [VNull; VNull]; [VNull; VInt 1]] [[VNull; VNull]]) [VNull; VNull] = 1.
Proof. split; vm_compute; reflexivity. Qed.

(** * the property at full strength: every tree of set operations and ordinary steps, all inputs *)
Definition C07_full : Prop :=
  forall t inputs F, inputs_ok inputs -> spark_eval inputs t = Some F ->
    exists G, sql_eval gen_cfg gen_facts inputs t = Some G /\ cols G = cols F /\ Permutation (rows G) (rows F).

(** what is proved: the same statement on the decidable domain [tree_dom] (C01's domain for the ordinary
    steps; no LIMIT inside the tree).  sqlframe builds a query for every such tree ([compile_total]): no
    combination of operands -- independent, common ancestor, shared set-operation result -- is excluded *)
Theorem C07_partial :
  forall t inputs F, inputs_ok inputs ->
    tree_dom gen_cfg gen_facts (map cols inputs) t = true ->
    spark_eval inputs t = Some F ->
    exists G, sql_eval gen_cfg gen_facts inputs t = Some G /\ cols G = cols F /\ Permutation (rows G) (rows F).
Proof. intros t inputs F. exact (sql_eval_total_correct gen_cfg gen_facts gen_cfg_ok gen_limit_ok gen_facts_ok inputs t F). Qed.
Print Assumptions C07_partial.

Theorem C07_compiler_total :
  forall ins t u, leaves_ok ins t = true -> compile gen_cfg gen_facts ins t u <> None.
Proof. intros ins t u H. exact (compile_total gen_cfg gen_facts ins t H u). Qed.
Print Assumptions C07_compiler_total.

(** the same for the WITH list of any DataFrame state the compiler reaches (any uuid counter) *)
Theorem C07_with_list :
  forall inputs t u s u' F, inputs_ok inputs ->
    compile gen_cfg gen_facts (map cols inputs) t u = Some (s, u') ->
    tree_dom gen_cfg gen_facts (map cols inputs) t = true -> spark_eval inputs t = Some F ->
    exists G, eval_query inputs (query_of s) = Some G /\ cols G = cols F /\ Permutation (rows G) (rows F).
Proof. exact (compile_correct gen_cfg gen_facts gen_cfg_ok gen_limit_ok gen_facts_ok). Qed.
Print Assumptions C07_with_list.

(** unionByName: the other side's column order is irrelevant; missing columns are NULL; names from the left *)
Theorem C07_unionByName_perm : forall a b p,
  NoDup (cols a) -> cols b = cols a -> wf_frame b -> is_perm p (List.length (cols a)) ->
  by_name false a (permute_frame p b) = Some (mkFrame (cols a) (rows a ++ rows b)).
Proof. exact unionByName_perm. Qed.
Print Assumptions C07_unionByName_perm.

Theorem C07_unionByName_missing : forall a b,
  NoDup (cols a) -> wf_frame a ->
  let extra := only_in (cols b) (cols a) in
  by_name true a b = Some (mkFrame (cols a ++ extra)
                                   (map (fun r => r ++ repeat VNull (List.length extra)) (rows a) ++ realign (cols a ++ extra) b))
  /\ (forall r c, ~ In c (cols b) -> lookup_or_null (cols b) r c = VNull)
  /\ (forall r c v, lookup (cols b) r c = Some v -> lookup_or_null (cols b) r c = v).
Proof. exact unionByName_missing. Qed.
Print Assumptions C07_unionByName_missing.

Theorem C07_names_from_left : forall c L R F,
  spark_setop c L R = Some F ->
  match c with CUnionByName true => cols F = cols L ++ only_in (cols R) (cols L) | _ => cols F = cols L end.
Proof. exact names_from_left. Qed.

(** * non-vacuity: nested, common-ancestor and by-name trees are in the domain and compile *)
Definition ex_inputs : list frame :=
  [mkFrame ["a"; "b"]%string [[VInt 1; VInt 2]; [VInt 1; VInt 2]; [VNull; VInt 3]; [VNull; VNull]];
   mkFrame ["b"; "c"]%string [[VInt 2; VInt 7]; [VNull; VNull]]].
Definition ex_tree : tree :=
  TOps [OWhere (EIsNull (ECol "a")); ODistinct]
    (TSet CExceptAll
       (TSet (CUnionByName true) (TSet CIntersectAll (TOps [OWhere (EIsNull (ECol "a"))] (TIn 0)) (TIn 0)) (TIn 1))
       (TSet (CUnionByName true) (TOps [OSelect [(ECol "b", "b"%string); (ECol "a", "a"%string)]] (TIn 0)) (TIn 1))).
Example C07_domain_nonempty :
  tree_dom gen_cfg gen_facts (map cols ex_inputs) ex_tree = true
  /\ option_map cols (spark_eval ex_inputs ex_tree) = Some ["a"; "b"; "c"]%string.
Proof. vm_compute. repeat split; reflexivity. Qed.

(** * regression witness of a fixed defect (fa46d1a): both operands derive from the same set-operation result
    (same WITH list, same text, hence the same CTE name).  _add_ctes_to_expression used to call .where on the
    Union node (AttributeError); the colliding set-operation CTE is now filtered through a SELECT of its columns,
    and the tree is inside the theorem: it compiles, is in the domain, and evaluates to Spark's bag *)
Definition shared_tree : tree := TSet CUnion (TSet CUnion (TIn 0) (TIn 1)) (TSet CUnion (TIn 0) (TIn 1)).
Definition shared_inputs : list frame := [mkFrame ["a"]%string [[VInt 1]]; mkFrame ["a"]%string [[VNull]]].
Example C07_shared_set_operation_ancestor :
  tree_dom gen_cfg gen_facts (map cols shared_inputs) shared_tree = true
  /\ match sql_eval gen_cfg gen_facts shared_inputs shared_tree, spark_eval shared_inputs shared_tree with
     | Some G, Some F => list_eqb String.eqb (cols G) (cols F) && bag_eqb (rows G) (rows F)
                         && Nat.eqb (List.length (rows G)) 4
     | _, _ => false
     end = true
  /\ existsb (fun p => match snd p with NSet _ _ _ (Some _) _ _ _ _ => true | _ => false end)
             (match compile gen_cfg gen_facts (map cols shared_inputs) shared_tree 0 with
              | Some (s, _) => q_ctes (query_of s) | None => [] end) = true.
Proof. vm_compute. repeat split; reflexivity. Qed.
