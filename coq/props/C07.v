(** C07 -- property file (set operations).  PRELIMINARY *)
From SF Require Import C07.SetModel.
From Gen Require Import C01Facts C07Facts.
Lemma gen_facts_ok : facts_ok gen_cfg gen_facts = true.
Proof. vm_compute. reflexivity. Qed.
