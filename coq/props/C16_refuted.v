(** C16 -- refutations: every listed defect is a genuine counterexample of the faithful model (so the list in
    Known.v excludes nothing that actually holds), for the probe name "MyCol".
    Compiled separately from C16.v: when sqlframe repairs a defect its refutation stops compiling, which the check
    reports as "no longer refuted" without raising an alarm. *)
From SF Require Import C16.Fexp C16.Known.
From Gen Require Import C16Table C16Entries.
From Coq Require Import String List ZArith. Import ListNotations. Open Scope string_scope.

Lemma C16_known_all_refuted :
  forallb (fun k => refuted gen_prims gen_table "MyCol" k gen_entries) C16_known = true.
Proof. vm_compute. reflexivity. Qed.
Print Assumptions C16_known_all_refuted.

(** to_unix_timestamp(ts, 'MyCol'): session.format_time gets the str 'MyCol' in one form and, in the other, the Column
    col('MyCol') whose normalised identifier text it formats *)
Theorem C16_refuted_1 : exists e, In e gen_entries /\ key_eqb ("to_unix_timestamp", "standalone", 1%nat) e = true /\
  decided gen_prims gen_table "MyCol" e = true /\ holds gen_prims gen_table "MyCol" e = false.
Proof. apply refuted_sound. vm_compute. reflexivity. Qed.
Print Assumptions C16_refuted_1.

(** ... while the same entry holds for a lower-case bare name *)
Example C16_refuted_1_needs_a_non_bare_name :
  existsb (fun e => if key_eqb ("to_unix_timestamp", "standalone", 1%nat) e
                    then holds gen_prims gen_table "c" e else false) gen_entries = true.
Proof. vm_compute. reflexivity. Qed.

Eval vm_compute in
  (let e := mkEntry "to_unix_timestamp" "standalone" 1 [SCol "a0"; STest] in
   (res_str gen_prims gen_table "MyCol" e, res_col gen_prims gen_table "MyCol" e)).
