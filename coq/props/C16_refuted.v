(** C16 -- refutations: every listed defect is a genuine counterexample of the faithful model (so the list in
    Known.v excludes nothing that actually holds).
    Compiled separately from C16.v: when sqlframe repairs a defect its refutation stops compiling, which the check
    reports as "no longer refuted" without raising an alarm.

    History: on the original tree 27 keys were listed and refuted here, with explicit witnesses for the five root
    causes (log1p_from_log: 'c' + Column is Column.__radd__ -> string literal; the slice alternatives and array_repeat:
    x if isinstance(x, Column) else lit(x); overlay: lit(pos)/lit(len); date_sub_by_date_add: days * Column).  All five
    were repaired in /repo, the list is empty, and the former witnesses are now the positive example [C16_repaired]
    in C16.v. *)
From SF Require Import C16.Fexp C16.Known.
From Gen Require Import C16Table C16Entries.
From Coq Require Import String List ZArith. Import ListNotations. Open Scope string_scope.

Lemma C16_known_all_refuted :
  forallb (fun k => refuted gen_prims gen_table "c" k gen_entries) C16_known = true.
Proof. vm_compute. reflexivity. Qed.
Print Assumptions C16_known_all_refuted.
