(** C16 -- refutations: every listed defect is a genuine counterexample of the faithful model (so the list in
    C16.v excludes nothing that actually holds), with one explicit witness per root cause.
    Compiled separately from C16.v: when sqlframe repairs a defect this file stops compiling, which the check
    reports as "no longer refuted" without raising an alarm. *)
From SF Require Import C16.Fexp C16.Known.
From Gen Require Import C16Table C16Entries.
From Coq Require Import String List ZArith. Import ListNotations. Open Scope string_scope.

Lemma C16_known_all_refuted :
  forallb (fun k => refuted gen_prims gen_table "c" k gen_entries) C16_known = true.
Proof. vm_compute. reflexivity. Qed.

(** log1p_from_log(col) computes  log(col + lit(1)):  'c' + Column  is Column.__radd__('c'), a string LITERAL *)
Theorem C16_refuted_1 : exists e, In e gen_entries /\ key_eqb ("log1p", "duckdb", 0%nat) e = true /\
  decided gen_prims gen_table "c" e = true /\ holds gen_prims gen_table "c" e = false.
Proof. apply refuted_sound. vm_compute. reflexivity. Qed.
Print Assumptions C16_refuted_1.

(** slice_as_list_slice: start/length go through  x if isinstance(x, Column) else lit(x) *)
Theorem C16_refuted_2 : exists e, In e gen_entries /\ key_eqb ("slice", "duckdb", 1%nat) e = true /\
  decided gen_prims gen_table "c" e = true /\ holds gen_prims gen_table "c" e = false.
Proof. apply refuted_sound. vm_compute. reflexivity. Qed.

(** array_repeat (default implementation): count goes through  lit(count)  unless it is a Column *)
Theorem C16_refuted_3 : exists e, In e gen_entries /\ key_eqb ("array_repeat", "standalone", 1%nat) e = true /\
  decided gen_prims gen_table "c" e = true /\ holds gen_prims gen_table "c" e = false.
Proof. apply refuted_sound. vm_compute. reflexivity. Qed.

(** overlay (default implementation): lit(pos) / lit(len) *)
Theorem C16_refuted_4 : exists e, In e gen_entries /\ key_eqb ("overlay", "spark", 2%nat) e = true /\
  decided gen_prims gen_table "c" e = true /\ holds gen_prims gen_table "c" e = false.
Proof. apply refuted_sound. vm_compute. reflexivity. Qed.

(** date_sub_by_date_add (Snowflake):  days * lit_func(-1)  with days a raw str *)
Theorem C16_refuted_5 : exists e, In e gen_entries /\ key_eqb ("date_sub", "snowflake", 1%nat) e = true /\
  decided gen_prims gen_table "c" e = true /\ holds gen_prims gen_table "c" e = false.
Proof. apply refuted_sound. vm_compute. reflexivity. Qed.

(** the concrete model results behind witness 1 *)
Eval vm_compute in
  (let e := mkEntry "log1p" "duckdb" 0 [STest] in
   (res_str gen_prims gen_table "c" e, res_col gen_prims gen_table "c" e)).
