(** C05 -- property file: the full statement, the proved statement (closed by [exact]), the instantiation
    obligation on the facts regenerated from /repo, non-vacuity examples, refutation witnesses. *)
From SF Require Import C05.Main.
From Gen Require Import C05Facts.
Open Scope string_scope.

(** instantiation obligation (re-checked against column.py's current text on every run) *)
Lemma gen_cfg_ok : cfg_ok gen_cfg = true.
Proof. vm_compute. reflexivity. Qed.

(** the property at full strength: for EVERY expression tree a Python program can write, the text sqlframe
    emits is accepted by the engine's grammar, calls only functions the engine has, and its three-valued
    value on every row (of the domain) is PySpark's value of the tree the user wrote *)
Definition C05_full : Prop :=
  forall t, uwf t = true ->
    exists e, reparse (print (build gen_cfg t)) = ROk e [] /\ known e = true /\
              forall en, udom en t = true -> seval en e = ueval en t.

(** what is proved: the same, plus structural identity of the re-read tree, on the decidable class [in_class]
    (operands of comparison-level operators -- == != < <= > >= eqNullSafe isNull isNotNull isin between like --
    and of arithmetic are closed: columns, literals, parenthesised results, -(x), CASE, CAST, calls, items;
    operands of & | are closed or any forward boolean operator; endswith and getItem(<Column>) excluded) *)
Theorem C05_partial :
  forall t, in_class gen_cfg t = true ->
    exists e, reparse (print (build gen_cfg t)) = ROk e [] /\ strip e = denote t /\ known e = true /\
              forall en, udom en t = true -> seval en e = ueval en t.
Proof. exact (c05_value gen_cfg gen_cfg_ok). Qed.
Print Assumptions C05_partial.

(** the round trip itself holds for every SQL tree whose unparenthesised edges are precedence-safe *)
Theorem C05_roundtrip_all : forall e, safe 1 false e = true -> reparse (print e) = ROk e [].
Proof. exact roundtrip. Qed.
Print Assumptions C05_roundtrip_all.

Definition a := UCol "a". Definition b := UCol "b". Definition s := UCol "s".
Definition p := UCol "p". Definition q := UCol "q". Definition l := UCol "l".

(** the class is inhabited by trees that exercise every operator family, nested *)
Example C05_class_nonempty :
  in_class gen_cfg
    (UBin UAnd
       (UBin UOr (UBin ULt (UBin UMul (URBin USub (VInt 1) a) (UNeg (UBin UAdd a b))) (UPy (VInt 2)))
                 (UNot (UBin UEq s (UPy (VStr "x")))))
       (UBin UAnd (UIsNotNull (UBin UMod a (UPy (VInt 2))))
          (UBin UOr (UBetween a (UPy (VInt 0)) (UNeg b))
             (UBin UOr (UIsin s [VStr "a"; VNull]) (UNse (UCast a "TEXT") s)))))
  = true /\
  in_class gen_cfg
    (UBin UEq
       (UWhen (UBWhen (UIsNull (UBin UAdd a b)) (UPy (VStr "u"))
              (UBWhen (ULike s "a%") (USubstr s (UPy (VInt 1)) (UPy (VInt 2))) (UBElse (UPy (VStr "z"))))))
       (UAlias (UGetItemLit l 0) "first"))
  = true.
Proof. split; vm_compute; reflexivity. Qed.

(** ---- refutations: the full statement is false of the faithful model ---------------------------------- *)
Definition env1 (va vb vp vq : val) : env :=
  mkEnv ["a"; "b"; "s"; "p"; "q"] [va; vb; VStr "a"; vp; vq] [("l", [VInt 10; VInt 20; VInt 30])].

(** (a == 1) == (b == 2): "a = 1 = b = 2" is a syntax error (comparison operators are %nonassoc) *)
Theorem C05_refuted_comparison_under_comparison :
  exists t, uwf t = true /\ reparse (print (build gen_cfg t)) = RErr.
Proof. exists (UBin UEq (UBin UEq a (UPy (VInt 1))) (UBin UEq b (UPy (VInt 2)))). split; vm_compute; reflexivity. Qed.

(** a.eqNullSafe(b) == p: "a IS NOT DISTINCT FROM b = p" is read as a IS NOT DISTINCT FROM (b = p) *)
Theorem C05_refuted_eqNullSafe_operand_of_comparison :
  exists t e en, uwf t = true /\ reparse (print (build gen_cfg t)) = ROk e [] /\ strip e <> denote t /\
                 udom en t = true /\ seval en e <> ueval en t.
Proof.
  exists (UBin UEq (UNse p q) (UCol "r")).
  eexists. exists (mkEnv ["p"; "q"; "r"] [VBool true; VNull; VNull] []).
  split; [reflexivity|]. split; [vm_compute; reflexivity|].
  split; [vm_compute; discriminate|]. split; [reflexivity|]. vm_compute. discriminate.
Qed.

(** (~p).isNull(): "NOT (p) IS NULL" is read as NOT ((p) IS NULL) *)
Theorem C05_refuted_not_operand_of_isNull :
  exists t e en, uwf t = true /\ reparse (print (build gen_cfg t)) = ROk e [] /\ strip e <> denote t /\
                 udom en t = true /\ seval en e <> ueval en t.
Proof.
  exists (UIsNull (UNot p)). eexists. exists (env1 VNull VNull (VBool true) VNull).
  split; [reflexivity|]. split; [vm_compute; reflexivity|].
  split; [vm_compute; discriminate|]. split; [reflexivity|]. vm_compute. discriminate.
Qed.

(** a.isNotNull().isNull(): "NOT a IS NULL IS NULL" is read as NOT ((a IS NULL) IS NULL) *)
Theorem C05_refuted_isNotNull_operand_of_isNull :
  exists t e en, uwf t = true /\ reparse (print (build gen_cfg t)) = ROk e [] /\ strip e <> denote t /\
                 udom en t = true /\ seval en e <> ueval en t.
Proof.
  exists (UIsNull (UIsNotNull a)). eexists. exists (env1 (VInt 1) VNull VNull VNull).
  split; [reflexivity|]. split; [vm_compute; reflexivity|].
  split; [vm_compute; discriminate|]. split; [reflexivity|]. vm_compute. discriminate.
Qed.

(** s.endswith('a') calls ENDSWITH, a function DuckDB does not have *)
Theorem C05_refuted_endswith :
  exists t, uwf t = true /\ known (build gen_cfg t) = false.
Proof. exists (UEndsWith s (UPy (VStr "a"))). split; vm_compute; reflexivity. Qed.

(** l.getItem(<Column a>) indexes from 1 where PySpark indexes from 0 *)
Theorem C05_refuted_getItem_column :
  exists t e en, uwf t = true /\ reparse (print (build gen_cfg t)) = ROk e [] /\ strip e <> denote t /\
                 udom en t = true /\ seval en e <> ueval en t.
Proof.
  exists (UGetItemCol l a). eexists. exists (env1 (VInt 1) VNull VNull VNull).
  split; [reflexivity|]. split; [vm_compute; reflexivity|].
  split; [vm_compute; discriminate|]. split; [reflexivity|]. vm_compute. discriminate.
Qed.

Theorem C05_full_is_false : ~ C05_full.
Proof.
  intro F. destruct C05_refuted_comparison_under_comparison as (t & W & E).
  destruct (F t W) as (e & R & _). rewrite E in R. discriminate.
Qed.
Print Assumptions C05_full_is_false.
