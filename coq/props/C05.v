(** C05 -- property file: the full statement, the proved statement (closed by [exact]), the instantiation
    obligation on the facts regenerated from /repo, non-vacuity examples, refutation witnesses. *)
From SF Require Import C05.Main.
From Gen Require Import C05Facts.
Open Scope string_scope.

(** instantiation obligation (re-checked against column.py's current text on every run) *)
Lemma gen_cfg_ok : cfg_ok gen_cfg = true.
Proof. vm_compute. reflexivity. Qed.

(** the property at full strength: for EVERY expression tree a Python program can write, the text sqlframe
    emits is accepted by the engine's grammar, calls only functions the engine has, and its three-valued
    value on every row (of the domain) is PySpark's value of the tree the user wrote *)
Definition C05_full : Prop := full_for gen_cfg.

(** what is proved: the same, plus structural identity of the re-read tree, on the decidable class [in_class gen_cfg],
    which widens with the regenerated facts: an operand of a comparison-level operator (== != < <= > >= eqNullSafe
    isNull isNotNull isin between like ilike) must be closed (column, literal, parenthesised result, -(x), CASE, CAST,
    call, item) UNLESS the operator passes its operands through column.py's _operand (facts bf_opwrap / c_pred_opwrap:
    true since 693497d / 9e08992); operands of arithmetic are closed; operands of & | are closed or any forward boolean
    operator; an aliased Column or F.when(...) as a bound of between only if between unaliases its bounds
    (c_between_unalias: true since 27d8aae); endswith only if the emitted function exists (ENDS_WITH since ba0d1e8);
    excluded: getItem(<Column>) (known finding), cast(ty).cast(ty).  The value part holds on the rows of [agree]: where
    DuckDB's and Spark's primitives coincide (not: substring position 0, a fractional value cast to an integer type --
    both known findings, refuted in C05_refuted.v) *)
Theorem C05_partial :
  forall t, in_class gen_cfg t = true ->
    exists e, reparse (print (build gen_cfg t)) = ROk e [] /\ strip e = denote t /\ known e = true /\
              forall en, udom en t = true -> agree en t = true -> seval en e = ueval en t.
Proof. exact (c05_value gen_cfg gen_cfg_ok). Qed.
Print Assumptions C05_partial.

(** the round trip itself holds for every SQL tree whose unparenthesised edges are precedence-safe *)
Theorem C05_roundtrip_all : forall e, safe 1 false e = true -> reparse (print e) = ROk e [].
Proof. exact roundtrip. Qed.
Print Assumptions C05_roundtrip_all.

Definition a := UCol "a". Definition b := UCol "b". Definition s := UCol "s".
Definition p := UCol "p". Definition q := UCol "q". Definition l := UCol "l".

(** the class is inhabited by trees that exercise every operator family, nested *)
Example C05_class_nonempty :
  in_class gen_cfg
    (UBin UAnd
       (UBin UOr (UBin ULt (UBin UMul (URBin USub (VInt 1) a) (UNeg (UBin UAdd a b))) (UPy (VInt 2)))
                 (UNot (UBin UEq s (UPy (VStr "x")))))
       (UBin UAnd (UIsNotNull (UBin UMod a (UPy (VInt 2))))
          (UBin UOr (UBetween a (UPy (VInt 0)) (UNeg b))
             (UBin UOr (UIsin s [VStr "a"; VNull]) (UNse (UCast a "TEXT") s)))))
  = true /\
  in_class gen_cfg
    (UBin UEq
       (UWhen (UBWhen (UIsNull (UBin UAdd a b)) (UPy (VStr "u"))
              (UBWhen (ULike s "a%") (USubstr s (UPy (VInt 1)) (UPy (VInt 2))) (UBElse (UPy (VStr "z"))))))
       (UAlias (UGetItemLit l 0) "first"))
  = true.
Proof. split; vm_compute; reflexivity. Qed.

(** refutation witnesses (one per known finding the model can express) live in props/C05_refuted.v; the check
    compiles each of them separately, so that a defect repaired upstream does not break the proved part *)
