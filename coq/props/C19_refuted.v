(** C19 -- refutation of the full statement [C19_full] on the faithful model: witnesses of the listed
    deviation (sqlframe converts a Decimal placed directly into a Row to float).  Compiled after C19.v. *)
From Coq Require Import ZArith String List Bool PrimFloat.
From SF Require Import C19.PyVal C19.Script.
From Gen Require Import C19Sf C19Ps.
Import ListNotations.
Open Scope string_scope.

Definition Rsf (n : nat) := tie row_body_sf n.
Definition Rps (n : nat) := tie row_body_ps n.
Definition Csf (n m : nat) := tiec (cmp_body_sf (Rsf n)) m.
Definition Cps (n m : nat) := tiec (cmp_body_ps (Rps n)) m.
Definition f1e5 : pyval := VFloat 0x1.4f8b588e368f1p-17 "1e-05".
Definition f1e8 : pyval := VFloat 0x1.5798ee2308c3ap-27 "1e-08".


Definition dec15 : pyval := VDec "Decimal('1.5')" 0x1.8p+0 "1.5".

(** Row(x=Decimal('1.5')): sqlframe stores float 1.5, PySpark keeps the Decimal *)
Theorem C19_refuted_decimal :
  exists n k s, run false (Rsf n) k s <> run false (Rps n) k s.
Proof.
  exists 10%nat, 10%nat, (SNew [] [("x", SLit dec15)]).
  vm_compute. intro H. discriminate H.
Qed.
Print Assumptions C19_refuted_decimal.

(** consequence for the helper, with each library building its own rows: Decimal('1.000001') against
    1.0 is accepted by sqlframe (two floats within rtol) and rejected by PySpark (Decimal != float) *)
Definition dec1000001 : pyval := VDec "Decimal('1.000001')" 0x1.000010c6f7a0bp+0 "1.000001".
Definition rows_of (o : out) : pyval := match o with OVal v => VList [v] | _ => VList [] end.

Theorem C19_refuted_decimal_verdict :
  exists n s1 s2,
    c_assertDataFrameEqual (Csf n n) (rows_of (run false (Rsf n) n s1)) (rows_of (run false (Rsf n) n s2))
        (VBool false) f1e5 f1e8
    <> c_assertDataFrameEqual (Cps n n) (rows_of (run false (Rps n) n s1)) (rows_of (run false (Rps n) n s2))
        (VBool false) f1e5 f1e8.
Proof.
  exists 12%nat, (SNew [] [("x", SLit dec1000001)]), (SNew [] [("x", SLit (VFloat 1 "1.0"))]).
  vm_compute. intro H. discriminate H.
Qed.
Print Assumptions C19_refuted_decimal_verdict.

(** hence the full statement is false of the model *)
Theorem C19_full_is_false :
  ~ (forall n k s, run false (Rsf n) k s = run false (Rps n) k s).
Proof. intros H. destruct C19_refuted_decimal as (n & k & s & Hne). apply Hne, H. Qed.
