(** C14 -- property file: the full statement, what is proved (closed by [exact]), the instantiation obligation on
    the facts regenerated from /repo, non-vacuity examples, Print Assumptions.  The refutations of the full statement
    on the faithful model (one per known finding) are in props/C14_refuted.v. *)
From SF Require Import Base.Val C14.Writer C14.WriterProof C14.Views C14.Builder.
From Gen Require Import C14Facts.
Open Scope string_scope.

(** instantiation obligation (re-checked against /repo's current source on every run): for the six modes, given
    as argument or through .mode(), saveAsTable picks INSERT / CREATE / CREATE IF NOT EXISTS / CREATE OR REPLACE as the
    mode demands, and _validate_mode + DuckDB's _write refuse / skip / COPY as the mode demands *)
Lemma gen_cfg_ok : cfg_ok gen_cfg = true.
Proof. vm_compute. reflexivity. Qed.

(** what a failed COPY leaves behind under the implementation as it is now: DuckDB's debris at a new path, unless
    the regenerated facts say that _write removes it *)
Definition gen_residue : residue_fn := residue_of gen_cfg.

(** * The property at full strength (behaviour on a failed COPY: [gen_residue]);
      [modes_full] = every well-formed history gives the spec's outcomes and final tables/files,
      [catalog_full] = tableExists is "created and not dropped since", [faults_full] = a failing write changes nothing.
      It is FALSE of the faithful model on the unchanged tree: see props/C14_refuted.v. *)
Definition C14_modes_full : Prop := modes_full gen_cfg gen_residue.
Definition C14_catalog_full : Prop := catalog_full gen_cfg gen_residue.
Definition C14_faults_full : Prop := faults_full gen_cfg gen_residue.
Definition C14_full : Prop := property_full gen_cfg gen_residue.

(** * What is proved *)

(** everything that is proved of [C14_full], in one statement (the pieces follow) *)
Theorem C14_partial :
  (forall ops, hist_ok gen_cfg gen_residue m_init ops = true ->
     s_run s_init ops = (abs (fst (m_run gen_cfg gen_residue m_init ops)), snd (m_run gen_cfg gen_residue m_init ops)))
  /\ C14_catalog_full
  /\ (forall st o d, is_write o = true -> op_df o = Some d -> df_bad d = true ->
        atomic_at gen_residue st o = true -> fst (m_step gen_cfg gen_residue st o) = st).
Proof. exact (property_partial gen_cfg gen_residue gen_cfg_ok). Qed.
Print Assumptions C14_partial.

(** modes + round trip + reads: every history (any length, any targets) inside the decidable domain [hist_ok] *)
Theorem C14_partial_modes :
  forall ops, hist_ok gen_cfg gen_residue m_init ops = true ->
    snd (m_run gen_cfg gen_residue m_init ops) = snd (s_run s_init ops).
Proof. exact (modes_refine_spec_obs gen_cfg gen_residue gen_cfg_ok). Qed.
Print Assumptions C14_partial_modes.

Theorem C14_partial_modes_any_state :
  forall ops st, hist_ok gen_cfg gen_residue st ops = true ->
    s_run (abs st) ops = (abs (fst (m_run gen_cfg gen_residue st ops)), snd (m_run gen_cfg gen_residue st ops)).
Proof. exact (modes_refine_spec gen_cfg gen_residue gen_cfg_ok). Qed.
Print Assumptions C14_partial_modes_any_state.

(** the catalog part holds in full *)
Theorem C14_catalog_holds : C14_catalog_full.
Proof. exact (fun ops k => catalog_reflects gen_cfg gen_residue ops m_init k). Qed.
Print Assumptions C14_catalog_holds.

Theorem C14_list_tables_exact :
  forall ops, let st := fst (m_run gen_cfg gen_residue m_init ops) in
    NoDup (akeys (m_tabs st)) /\
    forall k, In k (akeys (m_tabs st)) <-> live (fun _ => false) ops (snd (m_run gen_cfg gen_residue m_init ops)) k = true.
Proof. exact (list_tables_exact gen_cfg gen_residue). Qed.
Print Assumptions C14_list_tables_exact.

(** faults: the state (tables, files, schema cache) is untouched whenever the failed COPY leaves that one path as it
    was ([atomic_at], boolean, about the engine's runtime behaviour); no assumption for table targets *)
Theorem C14_partial_faults :
  forall st o d, is_write o = true -> op_df o = Some d -> df_bad d = true ->
    atomic_at gen_residue st o = true ->
    fst (m_step gen_cfg gen_residue st o) = st /\ no_rows (snd (m_step gen_cfg gen_residue st o)).
Proof. exact (failed_write_leaves_state gen_cfg gen_residue). Qed.
Print Assumptions C14_partial_faults.

(** since fix "DuckDB _write removes the debris of a failed COPY at a new path" the fault clause holds in full: the
    regenerated fact [cleans_new_path_debris] makes [gen_residue] the identity (checked by conversion) *)
Theorem C14_faults_hold : C14_faults_full.
Proof.
  exact (fun st o d Hw Hd Hb =>
           proj1 (failed_write_leaves_state_atomic gen_cfg gen_residue (fun prev => eq_refl) st o d Hw Hd Hb)).
Qed.
Print Assumptions C14_faults_hold.

Theorem C14_faults_tables_hold :
  forall st o d, is_write o = true -> op_df o = Some d -> df_bad d = true ->
    (match o with OpWrite _ _ _ _ _ => False | _ => True end) ->
    fst (m_step gen_cfg gen_residue st o) = st.
Proof. exact (failed_table_write_leaves_state gen_cfg gen_residue). Qed.
Print Assumptions C14_faults_tables_hold.

(** under statement atomicity of COPY (any engine behaviour [residue] with [residue prev = prev]) nothing is assumed *)
Theorem C14_faults_under_atomic_stmt :
  forall residue, (forall prev, residue prev = prev) ->
  forall st o d, is_write o = true -> op_df o = Some d -> df_bad d = true ->
    fst (m_step gen_cfg residue st o) = st /\ no_rows (snd (m_step gen_cfg residue st o)).
Proof. exact (failed_write_leaves_state_atomic gen_cfg). Qed.
Print Assumptions C14_faults_under_atomic_stmt.

Theorem C14_session_usable :
  forall st o d rest, is_write o = true -> op_df o = Some d -> df_bad d = true ->
    atomic_at gen_residue st o = true ->
    m_run gen_cfg gen_residue st (o :: rest) =
    (fst (m_run gen_cfg gen_residue st rest),
     snd (m_step gen_cfg gen_residue st o) :: snd (m_run gen_cfg gen_residue st rest)).
Proof. exact (session_usable_after_failed_write gen_cfg gen_residue). Qed.
Print Assumptions C14_session_usable.

Theorem C14_roundtrip_table :
  forall st n a s t,
    step_ok gen_cfg gen_residue st (OpSave n a s (DGood t)) = true ->
    snd (m_step gen_cfg gen_residue st (OpSave n a s (DGood t))) = OOk ->
    (ahas n (m_tabs st) = false \/ parse_mode (eff_mode a s) = Some MOverwrite) ->
    let st1 := fst (m_step gen_cfg gen_residue st (OpSave n a s (DGood t))) in
    step_ok gen_cfg gen_residue st1 (OpReadTable n) = true ->
    snd (m_step gen_cfg gen_residue st1 (OpReadTable n)) = ORows t.
Proof. exact (fun st n a s t => roundtrip_table gen_cfg gen_residue st n a s t gen_cfg_ok). Qed.
Print Assumptions C14_roundtrip_table.

Theorem C14_roundtrip_path :
  forall st p f a s t,
    step_ok gen_cfg gen_residue st (OpWrite p f a s (DGood t)) = true ->
    snd (m_step gen_cfg gen_residue st (OpWrite p f a s (DGood t))) = OOk ->
    (ahas p (m_files st) = false \/ parse_mode (eff_mode a s) = Some MOverwrite) ->
    let st1 := fst (m_step gen_cfg gen_residue st (OpWrite p f a s (DGood t))) in
    snd (m_step gen_cfg gen_residue st1 (OpReadPath p f)) = ORows t.
Proof. exact (fun st p f a s t => roundtrip_path gen_cfg gen_residue st p f a s t gen_cfg_ok). Qed.
Print Assumptions C14_roundtrip_path.

(** namesakes: the same refinement with session temporary views (shadow session.table, show in the catalog API, never
    influence a write), the guarded re-create `if not tableExists`, and same-named tables in another schema (no-ops) *)
Theorem C14_partial_namesakes :
  forall ops xs, x_hist_ok gen_cfg gen_residue xs ops = true ->
    x_s_run (x_abs xs) ops = (x_abs (fst (x_m_run gen_cfg gen_residue xs ops)), snd (x_m_run gen_cfg gen_residue xs ops)).
Proof. exact (x_modes_refine_spec gen_cfg gen_residue gen_cfg_ok). Qed.
Print Assumptions C14_partial_namesakes.

Theorem C14_views_do_not_touch_writes :
  forall st vs o, is_write o = true ->
    x_m_step gen_cfg gen_residue (st, vs) (XOp o)
    = ((fst (m_step gen_cfg gen_residue st o), vs), snd (m_step gen_cfg gen_residue st o)).
Proof. exact (views_do_not_touch_writes gen_cfg gen_residue). Qed.
Print Assumptions C14_views_do_not_touch_writes.

(** builder calls: on every flag state, mode() / byName / format() change their own flag and keep the others (re-checked
    against the regenerated builder on every run) ... *)
Lemma gen_bcfg_ok : bcfg_ok gen_bcfg = true.
Proof. vm_compute. reflexivity. Qed.

(** ... hence histories whose writes are built by ANY sequence of builder calls, in any order, refine the spec *)
Theorem C14_partial_builder :
  forall ops xs, y_hist_ok gen_cfg gen_bcfg gen_residue xs ops = true ->
    y_s_run (x_abs xs) ops
    = (x_abs (fst (y_m_run gen_cfg gen_bcfg gen_residue xs ops)), snd (y_m_run gen_cfg gen_bcfg gen_residue xs ops)).
Proof. exact (y_modes_refine_spec gen_cfg gen_bcfg gen_residue gen_cfg_ok gen_bcfg_ok). Qed.
Print Assumptions C14_partial_builder.

Theorem C14_byname_survives_any_order :
  forall pre post, forallb call_known (pre ++ BByName :: post) = true ->
    w_by_name (brun gen_bcfg (pre ++ BByName :: post)) = true.
Proof. exact (fun pre post => byname_survives_any_order gen_bcfg pre post gen_bcfg_ok). Qed.
Print Assumptions C14_byname_survives_any_order.

(** * The domain is inhabited: all six modes on a table and on files, insertInto positional and byName (after the
      table has been read once), reads, catalog calls, a drop, failing frames on a table and on an existing file *)
Definition fr_as : tbl := mkTbl [("a", TInt); ("s", TStr)] [[VInt 1; VStr "x"]; [VInt 2; VNull]].
Definition fr_as2 : tbl := mkTbl [("a", TInt); ("s", TStr)] [[VNull; VStr "It's"]].
Definition fr_sa : tbl := mkTbl [("s", TStr); ("a", TInt)] [[VStr "kx"; VInt 5]].
Definition fr_file : tbl := mkTbl [("a", TInt); ("s", TStr); ("f", TBool)]
                                  [[VInt 1; VStr "kx"; VBool true]; [VNull; VStr "px1"; VBool false]].
Definition demo : list op :=
  [ OpSave "t" None None (DGood fr_as); OpSave "t" None (Some "error") (DGood fr_as2);
    OpSave "t" (Some "errorifexists") None (DGood fr_as2); OpSave "t" (Some "ignore") (Some "overwrite") (DGood fr_as2);
    OpReadTable "t"; OpSave "t" None (Some "append") (DGood fr_as2); OpInsert "t" false (DGood fr_as2);
    OpInsert "t" true (DGood fr_sa); OpReadTable "t"; OpExists "t"; OpList; OpCols "t"; OpGet "t"; OpGet "u";
    OpSave "t" (Some "overwrite") None (DBad fr_as); OpInsert "u" false (DBad fr_as);
    OpInsert "t" true (DBad fr_sa); OpReadTable "t";
    OpSave "t" (Some "overwrite") None (DGood fr_as2); OpReadTable "t"; OpDrop "t"; OpExists "t"; OpReadTable "t";
    OpSave "t" (Some "ignore") None (DGood fr_as); OpReadTable "t";
    OpWrite "p" FCsv None None (DGood fr_file); OpReadPath "p" FCsv; OpWrite "p" FCsv (Some "error") None (DGood fr_file);
    OpWrite "p" FCsv (Some "ignore") None (DGood fr_file); OpWrite "p" FCsv (Some "overwrite") None (DBad fr_file);
    OpReadPath "p" FCsv; OpWrite "p" FCsv (Some "overwrite") None (DGood fr_file);
    OpWrite "q" FParquet (Some "errorifexists") None (DGood fr_as); OpReadPath "q" FParquet;
    OpWrite "r" FJson (Some "ignore") None (DGood fr_file); OpReadPath "r" FJson ].

Example C14_domain_nonempty : hist_ok gen_cfg gen_residue m_init demo = true.
Proof. vm_compute. reflexivity. Qed.

Example C14_demo_outcomes :
  firstn 9 (snd (m_run gen_cfg gen_residue m_init demo)) =
  [OOk; OErr EExists; OErr EExists; OOk; ORows fr_as; OOk; OOk; OOk;
   ORows (mkTbl [("a", TInt); ("s", TStr)]
                [[VInt 1; VStr "x"]; [VInt 2; VNull]; [VNull; VStr "It's"]; [VNull; VStr "It's"]; [VInt 5; VStr "kx"]])].
Proof. vm_compute. reflexivity. Qed.

(** the hypotheses of the fault theorem are satisfiable, on a table and on an existing file *)
Example C14_fault_hyp_table :
  let st := fst (m_run gen_cfg gen_residue m_init [OpSave "t" None None (DGood fr_as)]) in
  atomic_at gen_residue st (OpSave "t" (Some "overwrite") None (DBad fr_as2)) = true
  /\ snd (m_step gen_cfg gen_residue st (OpSave "t" (Some "overwrite") None (DBad fr_as2))) = OErr EFailed.
Proof. vm_compute. split; reflexivity. Qed.
Example C14_fault_hyp_file :
  let st := fst (m_run gen_cfg gen_residue m_init [OpWrite "p" FCsv None None (DGood fr_file)]) in
  atomic_at gen_residue st (OpWrite "p" FCsv (Some "overwrite") None (DBad fr_file)) = true
  /\ snd (m_step gen_cfg gen_residue st (OpWrite "p" FCsv (Some "overwrite") None (DBad fr_file))) = OErr EFailed.
Proof. vm_compute. split; reflexivity. Qed.

(** the namesake layer's domain is inhabited *)
Example C14_namesakes_nonempty :
  x_hist_ok gen_cfg gen_residue (m_init, [])
    [XForeign "t"; XTempView "t" (mkTbl [("v", TInt)] [[VInt 5]]); XOp (OpSave "t" (Some "ignore") None (DGood fr_as));
     XOp (OpExists "t"); XOp OpList; XOp (OpReadTable "t"); XOp (OpInsert "t" true (DGood fr_sa)); XGuardedSave "t" (DGood fr_as2);
     XOp (OpDrop "t"); XOp (OpExists "t"); XGuardedSave "t" (DGood fr_as2); XGuardedSave "u" (DGood fr_as2); XOp (OpReadTable "u")]
  = true.
Proof. vm_compute. reflexivity. Qed.

Example C14_builder_nonempty :
  y_hist_ok gen_cfg gen_bcfg gen_residue (m_init, [])
    [YSave [] "t" None (DGood fr_as);
     YInsert [BByName; BMode (Some "append"); BFormat "parquet"] "t" (DGood fr_sa);
     YSave [BFormat "csv"; BByName; BMode (Some "append")] "t" None (DGood fr_sa);
     YSave [BMode (Some "overwrite"); BByName] "t" None (DGood fr_as2);
     YWrite [BByName; BMode (Some "overwrite"); BFormat "json"] "p" FParquet None (DGood fr_as);
     YOp (XOp (OpReadTable "t"))]
  = true.
Proof. vm_compute. reflexivity. Qed.
