(** C11 -- refutations: the full statement is false of the faithful model.  One chunk per listed finding; the
    check (checks/c11.py) compiles every chunk on its own together with this preamble.  A chunk that no longer
    compiles while the implementation still shows the finding is a broken obligation (the model stopped being
    faithful); a chunk that no longer compiles after the defect was repaired in /repo is reported as such. *)
From SF Require Import C11.Actions.
From Gen Require Import C01Facts C11Facts.
Open Scope Z_scope.
Notation collect := (Actions.collect).
Notation head := (head_model gen_cfg gen_afacts).
Notation show := (show_model gen_cfg gen_afacts).
Definition one_row : frame := mkFrame ["a"; "b"; "s"]%string [[VInt 1; VInt 2; VStr "x"]].
Lemma one_row_wf : wf_frame one_row.
Proof. intros r [<-|[]]; reflexivity. Qed.
Lemma one_row_nodup : NoDup (cols one_row).
Proof. apply nodupb_sound; reflexivity. Qed.

(* == refutes: C11/head-0-returns-a-row == *)
(** head(0) returns a row: [0 or 1] is 1 *)
Theorem C11_refuted_head0 :
  exists ops input, wf_frame input /\ NoDup (cols input) /\
    ops_ok gen_cfg (init_df (cols input)) (cols input) ops = true /\
    let d := compile gen_cfg ops (init_df (cols input)) in
    head (Some 0%nat) d input = HList (firstn 1 (collect d input)) /\
    head (Some 0%nat) d input <> HList (firstn 0 (collect d input)).
Proof.
  exists [], one_row. split; [exact one_row_wf|]. split; [exact one_row_nodup|]. split; [reflexivity|].
  vm_compute. split; [reflexivity | discriminate].
Qed.
Print Assumptions C11_refuted_head0.

(* == refutes: C11/show-without-rows-omits-column-names == *)
(** show() that prints no row prints no column names either *)
Theorem C11_refuted_show_empty :
  exists ops input n, wf_frame input /\ NoDup (cols input) /\
    ops_ok gen_cfg (init_df (cols input)) (cols input) ops = true /\
    let d := compile gen_cfg ops (init_df (cols input)) in
    show n d input = STable [] [] /\ show n d input <> STable (columns d) (firstn n (collect d input)).
Proof.
  exists [], one_row, 0%nat. split; [exact one_row_wf|]. split; [exact one_row_nodup|]. split; [reflexivity|].
  vm_compute. split; [reflexivity | discriminate].
Qed.
Print Assumptions C11_refuted_show_empty.

(* == refutes: C11/show-duplicate-names-repeat-first-column == *)
(** repeated names: show() freezes the block first, so every same-named column shows the first one's values *)
Definition dup_ops : list op := [OSelect [(ECol "a", "x"%string); (ECol "b", "x"%string)]].
Theorem C11_refuted_show_duplicate_names :
  let d := compile gen_cfg dup_ops (init_df (cols one_row)) in
  collect d one_row = [[VInt 1; VInt 2]] /\
  show 1%nat d one_row = STable ["x"; "x_1"]%string [[VInt 1; VInt 1]].
Proof. vm_compute. split; reflexivity. Qed.
Print Assumptions C11_refuted_show_duplicate_names.

(* == refutes: C11/show-raises-on-colliding-renamed-name == *)
(** the renaming can collide with another name: the header has a duplicate and PrettyTable raises *)
Definition clash_ops : list op :=
  [OSelect [(ECol "a", "a_2"%string); (ECol "b", "a"%string); (ECol "s", "a"%string)]].
Theorem C11_refuted_names :
  unique_field_names ["a_2"; "a"; "a"]%string = ["a_2"; "a"; "a_2"]%string /\
  ~ NoDup (unique_field_names ["a_2"; "a"; "a"]%string) /\
  show 1%nat (compile gen_cfg clash_ops (init_df (cols one_row))) one_row = SRaise.
Proof.
  split; [vm_compute; reflexivity|]. split; [|vm_compute; reflexivity].
  intro H. vm_compute in H. inversion H as [|x l Hin _]; subst. apply Hin. right; left; reflexivity.
Qed.
(** hence the header is not duplicate-free for every field list *)
Theorem C11_names_full_is_false : ~ (forall fs, NoDup (unique_field_names fs)).
Proof. intro H. exact (proj1 (proj2 C11_refuted_names) (H _)). Qed.
Print Assumptions C11_refuted_names.
