(** C03 -- property file: the SQL text returned by df.sql() means what collect() executes.
    Only: instantiation obligations on the facts regenerated from /repo, the full statement, what is proved
    (closed by [exact]), non-vacuity examples, refutations, Print Assumptions. *)
From SF Require Import C03.Scoped C03.Render C03.Equiv.
From Gen Require Import C03Facts.
Import ListNotations.

(** * instantiation obligations (re-checked against /repo's current source on every run) *)
Lemma gen_facts_ok : facts_ok gen_facts = true.
Proof. vm_compute. reflexivity. Qed.

(** df.sql() with no arguments optimises: part (iii) is the DEFAULT behaviour *)
Lemma gen_sql_default_optimizes : sql_defaults gen_facts = (true, true, true).
Proof. reflexivity. Qed.

(** the CTE names the re-hashing draws are plain identifiers (a letter, then the crc32 digits): printing them
    without quotes is covered by [unquoted_ok]; at least 4 characters are kept *)
Lemma gen_hash_names_plain :
  ident_shape (hash_prefix ++ "0123456789") = true /\ (4 <= hash_len)%nat.
Proof. split; [vm_compute; reflexivity | vm_compute; repeat constructor]. Qed.

(** the optimizer's qualify step is told not to substitute select aliases into WHERE / sibling items (the repair
    of the alias-capture defects, /repo 9853fb2): a regression of that option breaks this obligation *)
Lemma gen_no_alias_expansion : optimize_expands_alias_refs = false.
Proof. reflexivity. Qed.

(** * the property at full strength *)
Section Property.
  (** environment: sqlglot's generator, the optimizer, the re-hashing, the engine's dialect object, and what
      the optimizer returns for a raw chain *)
  Variables tree stmt dialect text : Type.
  Variable base : tree -> list stmt.
  Variable optimized : bool -> tree -> list stmt.
  Variable render : stmt -> dialect -> bool -> bool -> text.
  Variable produces : list block -> list block -> Prop.

  Definition C03_full : Prop :=
    (* (i) self-contained, whatever names the hash/uuid oracle answers *)
    (forall ops q, Scoped q -> Scoped (fold_left nstep ops q))
    /\ (forall f q, Scoped q -> Scoped (rename_q f q))
    (* (ii) optimize=False: the statements collect() executes; unquoted text reads as the quoted one *)
    /\ (forall q p t, sql_stmts tree stmt base optimized gen_facts (mkCfg false q p) t
                      = collect_stmts tree stmt base optimized gen_facts t)
    /\ (forall q : list piece,
          map (lex reserved) (map (render_piece false) q) = map (lex reserved) (map (render_piece true) q))
    (* (iii) optimize=True (the default): the optimised chain means the raw chain on every input *)
    /\ (forall raw opt input, produces raw opt -> wf_frame input -> eval_chain raw input = eval_chain opt input).

  (** ** what is proved *)

  (** (i) for every operation list, under the decidable oracle condition [nops_ok] (names drawn are new) *)
  Theorem C03_scoped_partial : forall ops q,
    Scoped q -> nops_ok q ops = true -> Scoped (fold_left nstep ops q).
  Proof. exact run_scoped. Qed.

  (** (i) re-hashing, under injectivity on the names of that ONE query (checked on every exported query) *)
  Theorem C03_rehash_partial : forall f q,
    Scoped q -> injective_onb f (names (q_ctes q)) = true -> Scoped (rename_q f q).
  Proof. intros f q Hs Hi. exact (rename_scoped f q Hs (injective_onb_sound f _ Hi)). Qed.

  (** (ii) holds outright for the regenerated plumbing, for every generator / optimizer / tree *)
  Theorem C03_unopt_holds : forall q p t,
    sql_stmts tree stmt base optimized gen_facts (mkCfg false q p) t
    = collect_stmts tree stmt base optimized gen_facts t.
  Proof. exact (sql_unopt_same_statements tree stmt base optimized gen_facts gen_facts_ok). Qed.

  Theorem C03_unopt_text : forall (exec_dialect : dialect) t,
    sql_texts tree stmt dialect text base optimized render gen_facts exec_dialect
              (mkCfg false (collect_quote gen_facts) (collect_pretty gen_facts)) t
    = collect_texts tree stmt dialect text base optimized render exec_dialect gen_facts t.
  Proof.
    intros d t. exact (sql_unopt_is_collect_text tree stmt dialect text base optimized render d gen_facts gen_facts_ok t).
  Qed.

  (** (ii) unquoted rendering, on statements whose identifiers are all plain w.r.t. DuckDB's own keyword table *)
  Theorem C03_unquoted_partial : forall q : list piece,
    forallb (plain reserved) (idents q) = true ->
    map (lex reserved) (map (render_piece false) q) = map (lex reserved) (map (render_piece true) q).
  Proof. exact (unquoted_ok reserved). Qed.

  (** (iii) translation validation: a pair the checker accepts agrees on EVERY well-formed input *)
  Theorem C03_optimized_partial : forall raw opt input,
    wf_frame input -> equiv_check (cols input) raw opt = true -> eval_chain raw input = eval_chain opt input.
  Proof. exact equiv_check_sound. Qed.
End Property.

Print Assumptions C03_scoped_partial.
Print Assumptions C03_rehash_partial.
Print Assumptions C03_unopt_holds.
Print Assumptions C03_unopt_text.
Print Assumptions C03_unquoted_partial.
Print Assumptions C03_optimized_partial.

(** * the hypotheses are satisfiable by non-trivial values *)
Example C03_scoped_domain_nonempty :
  let d := mkQ [mkCte "t1" []; mkCte "t2" ["t1"]] ["t2"] in
  let ops := [NWrap "t3"; NJoin d "t4" ["u1"; "u2"; "u3"]; NLocal; NSetOp d "t4" ["v1"; "v2"; "v3"] "t9"]%string in
  Scoped d /\ nops_ok d ops = true.
Proof. split; [apply scopedb_iff|]; vm_compute; reflexivity. Qed.

Example C03_rehash_domain_nonempty :
  injective_onb (apply_ren [("t1", "t7"); ("t2", "t8")]%string) ["t1"; "t2"; "t3"]%string = true.
Proof. vm_compute. reflexivity. Qed.

Example C03_unquoted_domain_nonempty :
  forallb (plain reserved) (idents [PRaw "WITH"; PIdent "t28858906"; PRaw "AS (SELECT"; PIdent "a"; PRaw "FROM";
                                    PIdent "a1"; PRaw ")"]%string) = true.
Proof. vm_compute. reflexivity. Qed.

Example C03_optimized_domain_nonempty :
  equiv_check ["a"; "b"]%string
    [pass_block ["a"; "b"]%string;
     mkBlock [EBin Gt (ECol "a") (ELit (VInt 0))]
             [(EBin Add (ECol "a") (ELit (VInt 1)), "c"%string); (ECol "b", "b"%string)] false [] None;
     mkBlock [EBin Eq (ELit (VInt 2)) (ECol "c")] (passthrough ["c"; "b"]%string) false
             [mkKey (ECol "b") true false] (Some 3%nat)]
    [mkBlock [EBin And (EBin Eq (EBin Add (ECol "a") (ELit (VInt 1))) (ELit (VInt 2)))
                       (EBin Gt (ECol "a") (ELit (VInt 0)))]
             [(EBin Add (ECol "a") (ELit (VInt 1)), "c"%string); (ECol "b", "b"%string)] false
             [mkKey (ECol "b") true false] (Some 3%nat)]
  = true.
Proof. vm_compute. reflexivity. Qed.

(** * refutations of the full statement on the faithful model *)

(** (i) without the oracle condition: a hash collision defines a name twice *)
Theorem C03_refuted_name_collision :
  exists q n, Scoped q /\ ~ Scoped (nstep q (NWrap n)).
Proof.
  exists (mkQ [mkCte "t1"%string []] ["t1"%string]), "t1"%string. split.
  - apply scopedb_iff. vm_compute. reflexivity.
  - intro H. apply scopedb_iff in H. vm_compute in H. discriminate.
Qed.

(** (ii) quote_identifiers=False: a column called [select] (reserved in DuckDB's own table) or [order by]
    is not read back as that identifier *)
Theorem C03_refuted_unquoted :
  exists q : list piece,
    map (lex reserved) (map (render_piece false) q) <> map (lex reserved) (map (render_piece true) q).
Proof.
  exists [PIdent "select"%string]. vm_compute. discriminate.
Qed.

Theorem C03_refuted_unquoted_space :
  exists q : list piece,
    map (lex reserved) (map (render_piece false) q) <> map (lex reserved) (map (render_piece true) q).
Proof.
  exists [PIdent "order by"%string]. vm_compute. discriminate.
Qed.

(** (iii) what the implementation returns for  df.orderBy(a).limit(1).where(a > 1)  (raw) and its optimised
    form (the filter moved below the LIMIT): the checker rejects the pair and a two-row table separates them *)
Theorem C03_refuted_filter_below_limit :
  exists raw opt input,
    wf_frame input /\ equiv_check (cols input) raw opt = false /\ eval_chain raw input <> eval_chain opt input.
Proof.
  exists lim_then_filter, filter_then_lim, (mkFrame ["a"%string] [[VInt 1]; [VInt 2]]).
  split; [|split].
  - intros r [<-|[<-|[]]]; reflexivity.
  - vm_compute. reflexivity.
  - vm_compute. discriminate.
Qed.

(** (iii) WHERE captured by a select alias:  df.where(a > 0).select((a - 5).alias('a'))  -- what the optimizer
    returned before the repair 9853fb2; kept as a witness that the full statement needs the checker *)
Theorem C03_refuted_where_alias_capture :
  exists raw opt input,
    wf_frame input /\ equiv_check (cols input) raw opt = false /\ eval_chain raw input <> eval_chain opt input.
Proof.
  exists [mkBlock [EBin Gt (ECol "a") (ELit (VInt 0))] [(EBin Sub (ECol "a") (ELit (VInt 5)), "a"%string)] false [] None],
         [mkBlock [EBin Gt (EBin Sub (ECol "a") (ELit (VInt 5))) (ELit (VInt 0))]
                  [(EBin Sub (ECol "a") (ELit (VInt 5)), "a"%string)] false [] None],
         (mkFrame ["a"%string] [[VInt 1]]).
  split; [|split].
  - intros r [<-|[]]; reflexivity.
  - vm_compute. reflexivity.
  - vm_compute. discriminate.
Qed.

(** (iii) ORDER BY key captured by a later alias:  df.orderBy('a').withColumn('a', -a)  *)
Theorem C03_refuted_order_key_capture :
  exists raw opt input,
    wf_frame input /\ equiv_check (cols input) raw opt = false /\ eval_chain raw input <> eval_chain opt input.
Proof.
  exists [mkBlock [] (passthrough ["a"%string]) false [mkKey (ECol "a") false true] None;
          mkBlock [] [(ENeg (ECol "a"), "a"%string)] false [] None],
         [mkBlock [] [(ENeg (ECol "a"), "a"%string)] false [mkKey (ECol "a") false true] None],
         (mkFrame ["a"%string] [[VInt 1]; [VInt 2]]).
  split; [|split].
  - intros r [<-|[<-|[]]]; reflexivity.
  - vm_compute. reflexivity.
  - vm_compute. discriminate.
Qed.

(** (iii) a select item captured by a sibling alias:  df.toDF('d', 's', 'a')  on columns (a, b, s):
    SELECT a AS d, b AS s, s AS a  is returned as  SELECT a AS d, b AS s, b AS a *)
Theorem C03_refuted_sibling_alias_capture :
  exists raw opt input,
    wf_frame input /\ equiv_check (cols input) raw opt = false /\ eval_chain raw input <> eval_chain opt input.
Proof.
  exists [mkBlock [] [(ECol "a", "d"%string); (ECol "b", "s"%string); (ECol "s", "a"%string)] false [] None],
         [mkBlock [] [(ECol "a", "d"%string); (ECol "b", "s"%string); (ECol "b", "a"%string)] false [] None],
         (mkFrame ["a"; "b"; "s"]%string [[VInt 1; VInt 2; VStr "x"]]).
  split; [|split].
  - intros r [<-|[]]; reflexivity.
  - vm_compute. reflexivity.
  - vm_compute. discriminate.
Qed.

Print Assumptions C03_refuted_name_collision.
Print Assumptions C03_refuted_unquoted.
Print Assumptions C03_refuted_filter_below_limit.
Print Assumptions C03_refuted_where_alias_capture.
Print Assumptions C03_refuted_order_key_capture.
Print Assumptions C03_refuted_sibling_alias_capture.
