(** C09 -- property file.  Contains only: the full statement, the proved statement (closed by [exact]), the
    instantiation obligations on the facts regenerated from /repo, non-vacuity examples, refutation witnesses
    for the genuine defects the model can express, and Print Assumptions. *)
From Coq Require Import NArith ZArith List Bool String.
From SF Require Import C09.Lex C09.Values C09.Pipeline C09.Schema C09.Main.
From Gen Require Import C09Facts.
Import ListNotations.

(** instantiation obligation (re-checked against /repo's current source on every run): the regenerated dispatch
    chains decide every class as the property needs (bool before int, datetime before date, Row before tuple,
    NaN and infinity special cases, dict -> Row unless map-like, ...) and the type table maps every primitive
    type back to the declared one *)
Lemma gen_facts_ok :
  facts_ok gen_infer_chain gen_lit_chain gen_litfn_chain gen_tovalue_chain gen_primitive_mapping = true.
Proof. vm_compute. reflexivity. Qed.

(** the property at full strength: all strings, all listed values, every environment that behaves as assumed *)
Definition C09_full : Prop :=
  full gen_infer_chain gen_lit_chain gen_litfn_chain gen_tovalue_chain gen_primitive_mapping.

(** what is proved: the same with the boolean domain predicates [nul_free] (strings), [wf] (statement
    templates), [supported]/[uniform]/[fits] (typed cells) and [untyped_ok] (cells without a CAST) *)
Theorem C09_partial :
  partial gen_infer_chain gen_lit_chain gen_litfn_chain gen_tovalue_chain gen_primitive_mapping.
Proof. exact (partial_holds _ _ _ _ _ gen_facts_ok). Qed.
Print Assumptions C09_partial.

(** the environment hypotheses are satisfiable *)
Example C09_env_satisfiable : env_ok ref_eleaf ref_cleaf ref_pleaf.
Proof. exact ref_env_ok. Qed.

(** a column of nested values with adversarial content is in the domain and round-trips in the reference
    environment (type inferred from its first row) *)
Example C09_domain_nonempty :
  supported sample_value = true /\ uniform sample_value = true /\ nanfree sample_value = true /\
  exists t, infer gen_infer_chain sample_value = Some t /\
    forallb (col_member t) [sample_value; PNone; sample_value] = true /\
    col_pipeline ref_eleaf ref_cleaf ref_pleaf (ref_round32 []) gen_lit_chain gen_litfn_chain gen_tovalue_chain
                 (Some t) [sample_value; PNone; sample_value]
    = map (fun v => Some (expected v)) [sample_value; PNone; sample_value].
Proof.
  split; [vm_compute; reflexivity|]. split; [vm_compute; reflexivity|]. split; [vm_compute; reflexivity|].
  eexists. split; [vm_compute; reflexivity|]. split; vm_compute; reflexivity.
Qed.

Example C09_template_nonempty :
  wf [Raw [83; 69; 76; 69; 67; 84; 32]%N; Str [39; 59; 45; 45; 92; 34]%N; Raw [32; 65; 83; 32]%N; Idn [97; 34; 98]%N] = true.
Proof. vm_compute. reflexivity. Qed.

Local Notation P := (col_pipeline ref_eleaf ref_cleaf ref_pleaf (ref_round32 [(4591870180066957722, (4591870180174331904, false))]%Z)
                                  gen_lit_chain gen_litfn_chain gen_tovalue_chain).
Local Notation want vs := (map (fun v => Some (expected v)) vs).

(** refutations of the full statement on the faithful model (each replayed on the implementation by the check) *)

(** a string containing U+0000 cannot be written as a literal *)
Theorem C09_refuted_nul : exists s rest, starts_with QS rest = false /\ lex_string (render_string s ++ rest) <> Some (s, rest).
Proof. exists [97; 0; 98]%N, []. split; [reflexivity|]. vm_compute. discriminate. Qed.

(** lit(float('inf')) in select(): the literal is the string 'inf' and nothing casts it back *)
Theorem C09_refuted_lit_inf : exists v, listed v = true /\ P None [v] <> want [v].
Proof. exists (PFloat (FInf false)). split; [reflexivity|]. vm_compute. discriminate. Qed.

(** an infinity inside a list/struct is written as the bare word inf: the statement fails *)
Theorem C09_refuted_nested_inf : exists v, listed v = true /\ P (infer gen_infer_chain v) [v] <> want [v].
Proof. exists (PList [PFloat (FInf false)]). split; [reflexivity|]. vm_compute. discriminate. Qed.

(** a struct field whose first-row value is None is dropped from the column type, and with it from the data *)
Theorem C09_refuted_struct_none_field : exists v, listed v = true /\ P (infer gen_infer_chain v) [v] <> want [v].
Proof. exists (PRow [([97]%N, PNone); ([98]%N, PInt 1)]). split; [reflexivity|]. vm_compute. discriminate. Qed.

(** a float inside a list without a CAST (lit() in select(), or a column whose first value is None) comes back as
    decimal.Decimal *)
Theorem C09_refuted_nested_decimal : exists v, listed v = true /\ P None [v] <> want [v].
Proof. exists (PList [PFloat (FFin 4591870180066957722 false)]). split; [reflexivity|]. vm_compute. discriminate. Qed.

(** a column whose first value is None gets no CAST: a later infinity comes back as the string 'inf' *)
Theorem C09_refuted_first_none : exists vs, forallb listed vs = true /\
  P (match vs with v0 :: _ => infer gen_infer_chain v0 | [] => None end) vs <> want vs.
Proof. exists [PNone; PFloat (FInf true)]. split; [reflexivity|]. vm_compute. discriminate. Qed.

(** the NaN literal is CAST('NaN' AS REAL): a double column that contains a NaN is unified to REAL, and 0.1 comes
    back as 0.10000000149011612 (the float32 nearest to it) *)
Theorem C09_refuted_nan_narrows : exists vs, forallb (fun v => listed v && fits v TDouble) vs = true /\
  P (Some TDouble) vs <> want vs.
Proof. exists [PFloat FNaN; PFloat (FFin 4591870180066957722 false)]. split; [reflexivity|]. vm_compute. discriminate. Qed.
Print Assumptions C09_refuted_nan_narrows.
