(** C09 -- property file.  Contains only: the full statement, the proved statement (closed by [exact]), the
    instantiation obligations on the facts regenerated from /repo, non-vacuity examples, refutation witnesses
    for the genuine defects the model can express, and Print Assumptions. *)
From Coq Require Import NArith ZArith List Bool String.
From SF Require Import C09.Lex C09.Values C09.Pipeline C09.Schema C09.Main.
From Gen Require Import C09Facts.
Import ListNotations.

(** instantiation obligation (re-checked against /repo's current source on every run): the regenerated dispatch
    chains decide every class as the property needs (bool before int, datetime before date, Row before tuple,
    NaN and infinity special cases, dict -> Row unless map-like, ...) and the type table maps every primitive
    type back to the declared one *)
Lemma gen_facts_ok :
  facts_ok gen_infer_chain gen_lit_chain gen_litfn_chain gen_tovalue_chain gen_primitive_mapping
           gen_cells_float_via_lit gen_sample_first_non_none = true.
Proof. vm_compute. reflexivity. Qed.

(** the property at full strength: all strings, all listed values, every environment that behaves as assumed *)
Definition C09_full : Prop :=
  full gen_infer_chain gen_lit_chain gen_litfn_chain gen_tovalue_chain gen_primitive_mapping
       gen_cells_float_via_lit gen_sample_first_non_none.

(** what is proved: the same with the boolean domain predicates [nul_free] (single literals), [wf] (statement
    templates), [col_member] = [supp] && [fits] and [uniform] (typed columns), [supp] (columns without a CAST)
    and [untyped_ok] (select(lit(v)): not an infinity) *)
Theorem C09_partial :
  partial gen_infer_chain gen_lit_chain gen_litfn_chain gen_tovalue_chain gen_primitive_mapping
          gen_cells_float_via_lit gen_sample_first_non_none.
Proof. exact (partial_holds _ _ _ _ _ _ _ gen_facts_ok). Qed.
Print Assumptions C09_partial.

(** the environment hypotheses are satisfiable *)
Example C09_env_satisfiable : env_ok ref_eleaf ref_cleaf ref_pleaf.
Proof. exact ref_env_ok. Qed.

(** a column of nested values with adversarial content (NaN and nested infinities included) is in the domain and
    round-trips in the reference environment (type inferred from its first value that is not None) *)
Local Notation C := (col_pipeline ref_eleaf ref_cleaf ref_pleaf (ref_round32 [])
                                  (cell_lit gen_lit_chain gen_litfn_chain gen_cells_float_via_lit) gen_tovalue_chain).
Local Notation S := (col_pipeline ref_eleaf ref_cleaf ref_pleaf (ref_round32 [])
                                  (lit_top gen_lit_chain gen_litfn_chain) gen_tovalue_chain).
Local Notation want vs := (map (fun v => Some (expected v)) vs).

Example C09_domain_nonempty :
  supp sample_value = true /\ uniform sample_value = true /\
  exists t, infer gen_infer_chain sample_value = Some t /\
    forallb (col_member t) [PNone; sample_value; PNone; sample_value] = true /\
    C (Some t) [PNone; sample_value; PNone; sample_value] = want [PNone; sample_value; PNone; sample_value].
Proof.
  split; [vm_compute; reflexivity|]. split; [vm_compute; reflexivity|].
  eexists. split; [vm_compute; reflexivity|]. split; vm_compute; reflexivity.
Qed.

Example C09_template_nonempty :
  wf [Raw [83; 69; 76; 69; 67; 84; 32]%N; Str [39; 59; 45; 45; 92; 34]%N; Raw [32; 65; 83; 32]%N; Idn [97; 34; 98]%N] = true.
Proof. vm_compute. reflexivity. Qed.

(** refutations of the full statement on the faithful model (each replayed on the implementation by the check).
    The witnesses of the defects repaired in /repo (NaN literal as REAL, infinities outside lit(), nested
    Decimal, first-row-only sampling, U+0000 inside a literal) no longer refute it; they stay in the check's corpus. *)

(** U+0000 still cannot stand inside a literal (the lexer stops there) -- which is why a str that contains it is
    written as CONCAT of its NUL-free pieces and CHR(0) (no longer a refutation of the full statement) *)
Example lexer_stops_at_nul : lex_string (render_string [97; 0; 98]%N) = None.
Proof. vm_compute. reflexivity. Qed.

(** lit(float('inf')) in select(): the literal is the string 'inf' and nothing casts it back *)
Theorem C09_refuted_lit_inf : exists v, listed v = true /\ S None [v] <> want [v].
Proof. exists (PFloat (FInf false)). split; [reflexivity|]. vm_compute. discriminate. Qed.

(** a struct field whose sampled value is None is dropped from the column type, and with it from the data *)
Theorem C09_refuted_struct_none_field : exists v, listed v = true /\ C (infer gen_infer_chain v) [v] <> want [v].
Proof. exists (PRow [([97]%N, PNone); ([98]%N, PInt 1)]). split; [reflexivity|]. vm_compute. discriminate. Qed.
Print Assumptions C09_refuted_struct_none_field.
