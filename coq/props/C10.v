(** C10 -- property file (column names).  Only: the full statement, instantiation obligations on the facts
    regenerated from /repo, the proved statements (closed by [exact]), non-vacuity examples, refutation witnesses of
    the faithful model, Print Assumptions. *)
From SF Require Import C10.Ascii.
From Gen Require Import C10Facts.
Open Scope N_scope.
Open Scope string_scope.

Definition wu : N -> bool := fun _ => true.
Notation run' := (run anorm wu gen_cfg).
Notation create' := (create anorm gen_cfg).
Notation spec' := (spec_run anorm).

(** instantiation obligations (re-checked against /repo's current source on every run) *)
Lemma gen_cfg_ok : cfg_ok gen_cfg = true.
Proof. vm_compute. reflexivity. Qed.

Lemma gen_wrapper_is_model :
  forallb (fun o => forallb (fun l =>
     opk_eqb (new_kind gen_cfg o l) (if opk_eqb o NO_OP then l else o)
     && opk_eqb (new_kind_g gen_cfg o l) (if opk_eqb o NO_OP then l else o)
     && Bool.eqb (wrap_needed gen_cfg l o) (wrap_needed_g gen_cfg l o)) all_opk) all_opk = true.
Proof. vm_compute. reflexivity. Qed.

(** the property at full strength: whatever Spark names a program's columns, sqlframe's four views show exactly those
    names (and the program does not raise), and a call never changes the names of the frame it is called on *)
Definition C10_full : Prop :=
  (forall wordu ns ops ns', spec_run anorm ns ops = Some ns' ->
     exists d, run anorm wordu gen_cfg (create anorm gen_cfg ns) ops = Some d
       /\ columns gen_cfg d = ns' /\ fields anorm gen_cfg d = ns' /\ schema anorm gen_cfg d = ns'
       /\ pandas anorm gen_cfg d = ns')
  /\ (forall wordu o d rv d', step anorm wordu gen_cfg o d = Some (rv, d') -> columns gen_cfg rv = columns gen_cfg d).

(** proved, part 1 (no restriction beyond back-tick-free spellings): a reference finds the same columns in any letter
    case; back-ticks around a name that needs quoting are optional *)
Theorem C10_lookup_case_insensitive : forall d v n,
  plain v = true -> plain n = true -> anorm v = anorm n -> resolve anorm d v = resolve anorm d n.
Proof. exact a_lookup_case_insensitive. Qed.
Print Assumptions C10_lookup_case_insensitive.

Theorem C10_ticks_optional : forall d t,
  plain t = true -> qspark t = true -> resolve anorm d (bt t) = resolve anorm d t.
Proof. exact a_ticks_optional. Qed.
Print Assumptions C10_ticks_optional.

(** proved, part 2: in every state reachable from createDataFrame by ANY sequence of the operations accepted by
    [views_ok_op] (all modelled operations except toDF; unquoted names where a method does not record; names whose
    DuckDB-dialect quoting equals their Spark-dialect quoting) the four views agree *)
Theorem C10_views_partial : forall wordu ns ops d,
  forallb (good_name anorm) ns = true -> forallb (views_ok_op anorm) ops = true ->
  run anorm wordu gen_cfg (create anorm gen_cfg ns) ops = Some d ->
  columns gen_cfg d = pandas anorm gen_cfg d /\ fields anorm gen_cfg d = pandas anorm gen_cfg d
  /\ schema anorm gen_cfg d = pandas anorm gen_cfg d.
Proof. intros wordu ns ops d. exact (a_views_agree wordu gen_cfg ns ops d gen_cfg_ok). Qed.
Print Assumptions C10_views_partial.

(** proved, part 3: model = Spark.names for every program of the recording alphabet + C01 steps ([good_prog]) *)
Theorem C10_names_partial : forall wordu ns ops d,
  create_ok anorm ns = true -> good_prog anorm ns ops = true ->
  run anorm wordu gen_cfg (create anorm gen_cfg ns) ops = Some d ->
  exists ns', spec_run anorm ns ops = Some ns'
    /\ columns gen_cfg d = ns' /\ fields anorm gen_cfg d = ns' /\ schema anorm gen_cfg d = ns'
    /\ pandas anorm gen_cfg d = ns'.
Proof. intros wordu ns ops d. exact (a_spelling_is_last_named wordu gen_cfg ns ops d gen_cfg_ok). Qed.
Print Assumptions C10_names_partial.

(** the hypotheses are satisfiable by a non-trivial program (mixed case, a reserved word, a name with a space,
    back-ticked references, replacement, renaming, C01 steps) and the model does not raise on it *)
Definition ex_names := [s "AB"; s "c d"; s "Order"].
Definition ex_ops :=
  [OSelect [SCol (s "`C D`"); SStr (s "ab"); SAlias (s "ORDER") (s "Tot Al")];
   OWithColumn (s "aB"); OWithColumnRenamed (s "TOT AL") (s "select");
   OWhere (s "Select"); OOrderBy [s "`c d`"]; OLimit; ODistinct; OAgg [s "Mx"; s "n N"]].
Example C10_domain_nonempty :
  create_ok anorm ex_names = true /\ good_prog anorm ex_names ex_ops = true
  /\ forallb (views_ok_op anorm) ex_ops = true
  /\ option_map (columns gen_cfg) (run' (create' ex_names) (firstn 7 ex_ops))
     = Some [s "C D"; s "aB"; s "select"]
  /\ option_map (columns gen_cfg) (run' (create' ex_names) ex_ops) = Some [s "Mx"; s "n N"].
Proof. vm_compute. repeat split; reflexivity. Qed.

(** * refutation witnesses: the faithful model differs from Spark.names (each is replayed on the implementation).
    A witness that rests on a regenerated fact is stated under that fact (a boolean computed from Gen.C10Facts), so that
    repairing the defect in /repo -- which flips the fact -- does not turn the witness into a failing obligation. *)
Definition is_rnone (k : rkind) : bool := match k with RNone => true | _ => false end.
Definition is_public (k : rsel) : bool := match k with SelPublicCopy => true | _ => false end.
Definition groupagg_records_nothing : bool := is_rnone (rec_of gen_cfg MGroupAgg).
Definition toDF_records_nothing : bool := is_rnone (rec_of gen_cfg MToDF).
Definition join_records_nothing : bool := is_rnone (rec_of gen_cfg MJoin) && negb (join_merges gen_cfg).
Definition drop_reselects_publicly : bool := is_public (resel_of gen_cfg MDrop).
Definition fillna_reselects_publicly : bool := is_public (resel_of gen_cfg MFillna).
Definition dropna_reselects_publicly : bool := is_public (resel_of gen_cfg MDropna).
Definition select_records_on_receiver : bool := match rec_of gen_cfg MSelect with RRecv => true | _ => false end.
Definition str_recorded_raw : bool := str_disp_raw gen_cfg.

Ltac refute := vm_compute; repeat split; try reflexivity; try discriminate.
Ltac refute_if w :=
  let H := fresh "H" in intro H;
  first [ (vm_compute in H; discriminate H) | (clear H; w) ].

Definition abc := [s "AB"; s "c d"; s "Xy"].

Theorem C10_refuted_groupby_agg : groupagg_records_nothing = true -> exists ops d ns',
  run' (create' abc) ops = Some d /\ spec' abc ops = Some ns' /\ columns gen_cfg d <> ns'
  /\ columns gen_cfg d = [s "AB"; s "n"] /\ ns' = [s "AB"; s "N"].
Proof. refute_if ltac:(exists [OGroupAgg [SStr (s "AB")] [s "N"]]; eexists; eexists; refute). Qed.

Theorem C10_refuted_select_backticked_string : str_recorded_raw = true -> exists ops d ns',
  run' (create' abc) ops = Some d /\ spec' abc ops = Some ns' /\ columns gen_cfg d <> ns'
  /\ columns gen_cfg d = [s "`c d`"] /\ ns' = [s "c d"].
Proof. refute_if ltac:(exists [OSelect [SStr (s "`c d`")]]; eexists; eexists; refute). Qed.

Theorem C10_refuted_fillna : fillna_reselects_publicly = true -> exists ops d ns',
  run' (create' abc) ops = Some d /\ spec' abc ops = Some ns' /\ columns gen_cfg d <> ns'
  /\ columns gen_cfg d = [s "ab"; s "`c d`"; s "xy"] /\ ns' = abc.
Proof. refute_if ltac:(exists [OFillna None]; eexists; eexists; refute). Qed.

Theorem C10_refuted_drop : drop_reselects_publicly = true -> exists ops d ns',
  run' (create' abc) ops = Some d /\ spec' abc ops = Some ns' /\ columns gen_cfg d <> ns'
  /\ columns gen_cfg d = [s "ab"; s "c d"] /\ ns' = [s "AB"; s "c d"].
Proof. refute_if ltac:(exists [ODrop [s "xy"]]; eexists; eexists; refute). Qed.

Theorem C10_refuted_dropna_dropDuplicates :
  dropna_reselects_publicly && drop_reselects_publicly = true -> exists d1 d2,
  run' (create' abc) [ODropna] = Some d1 /\ run' (create' abc) [ODropDuplicates [s "Ab"]] = Some d2
  /\ columns gen_cfg d1 = [s "ab"; s "c d"; s "xy"] /\ columns gen_cfg d2 = [s "ab"; s "c d"; s "xy"]
  /\ spec' abc [ODropna] = Some abc /\ spec' abc [ODropDuplicates [s "Ab"]] = Some abc.
Proof. refute_if ltac:(eexists; eexists; refute). Qed.

Theorem C10_refuted_toDF_views : toDF_records_nothing = true -> exists ops d ns',
  run' (create' abc) ops = Some d /\ spec' abc ops = Some ns'
  /\ columns gen_cfg d = ns' /\ fields anorm gen_cfg d <> columns gen_cfg d
  /\ fields anorm gen_cfg d = [s "aa"; s "bb"; s "cc"].
Proof. refute_if ltac:(exists [OToDF [s "Aa"; s "Bb"; s "Cc"]]; eexists; eexists; refute). Qed.

Theorem C10_refuted_join_right_names : join_records_nothing = true -> exists ops d ns',
  run' (create' [s "AB"; s "Xy"]) ops = Some d /\ spec' [s "AB"; s "Xy"] ops = Some ns' /\ columns gen_cfg d <> ns'
  /\ columns gen_cfg d = [s "AB"; s "Xy"; s "other"] /\ ns' = [s "AB"; s "Xy"; s "Other"].
Proof. refute_if ltac:(exists [OJoin [s "ab"; s "Other"] [s "Ab"]]; eexists; eexists; refute). Qed.

(** a call renames the frame it is called on: d1 = df.where(...); d1.select('ab', 'XY') changes d1.columns *)
Theorem C10_refuted_receiver : select_records_on_receiver = true -> exists d1 rv d2,
  run' (create' abc) [OWhere (s "ab")] = Some d1
  /\ step anorm wu gen_cfg (OSelect [SStr (s "ab"); SStr (s "XY")]) d1 = Some (rv, d2)
  /\ columns gen_cfg d1 = abc /\ columns gen_cfg rv = [s "ab"; s "c d"; s "XY"].
Proof. refute_if ltac:(eexists; eexists; eexists; refute). Qed.

(** witnesses that rest on the hand-written part of the model (sqlglot's quoting / parsing as defined in C10.Names, C10.Model) *)
Definition join_key_looked_up_quoted : bool := negb (join_key_bare gen_cfg).
Definition orderby_reparses_bare_keys : bool := negb (orderby_identify gen_cfg).
Definition schema_keyed_by_engine_quoting : bool := negb (schema_key_spark gen_cfg).

Theorem C10_refuted_join_quoted_key_raises : join_key_looked_up_quoted = true -> exists ops ns',
  run' (create' [s "AB"; s "c d"]) ops = None /\ spec' [s "AB"; s "c d"] ops = Some ns'.
Proof. refute_if ltac:(exists [OJoin [s "C D"; s "Other"] [s "c d"]]; eexists; refute). Qed.

Theorem C10_refuted_orderBy_reserved_word_raises : orderby_reparses_bare_keys = true -> exists ops ns',
  run' (create' [s "select"; s "zz"]) ops = None /\ spec' [s "select"; s "zz"] ops = Some ns'.
Proof. refute_if ltac:(exists [OOrderBy [s "select"]]; eexists; refute). Qed.

Theorem C10_refuted_leading_digit_schema : schema_keyed_by_engine_quoting = true -> exists d,
  d = create' [s "C D"; s "1a"] /\ columns gen_cfg d = [s "C D"; s "1a"]
  /\ schema anorm gen_cfg d = [s "C D"; s "`1a`"].
Proof. refute_if ltac:(eexists; refute). Qed.

Theorem C10_refuted_same_column_twice : exists ops d ns',
  run' (create' [s "AB"; s "Xy"]) ops = Some d /\ spec' [s "AB"; s "Xy"] ops = Some ns' /\ columns gen_cfg d <> ns'
  /\ columns gen_cfg d = [s "AB"; s "AB"] /\ ns' = [s "ab"; s "AB"].
Proof. exists [OSelect [SCol (s "ab"); SCol (s "AB")]]. eexists. eexists. refute. Qed.

Theorem C10_not_full : ~ C10_full.
Proof.
  intros [H _].
  specialize (H wu [s "AB"; s "Xy"] [OSelect [SCol (s "ab"); SCol (s "AB")]] [s "ab"; s "AB"] eq_refl).
  destruct H as [d [Hr [Hc _]]]. vm_compute in Hr. injection Hr as <-. vm_compute in Hc. discriminate.
Qed.

(** the facts under which the conditional witnesses speak, as they are on this run *)
Eval vm_compute in (groupagg_records_nothing, toDF_records_nothing, join_records_nothing, drop_reselects_publicly,
                    fillna_reselects_publicly, dropna_reselects_publicly, select_records_on_receiver, str_recorded_raw,
                    join_key_looked_up_quoted, orderby_reparses_bare_keys, schema_keyed_by_engine_quoting).
Print Assumptions C10_refuted_groupby_agg.
Print Assumptions C10_refuted_receiver.
Print Assumptions C10_not_full.
