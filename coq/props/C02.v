(** C02 -- property file (joins).  Only: instantiation obligations on the facts regenerated from /repo, the full
    statement, what is proved (closed by [exact]), non-vacuity examples, refutation witnesses, Print Assumptions. *)
From SF Require Import C02.Check.
From Gen Require Import C02Facts.
Open Scope string_scope.
Open Scope list_scope.

(** * instantiation obligations (re-checked against /repo's current source on every run) *)
Lemma gen_how_ok : cfg_how_ok gen_cfg = true.
Proof. vm_compute. reflexivity. Qed.
Lemma gen_none_ok : cfg_none_ok gen_cfg = true.
Proof. vm_compute. reflexivity. Qed.

(** join() first normalises the spelling the way Spark does (fixed defect, commit c8201a3; see known findings) *)
Lemma gen_how_normalised : h_norm gen_cfg = true.
Proof. reflexivity. Qed.

(** without a condition only the inner join becomes the product, every other kind is kept and joined ON TRUE
    (fixed defect, commit 838c3ee) *)
Lemma gen_none_keeps_kind : h_none_eq gen_cfg = true.
Proof. reflexivity. Qed.

(** _handle_self_join re-targets a reference taken from the very DataFrame being joined (fixed defect, commit 5a8e675), and
    _add_ctes_to_expression rewrites the CTEs that follow a renamed duplicate in place, so that join() never sees a stale
    table name (fixed defect, commit cbe502c) *)
Lemma gen_self_join_exact_ok : gen_self_join_exact = true.
Proof. reflexivity. Qed.
Lemma gen_rename_in_place_ok : gen_rename_in_place = true.
Proof. reflexivity. Qed.

(** every documented spelling of [how] reaches the join kind Spark gives it, with that kind's flags
    (left columns only <-> semi/anti, COALESCE of the keys <-> full outer, right-to-left resolution <-> right outer) *)
Theorem C02_how_total : forall how, In how documented ->
  exists k, spark_kind how = Some k /\ flags_for k (impl_flags gen_cfg false how) = true.
Proof. exact (how_total gen_cfg gen_how_ok). Qed.
Print Assumptions C02_how_total.

(** ... and so does EVERY string Spark accepts (any case, any underscores): not a finite table any more *)
Theorem C02_how_total_all : forall how k, spark_kind how = Some k -> flags_for k (impl_flags gen_cfg false how) = true.
Proof. exact (how_total_all gen_cfg gen_how_normalised gen_how_ok). Qed.
Print Assumptions C02_how_total_all.

(** * the property at full strength: whenever PySpark accepts the program (a chain of joins followed by an optional
    select / where), the implementation returns PySpark's column list and PySpark's bag of rows *)
Definition C02_full : Prop :=
  forall L lbase lctes steps f, nodupb (cols L) = true -> sp_run L lbase steps f <> None ->
    fr_eqb (m_run gen_cfg L lbase lctes steps f) (sp_run L lbase steps f) = true.

(** what is proved: for programs inside [prog_dom] -- documented spellings; not a right outer join; a condition is given
    unless the kind is inner/cross; name joins whose key is (once) the first table's column on the left and a column of the
    right side; no earlier table's same-named column missing from the select list; references in ON / select / where that
    denote their table (independent inputs, or references through aliases) and that PySpark accepts; bare names that are
    unique -- the implementation builds literally PySpark's query (same join kinds, same ON, same WHERE, same select list),
    hence equal column lists and equal rows for EVERY content of the tables *)
Theorem C02_partial : forall L lbase lctes steps f,
  prog_dom gen_cfg L lbase lctes steps f = true ->
  m_run gen_cfg L lbase lctes steps f = sp_run L lbase steps f.
Proof. exact (run_ok gen_cfg gen_how_ok gen_none_ok). Qed.
Print Assumptions C02_partial.

(** a right outer join (as the only join) is PySpark's as long as no column name other than the keys occurs on both sides *)
Theorem C02_right_join : forall L lbase lctes x,
  right_dom gen_cfg L lbase lctes x = true ->
  m_run gen_cfg L lbase lctes [x] FNone = sp_run L lbase [x] FNone.
Proof. exact (right_join_first_ok gen_cfg gen_how_ok). Qed.
Print Assumptions C02_right_join.

(** one join: PySpark's columns, and the rows are the select list applied to the SQL join (C02.Join.join) of the two inputs
    under the three-valued ON *)
Theorem C02_single_join : forall L lbase lctes x,
  nodupb (cols L) = true -> jstep_dom gen_cfg (init_st L lbase lctes) x = true ->
  m_run gen_cfg L lbase lctes [x] FNone = sp_run L lbase [x] FNone
  /\ forall fr, m_run gen_cfg L lbase lctes [x] FNone = Some fr ->
       exists k cond sel,
         cols fr = map snd sel /\
         rows fr = map (proj (if is_semi_anti k then map (qn 0) (cols L) else map (qn 0) (cols L) ++ map (qn 1) (cols (j_right x))) sel)
                       (join (on_match (map (qn 0) (cols L)) (map (qn 1) (cols (j_right x))) cond)
                             (List.length (cols L)) (List.length (cols (j_right x))) k (rows L) (rows (j_right x))).
Proof. exact (single_join_ok gen_cfg gen_how_ok gen_none_ok). Qed.
Print Assumptions C02_single_join.

(** * the join semantics the rows theorem refers to: laws for all inputs *)
Theorem C02_null_keys_never_match : forall lc rc (keys : list (expr * expr)) l r,
  (exists p, In p keys /\ (eval (lc ++ rc) (l ++ r) (fst p) = VNull \/ eval (lc ++ rc) (l ++ r) (snd p) = VNull)) ->
  on_match lc rc (conj_left (map (fun p => EBin Eq (fst p) (snd p)) keys)) l r = false.
Proof. exact null_key_never_matches. Qed.
Print Assumptions C02_null_keys_never_match.

Theorem C02_null_safe_matches_null : forall cs r a b,
  eval cs r a = VNull -> eval cs r b = VNull -> holds cs r (EBin NullSafeEq a b) = true.
Proof. exact nullsafe_null_matches. Qed.
Print Assumptions C02_null_safe_matches_null.

Theorem C02_inner_is_filtered_product : forall m L R,
  inner m L R = map (fun p => fst p ++ snd p) (filter (fun p => m (fst p) (snd p)) (list_prod L R)).
Proof. exact inner_is_filtered_product. Qed.
Print Assumptions C02_inner_is_filtered_product.

Theorem C02_left_is_inner_plus_padded : forall m nr L R,
  Permutation.Permutation (left m nr L R) (inner m L R ++ pad_unmatched_l m nr L R).
Proof. exact left_is_inner_plus_unmatched. Qed.
Print Assumptions C02_left_is_inner_plus_padded.

Theorem C02_full_is_inner_plus_both : forall m nl nr L R,
  Permutation.Permutation (full m nl nr L R) (inner m L R ++ pad_unmatched_l m nr L R ++ pad_unmatched_r m nl L R).
Proof. exact full_is_inner_plus_both. Qed.
Print Assumptions C02_full_is_inner_plus_both.

Theorem C02_outer_joins_pad : forall m nl nr L R,
  (forall l, In l L -> (forall r, In r R -> m l r = false) -> In (l ++ nulls nr) (full m nl nr L R)) /\
  (forall r, In r R -> (forall l, In l L -> m l r = false) -> In (nulls nl ++ r) (full m nl nr L R)).
Proof. exact full_pads_both. Qed.
Print Assumptions C02_outer_joins_pad.

Theorem C02_semi_anti_keep_left_rows_once : forall m L R x,
  (count_occ row_eq_dec (semi m L R) x + count_occ row_eq_dec (anti m L R) x = count_occ row_eq_dec L x)%nat.
Proof. exact semi_anti_count. Qed.
Print Assumptions C02_semi_anti_keep_left_rows_once.

(** * non-vacuity: a three-join chain (name joins, an expression join through DataFrame references, a semi join) with
    colliding non-key column names is inside the domain *)
Definition exA := mkFrame ["k"; "v"; "s"] [[VInt 1; VInt 10; VStr "a"]; [VNull; VInt 30; VStr "c"]; [VInt 2; VInt 20; VStr "b"]].
Definition exB := mkFrame ["k"; "v"; "w"] [[VInt 2; VInt 100; VStr "x"]; [VNull; VInt 300; VStr "z"]; [VInt 2; VInt 101; VStr "y"]].
Definition exC := mkFrame ["k"; "u"] [[VInt 2; VInt 7]; [VInt 1; VInt 9]].
Definition exD := mkFrame ["k2"; "x"] [[VInt 2; VStr "p"]].
Definition exR := mkFrame ["k"; "u"] [[VInt 5; VInt 7]; [VInt 2; VInt 8]].       (* has a key the left side lacks *)
Definition exX := mkFrame ["k"; "w"] [[VInt 5; VStr "x"]].
Definition ctA := [mkCm 1 2 (Some 0%nat)].
Definition ctB (t : nat) := [mkCm 3 4 (Some t)].
Definition ctC (t : nat) := [mkCm 5 6 (Some t)].
Definition ctD (t : nat) := [mkCm 7 8 (Some t)].

Example C02_domain_nonempty :
  prog_dom gen_cfg exA 1 ctA
    [mkStep exB 2 (ctB 1) (OnNames ["k"]) "Left_OUTER" false None;
     mkStep exD 4 (ctD 2) (OnExprs [UBin Eq (UCol (RDf 1 3 false "v")) (UCol (RDf 2 7 false "k2"))]) "inner" false None;
     mkStep exC 3 (ctC 3) (OnNames ["k"]) "semi" false None]
    (FSelect [(UCol (RName "k"), "k"); (UCol (RDf 1 3 false "v"), "bv"); (UBin Add (UCol (RDf 0 1 false "v")) (ULit (VInt 1)), "av1")]) = true
  /\ prog_dom gen_cfg exA 1 ctA [mkStep exB 2 (ctB 1) (OnNames ["k"; "v"]) "full" false None] FNone = true
  /\ prog_dom gen_cfg exA 1 ctA [mkStep exB 2 (ctB 1) OnNone "left_semi" false None; mkStep exD 4 (ctD 2) OnNone "FULL" false None] FNone = true
  /\ prog_dom gen_cfg exA 1 ctA [mkStep exB 2 (ctB 1) OnNone "cross" false None] (FWhere (UBin Gt (UCol (RDf 1 3 false "v")) (ULit (VInt 100)))) = true
  /\ right_dom gen_cfg exA 1 ctA (mkStep exD 4 (ctD 1) (OnExprs [UBin Eq (UCol (RDf 0 1 false "k")) (UCol (RDf 1 7 false "k2"))]) "right_outer" false None) = true
  /\ right_dom gen_cfg exA 1 ctA (mkStep exC 3 (ctC 1) (OnNames ["k"]) "right" false None) = true.
Proof. vm_compute. repeat split; reflexivity. Qed.

(** * refutations of the full statement on the faithful model (each is replayed on the implementation by the check) *)
Definition refutes (L : frame) (lctes : list cmeta) (steps : list jstep) (f : fin) : Prop :=
  nodupb (cols L) = true /\ sp_run L 1 steps f <> None /\
  fr_eqb (m_run gen_cfg L 1 lctes steps f) (sp_run L 1 steps f) = false.

Ltac refute := unfold refutes; split; [reflexivity | split; [vm_compute; discriminate | vm_compute; reflexivity]].

(** right outer join on a name: the right side's same-named non-key column comes first *)
Theorem C02_refuted_right_name_join : C02_full -> False.
Proof.
  intro H.
  assert (R : refutes exA ctA [mkStep exB 2 (ctB 1) (OnNames ["k"]) "right" false None] FNone) by refute.
  destruct R as [R1 [R2 R3]]. rewrite (H _ _ _ _ _ R1 R2) in R3. discriminate.
Qed.
Print Assumptions C02_refuted_right_name_join.

Theorem C02_refuted_right_expr_join :
  refutes exA ctA [mkStep exB 2 (ctB 1) (OnExprs [UBin Eq (UCol (RDf 0 1 false "k")) (UCol (RDf 1 3 false "k"))]) "right_outer" false None] FNone.
Proof. refute. Qed.
Print Assumptions C02_refuted_right_expr_join.

(** the key of a full outer name join is the COALESCE only in the join's own select list *)
Theorem C02_refuted_full_then_select_key :
  refutes exA ctA [mkStep exR 3 (ctC 1) (OnNames ["k"]) "full" false None] (FSelect [(UCol (RName "k"), "k"); (UCol (RName "u"), "u")]).
Proof. refute. Qed.
Print Assumptions C02_refuted_full_then_select_key.
Theorem C02_refuted_full_then_name_join :
  refutes exA ctA [mkStep exR 3 (ctC 1) (OnNames ["k"]) "full" false None; mkStep exX 2 (ctB 2) (OnNames ["k"]) "full" false None] FNone.
Proof. refute. Qed.
Print Assumptions C02_refuted_full_then_name_join.

(** a right join later in a chain resolves left-to-right: the key is the left side's *)
Theorem C02_refuted_right_join_not_first :
  refutes exA ctA [mkStep exD 4 (ctD 1) (OnExprs [UBin Eq (UCol (RDf 0 1 false "k")) (UCol (RDf 1 7 false "k2"))]) "left" false None;
                   mkStep (mkFrame ["k"; "u"] [[VInt 5; VInt 7]]) 3 (ctC 2) (OnNames ["k"]) "right" false None] FNone.
Proof. refute. Qed.
Print Assumptions C02_refuted_right_join_not_first.

(** a column dropped by a name join shifts the position-based resolution of a later table's same-named column *)
Theorem C02_refuted_dropped_key_shifts :
  refutes exA ctA [mkStep exB 2 (ctB 1) (OnNames ["k"]) "left" false None;
                   mkStep exC 3 (ctC 2) (OnExprs [UBin Eq (UCol (RDf 0 1 false "k")) (UCol (RDf 2 5 false "k"))]) "left" false None] FNone.
Proof. refute. Qed.
Print Assumptions C02_refuted_right_name_join.
Print Assumptions C02_refuted_dropped_key_shifts.
