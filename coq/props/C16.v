(** C16 -- property file.  Contains only: the full statement, the proved statement (closed by [exact]), the
    instantiation obligation on the table regenerated from /repo, a non-vacuity example and Print Assumptions.
    The refutations (one per listed defect) are in C16_refuted.v.

    [gen_table]   : every body of base/functions.py and base/function_alternatives.py as [fexp]   (T1)
    [gen_prims]   : the coercion facts of base/column.py, functions.col/lit, session.format_time,
                    the engines' execution dialects and what each engine's functions module exports (T1)
    [gen_entries] : (function, engine, position, call vector) for every function exported by an engine's functions
                    module and every position where live PySpark 3.5.9 reads a str as a column name *)
From SF Require Import C16.Fexp C16.Known.
From Gen Require Import C16Table C16Entries C16Ok0 C16Ok1 C16Ok2 C16Ok3 C16Ok4.
From Coq Require Import String List ZArith Bool. Import ListNotations. Open Scope string_scope. Open Scope bool_scope.

(** [probe_names] (the finite bound on column names), [C16_known] (the listed unrepaired defects: the format argument of three functions) and
    [C16_repaired_keys] (the 71 keys repaired in /repo, findings/C16.known.json status fixed) are in
    theories/C16/Known.v *)

(** instantiation obligation, re-checked against /repo's current source on every run: the decision procedure
    accepts every decided entry outside the listed defects *)
Lemma gen_all_ok : all_ok gen_prims gen_table probe_names C16_known gen_entries = true.
Proof.
  (* one vm_compute obligation per probe name (Gen.C16Ok<k>, compiled in parallel), combined here *)
  unfold probe_names.
  apply all_ok_cons; [exact gen_ok_0|].
  apply all_ok_cons; [exact gen_ok_1|].
  apply all_ok_cons; [exact gen_ok_2|].
  apply all_ok_cons; [exact gen_ok_3|].
  apply all_ok_cons; [exact gen_ok_4|].
  apply all_ok_nil.
Qed.

(** the property at full strength: for every function of every engine's functions module, every position where
    PySpark accepts a column name and every probe name, the name form builds the expression of the col(name) form *)
Definition C16_full : Prop :=
  forall e c, In e gen_entries -> In c probe_names -> holds gen_prims gen_table c e = true.

(** what is proved: the same statement for the entries the model decides ([decided]: no Opaque construct is reached
    in either evaluation -- the others are listed in the evidence and decided by the correspondence run only) and
    that are not a listed defect *)
Theorem C16_partial :
  forall e c, In e gen_entries -> In c probe_names ->
    decided gen_prims gen_table c e = true -> listed C16_known e = false ->
    holds gen_prims gen_table c e = true.
Proof. exact (all_ok_sound gen_prims gen_table probe_names C16_known gen_entries gen_all_ok). Qed.
Print Assumptions C16_partial.

(** [holds] is equality of the two symbolic results whenever the col() form is a valid call *)
Corollary C16_partial_eq :
  forall e c, In e gen_entries -> In c probe_names ->
    decided gen_prims gen_table c e = true -> listed C16_known e = false ->
    is_err (res_col gen_prims gen_table c e) = false ->
    val_eqb (res_str gen_prims gen_table c e) (res_col gen_prims gen_table c e) = true.
Proof.
  intros e c He Hc Hd Hl Hne. apply holds_spec; [exact (C16_partial e c He Hc Hd Hl) | exact Hne].
Qed.
Print Assumptions C16_partial_eq.

(** the hypotheses are satisfiable by entries that go through engine-specific alternatives:
    expm1 on DuckDB (expm1_from_exp: exp(col) - lit(1)), isnull on Postgres, date_add on Snowflake *)
Example C16_domain_nonempty :
  forallb (fun k => existsb (fun e => if key_eqb k e
                                      then (if decided gen_prims gen_table "c" e
                                            then (if listed C16_known e then false
                                                  else negb (is_err (res_col gen_prims gen_table "c" e)))
                                            else false)
                                      else false)
                            gen_entries)
          [("expm1", "duckdb", 0%nat); ("isnull", "postgres", 0%nat); ("date_add", "snowflake", 1%nat);
           ("coalesce", "standalone", 1%nat)] = true.
Proof. vm_compute. reflexivity. Qed.

(** the keys of the repaired defects are inside the theorem's domain: every one of them has a vector that is decided,
    valid and holds for EVERY probe name (by C16_partial all their decided vectors hold) -- a regression of a repair makes
    [gen_all_ok] fail *)
Example C16_repaired :
  forallb (fun k => existsb (fun e => if key_eqb k e
                                      then (if listed C16_known e then false
                                            else forallb (fun c => if decided gen_prims gen_table c e
                                                                   then negb (is_err (res_col gen_prims gen_table c e))
                                                                        && holds gen_prims gen_table c e
                                                                   else false) probe_names)
                                      else false)
                            gen_entries)
          C16_repaired_keys = true.
Proof. vm_compute. reflexivity. Qed.
