(** C16 -- property file (draft; known list filled below). *)
From SF Require Import C16.Fexp.
From Gen Require Import C16Table C16Entries.
From Coq Require Import String List ZArith. Import ListNotations. Open Scope string_scope.

Definition probe_names : list string := ["c"; "zz9"].
Definition C16_known : list (string * string * nat) := [].

Lemma gen_all_ok : all_ok gen_prims gen_table probe_names C16_known gen_entries = true.
Proof. vm_compute. reflexivity. Qed.
