(** C08 -- property file (windows). *)
From Coq Require Import ZArith List Bool Lia ZifyBool.
From SF Require Import C08.Window.
From Gen Require Import C08Facts.
Open Scope Z_scope.

Ltac split_ifs :=
  repeat match goal with
         | |- context [if ?c then _ else _] => let E := fresh "E" in destruct c eqn:E
         end.

(** instantiation obligations on the regenerated facts *)
Lemma gen_bounds_agree : bounds_agree get_value_and_side.
Proof.
  intros s e d Hs He Hd.
  unfold dom_start, dom_end, int32, two63 in *.
  unfold get_value_and_side. unfold_window_consts.
  unfold spark_lo, spark_hi, two63.
  cbv zeta.
  repeat (split_ifs; cbn [sql_bound]); unfold in_ext, ext_le, ext_ge; lia.
Qed.

Lemma gen_order_flags_are_sparks : forall m, In m all_ometh -> order_flags m = spark_flags m.
Proof. intros m H. simpl in H. repeat (destruct H as [<-|H]; [reflexivity|]). contradiction. Qed.

Lemma gen_frame_kinds : rows_kind = "ROWS"%string /\ range_kind = "RANGE"%string.
Proof. split; reflexivity. Qed.

Lemma gen_spec_building : part_replaces = true /\ order_replaces = true.
Proof. split; reflexivity. Qed.

Lemma gen_bare_key_is_sparks : window_bare_key_is_spark_default = true.
Proof. reflexivity. Qed.

(** the placement a bare key ends up with in the emitted SQL: WindowSpec.orderBy either writes Spark's default explicitly
    (ASC NULLS FIRST) or leaves the key bare, and then the execution engine's default (DuckDB: ASC NULLS LAST) applies *)
Definition gen_bare_default : bool * bool := if window_bare_key_is_spark_default then (false, true) else (false, false).

(** the property at full strength for the specification part: every window spec a user can write means,
    on the engine, the window Spark means *)
Definition C08_full (bare_default : bool * bool) : Prop :=
  forall u, frame_exact get_value_and_side u ->
    model_wspec order_flags bare_default get_value_and_side u = Some (spark_wspec u).

(** proved: for specs whose keys all use one of the six ordering methods *)
Theorem C08_partial : forall bare_default u,
  explicit u = true -> frame_exact get_value_and_side u ->
  model_wspec order_flags bare_default get_value_and_side u = Some (spark_wspec u).
Proof. intros bd u. exact (model_is_spark order_flags bd get_value_and_side u gen_order_flags_are_sparks). Qed.
Print Assumptions C08_partial.

(** proved in full since `fix: a bare window order key gets Spark's default placement`: no restriction on the keys *)
Theorem C08_holds : C08_full gen_bare_default.
Proof.
  intros u Hfr.
  exact (model_is_spark_all order_flags gen_bare_default get_value_and_side u gen_order_flags_are_sparks eq_refl Hfr).
Qed.
Print Assumptions C08_holds.

(** specs are built by any sequence of partitionBy / orderBy / rowsBetween / rangeBetween calls: the spec the
    implementation builds is the spec Spark builds (the last call of each kind decides), for every call sequence *)
Theorem C08_spec_building : forall plan,
  build part_replaces order_replaces plan = spark_build plan
  /\ spark_build plan = mkU (last_part plan []) (last_order plan []) (last_frame plan None).
Proof.
  intros plan. split.
  - exact (build_is_sparks _ _ plan (proj1 gen_spec_building) (proj2 gen_spec_building)).
  - exact (spark_build_last_wins plan (mkU [] [] None)).
Qed.
Print Assumptions C08_spec_building.

Example C08_spec_building_nontrivial :
  spark_build [SFrame (true, -1, 1); SPart [ECol "k"]; SOrder [(ECol "v", MDesc)]; SPart [ECol "p"]; SOrder [(ECol "i", MBare)]]
  = mkU [ECol "p"] [(ECol "i", MBare)] (Some (true, -1, 1)).
Proof. reflexivity. Qed.

(** frames: for every start/end in Spark's domain and every row distance / key difference that can occur *)
Theorem C08_frames : bounds_agree get_value_and_side.
Proof. exact gen_bounds_agree. Qed.
Print Assumptions C08_frames.

(** adding a window column never disturbs the other columns or the number of rows *)
Theorem C08_other_columns : forall fr name sp f,
  (forall r, In r (rows fr) -> List.length r = List.length (cols fr)) ->
  map (firstn (List.length (cols fr))) (rows (with_window fr name sp f)) = rows fr
  /\ List.length (rows (with_window fr name sp f)) = List.length (rows fr).
Proof. exact window_keeps_columns. Qed.
Print Assumptions C08_other_columns.

Example C08_domain_nonempty :
  explicit (mkU [ECol "p"] [(ECol "k", MDesc); (ECol "i", MAscNL)] (Some (true, -1, 9223372036854775807))) = true
  /\ dom_start (-1) /\ dom_end 9223372036854775807.
Proof. unfold dom_start, dom_end, int32, two63. split; [reflexivity|lia]. Qed.
