(** C14 -- refutations of the full statement on the faithful model, one block per known finding.
    checks/c14.py compiles every block on its own (header + block): a block that no longer compiles means the defect is
    gone from the model (fixed in the source, the regenerated facts changed) -- reported as such, never as an alarm, and
    not counted as an obligation.  The blocks of findings listed as "fixed" in findings/C14.known.json (writer mode for
    paths, stale schema cache, byName uncached / stale) are kept as regression witnesses: they compile again, and the
    deviation is reported as a VIOLATION, if the fix is ever undone. *)
From SF Require Import Base.Val C14.Writer C14.WriterProof.
From Gen Require Import C14Facts.
Open Scope string_scope.
Definition gen_residue : residue_fn := residue_of gen_cfg.

Definition fr_ab : tbl := mkTbl [("a", TInt); ("b", TInt)] [[VInt 1; VInt 2]].
Definition fr_ba : tbl := mkTbl [("b", TInt); ("a", TInt)] [[VInt 10; VInt 20]].
Definition fr_c : tbl := mkTbl [("c", TBool)] [[VBool true]].

Ltac refute_modes w :=
  let H := fresh "H" in
  unfold modes_full; intro H; specialize (H w); vm_compute in H; specialize (H eq_refl); discriminate H.

(* ---- refutation: C14/path-write-ignores-writer-mode ---- *)
(** df.write.mode("overwrite").parquet(p): the writer's mode never reaches _write (FileExistsError) *)
Theorem C14_refuted_writer_mode_ignored_for_paths : ~ modes_full gen_cfg gen_residue.
Proof.
  refute_modes [OpWrite "p" FParquet None None (DGood fr_ab); OpWrite "p" FParquet None (Some "overwrite") (DGood fr_ba);
                OpReadPath "p" FParquet].
Qed.
Print Assumptions C14_refuted_writer_mode_ignored_for_paths.

(* ---- refutation: C14/saveAsTable-append-absent-table-raises ---- *)
(** saveAsTable(mode="append") on a table that does not exist yet raises instead of creating it *)
Theorem C14_refuted_append_to_absent_table : ~ modes_full gen_cfg gen_residue.
Proof. refute_modes [OpSave "t" (Some "append") None (DGood fr_ab); OpExists "t"]. Qed.
Print Assumptions C14_refuted_append_to_absent_table.

(* ---- refutation: C14/saveAsTable-append-is-positional ---- *)
(** saveAsTable(mode="append") inserts by position; PySpark resolves the columns by name *)
Theorem C14_refuted_append_is_positional : ~ modes_full gen_cfg gen_residue.
Proof.
  refute_modes [OpSave "t" None None (DGood fr_ab); OpSave "t" (Some "append") None (DGood fr_ba); OpReadTable "t"].
Qed.
Print Assumptions C14_refuted_append_is_positional.

(* ---- refutation: C14/table-read-stale-schema-cache ---- *)
(** session.table after the table was replaced with other columns reads the stale cached column list *)
Theorem C14_refuted_stale_schema_cache : ~ modes_full gen_cfg gen_residue.
Proof.
  refute_modes [OpSave "t" None None (DGood fr_ab); OpReadTable "t"; OpSave "t" (Some "overwrite") None (DGood fr_c);
                OpReadTable "t"].
Qed.
Print Assumptions C14_refuted_stale_schema_cache.

(* ---- refutation: C14/byName-uncached-table-is-positional ---- *)
(** byName.insertInto on a table the session has not read yet is positional *)
Theorem C14_refuted_byname_uncached_is_positional : ~ modes_full gen_cfg gen_residue.
Proof.
  refute_modes [OpSave "t" None None (DGood fr_ab); OpInsert "t" true (DGood fr_ba); OpReadTable "t"].
Qed.
Print Assumptions C14_refuted_byname_uncached_is_positional.

(* ---- refutation: C14/byName-stale-schema-cache ---- *)
(** byName.insertInto orders by the stale cached columns after the table was replaced: the values land in the wrong
    columns (seen in the final table contents, not in any outcome) *)
Theorem C14_refuted_byname_stale_cache : ~ modes_full gen_cfg gen_residue.
Proof.
  refute_modes [OpSave "t" None None (DGood fr_ab); OpReadTable "t"; OpSave "t" (Some "overwrite") None (DGood fr_ba);
                OpInsert "t" true (DGood fr_ab)].
Qed.
Print Assumptions C14_refuted_byname_stale_cache.

(* ---- refutation: C14/path-append-raises-NotImplementedError ---- *)
(** file targets cannot be appended to (NotImplementedError) *)
Theorem C14_refuted_path_append_unsupported : ~ modes_full gen_cfg gen_residue.
Proof.
  refute_modes [OpWrite "p" FParquet None None (DGood fr_ab); OpWrite "p" FParquet (Some "append") None (DGood fr_ab)].
Qed.
Print Assumptions C14_refuted_path_append_unsupported.

(* ---- refutation: C14/failed-copy-to-new-path-leaves-partial-file ---- *)
(** runtime half: with what DuckDB leaves behind when COPY to a *new* path fails, the fault clause is false *)
Theorem C14_refuted_failed_copy_leaves_partial_file : ~ faults_full gen_cfg gen_residue.
Proof.
  unfold faults_full. intro H.
  specialize (H m_init (OpWrite "p" FCsv None None (DBad fr_ab)) (DBad fr_ab) eq_refl eq_refl eq_refl).
  vm_compute in H. discriminate H.
Qed.
Print Assumptions C14_refuted_failed_copy_leaves_partial_file.
