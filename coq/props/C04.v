(** C04 -- property file.  Only: instantiation obligations on the facts regenerated from /repo, the full statement,
    the theorem (closed by the generic theorems of SF.C04), a non-vacuity example, and the refutation witnesses of the
    defects that were repaired in /repo (conditional on the regenerated summary containing the write again: they stay
    compiled so that a regression is recognised by the model, and are vacuous while the fix is in place). *)
From SF Require Import C04.Heap C04.Exec.
From Gen Require Import C04Facts.
From Coq Require Import List String Bool.
Import ListNotations.
Open Scope string_scope.

(** * instantiation obligations (re-checked against /repo's current source on every run) *)
(** no method rebinds an attribute of, or edits the pending-hint LIST of, an existing DataFrame *)
Lemma gen_struct_ok : facts_struct_ok gen_facts = true.
Proof. vm_compute. reflexivity. Qed.

(** the ONLY write any public method makes through an existing DataFrame is the last_op stamp that the wrapper puts on
    the receiver when select() without columns returns its receiver: no display-name update on the receiver
    (fixed in /repo), no rewriting of hint objects shared with other DataFrames (copy() copies them; fixed in /repo) *)
Lemma gen_only_last_writes : only_last_writes gen_facts = true.
Proof. vm_compute. reflexivity. Qed.
Lemma gen_copy_is_deep : copy_shares_hints = false.
Proof. reflexivity. Qed.

(** a freshly created DataFrame (last_op = INIT) is never handed to a method body: INIT always wraps *)
Lemma gen_init_wraps : forallb (fun op => wraps op INIT) all_opk = true.
Proof. vm_compute. reflexivity. Qed.

(** GroupedData's wrapper decides exactly like DataFrame's *)
Lemma gen_group_wrapper_same :
  forallb (fun a => forallb (fun b => Bool.eqb (wrap_needed a b) (wrap_needed_group a b) &&
                                      opk_eqb (new_kind a b) (new_kind_group a b)) all_opk) all_opk
  && Bool.eqb init_wraps init_wraps_group = true.
Proof. vm_compute. reflexivity. Qed.

(** laziness: whatever returns a DataFrame / GroupedData never reaches _collect/_execute/_fetchdf/catalog queries;
    the methods that do are the actions and the explicit metadata calls *)
Definition may_execute : list string :=
  ["collect"; "head"; "first"; "show"; "toPandas"; "toArrow"; "count"; "isEmpty"; "approxQuantile"; "corr"; "cov";
   "stat.approxQuantile"; "stat.corr"; "stat.cov"; "explain"; "schema"; "printSchema"].
Lemma gen_only_actions_execute : forallb (fun mi => negb (mi_exec mi) || mem_str (mi_name mi) may_execute) methods = true.
Proof. vm_compute. reflexivity. Qed.
Definition is_transformation (mi : minfo) : bool := match mi_ret mi with RetDF | RetGrouped => true | RetOther => false end.
Lemma gen_transformations_lazy : forallb (fun mi => negb (is_transformation mi) || negb (mi_exec mi)) methods = true.
Proof. vm_compute. reflexivity. Qed.

(** * the property at full strength: every call sequence, every reachable heap, every call of a summarised method,
      every DataFrame alive before the call *)
Definition C04_frame_full : Prop :=
  forall st c st', reachable gen_facts st -> sstep gen_facts st c st' ->
    forall d0, In d0 (snd st) -> value (fst st') d0 = value (fst st) d0.
Definition C04_lazy_full : Prop :=
  forall h c h' mi, step gen_facts h c h' -> find_m gen_facts (c_name c) = Some mi -> is_transformation mi = true ->
    stmts h' = stmts h.
Definition C04_repeat_full : Prop :=
  forall st c st1 st2, reachable gen_facts st -> sstep gen_facts st c st1 -> sstep gen_facts st1 c st2 ->
    forall d0, In d0 (snd st) -> value (fst st1) d0 = value (fst st) d0 /\ value (fst st2) d0 = value (fst st) d0.
Definition C04_full : Prop := C04_frame_full /\ C04_repeat_full /\ C04_lazy_full.

Lemma every_call_value_safe : forall st c st', sstep gen_facts st c st' -> value_safe gen_facts (fst st) c = true.
Proof.
  intros [h live] c [h' live'] [_ [_ [[mi [Hf _]] _]]]. simpl.
  exact (@only_last_value_safe gen_facts h c mi gen_only_last_writes Hf).
Qed.

Theorem C04_holds : C04_full.
Proof.
  split; [|split].
  - intros st c st' Hr Hs. exact (@frame_value gen_facts st c st' gen_struct_ok Hr Hs (every_call_value_safe st c st' Hs)).
  - intros st c st1 st2 Hr H1 H2.
    exact (@repeat_value gen_facts st c st1 st2 gen_struct_ok Hr H1 H2 (every_call_value_safe st c st1 H1) (every_call_value_safe st1 c st2 H2)).
  - intros h c h' mi Hs Hf Ht. apply (lazy_step Hs Hf).
    pose proof gen_transformations_lazy as G. rewrite forallb_forall in G.
    specialize (G mi (find_m_in _ _ Hf)). rewrite Ht in G. simpl in G. apply negb_true_iff in G. exact G.
Qed.
Print Assumptions C04_holds.

(** * non-vacuity: concrete scripts of the executable model (which is an instance of [sstep], Exec.run_sstep) *)
Definition e0 := mkE ["a"; "b"] [] [].
Definition e1 := mkE ["a"; "b"] [(1, 100)] [].
Definition e2 := mkE ["a"; "b"; "c"] [(1, 100); (2, 200)] [1; 2].
Definition m0 : dmap := [("a", "a"); ("b", "b")].
Definition kplain := mkK DNone RIfWrapped false None None false false false false.
Definition ksel (a : list carg) := mkK (DArgs a) RIfWrapped false None None false false false false.
Definition kact := mkK DNone RAlways false None None false false false false.
Definition khint := mkK DNone RIfWrapped false None (Some true) false false false false.
Definition kjoin := mkK DNone RIfWrapped true None None true false false false.
(** df = createDataFrame(..); d1 = df.where(..) *)
Definition script_where : list rstep := [SCreate (mkR e0 m0 100); SCall "where" kplain 0 None (Some (mkR e1 m0 100))].
(** df, o; h = df.hint('broadcast'); j = h.join(o, 'a') *)
Definition script_hint_join : list rstep :=
  [SCreate (mkR e0 m0 100); SCreate (mkR e0 m0 200);
   SCall "hint" khint 0 None (Some (mkR e1 m0 100));
   SCall "join" kjoin 2 (Some 1) (Some (mkR e2 m0 100))].
Definition call_select := SCall "select" (ksel [CCol "A"; CStr "B"]) 1 None (Some (mkR e1 [("a", "A"); ("b", "B")] 100)).
Definition call_alias := SCall "alias" (mkK DNone RIfWrapped false (Some 300) None false false false false) 2 None (Some (mkR e1 m0 300)).
Definition call_collect := SCall "collect" kact 3 None None.

(** the scripts run, the follow-up calls are steps of the model, and no existing DataFrame changes its value
    (d1.select(col('A'),'B') in the WHERE state; h.alias('x') and j.collect() with a pending join hint) *)
Example C04_scripts_run :
  negb (witness_b gen_facts script_where call_select 1) && negb (witness_b gen_facts script_where call_select 0) &&
  negb (witness_b gen_facts script_hint_join call_alias 3) && negb (witness_b gen_facts script_hint_join call_collect 2) &&
  match exec_prog gen_facts (h0, []) (script_hint_join ++ [call_alias; call_collect]) with Some (_, live) => Nat.eqb (List.length live) 5 | None => false end
  = true.
Proof. vm_compute. reflexivity. Qed.

(** * regression witnesses: the repaired defects, on the faithful model.  Each says: IF the regenerated summary has the
      write again, THEN the full statement is false (a reachable state, a call, an existing DataFrame whose value changes). *)
Definition writes_display (name : string) : bool :=
  match find_m gen_facts name with
  | Some mi => existsb (fun w => wt_eqb (gw_t w) WDisplay) (mi_writes mi)
  | None => false
  end.
Definition writes_hintobj (name : string) : bool :=
  match find_m gen_facts name with
  | Some mi => existsb (fun w => wt_eqb (gw_t w) WHintObj) (mi_writes mi)
  | None => false
  end.
Definition refuted_by (name : string) : Prop :=
  exists st c st' d0, reachable gen_facts st /\ sstep gen_facts st c st' /\ c_name c = name /\ In d0 (snd st) /\
                      value (fst st') d0 <> value (fst st) d0.

Ltac refute p last v :=
  let H := fresh "H" in
  intros H; vm_compute in H;
  first [ discriminate H
        | clear H; let l := eval hnf in last in match l with
                   | SCall ?name ?k ?recv ?other ?res =>
                       apply (@witness_refutes gen_facts p name k recv other res v gen_struct_ok);
                       apply witness_b_sound; vm_compute; reflexivity
                   end ].

Theorem C04_regression_select : writes_display "select" = true -> refuted_by "select".
Proof. refute script_where call_select 1. Qed.
Definition call_agg := SCall "agg" (ksel [CAliased "A"]) 1 None (Some (mkR e1 [("a", "A")] 100)).
Theorem C04_regression_agg : writes_display "agg" = true -> refuted_by "agg".
Proof. refute script_where call_agg 1. Qed.
Definition kname (n : list string) := mkK (DNames n) RIfWrapped false None None false false false false.
Definition call_withColumn := SCall "withColumn" (kname ["A"]) 1 None (Some (mkR e1 [("a", "A"); ("b", "b")] 100)).
Theorem C04_regression_withColumn : writes_display "withColumn" = true -> refuted_by "withColumn".
Proof. refute script_where call_withColumn 1. Qed.
Definition call_withColumns := SCall "withColumns" (kname ["Z"; "B"]) 1 None (Some (mkR e1 [("a", "a"); ("b", "B")] 100)).
Theorem C04_regression_withColumns : writes_display "withColumns" = true -> refuted_by "withColumns".
Proof. refute script_where call_withColumns 1. Qed.
Definition call_rename := SCall "withColumnRenamed" (mkK (DRename "b" "A") RIfWrapped false None None false false false false) 1 None
                                (Some (mkR e1 [("a", "A"); ("b", "b")] 100)).
Theorem C04_regression_withColumnRenamed : writes_display "withColumnRenamed" = true -> refuted_by "withColumnRenamed".
Proof. refute script_where call_rename 1. Qed.
Theorem C04_regression_alias : writes_hintobj "alias" = true -> refuted_by "alias".
Proof. refute script_hint_join call_alias 3. Qed.
Theorem C04_regression_collect : writes_hintobj "collect" = true -> refuted_by "collect".
Proof. refute script_hint_join call_collect 2. Qed.
