(** C04 -- property file.  Only: instantiation obligations on the facts regenerated from /repo, the full statement,
    the proved statements (closed by the generic theorems of SF.C04), non-vacuity examples, refutation witnesses
    (conditional on the regenerated summary still containing the write), Print Assumptions. *)
From SF Require Import C04.Heap C04.Exec.
From Gen Require Import C04Facts.
From Coq Require Import List String Bool.
Import ListNotations.
Open Scope string_scope.

(** * instantiation obligations (re-checked against /repo's current source on every run) *)
(** no method rebinds an attribute of, or edits the pending-hint LIST of, an existing DataFrame *)
Lemma gen_struct_ok : facts_struct_ok gen_facts = true.
Proof. vm_compute. reflexivity. Qed.

(** a freshly created DataFrame (last_op = INIT) is never handed to a method body: INIT always wraps *)
Lemma gen_init_wraps : forallb (fun op => wraps op INIT) all_opk = true.
Proof. vm_compute. reflexivity. Qed.

(** GroupedData's wrapper decides exactly like DataFrame's *)
Lemma gen_group_wrapper_same :
  forallb (fun a => forallb (fun b => Bool.eqb (wrap_needed a b) (wrap_needed_group a b) &&
                                      opk_eqb (new_kind a b) (new_kind_group a b)) all_opk) all_opk
  && Bool.eqb init_wraps init_wraps_group = true.
Proof. vm_compute. reflexivity. Qed.

(** the methods with a write that is not into (shared) hint objects: exactly the complement of the frame theorem's
    unconditional domain.  Listed = staged as known findings (or harmless: isEmpty/corr/cov/approxQuantile write an
    empty or invisible update).  A method missing here makes this obligation fail. *)
Definition direct_writer (mi : minfo) : bool := existsb (fun w => negb (shared_t (gw_t w))) (mi_writes mi).
Definition known_writers : list string :=
  ["select"; "agg"; "withColumn"; "withColumns"; "withColumnRenamed";
   "isEmpty"; "approxQuantile"; "corr"; "cov"; "stat.approxQuantile"; "stat.corr"; "stat.cov"].
Lemma gen_complement_pure :
  forallb (fun mi => negb (direct_writer mi) || mem_str (mi_name mi) known_writers) methods = true.
Proof. vm_compute. reflexivity. Qed.

(** every such write goes through the receiver, into its display map or last_op, behind a SELECT-class wrapper *)
Definition select_guarded (w : gwrite) : bool :=
  shared_t (gw_t w) || (match gw_root w with RSelf => true | ROther => false end && existsb (opk_eqb SELECT) (gw_guard w)).
Lemma gen_direct_writes_guarded : forallb (fun mi => forallb select_guarded (mi_writes mi)) methods = true.
Proof. vm_compute. reflexivity. Qed.
Lemma gen_direct_writes_display :
  forallb (fun mi => forallb (fun w => shared_t (gw_t w) || wt_eqb (gw_t w) WDisplay || wt_eqb (gw_t w) WLast) (mi_writes mi)) methods = true.
Proof. vm_compute. reflexivity. Qed.

(** laziness: whatever returns a DataFrame / GroupedData never reaches _collect/_execute/_fetchdf/catalog queries;
    the methods that do are the actions and the explicit metadata calls *)
Definition may_execute : list string :=
  ["collect"; "head"; "first"; "show"; "toPandas"; "toArrow"; "count"; "isEmpty"; "approxQuantile"; "corr"; "cov";
   "stat.approxQuantile"; "stat.corr"; "stat.cov"; "explain"; "schema"; "printSchema"].
Lemma gen_only_actions_execute : forallb (fun mi => negb (mi_exec mi) || mem_str (mi_name mi) may_execute) methods = true.
Proof. vm_compute. reflexivity. Qed.
Definition is_transformation (mi : minfo) : bool := match mi_ret mi with RetDF | RetGrouped => true | RetOther => false end.
Lemma gen_transformations_lazy : forallb (fun mi => negb (is_transformation mi) || negb (mi_exec mi)) methods = true.
Proof. vm_compute. reflexivity. Qed.

(** * the property at full strength *)
Definition C04_frame_full : Prop :=
  forall st c st', reachable gen_facts st -> sstep gen_facts st c st' ->
    forall d0, In d0 (snd st) -> value (fst st') d0 = value (fst st) d0.
Definition C04_lazy_full : Prop :=
  forall h c h' mi, step gen_facts h c h' -> find_m gen_facts (c_name c) = Some mi -> is_transformation mi = true ->
    stmts h' = stmts h.
Definition C04_full : Prop := C04_frame_full /\ C04_lazy_full.

(** * what is proved *)
(** laziness holds in full *)
Theorem C04_lazy_holds : C04_lazy_full.
Proof.
  intros h c h' mi Hs Hf Ht. apply (lazy_step Hs Hf).
  pose proof gen_transformations_lazy as G. rewrite forallb_forall in G.
  specialize (G mi (find_m_in _ _ Hf)). rewrite Ht in G. simpl in G. apply negb_true_iff in G. exact G.
Qed.
Print Assumptions C04_lazy_holds.

(** immutability on the decidable domain [call_safe]: in this state the call's may-write set is empty
    (all call sequences, all heaps reachable from the empty one) *)
Theorem C04_partial :
  forall st c st', reachable gen_facts st -> sstep gen_facts st c st' -> call_safe gen_facts (fst st) c = true ->
    forall d0, In d0 (snd st) -> value (fst st') d0 = value (fst st) d0.
Proof. exact (fun st c st' => @frame gen_facts st c st' gen_struct_ok). Qed.
Print Assumptions C04_partial.

(** readable instances of the domain: (1) every method outside [known_writers], on DataFrames without pending hints *)
Theorem C04_pure_methods :
  forall st c st' mi, reachable gen_facts st -> sstep gen_facts st c st' ->
    find_m gen_facts (c_name c) = Some mi -> mem_str (mi_name mi) known_writers = false ->
    hint_free (fst st) (c_recv c) = true -> (forall o, c_other c = Some o -> hint_free (fst st) o = true) ->
    forall d0, In d0 (snd st) -> value (fst st') d0 = value (fst st) d0.
Proof.
  intros st c st' mi Hr Hs Hf Hk H1 H2. apply C04_partial with c; auto.
  apply shared_only_safe with mi; auto.
  pose proof gen_complement_pure as G. rewrite forallb_forall in G. specialize (G mi (find_m_in _ _ Hf)).
  rewrite Hk in G. rewrite orb_false_r in G. apply negb_true_iff in G. unfold direct_writer in G.
  apply forallb_forall. intros w Hw. destruct (shared_t (gw_t w)) eqn:E; [reflexivity|].
  assert (X : existsb (fun w => negb (shared_t (gw_t w))) (mi_writes mi) = true)
    by (apply existsb_exists; exists w; split; [exact Hw | rewrite E; reflexivity]).
  rewrite X in G. discriminate G.
Qed.
Print Assumptions C04_pure_methods.

(** (2) every method, when the receiver's last operation makes a SELECT-class wrapper wrap (INIT, SELECT, ORDER_BY, LIMIT) *)
Theorem C04_any_method_after_wrap :
  forall st c st' mi, reachable gen_facts st -> sstep gen_facts st c st' ->
    find_m gen_facts (c_name c) = Some mi -> wraps SELECT (last_of (fst st) (c_recv c)) = true ->
    hint_free (fst st) (c_recv c) = true -> (forall o, c_other c = Some o -> hint_free (fst st) o = true) ->
    forall d0, In d0 (snd st) -> value (fst st') d0 = value (fst st) d0.
Proof.
  intros st c st' mi Hr Hs Hf Hw H1 H2. apply C04_partial with c; auto.
  apply guarded_safe with mi SELECT; auto.
  pose proof gen_direct_writes_guarded as G. rewrite forallb_forall in G. exact (G mi (find_m_in _ _ Hf)).
Qed.
Print Assumptions C04_any_method_after_wrap.

(** (3) even in the complement, a call without hint traffic can only change its own RECEIVER *)
Theorem C04_only_receiver :
  forall st c st', reachable gen_facts st -> sstep gen_facts st c st' -> self_only gen_facts (fst st) c = true ->
    forall d0, In d0 (snd st) -> d0 <> c_recv c -> value (fst st') d0 = value (fst st) d0.
Proof. exact (fun st c st' => @frame_receiver_only gen_facts st c st' gen_struct_ok). Qed.
Print Assumptions C04_only_receiver.

(** (4) repeating a call from a safe state: same values, hence same answers *)
Theorem C04_repeat :
  forall st c st1 st2, reachable gen_facts st -> sstep gen_facts st c st1 -> sstep gen_facts st1 c st2 ->
    call_safe gen_facts (fst st) c = true -> call_safe gen_facts (fst st1) c = true ->
    forall d0, In d0 (snd st) -> value (fst st1) d0 = value (fst st) d0 /\ value (fst st2) d0 = value (fst st) d0.
Proof. exact (fun st c st1 st2 => @repeat_call gen_facts st c st1 st2 gen_struct_ok). Qed.
Print Assumptions C04_repeat.

(** * non-vacuity: concrete scripts of the executable model *)
Definition e0 := mkE ["a"; "b"] [] [].
Definition e1 := mkE ["a"; "b"] [(1, 100)] [].
Definition e2 := mkE ["a"; "b"; "c"] [(1, 100); (2, 200)] [1; 2].
Definition m0 : dmap := [("a", "a"); ("b", "b")].
Definition kplain := mkK DNone RIfWrapped false None None false false false.
Definition ksel (a : list carg) := mkK (DArgs a) RIfWrapped false None None false false false.
Definition kact := mkK DNone RAlways false None None false false false.
(** df = createDataFrame(..); d1 = df.where(..) *)
Definition script_where : list rstep := [SCreate (mkR e0 m0 100); SCall "where" kplain 0 None (Some (mkR e1 m0 100))].

Example C04_domain_nonempty :
  match exec_prog gen_facts (h0, []) script_where with
  | Some (h, live) =>
      (* where(), collect() on the WHERE-state DataFrame and select() on the fresh one are in the domain *)
      call_safe gen_facts h (mkC "where" 12 None) && call_safe gen_facts h (mkC "collect" 12 None) &&
      call_safe gen_facts h (mkC "join" 12 (Some 6)) && call_safe gen_facts h (mkC "select" 6 None)
      && negb (call_safe gen_facts h (mkC "select" 12 None))
  | None => false
  end = true.
Proof. vm_compute. reflexivity. Qed.

(** * refutation of the full statement on the faithful model (each is a genuine defect, replayed by T3) *)
Definition writes_display (name : string) : bool :=
  match find_m gen_facts name with
  | Some mi => existsb (fun w => wt_eqb (gw_t w) WDisplay) (mi_writes mi)
  | None => false
  end.
Definition writes_hintobj (name : string) : bool :=
  match find_m gen_facts name with
  | Some mi => existsb (fun w => wt_eqb (gw_t w) WHintObj) (mi_writes mi)
  | None => false
  end.
Definition refuted_by (name : string) : Prop :=
  exists st c st' d0, reachable gen_facts st /\ sstep gen_facts st c st' /\ c_name c = name /\ In d0 (snd st) /\
                      value (fst st') d0 <> value (fst st) d0.

Ltac refute p last v :=
  let H := fresh "H" in
  intros H; vm_compute in H;
  first [ discriminate H
        | clear H; let l := eval hnf in last in match l with
                   | SCall ?name ?k ?recv ?other ?res =>
                       apply (@witness_refutes gen_facts p name k recv other res v gen_struct_ok);
                       apply witness_b_sound; vm_compute; reflexivity
                   end ].

(** d1 = df.where(..); d1.select(col('A'), 'B') changes d1's display names (d1.columns becomes ['A','B']) *)
Definition call_select := SCall "select" (ksel [CCol "A"; CStr "B"]) 1 None (Some (mkR e1 [("a", "A"); ("b", "B")] 100)).
Theorem C04_refuted_select : writes_display "select" = true -> refuted_by "select".
Proof. refute script_where call_select 1. Qed.
Print Assumptions C04_refuted_select.

Definition call_agg := SCall "agg" (ksel [CAliased "A"]) 1 None (Some (mkR e1 [("a", "A")] 100)).
Theorem C04_refuted_agg : writes_display "agg" = true -> refuted_by "agg".
Proof. refute script_where call_agg 1. Qed.

Definition kname (n : list string) := mkK (DNames n) RIfWrapped false None None false false false.
Definition call_withColumn := SCall "withColumn" (kname ["A"]) 1 None (Some (mkR e1 [("a", "A"); ("b", "b")] 100)).
Theorem C04_refuted_withColumn : writes_display "withColumn" = true -> refuted_by "withColumn".
Proof. refute script_where call_withColumn 1. Qed.

Definition call_withColumns := SCall "withColumns" (kname ["Z"; "B"]) 1 None (Some (mkR e1 [("a", "a"); ("b", "B")] 100)).
Theorem C04_refuted_withColumns : writes_display "withColumns" = true -> refuted_by "withColumns".
Proof. refute script_where call_withColumns 1. Qed.

Definition call_rename := SCall "withColumnRenamed" (mkK (DRename "b" "A") RIfWrapped false None None false false false) 1 None
                                (Some (mkR e1 [("a", "A"); ("b", "b")] 100)).
Theorem C04_refuted_withColumnRenamed : writes_display "withColumnRenamed" = true -> refuted_by "withColumnRenamed".
Proof. refute script_where call_rename 1. Qed.

(** h = df.hint('broadcast'); j = h.join(o, 'a'); h.alias('x') rewrites the hint object that j shares with h *)
Definition khint := mkK DNone RIfWrapped false None (Some true) false false false.
Definition kjoin := mkK DNone RIfWrapped true None None true false false.
Definition script_hint_join : list rstep :=
  [SCreate (mkR e0 m0 100); SCreate (mkR e0 m0 200);
   SCall "hint" khint 0 None (Some (mkR e1 m0 100));
   SCall "join" kjoin 2 (Some 1) (Some (mkR e2 m0 100))].
Definition call_alias := SCall "alias" (mkK DNone RIfWrapped false (Some 300) None false false false) 2 None (Some (mkR e1 m0 300)).
Theorem C04_refuted_alias : writes_hintobj "alias" = true -> refuted_by "alias".
Proof. refute script_hint_join call_alias 3. Qed.
Print Assumptions C04_refuted_alias.

(** ... and an ACTION on j (collect/sql) resolves the shared hint in place: h (and every relative) sees another hint *)
Definition call_collect := SCall "collect" kact 3 None None.
Theorem C04_refuted_collect : writes_hintobj "collect" = true -> refuted_by "collect".
Proof. refute script_hint_join call_collect 2. Qed.
Print Assumptions C04_refuted_collect.
