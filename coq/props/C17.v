(** C17 -- property file (function values on DuckDB).  Contains only: the full statement, the instantiation of the
    emulation theorems on the facts regenerated from /repo (Gen.C17Facts), the per-emulation verdicts (exact under the
    repaired shape / the characterised defect under the old shape -- whichever the source has now), the refutation that
    remains, non-vacuity examples, Print Assumptions. *)
From Coq Require Import ZArith List Bool Lia Permutation Sorted.
From Coq Require Import String.
From SF Require Import C17.Emul C17.Emul2 C17.EmulCheck.
From Gen Require Import C17Facts.
Import ListNotations.
Open Scope Z_scope.

(** The property at full strength, as far as this development can state it: for EVERY modelled call and EVERY
    input, the value DuckDB computes for the expression sqlframe builds is the value Spark computes.  (The ~190
    functions for which sqlframe only names a sqlglot node have no sqlframe-owned semantics to state; they are
    compared against PySpark recordings by the correspondence only.)  It is FALSE of the faithful model: see
    C17_refuted_getItem_column_key. *)
Definition C17_full : Prop := forall i : ein, rv_eqb (duck_of c17_facts i) (spark_of i) = true.

(** What is proved under EITHER shape of each emulation (old hand-made guard or repaired one): one theorem per
    emulation, each on its stated domain, each instantiated on the generated shape. *)
Definition C17_partial_statement : Prop :=
  (* element_at / try_element_at: literal or plain-column index, index <> 0, every list *)
  (forall (l : list Z) e, simple e = true -> ieval e <> 0 ->
     duck_element_at c17_element_at l e = spark_element_at l (ieval e)) /\
  (forall (l : list Z) e, simple e = true -> ieval e <> 0 ->
     duck_element_at c17_try_element_at l e = spark_element_at l (ieval e)) /\
  (* Column.getItem with a literal key >= 0 *)
  (forall (l : list Z) n, 0 <= n -> duck_getItem c17_getitem c17_element_at l (ILit n) = spark_getItem l n) /\
  (* array_min / array_max: any sort primitive that sorts *)
  (forall sort, (forall l, Permutation l (sort l)) -> (forall l, Sorted Z.le (sort l)) -> forall l, l <> [] ->
     (exists m, duck_array_extreme sort c17_element_at c17_array_min_idx l = Some m /\ In m l /\ Forall (fun y => m <= y) l) /\
     (exists m, duck_array_extreme sort c17_element_at c17_array_max_idx l = Some m /\ In m l /\ Forall (fun y => y <= m) l)) /\
  (* array_position on a non-NULL array *)
  (forall l v, duck_array_position c17_pos (Some l) v = spark_array_position (Some l) v) /\
  (* factorial on 0..20 (outside, Spark returns NULL) *)
  (forall n, 0 <= n <= 20 -> duck_factorial c17_fact n = spark_factorial n) /\
  (* rint away from ties *)
  (forall n d, 0 < d -> is_tie n d = false -> duck_rint c17_rint n d = spark_rint n d) /\
  (* dayofweek *)
  (forall day, duck_dayofweek c17_dow day = spark_dayofweek day) /\
  (* overlay, every string, 1 <= pos, 0 <= len *)
  (forall (s r : list Z) pos len, 1 <= pos -> 0 <= len -> duck_overlay c17_overlay s r pos len = spark_overlay s r pos len) /\
  (* arrays_overlap / array_union for any intersection / duplicate-removal primitive with the stated law *)
  (forall inter, (forall a b x, In x (inter a b) <-> In x a /\ In x b) ->
     forall a b, duck_arrays_overlap inter c17_overlap a b = spark_arrays_overlap a b) /\
  (forall dist, (forall l, NoDup (dist l)) -> (forall l x, In x (dist l) <-> In x l) ->
     forall a b, Permutation (duck_array_union dist c17_union a b) (spark_array_union a b)) /\
  (* array_remove on arrays without NULL elements *)
  (forall l v, no_nulls l = true -> duck_array_remove c17_remove l v = spark_array_remove l v) /\
  (* nanvl with a non-NULL first argument *)
  (forall a b, a <> None -> duck_nanvl c17_nanvl a b = spark_nanvl a b) /\
  (* sequence with an explicit step, or ascending bounds *)
  (forall a b st, (st <> None \/ a <= b) -> duck_sequence c17_seq_default a b st = spark_sequence a b st) /\
  (* date_add / date_sub with a Python int of either sign *)
  (forall d n, dshift c17_date_add c17_date_sub 2 true d n = Some (d + n) /\
               dshift c17_date_add c17_date_sub 2 false d n = Some (d - n)) /\
  (* levenshtein with a threshold, non-NULL distance *)
  (forall d thr, duck_levenshtein c17_lev (Some d) thr = spark_levenshtein (Some d) thr) /\
  (* unix_millis on whole seconds *)
  (forall us, us mod 1000000 = 0 -> duck_unix_millis c17_unix_millis us = spark_unix_millis us).

Theorem C17_partial : C17_partial_statement.
Proof.
  unfold C17_partial_statement.
  split; [exact (element_at_ok c17_element_at eq_refl)|].
  split; [exact (element_at_ok c17_try_element_at eq_refl)|].
  split; [exact (getItem_ok c17_getitem c17_element_at eq_refl)|].
  split; [intros sort Hp Hs l Hl; split;
          [exact (array_min_ok sort Hp Hs c17_element_at eq_refl l Hl)
          |exact (array_max_ok sort Hp Hs c17_element_at eq_refl l Hl)]|].
  split; [exact (array_position_ok c17_pos eq_refl)|].
  split; [exact (factorial_ok c17_fact eq_refl)|].
  split; [exact (rint_ok c17_rint eq_refl)|].
  split; [exact (dayofweek_ok c17_dow eq_refl)|].
  split; [exact (fun s r => overlay_ok c17_overlay eq_refl s r)|].
  split; [exact (fun inter H => arrays_overlap_ok inter H c17_overlap eq_refl)|].
  split; [exact (fun dist H1 H2 => array_union_ok dist H1 H2 c17_union eq_refl)|].
  split; [exact (array_remove_ok c17_remove eq_refl)|].
  split; [exact (nanvl_ok c17_nanvl eq_refl)|].
  split; [exact (sequence_ok c17_seq_default eq_refl)|].
  split; [exact (date_add_sub_ok c17_date_add c17_date_sub eq_refl eq_refl)|].
  split; [exact (levenshtein_ok c17_lev eq_refl)|].
  exact (unix_millis_ok c17_unix_millis eq_refl).
Qed.
Print Assumptions C17_partial.

(** the shapes the theorems need are exactly the generated ones (the min/max indices are 1 and -1) *)
Lemma gen_minmax_indices : c17_array_min_idx = 1 /\ c17_array_max_idx = -1.
Proof. split; reflexivity. Qed.

(** the domains are inhabited by non-trivial inputs (evaluated through the executable models) *)
Example C17_domains_nonempty :
  forallb (fun i => in_dom c17_facts i && rv_eqb (duck_of c17_facts i) (spark_of i))
    [IElementAt [10; 20; 30] (ILit (-2)); ITryElementAt [10; 20; 30] (ICol 3); IGetItem [10; 20; 30] (ILit 2);
     IArrayMin [3; 1; 2]; IArrayMax [3; 1; 2]; IArrayPosition (Some [5; 5; 4; 1]) 4; IFactorial 20; IRint (-3) 4;
     IDayOfWeek 19753; IOverlay [104; 101; 108; 108; 111] [88; 89] 2 3; IArraysOverlap [3; 1; 2] [2; 9];
     IArrayUnion [5; 5; 4; 1] [1; 5]; IArrayRemove [Some 5; Some 5; Some 4] 5; INanvl (Some FNaN) (Some (FFin 3));
     ISequence 1 20 (Some 3); IDateAdd 19753 (-5); IDateSub 19753 (-5); ILevenshtein (Some 9) 5;
     IUnixMillis 1677974400000000] = true.
Proof. vm_compute. reflexivity. Qed.

(** ---- verdicts: for each emulation that had (or has) a defect, the statement follows the generated shape:
         exact on the whole domain when the source has the repaired shape, the characterised defect otherwise.
         The last alternative of each [first] closes the branch that the current facts make contradictory. ---- *)
Ltac absurd_branch E := exfalso; vm_compute in E; discriminate.

(** slice: LIST_SLICE's end is inclusive *)
Definition C17_verdict_slice_statement : Prop :=
  if slice_cfg_ok c17_slice
  then forall (l : list Z) s n, 1 <= s -> 0 <= n -> duck_slice c17_slice l s n = spark_slice l s n
  else (forall (l : list Z) s n, 1 <= s -> 0 <= n -> duck_slice c17_slice l s n = spark_slice l s (n + 1)) /\
       duck_slice c17_slice [3; 1; 2] 1 2 <> spark_slice [3; 1; 2] 1 2.
Theorem C17_verdict_slice : C17_verdict_slice_statement.
Proof.
  unfold C17_verdict_slice_statement. destruct (slice_cfg_ok c17_slice) eqn:E.
  - exact (slice_ok c17_slice E).
  - first [ split; [exact (slice_one_too_many c17_slice eq_refl) | vm_compute; discriminate] | absurd_branch E ].
Qed.
Print Assumptions C17_verdict_slice.

(** element_at / try_element_at: every index expression when the Bracket carries offset = 1; otherwise an index that
    contains a literal without being one, or whose integer type sqlglot can see, is read off by one *)
Definition C17_verdict_element_at_statement (c : shift_cfg) : Prop :=
  if element_at_cfg_exact c
  then forall (l : list Z) e, ieval e <> 0 -> duck_element_at c l e = spark_element_at l (ieval e)
  else duck_element_at c [3; 1; 2] (ITyped 2) <> spark_element_at [3; 1; 2] 2.
Theorem C17_verdict_element_at : C17_verdict_element_at_statement c17_element_at.
Proof.
  unfold C17_verdict_element_at_statement. destruct (element_at_cfg_exact c17_element_at) eqn:E.
  - exact (element_at_exact c17_element_at E).
  - first [ vm_compute; discriminate | absurd_branch E ].
Qed.
Theorem C17_verdict_try_element_at : C17_verdict_element_at_statement c17_try_element_at.
Proof.
  unfold C17_verdict_element_at_statement. destruct (element_at_cfg_exact c17_try_element_at) eqn:E.
  - exact (element_at_exact c17_try_element_at E).
  - first [ vm_compute; discriminate | absurd_branch E ].
Qed.
Print Assumptions C17_verdict_element_at.

(** rint: ROUND_EVEN is exact on every rational; ROUND differs on ties *)
Definition C17_verdict_rint_statement : Prop :=
  if rint_cfg_exact c17_rint
  then forall n d, duck_rint c17_rint n d = spark_rint n d
  else duck_rint c17_rint 5 2 = Some 3 /\ spark_rint 5 2 = Some 2 /\ duck_rint c17_rint 1 2 = Some 1 /\ spark_rint 1 2 = Some 0.
Theorem C17_verdict_rint : C17_verdict_rint_statement.
Proof.
  unfold C17_verdict_rint_statement. destruct (rint_cfg_exact c17_rint) eqn:E.
  - exact (rint_exact c17_rint E).
  - first [ exact (rint_tie_differs c17_rint eq_refl eq_refl) | absurd_branch E ].
Qed.

(** sequence: the sign-dependent default step is exact; a constant default 1 yields [] for descending bounds *)
Definition C17_verdict_sequence_statement : Prop :=
  if seq_cfg_exact c17_seq_default
  then forall a b st, duck_sequence c17_seq_default a b st = spark_sequence a b st
  else duck_sequence c17_seq_default 5 1 None = [] /\ spark_sequence 5 1 None = [5; 4; 3; 2; 1].
Theorem C17_verdict_sequence : C17_verdict_sequence_statement.
Proof.
  unfold C17_verdict_sequence_statement. destruct (seq_cfg_exact c17_seq_default) eqn:E.
  - exact (sequence_exact c17_seq_default E).
  - first [ split; vm_compute; reflexivity | absurd_branch E ].
Qed.

(** unix_millis: EPOCH_MS is exact from the epoch on (and on whole milliseconds before it); seconds * 1000 drops
    the fraction *)
Definition C17_verdict_unix_millis_statement : Prop :=
  if millis_cfg_exact c17_unix_millis
  then forall us, (0 <= us \/ us mod 1000 = 0) -> duck_unix_millis c17_unix_millis us = spark_unix_millis us
  else duck_unix_millis c17_unix_millis 1706708710123456 = 1706708710000 /\ spark_unix_millis 1706708710123456 = 1706708710123.
Theorem C17_verdict_unix_millis : C17_verdict_unix_millis_statement.
Proof.
  unfold C17_verdict_unix_millis_statement. destruct (millis_cfg_exact c17_unix_millis) eqn:E.
  - exact (unix_millis_exact c17_unix_millis E).
  - first [ split; vm_compute; reflexivity | absurd_branch E ].
Qed.

(** NULL inputs: with the guards the emulations return NULL where Spark does; without them they return 0 / b / -1 *)
Definition C17_verdict_null_guards_statement : Prop :=
  (if pos_cfg_exact c17_pos
   then forall l v, duck_array_position c17_pos l v = spark_array_position l v
   else forall v, duck_array_position c17_pos None v = Some 0 /\ spark_array_position None v = None) /\
  (if nanvl_cfg_exact c17_nanvl
   then forall a b, duck_nanvl c17_nanvl a b = spark_nanvl a b
   else duck_nanvl c17_nanvl None (Some (FFin 1)) = Some (FFin 1) /\ spark_nanvl None (Some (FFin 1)) = None) /\
  (if lev_cfg_exact c17_lev
   then forall dist thr, duck_levenshtein c17_lev dist thr = spark_levenshtein dist thr
   else forall thr, duck_levenshtein c17_lev None thr = Some (-1) /\ spark_levenshtein None thr = None).
Theorem C17_verdict_null_guards : C17_verdict_null_guards_statement.
Proof.
  unfold C17_verdict_null_guards_statement. split; [|split].
  - destruct (pos_cfg_exact c17_pos) eqn:E.
    + exact (array_position_exact c17_pos E).
    + first [ exact (array_position_null_array c17_pos eq_refl eq_refl) | absurd_branch E ].
  - destruct (nanvl_cfg_exact c17_nanvl) eqn:E.
    + exact (nanvl_exact c17_nanvl E).
    + first [ exact (nanvl_null_first c17_nanvl eq_refl eq_refl eq_refl) | absurd_branch E ].
  - destruct (lev_cfg_exact c17_lev) eqn:E.
    + exact (levenshtein_exact c17_lev E).
    + first [ exact (levenshtein_null c17_lev eq_refl eq_refl) | absurd_branch E ].
Qed.
Print Assumptions C17_verdict_null_guards.

(** slice with a start of either sign: exact for every start <> 0 once the first index is re-based; otherwise a
    negative start before the first element is clamped by LIST_SLICE *)
Definition C17_verdict_slice_start_statement : Prop :=
  if slice_rebase_exact c17_slice_rebase && slice_cfg_ok c17_slice
  then forall (l : list Z) s n, s <> 0 -> 0 <= n -> duck_slice2 c17_slice_rebase c17_slice l s n = spark_slice_gen l s n
  else duck_slice2 c17_slice_rebase c17_slice [10] (-2) 2 <> spark_slice_gen [10] (-2) 2.
Theorem C17_verdict_slice_start : C17_verdict_slice_start_statement.
Proof.
  unfold C17_verdict_slice_start_statement. destruct (slice_rebase_exact c17_slice_rebase && slice_cfg_ok c17_slice) eqn:E.
  - apply andb_prop in E as [E1 E2]. exact (slice_exact c17_slice_rebase c17_slice E1 E2).
  - first [ vm_compute; discriminate | absurd_branch E ].
Qed.

(** factorial: NULL outside 0..20 with the range guard; a HUGEINT beyond 20 without it *)
Definition C17_verdict_factorial_statement : Prop :=
  if fact_guard_exact c17_fact_guard
  then forall n, duck_factorial2 c17_fact_guard c17_fact n = spark_factorial n
  else duck_factorial2 c17_fact_guard c17_fact 21 = Some 51090942171709440000 /\ spark_factorial 21 = None.
Theorem C17_verdict_factorial : C17_verdict_factorial_statement.
Proof.
  unfold C17_verdict_factorial_statement. destruct (fact_guard_exact c17_fact_guard) eqn:E.
  - exact (factorial_exact c17_fact_guard c17_fact E eq_refl).
  - first [ exact (factorial_unguarded_beyond_20 c17_fact eq_refl) | absurd_branch E ].
Qed.

(** NULL arrays / strings: array_append, array_union, overlay, concat *)
Definition C17_verdict_null_inputs_statement : Prop :=
  (if c17_append_guard
   then forall l v, duck_array_append c17_append_guard l v = spark_array_append l v
   else forall v, duck_array_append c17_append_guard None v = Some [v] /\ spark_array_append None v = None) /\
  (if c17_union_guard
   then forall dist, (forall l, NoDup (dist l)) -> (forall l x, In x (dist l) <-> In x l) ->
        forall a b, opt_perm (duck_array_union2 dist c17_union_guard c17_union a b) (spark_array_union2 a b)
   else duck_array_union2 dist_nodup c17_union_guard c17_union None (Some [1]) = Some [1] /\ spark_array_union2 None (Some [1]) = None) /\
  (match c17_overlay_glue with
   | GluePipes => forall s r pos len, 1 <= pos -> 0 <= len ->
                  duck_overlay2 c17_overlay_glue c17_overlay s r pos len = spark_overlay2 s r pos len
   | GlueConcat => duck_overlay2 c17_overlay_glue c17_overlay None None 2 3 = Some [] /\ spark_overlay2 None None 2 3 = None
   end) /\
  (match c17_concat_glue with
   | GluePipes => forall parts, duck_glue c17_concat_glue parts = spark_concat parts
   | GlueConcat => duck_glue c17_concat_glue [Some [104]; None] = Some [104] /\ spark_concat [Some [104]; None] = None
   end).
Theorem C17_verdict_null_inputs : C17_verdict_null_inputs_statement.
Proof.
  unfold C17_verdict_null_inputs_statement. split; [|split; [|split]].
  - destruct c17_append_guard eqn:E.
    + exact array_append_exact.
    + exact array_append_unguarded_null.
  - destruct c17_union_guard eqn:E.
    + exact (fun dist H1 H2 => array_union_exact dist H1 H2 c17_union eq_refl).
    + first [ split; vm_compute; reflexivity | absurd_branch E ].
  - destruct c17_overlay_glue eqn:E.
    + first [ split; vm_compute; reflexivity | discriminate E ].
    + exact (overlay_exact c17_overlay eq_refl).
  - destruct c17_concat_glue eqn:E.
    + exact concat_function_skips_null.
    + exact concat_exact.
Qed.
Print Assumptions C17_verdict_null_inputs.

(** left / right: '' for a negative length once the length is floored at 0 *)
Definition C17_verdict_left_right_statement : Prop :=
  if floor_exact c17_left_floor && floor_exact c17_right_floor
  then forall (s : list Z) n, duck_left c17_left_floor s n = spark_left s n /\ duck_right c17_right_floor s n = spark_right s n
  else (forall (s : list Z) n, 0 <= n -> duck_left None s n = spark_left s n /\ duck_right None s n = spark_right s n) /\
       duck_left c17_left_floor [1; 2; 3] (-1) <> spark_left [1; 2; 3] (-1).
Theorem C17_verdict_left_right : C17_verdict_left_right_statement.
Proof.
  unfold C17_verdict_left_right_statement. destruct (floor_exact c17_left_floor && floor_exact c17_right_floor) eqn:E.
  - apply andb_prop in E as [E1 E2]. intros s n. split.
    + exact (proj1 (left_right_exact c17_left_floor E1 s n)).
    + exact (proj2 (left_right_exact c17_right_floor E2 s n)).
  - first [ split; [exact (fun s n H => left_right_nonnegative s n H) | vm_compute; discriminate] | absurd_branch E ].
Qed.

(** substr: position 0 is position 1 once it is re-mapped; without the re-mapping only positions >= 1 are right *)
Definition C17_verdict_substr_statement : Prop :=
  if remap_exact c17_substr_remap
  then forall (s : list Z) p n, 0 <= p -> 0 <= n -> duck_substr c17_substr_remap s p n = spark_substr s p n
  else (forall (s : list Z) p n, 1 <= p -> 0 <= n -> duck_substr None s p n = spark_substr s p n) /\
       duck_substr c17_substr_remap [104; 101; 108] 0 2 <> spark_substr [104; 101; 108] 0 2.
Theorem C17_verdict_substr : C17_verdict_substr_statement.
Proof.
  unfold C17_verdict_substr_statement. destruct (remap_exact c17_substr_remap) eqn:E.
  - exact (substr_exact c17_substr_remap E).
  - first [ split; [exact (fun s p n => substr_positive s p n) | vm_compute; discriminate] | absurd_branch E ].
Qed.

(** soundex (the Python UDF registered as SOUNDEX): with the standard table, the H / W rule and the early return for a
    first character that is not a letter it is Spark's UTF8String.soundex on EVERY string; without the early return only
    on strings that start with a letter; without the H / W rule Ashcraft is coded A226 *)
Definition C17_verdict_soundex_statement : Prop :=
  if soundex_cfg_exact c17_soundex
  then forall s, duck_soundex c17_soundex s = spark_soundex s
  else if soundex_cfg_ok c17_soundex
       then (forall s, starts_with_letter s = true -> duck_soundex c17_soundex s = spark_soundex s) /\
            duck_soundex c17_soundex [49; 97; 98] <> spark_soundex [49; 97; 98]
       else duck_soundex c17_soundex [65; 115; 104; 99; 114; 97; 102; 116] <> spark_soundex [65; 115; 104; 99; 114; 97; 102; 116].
Theorem C17_verdict_soundex : C17_verdict_soundex_statement.
Proof.
  unfold C17_verdict_soundex_statement. destruct (soundex_cfg_exact c17_soundex) eqn:E.
  - exact (soundex_exact c17_soundex E).
  - destruct (soundex_cfg_ok c17_soundex) eqn:E2.
    + first [ split; [exact (soundex_ok c17_soundex E2) | vm_compute; discriminate] | absurd_branch E ].
    + first [ vm_compute; discriminate | absurd_branch E2 ].
Qed.
Print Assumptions C17_verdict_soundex.

(** trunc / date_trunc: every unit spelling Spark accepts reaches DuckDB in a spelling it reads as the same unit *)
Definition C17_verdict_trunc_units_statement : Prop :=
  if units_table_ok c17_trunc_units
  then forall s, In s spark_spellings -> duck_unit (lookup c17_trunc_units s) = spark_unit s
  else duck_unit (lookup c17_trunc_units "yyyy") = None /\ spark_unit "yyyy" = Some UYear.
Theorem C17_verdict_trunc_units : C17_verdict_trunc_units_statement.
Proof.
  unfold C17_verdict_trunc_units_statement. destruct (units_table_ok c17_trunc_units) eqn:E.
  - exact (trunc_units_exact c17_trunc_units E).
  - first [ split; vm_compute; reflexivity | absurd_branch E ].
Qed.
Print Assumptions C17_verdict_trunc_units.

(** array_position rendered for a Spark / Databricks session: the engine's own ARRAY_POSITION is NULL for a NULL array
    (the primitive of the model), so the COALESCE(.., 0) needs the IS NOT NULL guard there as well *)
Definition C17_verdict_array_position_spark_session_statement : Prop :=
  if pos_cfg_exact c17_pos_spark && pos_cfg_exact c17_pos_databricks
  then forall l v, duck_array_position c17_pos_spark l v = spark_array_position l v /\
                   duck_array_position c17_pos_databricks l v = spark_array_position l v
  else exists c, (c = c17_pos_spark \/ c = c17_pos_databricks) /\ duck_array_position c None 5 <> spark_array_position None 5.
Theorem C17_verdict_array_position_spark_session : C17_verdict_array_position_spark_session_statement.
Proof.
  unfold C17_verdict_array_position_spark_session_statement.
  destruct (pos_cfg_exact c17_pos_spark && pos_cfg_exact c17_pos_databricks) eqn:E.
  - apply andb_prop in E as [E1 E2]. intros l v. split; [exact (array_position_exact _ E1 l v) | exact (array_position_exact _ E2 l v)].
  - first [ exists c17_pos_spark; split; [left; reflexivity | vm_compute; discriminate]
          | exists c17_pos_databricks; split; [right; reflexivity | vm_compute; discriminate]
          | absurd_branch E ].
Qed.

(** which branch each verdict took on this run (read by the check into the evidence) *)
Definition C17_exact_flags : list bool :=
  [slice_cfg_ok c17_slice; element_at_cfg_exact c17_element_at; element_at_cfg_exact c17_try_element_at;
   rint_cfg_exact c17_rint; seq_cfg_exact c17_seq_default; millis_cfg_exact c17_unix_millis;
   pos_cfg_exact c17_pos; nanvl_cfg_exact c17_nanvl; lev_cfg_exact c17_lev].

(** ---- the refutation that remains: Column.getItem with a column key is read 1-based (0-based in Spark) ---- *)
Theorem C17_refuted_getItem_column_key :
  duck_getItem c17_getitem c17_element_at [3; 1; 2] (ICol 2) = Some 1 /\ spark_getItem [3; 1; 2] 2 = Some 2.
Proof. split; reflexivity. Qed.

(** hence the full statement is false of the faithful model *)
Theorem C17_full_is_false : ~ C17_full.
Proof. intro H. specialize (H (IGetItem [3; 1; 2] (ICol 2))). vm_compute in H. discriminate. Qed.
Print Assumptions C17_full_is_false.
