(** C06 -- property file (grouping and aggregation).  Contains only: instantiation obligations on the facts
    regenerated from /repo, the full statement, the proved statements (closed by [exact]), non-vacuity examples,
    refutation witnesses and Print Assumptions. *)
From Coq Require Import Permutation.
From SF Require Import Model.Chain Model.ChainProof C06.Agg C06.AggChain C06.AggNames C06.AggCheck.
From Gen Require Import C01Facts C06Facts.
Open Scope Z_scope.

(** * instantiation obligations (re-checked against /repo's current source on every run) *)
Lemma gen_cfg_ok : cfg_ok gen_cfg = true.
Proof. vm_compute. reflexivity. Qed.
Lemma gen_limit_ok : limit_ok gen_cfg.
Proof. intros a b Ha Hb. unfold gen_cfg, C01Facts.limit_merge; cbn [Chain.limit_merge]. lia. Qed.
(** the cfg built from group_operation's wrapper predicate satisfies C01's side condition as well *)
Lemma gen_group_cfg_ok : cfg_ok group_cfg = true.
Proof. vm_compute. reflexivity. Qed.
Lemma gen_new_kind_group_is_nk :
  forallb (fun o => forallb (fun l => opk_eqb (new_kind_group o l) (nk o l)) all_opk) all_opk = true.
Proof. vm_compute. reflexivity. Qed.
(** every way into GroupedData.agg (groupBy, cube, DataFrame.agg) reaches the body with an open block that is a bare
    filter -- frozen by one of the wrappers or claimed so by the last-operation tag -- and tags the result >= SELECT *)
Lemma gen_gcfg_ok : gcfg_ok gen_cfg gen_gcfg = true.
Proof. vm_compute. reflexivity. Qed.
Lemma gen_append_false : agg_select_append = false.
Proof. reflexivity. Qed.
Lemma gen_keys_first : agg_select_keys_first = true.
Proof. reflexivity. Qed.
Lemma gen_group_unaliased : group_uses_unaliased = true /\ sets_use_unaliased = true.
Proof. split; reflexivity. Qed.
Lemma gen_dfagg : dfagg_is_groupby_agg = true.
Proof. reflexivity. Qed.
Lemma gen_ncfg_ok : ncfg_ok gen_ncfg = true.
Proof. vm_compute. reflexivity. Qed.
(** the naming f-string is PySpark's fn(col), with "*" shown as 1; 'mean' is canonicalised to 'avg' first;
    functions.py maps the six names to the expected sqlglot aggregate classes and nothing else relevant *)
Lemma gen_fmt : forall f c, n_fmt gen_ncfg f c = fmt_arg f c.
Proof. intros f c. reflexivity. Qed.
Lemma gen_canon : forall f, n_canon gen_ncfg f = canon_ref f.
Proof. intro f. reflexivity. Qed.
Lemma gen_fn_class : forall f, n_fn_class gen_ncfg f = ref_class f.
Proof. intro f. reflexivity. Qed.
(** the GROUPING SETS block carries HAVING COUNT( * ) > 0 (repair of the cube-on-empty-input defect) *)
Lemma gen_cube_having : g_cube_having gen_gcfg = true.
Proof. reflexivity. Qed.
(** grouping_id()'s argument list is overwritten with this cube's keys whatever it held before: the Column object is the
    user's and is mutated in place, so anything weaker would make the result depend on earlier agg calls *)
Lemma gen_gid_guard : forall old_empty, gid_guard true old_empty = true /\ gid_guard false old_empty = false.
Proof. intros [|]; split; reflexivity. Qed.
Lemma gen_lowers : fmt_lowers_fn = true.
Proof. reflexivity. Qed.
(** sqlframe's cube loop visits every subset size 0..n exactly once *)
Lemma gen_cube_idx : forall n, Permutation (cube_idx n) (seq 0 (S n)).
Proof.
  intro n. unfold cube_idx. rewrite ?Nat.add_1_r.
  first [ reflexivity | symmetry; apply Permutation_rev ].
Qed.

(** * the property at full strength *)
Definition C06_full : Prop :=
  (* every program of C01 operations and aggregation calls, every input frame *)
  (forall xops input, wf_frame input -> NoDup (cols input) ->
     eval_x (xcompile gen_cfg gen_gcfg xops (init_x (cols input))) input = xspec_run xops input)
  (* cube after any DataFrame state, every input incl. the empty one *)
  /\ (forall d ics input keys aggs, cols input = ics -> wf_frame input -> InvR gen_cfg d ics ->
        let out := eval_stages (cube_stage gen_cfg gen_gcfg cube_idx d keys aggs) input in
        cols out = cols (spec_cube keys aggs (eval_df d input))
        /\ Permutation (rows out) (rows (spec_cube keys aggs (eval_df d input))))
  (* shortcuts, count() and the dict form aggregate and name as PySpark does *)
  (* (PySpark itself rejects sum("*") etc., so "*" is not a column a shortcut can be asked about) *)
  /\ (forall m col, String.eqb col "*" = false -> short_item gen_ncfg m col = Some (spark_short m col))
  /\ count_item gen_ncfg = spark_count
  /\ (forall col fn, dict_item gen_ncfg col fn = spark_dict col fn).

(** * what is proved *)
(** (1) programs: domain [xops_ok] = C01's [op_ok] for the plain operations + distinct output names per aggregation *)
Theorem C06_partial_chain :
  forall xops input, wf_frame input -> NoDup (cols input) ->
    xops_ok gen_cfg gen_gcfg (init_x (cols input)) xops = true ->
    eval_x (xcompile gen_cfg gen_gcfg xops (init_x (cols input))) input = xspec_run xops input.
Proof. exact (agg_chain_from_input gen_cfg gen_gcfg gen_cfg_ok gen_limit_ok gen_gcfg_ok). Qed.
Print Assumptions C06_partial_chain.

(** the aggregation step on ANY DataFrame state satisfying C01's invariant: PySpark's result, and C01's invariant
    again with last >= SELECT, so where/select/orderBy/limit/distinct/agg after it behave as on any DataFrame *)
Theorem C06_agg_step :
  forall e d ics input keys aggs,
    cols input = ics -> wf_frame input -> InvR gen_cfg d ics ->
    nodupb (agg_names keys aggs) && no_gids aggs = true ->
    let sd := agg_stage gen_cfg gen_gcfg e d keys aggs in
    let out := eval_stages (fst sd) input in
    out = spec_agg keys aggs (eval_df d input)
    /\ eval_df (snd sd) out = spec_agg keys aggs (eval_df d input)
    /\ InvR gen_cfg (snd sd) (agg_names keys aggs)
    /\ cols out = agg_names keys aggs /\ wf_frame out /\ 5 <= claim (Chain.last (snd sd)).
Proof. exact (agg_step_correct gen_cfg gen_gcfg gen_gcfg_ok). Qed.
Print Assumptions C06_agg_step.

(** (2) cube: every DataFrame state, every input (the empty one included, since the HAVING repair); aggregates may
    contain grouping_id() as a whole aggregate column ([gids_top]; sqlframe does not expand a nested one) *)
Theorem C06_cube :
  forall d ics input keys aggs, cols input = ics -> wf_frame input -> InvR gen_cfg d ics ->
    gids_top aggs = true ->
    let out := eval_stages (cube_stage gen_cfg gen_gcfg cube_idx d keys aggs) input in
    cols out = cols (spec_cube keys aggs (eval_df d input))
    /\ Permutation (rows out) (rows (spec_cube keys aggs (eval_df d input))).
Proof.
  exact (fun d ics input keys aggs Hc Hw HI Ht =>
           cube_step_correct gen_cfg gen_gcfg gen_gcfg_ok cube_idx d ics input keys aggs gen_cube_idx Hc Hw HI Ht
                             (or_introl gen_cube_having)).
Qed.
Print Assumptions C06_cube.

Theorem C06_cube_sets : forall ks : list expr, Permutation (cube_sets_with cube_idx ks) (powerset ks).
Proof. exact (cube_sets_with_powerset cube_idx gen_cube_idx). Qed.
Print Assumptions C06_cube_sets.

(** (3) names: every shortcut on every column name, count(), and the dict form for EVERY function and column name *)
Theorem C06_names :
  (forall m col, String.eqb col "*" = false -> short_item gen_ncfg m col = Some (spark_short m col))
  /\ count_item gen_ncfg = spark_count
  /\ (forall col fn, dict_item gen_ncfg col fn = spark_dict col fn).
Proof.
  exact (conj (shortcut_is_sparks gen_ncfg gen_ncfg_ok gen_fmt gen_canon)
        (conj (count_is_sparks gen_ncfg gen_ncfg_ok) (dict_is_sparks gen_ncfg gen_ncfg_ok gen_fmt gen_canon gen_fn_class))).
Qed.
Print Assumptions C06_names.

(** so the restricted parts of [C06_full] are the program part (domain [xops_ok]) and grouping_id() nested inside an
    aggregate expression of a cube ([gids_top]) *)
Theorem C06_partial :
  (forall xops input, wf_frame input -> NoDup (cols input) ->
     xops_ok gen_cfg gen_gcfg (init_x (cols input)) xops = true ->
     eval_x (xcompile gen_cfg gen_gcfg xops (init_x (cols input))) input = xspec_run xops input)
  /\ (forall d ics input keys aggs, cols input = ics -> wf_frame input -> InvR gen_cfg d ics ->
        gids_top aggs = true ->
        let out := eval_stages (cube_stage gen_cfg gen_gcfg cube_idx d keys aggs) input in
        cols out = cols (spec_cube keys aggs (eval_df d input))
        /\ Permutation (rows out) (rows (spec_cube keys aggs (eval_df d input))))
  /\ (forall m col, String.eqb col "*" = false -> short_item gen_ncfg m col = Some (spark_short m col))
  /\ count_item gen_ncfg = spark_count
  /\ (forall col fn, dict_item gen_ncfg col fn = spark_dict col fn).
Proof. exact (conj C06_partial_chain (conj C06_cube C06_names)). Qed.
Print Assumptions C06_partial.

(** (4) the data-level statements of the property, for all keys / aggregates / inputs (about [spec_agg], which the
    compiled SQL equals by (1)) *)
Theorem C06_one_row_per_distinct_key : forall ks aggs cs rs, ks <> [] ->
  let out := spec_groupby ks aggs cs rs in
  map (firstn (List.length ks)) out = group_keys cs ks rs
  /\ NoDup (map (firstn (List.length ks)) out)
  /\ (forall r, In r rs -> In (keyvals cs ks r) (map (firstn (List.length ks)) out))
  /\ (forall k, In k (map (firstn (List.length ks)) out) -> exists r, In r rs /\ keyvals cs ks r = k)
  /\ List.length out = List.length (group_keys cs ks rs).
Proof. exact one_row_per_distinct_key. Qed.
Theorem C06_null_is_a_key : forall ks aggs cs rs r, ks <> [] -> In r rs ->
  let k := keyvals cs ks r in
  In (k ++ agg_row cs (members cs ks rs k) aggs) (spec_groupby ks aggs cs rs)
  /\ (forall r', In r' (members cs ks rs k) <-> In r' rs /\ row_eqb (keyvals cs ks r') k = true)
  /\ (k = repeat VNull (List.length ks) ->
      In (repeat VNull (List.length ks) ++ agg_row cs (members cs ks rs k) aggs) (spec_groupby ks aggs cs rs)).
Proof. exact null_is_a_key. Qed.
Theorem C06_aggregates_skip_null : forall cs rs f e, agg_arg f = Some e ->
  eval_aggfn cs (filter (arg_not_null cs e) rs) f = eval_aggfn cs rs f.
Proof. exact aggregates_skip_null. Qed.
Theorem C06_count_star_counts_rows : forall cs rs, eval_aggfn cs rs FCountStar = VInt (Z.of_nat (List.length rs)).
Proof. exact count_star_counts_rows. Qed.
Theorem C06_count_col_counts_nonnull : forall cs rs e,
  eval_aggfn cs rs (FCount e) = VInt (Z.of_nat (List.length (filter (arg_not_null cs e) rs))).
Proof. exact count_col_counts_nonnull. Qed.
Theorem C06_empty_global_one_row : forall aggs cs, spec_groupby [] aggs cs [] = [agg_row cs [] aggs].
Proof. intros aggs cs. exact (proj1 (empty_global_one_row aggs cs)). Qed.
Theorem C06_empty_grouped_no_row : forall ks aggs cs, ks <> [] -> spec_groupby ks aggs cs [] = [].
Proof. exact empty_grouped_no_row. Qed.
Theorem C06_agg_cols : forall keys aggs fr, cols (spec_agg keys aggs fr) = map snd keys ++ map snd aggs.
Proof. intros keys aggs fr. exact (proj1 (agg_cols keys aggs fr)). Qed.
Theorem C06_cube_has_every_subtotal : forall keys aggs fr sub r,
  In sub (powerset (map fst keys)) -> In r (rows fr) ->
  let k := keyvals (cols fr) sub r in
  In (map (fun e => key_lookup e sub k) (map fst keys)
      ++ agg_row (cols fr) (members (cols fr) sub (rows fr) k) (map (spark_gid (map fst keys) sub) (map fst aggs)))
     (rows (spec_cube keys aggs fr)).
Proof. exact cube_has_every_subtotal. Qed.
(** count(distinct e1, .., en) skips the rows in which some member is NULL; an all-"NULL somewhere" group gives 0 *)
Theorem C06_count_distinct_n_skips_null : forall cs rs es,
  eval_aggfn cs (filter (members_not_null cs es) rs) (FCountDistinctN es) = eval_aggfn cs rs (FCountDistinctN es)
  /\ ((forall r, In r rs -> members_not_null cs es r = false) -> eval_aggfn cs rs (FCountDistinctN es) = VInt 0).
Proof. exact count_distinct_n_skips_null. Qed.
(** the GROUPING_ID(keys) sqlframe writes is Spark's grouping_id() at every sub-total level, whatever argument list
    the user's Column object carried before *)
Theorem C06_grouping_id_level : forall keys gs x, gid_top x = true ->
  resolve_gid gs (expand_gid (g_gid_always gen_gcfg) keys x) = spark_gid keys gs x.
Proof. exact expand_is_spark. Qed.
Print Assumptions C06_count_distinct_n_skips_null.
Print Assumptions C06_grouping_id_level.
Print Assumptions C06_one_row_per_distinct_key.
Print Assumptions C06_null_is_a_key.
Print Assumptions C06_cube_has_every_subtotal.

(** * the hypotheses are satisfiable by non-trivial values *)
Definition ex_keys : list (expr * string) := [(EBin Add (ECol "a") (ELit (VInt 1)), "k"%string)].
Definition ex_aggs : list (aexpr * string) :=
  [(XAgg (FSum (ECol "b")), "sb"%string); (XBin Add (XAgg FCountStar) (XAgg (FCount (ECol "b"))), "n"%string)].
Example C06_domain_nonempty :
  xops_ok gen_cfg gen_gcfg (init_x ["a"; "b"]%string)
    [POp (OSelect [(EBin Mul (ECol "a") (ELit (VInt 2)), "a"%string); (ECol "b", "b"%string)]);
     PAgg ViaGroupBy ex_keys ex_aggs;
     POp (OWhere (EBin Gt (ECol "sb") (ELit (VInt 0))));
     POp (OOrderBy [mkKey (ECol "k") false true]); POp (OLimit 3);
     PAgg ViaDfAgg [] [(XAgg (FMax (ECol "n")), "m"%string)];
     POp (OSelect [(ECol "m", "m"%string)]);
     PAgg ViaGroupBy [(ECol "m", "m"%string)] [(XAgg (FAvg (ECol "m")), "avg(m)"%string)]]
  = true.
Proof. vm_compute. reflexivity. Qed.
(** the cube statement speaks about the empty input too: there the repaired block yields no row *)
Example C06_cube_on_empty_input :
  rows (eval_stages (cube_stage gen_cfg gen_gcfg cube_idx (init_df ["a"]%string) [(ECol "a", "a"%string)]
                                [(XAgg FCountStar, "count"%string)]) (mkFrame ["a"]%string [])) = [].
Proof. vm_compute. reflexivity. Qed.
Example C06_cube_grouping_id :
  rows (eval_stages (cube_stage gen_cfg gen_gcfg cube_idx (init_df ["a"; "s"]%string)
                                [(ECol "a", "a"%string); (ECol "s", "s"%string)]
                                [(XGroupingId [ECol "s"], "lvl"%string)]) (mkFrame ["a"; "s"]%string [[VInt 1; VNull]]))
  = [[VInt 1; VNull; VInt 0]; [VInt 1; VNull; VInt 1]; [VNull; VNull; VInt 2]; [VNull; VNull; VInt 3]].
Proof. vm_compute. reflexivity. Qed.
(** and the dict form about 'mean' and '*' *)
Example C06_dict_mean_and_star :
  dict_item gen_ncfg "b" "mean" = Some (XAgg (FAvg (ECol "b")), "avg(b)"%string)
  /\ dict_item gen_ncfg "*" "count" = Some (XAgg FCountStar, "count(1)"%string).
Proof. split; vm_compute; reflexivity. Qed.

(** * refuted parts of the full statement: none left.  The three former witnesses (cube over an empty input; dict-form
    names of 'mean' and '*') were repaired in /repo (known_findings.json, status fixed); their statements are now the
    Examples above, and checks/c06.py keeps their programs as corpus cases. *)
