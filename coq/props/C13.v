(** C13 -- property file.  Contains only: the instantiation obligations on the facts regenerated from
    /repo, the full statement, the proved statement (closed by [exact]), non-vacuity examples, the
    refutation witnesses for the defects the faithful model exhibits, and Print Assumptions. *)
From SF Require Import C13.ViewsCheck.
From Gen Require Import C13Facts.
Open Scope string_scope.

(** * instantiation obligations (re-checked against /repo's current source on every run) *)
Lemma gen_cfg_ok : cfg_ok gen_cfg = true.
Proof. vm_compute. reflexivity. Qed.

Lemma gen_splice_shape : splice_shape_recognised = true.
Proof. reflexivity. Qed.

(** which way the schema cache treats a key it already has is read from the source; when it refreshes
    (the repaired catalog.add_table) re-registering cannot leave a stale column list -- this widens the set
    of states in which the premises of [session_sql_sound] hold; when it keeps the first list the
    statement is vacuous and [C13_refuted_stale_cache] applies instead *)
Lemma gen_reg_refreshes_cache : c_add_if_absent gen_cfg = false ->
  forall tables st name h d, heap_get (s_heap st) h = Some d ->
    snd (mstep gen_cfg tables st (SReg name h)) = ONone ->
    assoc (norm_key (c_reg_norm gen_cfg) name) (s_cache (fst (mstep gen_cfg tables st (SReg name h))))
    = Some (static_cols (d_leaf (stored gen_cfg st d))).
Proof. intros Ha tables st name h d. exact (reg_refreshes_cache gen_cfg tables st name h d Ha). Qed.

(** with the repaired splice (references of the user's query only, own CTEs left alone) the hijack
    witness and a view that shadows the table it reads are handled as the value semantics demands *)
Lemma gen_repaired_splice_examples : c_skip_own_ctes gen_cfg = true -> c_user_refs_only gen_cfg = true ->
  let unit := FVal (mkFrame [] [[]]) in
  let f0 := mkFrame ["a"; "b"] [[VInt 1; VInt 2]; [VInt 3; VInt 4]] in
  let bt := mkFrame ["a"; "q"] [[VInt 1; VInt 100]; [VInt 5; VInt 6]] in
  agree gen_cfg [("bt", bt)] [f0]
    [SReg "v" 0;
     SSql (mkQuery [("v", QSel unit [] (Some [(ELit (VInt 9), "z")]) false)]
                   (QSel (FName "v") [] (Some [(ECol "z", "z")]) false));
     STable "bt"; SWhere 2 (EBin Gt (ECol "q") (ELit (VInt 6))); SReg "bt" 3;
     SSql (mkQuery [] (QSel (FName "bt") [] (Some [(ECol "a", "a")]) false))] = true.
Proof.
  intros H1 H2. vm_compute in H1. vm_compute in H2.
  first [ discriminate H1 | discriminate H2 | (vm_compute; reflexivity) ].
Qed.

(** with the user's CTEs renamed when the frame is built, the chain-capture history agrees with the spec *)
Lemma gen_hashed_ctes_example : c_hash_user_ctes gen_cfg = true ->
  let unit := FVal (mkFrame [] [[]]) in
  let f0 := mkFrame ["a"; "b"] [[VInt 1; VInt 2]; [VInt 3; VInt 4]] in
  agree gen_cfg [] [f0]
    [SReg "v" 0;
     SSql (mkQuery [("c1", QSel (FName "v") [] (Some [(ECol "a", "a")]) false)]
                   (QSel (FName "c1") [] (Some [(ECol "a", "a")]) false));
     SReg "w" 1;
     SSql (mkQuery [("c1", QSel unit [] (Some [(ELit (VInt 7), "a")]) false)]
                   (QSel (FJoin (FName "w") "x" (FName "c1") "y" (EBin Eq (ELit (VInt 1)) (ELit (VInt 1)))) []
                         (Some [(ECol "x.a", "a"); (ECol "y.a", "a2")]) false))] = true.
Proof.
  intros H1. vm_compute in H1. first [ discriminate H1 | (vm_compute; reflexivity) ].
Qed.

(** * the property at full strength: on every history (register / re-register / table / sql / where /
    join back / observe, any length, any names and case variants, any query of the language) the
    implementation's model and the value semantics observe the same at every step *)
Definition C13_full : Prop :=
  forall tables frames steps, agree gen_cfg tables frames steps = true.

(** * what is proved: statements (1)-(7) of [C13_proved] (Wrap.v), with the decidable side conditions
    [no_capture] / [sql_side_ok] / [fresh_for] / [nodupb] visible, for the configuration read from the
    source.  Unbounded: every query tree, registry, environment, history. *)
Theorem C13_partial :
  (forall so uo q views base0 r, no_capture so uo q views = true ->
     (Run (splice so uo q views) base0 r <-> exists g, Run q (view_env g views base0) r))
  /\ (forall tables st q q1 d,
        qualify (s_cache st) (lower_query q) = Some q1 ->
        snd (mstep gen_cfg tables st (SSql q)) = ODf d ->
        sql_side_ok gen_cfg st q1 = true ->
        forall r, (exists f, eval_df f d (base tables) = Some r)
                  <-> exists g, Run q1 (view_env g (s_views st) (base tables)) r)
  /\ (forall tables st name name' h d,
        heap_get (s_heap st) h = Some d -> lower name = lower name' ->
        snd (mstep gen_cfg tables st (SReg name h)) = ONone ->
        fresh_for (fresh (s_next st)) d = true -> nodupb (static_cols (d_leaf d)) = true ->
        exists d', lookup_table gen_cfg tables (fst (mstep gen_cfg tables st (SReg name h))) name' = Some d'
          /\ (forall f fr, eval_df f d (base tables) = Some fr -> eval_df (S f) d' (base tables) = Some fr)
          /\ (forall g, view_env (S g) (s_views (fst (mstep gen_cfg tables st (SReg name h)))) (base tables) (lower name)
                        = eval_df g d (base tables)))
  /\ (forall tables before after st0 name name' h d,
        heap_get (s_heap (mrun gen_cfg tables st0 before)) h = Some d -> lower name = lower name' ->
        snd (mstep gen_cfg tables (mrun gen_cfg tables st0 before) (SReg name h)) = ONone ->
        forallb (fun s => negb (registers gen_cfg (lower name) s)) after = true ->
        lookup_table gen_cfg tables (mrun gen_cfg tables st0 (before ++ [SReg name h] ++ after)) name'
        = Some (stored gen_cfg (mrun gen_cfg tables st0 before) d))
  /\ (forall tables st h e d fr f,
        heap_get (s_heap st) h = Some d ->
        fresh_for (fresh (s_next st)) d = true -> nodupb (static_cols (d_leaf d)) = true ->
        eval_df f d (base tables) = Some fr ->
        exists d', snd (mstep gen_cfg tables st (SWhere h e)) = ODf d'
                   /\ eval_df (S f) d' (base tables) = sel_frame [e] None false fr)
  /\ (forall info e q q', info_right info e -> qualify_sq info true q = Some q' -> eval_sq e q' = eval_sq e q)
  /\ (forall tables steps st h d,
        heap_get (s_heap st) h = Some d ->
        heap_get (s_heap (mrun gen_cfg tables st steps)) h = Some d
        /\ forall f, meaning tables (mrun gen_cfg tables st steps) h f = meaning tables st h f).
Proof. exact (C13_package gen_cfg gen_cfg_ok). Qed.
Print Assumptions C13_partial.

(** * the hypotheses are satisfiable by non-trivial values *)
Definition ex_f0 := mkFrame ["a"; "b"] [[VInt 1; VInt 2]; [VInt 3; VInt 4]; [VNull; VInt 5]; [VInt 1; VInt 2]].
Definition ex_f1 := mkFrame ["a"; "s"] [[VInt 1; VStr "x"]; [VInt 3; VStr "y"]; [VNull; VStr "w"]].
Definition ex_bt := mkFrame ["a"; "q"] [[VInt 1; VInt 100]; [VInt 5; VInt 6]].
Definition ex_tables := [("bt", ex_bt)].
Definition ex_unit := FVal (mkFrame [] [[]]).
Definition ex_c1 := QSel (FName "v") [EBin Gt (ECol "a") (ELit (VInt 0))] (Some [(ECol "a", "a")]) false.
Definition ex_join :=
  mkQuery [("c1", ex_c1)]
    (QSel (FJoin (FName "c1") "x" (FSub (QAgg (FName "W") [] [("a", "a")] [(ACountStar, "n")])) "y"
                 (EBin Eq (ECol "x.a") (ECol "y.a"))) []
          (Some [(ECol "x.a", "a"); (ECol "y.n", "n")]) false).
(** register two views (case variants), a CTE + join + aggregate sub-query over both, re-register,
    observe the earlier frames again, join back *)
Definition ex_history :=
  [SReg "v" 0; SReg "W" 1; STable "V"; SSql ex_join; SReg "V" 1; SObs 3; SObs 2; STable "v";
   SJoinB 3 0 "a" ["b"]; SWhere 3 (EBin Ge (ECol "n") (ELit (VInt 1)))].

Example C13_history_in_domain :
  let st := mrun gen_cfg ex_tables (init_state [ex_f0; ex_f1]) [SReg "v" 0; SReg "W" 1; STable "V"] in
  match qualify (s_cache st) (lower_query ex_join) with
  | Some q1 => sql_side_ok gen_cfg st q1
  | None => false
  end = true
  /\ agree gen_cfg ex_tables [ex_f0; ex_f1] ex_history = true.
Proof. vm_compute. split; reflexivity. Qed.

(** * refutations: the full statement is false of the faithful model (each is replayed on the
    implementation by T3, see findings/C13-*.json).  Stated for every configuration that passes
    [cfg_ok] (and has the flag the defect depends on), hence for the one read from the source. *)
Ltac all_cfgs :=
  let c := fresh "c" in let Hok := fresh "Hok" in
  intros c Hok; destruct c as [a f cp vf rn tn af so uo hu]; unfold cfg_ok in Hok; simpl in Hok;
  destruct a, f, cp, vf, rn, tn, af, so, uo, hu; simpl in *; try discriminate.

Definition star_of n := mkQuery [] (QSel (FName n) [] None false).

(** re-registering a name with different columns: the add-if-absent cache keeps the first column list *)
Theorem C13_refuted_stale_cache : forall c, cfg_ok c = true -> c_add_if_absent c = true ->
  agree c ex_tables [ex_f0; ex_f1] [SReg "v" 0; SReg "V" 1; SSql (star_of "v")] = false.
Proof. all_cfgs; intros _; vm_compute; reflexivity. Qed.

(** a CTE of the user's query named like a registered view is retargeted to the view -- as long as
    session.sql does not leave the references to the query's own CTEs alone (repaired: d7a60e1) *)
Theorem C13_refuted_cte_hijack : forall c, cfg_ok c = true -> c_skip_own_ctes c = false ->
  agree c ex_tables [ex_f0; ex_f1]
    [SReg "v" 0;
     SSql (mkQuery [("v", QSel ex_unit [] (Some [(ELit (VInt 9), "z")]) false)]
                   (QSel (FName "v") [] (Some [(ECol "z", "z")]) false))] = false.
Proof. all_cfgs; intros _; vm_compute; reflexivity. Qed.

(** a view built by session.sql keeps the user's CTE name in its chain; a later query with a CTE of
    that name replaces the view's inner CTE: wrong rows, no error -- as long as session.sql does not give the
    user's CTEs their hash names when it builds the frame *)
Theorem C13_refuted_chain_capture : forall c, cfg_ok c = true -> c_hash_user_ctes c = false ->
  agree c ex_tables [ex_f0; ex_f1]
    [SReg "v" 0;
     SSql (mkQuery [("c1", QSel (FName "v") [] (Some [(ECol "a", "a")]) false)]
                   (QSel (FName "c1") [] (Some [(ECol "a", "a")]) false));
     SReg "w" 2;
     SSql (mkQuery [("c1", QSel ex_unit [] (Some [(ELit (VInt 7), "a")]) false)]
                   (QSel (FName "w") [] (Some [(ECol "a", "a")]) false))] = false.
Proof. all_cfgs; intros _; vm_compute; reflexivity. Qed.

(** SELECT * over a table the cache has not seen: the frame's column list is the star *)
Theorem C13_refuted_star_columns : forall c, cfg_ok c = true ->
  agree c ex_tables [ex_f0; ex_f1] [SSql (star_of "bt")] = false.
Proof. all_cfgs; vm_compute; reflexivity. Qed.

(** once the cache is non-empty an unqualified column over an uncached table cannot be resolved *)
Theorem C13_refuted_unresolved_column : forall c, cfg_ok c = true ->
  agree c ex_tables [ex_f0; ex_f1]
    [SReg "v" 0; SSql (mkQuery [] (QSel (FName "bt") [] (Some [(ECol "a", "a")]) false))] = false.
Proof. all_cfgs; vm_compute; reflexivity. Qed.

(** with an empty schema cache a select alias that shadows an input column is expanded into WHERE *)
Theorem C13_refuted_alias_expansion : forall c, cfg_ok c = true ->
  agree c ex_tables [ex_f0; ex_f1]
    [SSql (mkQuery [] (QSel (FName "bt") [EBin Gt (ECol "a") (ELit (VInt 1))]
                            (Some [(EBin Add (ECol "a") (ELit (VInt 1)), "a")]) false))] = false.
Proof. all_cfgs; vm_compute; reflexivity. Qed.

Theorem C13_full_is_false : ~ C13_full.
Proof.
  intro H. pose proof (C13_refuted_unresolved_column gen_cfg gen_cfg_ok) as R.
  rewrite H in R. discriminate.
Qed.
Print Assumptions C13_refuted_stale_cache.
Print Assumptions C13_full_is_false.
