(** C13 -- property file (draft). *)
From SF Require Import C13.ViewsCheck.
From Gen Require Import C13Facts.

Lemma gen_cfg_ok : cfg_ok gen_cfg = true.
Proof. vm_compute. reflexivity. Qed.
