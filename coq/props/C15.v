(** C15 -- property file.  Contains only: the instantiation obligation on the facts regenerated from
    /repo, the full statement, the proved statements (closed by [exact]), non-vacuity examples, the
    refutations of the full statement on the faithful model, and Print Assumptions. *)
From SF Require Import Base.Val Base.Expr C15.Dml C15.DmlProof.
From Gen Require Import C15Facts.
Open Scope string_scope.

(** instantiation obligation (re-checked against /repo's current source on every run) *)
Lemma gen_cfg_ok : cfg_ok gen_cfg = true.
Proof. vm_compute. reflexivity. Qed.

(** the column an assignment targets reaches the engine as an identifier (quoted when its name needs it: a blank,
    a reserved word), as the model's [stmt_keys] assume (fix commit for `SET full name = ...`) *)
Lemma gen_set_key_is_identifier : set_key_is_identifier = true.
Proof. reflexivity. Qed.

(** the property at full strength: every table object, every table contents, every update/delete call
    whose predicate and assigned values are written with table['c'] / col('c') references (or as a SQL
    string) over existing columns: executing the lazily built statement gives exactly the rows the
    property describes (and the engine reports their number) *)
Definition C15_full : Prop :=
  forall st name cs rows k, points_to name st = true -> call_wf st cs k = true ->
    run gen_cfg st name cs rows k = inr (spec_rows cs k rows, spec_count cs k rows).

(** the same statement on the decidable domain [call_ok gen_cfg] (on the repaired source it contains
    [call_wf]; it additionally admits predicates qualified by the table's own name) *)
Theorem C15_partial :
  forall st name cs rows k, points_to name st = true -> call_ok gen_cfg st cs k = true ->
    run gen_cfg st name cs rows k = inr (spec_rows cs k rows, spec_count cs k rows).
Proof. exact (fun st name cs rows k => run_exact gen_cfg st name cs rows k gen_cfg_ok). Qed.
Print Assumptions C15_partial.

Definition ex_st_pre : tstate := mkT "t1" "t39666281" "rf7f32a1c" [].
Definition ex_name : tabref := mkRef "memory" "main" "main" "t1".

(** histories: lazy expressions built and executed in any order, any number of times; building never
    changes the table nor reaches the connection *)
Theorem C15_histories :
  forall st name cs h calls w, points_to name st = true ->
    hist_ok gen_cfg st cs h = true -> forallb (call_ok gen_cfg st cs) calls = true ->
    w_built w = map (compile gen_cfg st) calls ->
    w_rows (run_hist gen_cfg st name cs w h) = spec_hist cs calls (w_rows w) h
    /\ w_sent (run_hist gen_cfg st name cs w h) = (w_sent w + execs_in (List.length calls) h)%nat.
Proof. exact (fun st name cs h calls w Hpt => history_exact gen_cfg st name cs gen_cfg_ok Hpt h calls w). Qed.
Print Assumptions C15_histories.

Theorem C15_lazy :
  forall st name cs w k,
    w_rows (step gen_cfg st name cs w (ABuild k)) = w_rows w
    /\ w_sent (step gen_cfg st name cs w (ABuild k)) = w_sent w.
Proof. exact (fun st name cs w k => lazy_until_execute gen_cfg st name cs w k gen_cfg_ok). Qed.
Print Assumptions C15_lazy.

Theorem C15_no_cte_qualifier_left :
  forall st k s, cte st <> phys st -> compile gen_cfg st k = inr s ->
    forall e, In e (stmt_exprs s) -> no_cte_in st e.
Proof. exact (fun st k s => no_cte_qualifier_left gen_cfg st k s gen_cfg_ok). Qed.
Print Assumptions C15_no_cte_qualifier_left.

Example C15_no_cte_hypotheses_satisfiable :
  cte ex_st_pre <> phys ex_st_pre /\ exists s, compile gen_cfg ex_st_pre
    (CDelete (WCols [QBin Eq (QCol (Some "rf7f32a1c") "a") (QCol (Some "t39666281") "b")])) = inr s.
Proof. split; [discriminate|]. eexists. vm_compute. reflexivity. Qed.

(** with the three patches proposed in the findings, the proved domain is the whole property *)
Theorem C15_full_if_patched :
  where_str_is_sql gen_cfg = true -> set_unqualified_raises gen_cfg = false -> set_strips_alias gen_cfg = true ->
  C15_full.
Proof.
  intros H1 H2 H3 st name cs rows k Hpt Hwf.
  exact (run_exact gen_cfg st name cs rows k gen_cfg_ok Hpt (wf_is_ok_when_patched gen_cfg st cs k H1 H2 H3 Hwf)).
Qed.
Print Assumptions C15_full_if_patched.

(** the whole database: the statement built from a table opened as [archive.t] / [cat.archive.t] changes exactly
    that table; every other table -- in particular a table of the same name in the default schema -- keeps
    its rows *)
Theorem C15_other_tables_untouched :
  forall st cat dflt cs d k a rows,
    call_ok gen_cfg st cs k = true ->
    resolve cat dflt (tref st) = Some a -> snd a = phys st -> db_get a d = Some rows ->
    exists d', run_db gen_cfg st cat dflt cs d k = inr (d', spec_count cs k rows)
      /\ db_get a d' = Some (spec_rows cs k rows)
      /\ forall b, b <> a -> db_get b d' = db_get b d.
Proof. exact (fun st cat dflt cs d k a rows => db_exact gen_cfg st cat dflt cs d k a rows gen_cfg_ok). Qed.
Print Assumptions C15_other_tables_untouched.

Definition ex_st_arch : tstate := mkT "accounts" "t11111111" "rb" ["archive"].
Definition ex_db : db := [(("main", "accounts"), [[VInt 1; VInt 2; VStr "x"]]); (("archive", "accounts"), [[VInt 1; VInt 2; VStr "x"]; [VNull; VInt 3; VStr "y"]])].
Example C15_qualified_target_example :
  run_db gen_cfg ex_st_arch "memory" "main" ["a"; "b"; "s"] ex_db (CUpdate [(QCol None "a", QLit (VInt 0))] WNone)
  = inr ([(("main", "accounts"), [[VInt 1; VInt 2; VStr "x"]]);
          (("archive", "accounts"), [[VInt 0; VInt 2; VStr "x"]; [VInt 0; VInt 3; VStr "y"]])], 2%nat).
Proof. vm_compute. reflexivity. Qed.

(** the repaired source (fix commits 4248493, 1da5c96, 9e45c12) has the three facts: the full property is
    proved.  Reverting any of the three fixes makes this instantiation fail. *)
Theorem C15_holds : C15_full.
Proof. exact (C15_full_if_patched eq_refl eq_refl eq_refl). Qed.
Print Assumptions C15_holds.

(** the domain is inhabited by non-trivial calls: a swap of two columns guarded by a two-element
    predicate list in both reference styles, and a delete with an aliased CASE predicate *)
Definition ex_st : tstate := ex_st_pre.
Definition ex_cs : list string := ["a"; "b"; "s"].
Definition ex_rows : list row :=
  [[VInt 1; VInt 2; VStr "x"]; [VNull; VInt 3; VStr "x"]; [VInt 1; VInt 2; VStr "x"]; [VInt 2; VNull; VNull]].
Definition ex_swap : call :=
  CUpdate [(QCol None "a", QCol (Some "rf7f32a1c") "b");
           (QCol (Some "rf7f32a1c") "b", QBin Add (QCol (Some "rf7f32a1c") "a") (QCol (Some "rf7f32a1c") "b"))]
          (WCols [QBin Eq (QCol (Some "rf7f32a1c") "s") (QLit (VStr "x")); QNot (QIsNull (QCol None "a"))]).
Definition ex_delete : call :=
  CDelete (WCols [QAlias (QIf (QIsNull (QCol None "a")) (QLit (VBool true)) (QBin Gt (QCol (Some "rf7f32a1c") "a") (QLit (VInt 1)))) "when__a__"]).

Example C15_domain_nonempty :
  call_ok gen_cfg ex_st ex_cs ex_swap = true /\ call_ok gen_cfg ex_st ex_cs ex_delete = true
  /\ run gen_cfg ex_st ex_name ex_cs ex_rows ex_swap
     = inr ([[VInt 2; VInt 3; VStr "x"]; [VNull; VInt 3; VStr "x"]; [VInt 2; VInt 3; VStr "x"]; [VInt 2; VNull; VNull]], 2%nat)
  /\ run gen_cfg ex_st ex_name ex_cs ex_rows ex_delete
     = inr ([[VInt 1; VInt 2; VStr "x"]; [VInt 1; VInt 2; VStr "x"]], 2%nat).
Proof. vm_compute. repeat split; reflexivity. Qed.

Example C15_history_nonempty :
  hist_ok gen_cfg ex_st ex_cs [ABuild ex_swap; ABuild ex_delete; AExec 1; AExec 0; AExec 0] = true
  /\ w_rows (run_hist gen_cfg ex_st ex_name ex_cs (mkW ex_rows 0 []) [ABuild ex_swap; ABuild ex_delete; AExec 1; AExec 0; AExec 0])
     = [[VInt 3; VInt 5; VStr "x"]; [VInt 3; VInt 5; VStr "x"]].
Proof. vm_compute. split; reflexivity. Qed.

(** * Refutations of [C15_full] on the model of the source BEFORE the three fixes (each was a genuine
      defect, now fixed; the witnesses stay in the harness corpus).  Each is stated under the old value of
      the fact that made it hold, so that on the repaired source it is vacuous but still compiles. *)

(** a SQL-string predicate is taken for a column NAME *)
Definition rf_sql : call := CDelete (WStr "a is null" (QIsNull (QCol None "a"))).
Theorem C15_refuted_sql_string :
  where_str_is_sql gen_cfg = false ->
  exists st name cs rows k, points_to name st = true /\ call_wf st cs k = true
    /\ run gen_cfg st name cs rows k <> inr (spec_rows cs k rows, spec_count cs k rows).
Proof.
  intro H. exists ex_st, ex_name, ex_cs, ex_rows, rf_sql. split; [reflexivity|]. split; [reflexivity|].
  unfold run, rf_sql, compile, compile_where, compile_items, where_items. rewrite H. vm_compute. discriminate.
Qed.
Print Assumptions C15_refuted_sql_string.

(** on the repaired source the same call does what the property says *)
Example C15_sql_string_now_holds :
  call_wf ex_st ex_cs rf_sql = true
  /\ run gen_cfg ex_st ex_name ex_cs ex_rows rf_sql
     = inr ([[VInt 1; VInt 2; VStr "x"]; [VInt 1; VInt 2; VStr "x"]; [VInt 2; VNull; VNull]], 1%nat).
Proof. vm_compute. split; reflexivity. Qed.

(** an assigned value written with col('b') raises ValueError("Column `b` does not exist in the table.") *)
Definition rf_unq : call := CUpdate [(QCol None "a", QCol None "b")] WNone.
Theorem C15_refuted_unqualified_value :
  set_unqualified_raises gen_cfg = true ->
  exists st name cs rows k, points_to name st = true /\ call_wf st cs k = true
    /\ run gen_cfg st name cs rows k <> inr (spec_rows cs k rows, spec_count cs k rows).
Proof.
  intro H. exists ex_st, ex_name, ex_cs, ex_rows, rf_unq. split; [reflexivity|]. split; [reflexivity|].
  unfold run, rf_unq, compile, compile_set, compile_set_from, compile_set1, set_bad_q.
  destruct (negb (ensure_cte_update gen_cfg)); [discriminate|].
  destruct (compile_where gen_cfg ex_st WNone); [discriminate|].
  cbn [fst snd normalize map_q norm_q qrefs existsb]. rewrite H. cbn [orb]. discriminate.
Qed.
Print Assumptions C15_refuted_unqualified_value.

Example C15_unqualified_value_now_holds :
  call_wf ex_st ex_cs rf_unq = true
  /\ run gen_cfg ex_st ex_name ex_cs ex_rows rf_unq
     = inr ([[VInt 2; VInt 2; VStr "x"]; [VInt 3; VInt 3; VStr "x"]; [VInt 2; VInt 2; VStr "x"]; [VNull; VNull; VNull]], 4%nat).
Proof. vm_compute. split; reflexivity. Qed.

(** an assigned value built by a function keeps its automatic alias: SET a = COALESCE(..) AS coalesce__a__ *)
Definition rf_alias : call :=
  CUpdate [(QCol None "a", QAlias (QCoalesce (QCol (Some "rf7f32a1c") "a") (QLit (VInt 0))) "coalesce__a__")] WNone.
Theorem C15_refuted_aliased_value :
  set_strips_alias gen_cfg = false ->
  exists st name cs rows k, points_to name st = true /\ call_wf st cs k = true
    /\ run gen_cfg st name cs rows k <> inr (spec_rows cs k rows, spec_count cs k rows).
Proof.
  intro H. exists ex_st, ex_name, ex_cs, ex_rows, rf_alias. split; [reflexivity|]. split; [reflexivity|].
  unfold run, rf_alias, compile, compile_set, compile_set_from, compile_set1.
  destruct (negb (ensure_cte_update gen_cfg)); [discriminate|].
  destruct (compile_where gen_cfg ex_st WNone) as [e|p]; [discriminate|].
  cbn [fst snd normalize map_q norm_q qrefs]. rewrite H.
  destruct (existsb _ _); [discriminate|].
  unfold exec, stmt_syntax_ok. cbn [stmt_exprs map snd upsert app forallb has_alias negb andb].
  destruct (set_requalifies gen_cfg); cbn [map_q has_alias negb andb]; discriminate.
Qed.
Print Assumptions C15_refuted_aliased_value.

Example C15_aliased_value_now_holds :
  call_wf ex_st ex_cs rf_alias = true
  /\ run gen_cfg ex_st ex_name ex_cs ex_rows rf_alias
     = inr ([[VInt 1; VInt 2; VStr "x"]; [VInt 0; VInt 3; VStr "x"]; [VInt 1; VInt 2; VStr "x"]; [VInt 2; VNull; VNull]], 4%nat).
Proof. vm_compute. split; reflexivity. Qed.
