(** C18 -- property file (history independence, reproducible SQL text, read-only actions). *)
From Coq Require Import List String ZArith Bool Arith Lia.
From SF Require Import C18.Session C18.Compile C18.Facts C18.NonInterf C18.Registry C18.Equivar C18.Repro C18.Statement.
From Gen Require Import C18Facts.
Import ListNotations.
Open Scope string_scope.
Open Scope list_scope.

(** instantiation obligations on the facts regenerated from /repo on this run *)
Lemma gen_alias_scoped : alias_scoped gen_cfg = true.
Proof. reflexivity. Qed.

Lemma gen_accesses_ok : accesses_ok registry_accesses = true.
Proof. vm_compute. reflexivity. Qed.

(** nothing ordered is built by iterating a set (the order would depend on the process' string hash seed), no session
    accessor caches a stateful builder, no builder is applied in place to a frame's expression tree *)
Lemma gen_no_set_iteration : set_iterations = [].
Proof. reflexivity. Qed.

Lemma gen_accessors_ok : accessors_ok session_accessors = true.
Proof. vm_compute. reflexivity. Qed.

Lemma gen_no_inplace_builders : inplace_builder_calls = [].
Proof. reflexivity. Qed.

(** every engine's reader/writer names its temporary views and tables freshly per call *)
Lemma gen_temp_names_fresh : temp_names_ok temp_object_names = true.
Proof. vm_compute. reflexivity. Qed.

Lemma gen_names_by_content : hash_over_rendered_text = true /\ singleton_session = true /\ counter_start = counter st0.
Proof. repeat split. Qed.

(** the property at full strength: on every trace in which P reads only its own frames and only views it registered
    last (what PySpark promises), (i) P observes the same as alone in a fresh session, up to the names of fresh
    things; (ii) two fresh sessions emit the same text up to the random literals, identical when there are none;
    (iii) no read-only action leaves anything behind *)
Definition C18_full : Prop :=
  history_statement gen_cfg full_dom /\ repro_statement gen_cfg /\ readonly_statement gen_cfg readonly.

(** proved: (i) on the decidable domain [independent] (P reads only its own frames, and no view name that the other
    work registers), for every interleaving of any length; (ii) in full; (iii) for collect/count/show/columns/sql *)
Theorem C18_partial :
  history_statement gen_cfg independent /\ repro_statement gen_cfg /\
  readonly_statement gen_cfg (fun p => match p with SAct _ _ => true | _ => false end).
Proof.
  exact (conj (history_on_independent gen_cfg gen_alias_scoped)
              (conj (repro_holds gen_cfg) (readonly_on_plain_actions gen_cfg))).
Qed.
Print Assumptions C18_partial.

(** the same, for an observer of rows: anything invariant under renaming of fresh names sees no difference *)
Theorem C18_rows : forall (R : Type) (observe : obs -> R),
  (forall p, (forall a b, p a = p b -> a = b) -> forall o, observe (r_obs p p o) = observe o) ->
  forall (A A' : oracle) prog, jointly_injective A -> jointly_injective A' -> independent (annotate A prog) = true ->
  map observe (obs_of true (run gen_cfg (annotate A prog))) =
  map observe (obs_of true (run gen_cfg (annotate A' (filter (fun x : bool * step => fst x) prog)))).
Proof. intros R observe Hinv A A' prog. exact (history_independent_rows R observe Hinv gen_cfg A A' prog gen_alias_scoped). Qed.
Print Assumptions C18_rows.

(** resolution is local to the expression at hand *)
Theorem C18_resolve_local : forall r r' x d, agree_on (ids_of x) d r r' -> resolve (alias_scoped gen_cfg) r x d = resolve (alias_scoped gen_cfg) r' x d.
Proof. rewrite gen_alias_scoped. exact resolve_local. Qed.
Print Assumptions C18_resolve_local.

Theorem C18_registries_append_only : forall s e d p, grows (rg s) (rg (fst (fst (run_step gen_cfg s e d p)))).
Proof. exact (registries_append_only gen_cfg). Qed.

Theorem C18_failed_action_no_write : forall s e d k src,
  let out := run_step gen_cfg s e d (SBad k src) in
  snd (fst out) = None /\ snd out = Some OErr /\
  views (fst (fst out)) = views s /\ scache (fst (fst out)) = scache s /\
  eviews (fst (fst out)) = eviews s /\ counter s <= counter (fst (fst out)) /\
  grows (rg s) (rg (fst (fst out))).
Proof. exact (failed_action_no_write gen_cfg). Qed.
Print Assumptions C18_failed_action_no_write.

(** the domain is inhabited by a trace that uses every mechanism: shared source frame, the same alias and view
    names on both sides, a self-join, a failing action and a schema lookup in the history *)
Definition demo_prog : list (bool * step) := [
  (true,  SCreate 0 1 ["a"; "b"]);
  (false, SAlias 0 (true, 0) "x");
  (true,  SAlias 1 (true, 0) "x");
  (false, SBad (BAliasThenMissing "x") (false, 0));
  (false, SView (false, 0) "w");
  (true,  SWhere 2 (true, 1) (mkUH (Some (inl "x")) "a") 0);
  (false, SSchema (false, 0));
  (true,  SJoin 3 (true, 0) (true, 2) (OnExpr (mkUH (Some (inr (true, 0))) "a") (mkUH (Some (inl "x")) "a")));
  (true,  SView (true, 3) "v");
  (false, SSql 1 "w" None);
  (true,  SSql 4 "v" (Some ["a"]));
  (true,  SAct ACollect (true, 4))
].
Example C18_domain_nonempty :
  independent (annotate canon0 demo_prog) = true /\
  map is_err (obs_of true (run gen_cfg (annotate canon0 demo_prog))) = [false].
Proof. vm_compute. split; reflexivity. Qed.

(** REFUTED (i) at full strength: the schema cache is add-if-absent, so a history that registered the same view
    name with other columns changes what P reads from ITS OWN later registration of that name *)
Definition stale_prog : list (bool * step) := [
  (false, SCreate 0 1 ["a"; "b"]);
  (false, SView (false, 0) "v");
  (true,  SCreate 0 3 ["c"; "d"; "e"]);
  (true,  SView (true, 0) "v");
  (true,  SSql 1 "v" None);
  (true,  SAct ACollect (true, 1))
].
Theorem C18_refuted_schema_cache : schema_aia gen_cfg = true -> ~ history_statement gen_cfg full_dom.
Proof.
  intros H. vm_compute in H.
  first [ discriminate H
        | apply (history_refuted_by gen_cfg full_dom stale_prog); [vm_compute; reflexivity|vm_compute; discriminate] ].
Qed.
Print Assumptions C18_refuted_schema_cache.

(** REFUTED (iii) at full strength: the schema lookup creates a temporary view named by a random id and never drops it *)
Theorem C18_refuted_schema_lookup_leaves_view : schema_drops_view gen_cfg = false -> ~ readonly_statement gen_cfg readonly.
Proof.
  intros H. vm_compute in H.
  first [ discriminate H
        | apply (readonly_refuted_by gen_cfg st0 [((true, 0), mkFrame [] (SrcValues 1 1) [] [] [] 0 1 2 [2] (-1)%Z true)]
                                     (fun k => k) (true, 0) _ eq_refl eq_refl); vm_compute; reflexivity ].
Qed.
Print Assumptions C18_refuted_schema_lookup_leaves_view.

Theorem C18_not_full : schema_aia gen_cfg = true -> ~ C18_full.
Proof. intros H [F _]. exact (C18_refuted_schema_cache H F). Qed.
