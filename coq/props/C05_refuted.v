(** C05 -- refutation witnesses: for each known finding that the model can express, a concrete tree and row on
    which the faithful model of the CURRENT source violates the full statement ([bad] = rejected by the grammar,
    unknown function, or a value other than PySpark's), and the corollary that C05_full is false.
    Generated from findings/C05-*.json; compiled chunk by chunk by checks/c05.py. *)
From SF Require Import C05.Main.
From Gen Require Import C05Facts.
Open Scope string_scope.
Definition C05_full : Prop := full_for gen_cfg.

(* ---- signature: C05/between-operand-of-isin *)
(** col('a').between(0, col('b')).isin(True)   emits   "a" BETWEEN 0 AND "b" IN (TRUE) *)
Theorem C05_refuted_between_operand_of_isin : exists t en, uwf t = true /\ udom en t = true /\ bad gen_cfg en t = true.
Proof.
  exists (UIsin (UBetween (UCol "a"%string) (UPy (VInt (0)%Z)) (UCol "b"%string)) [(VBool true)]).
  exists (mkEnv ["a"%string; "b"%string; "s"%string; "t"%string; "p"%string; "q"%string] [VNull; VNull; VNull; (VStr ""%string); VNull; (VBool true)] [("l"%string, [(VInt (10)%Z); (VInt (20)%Z); (VInt (30)%Z)])]).
  vm_compute. repeat split.
Qed.
Corollary C05_full_false_by_between_operand_of_isin : ~ C05_full.
Proof. destruct C05_refuted_between_operand_of_isin as (t & en & W & D & B). exact (bad_refutes gen_cfg t en W D B). Qed.
Print Assumptions C05_full_false_by_between_operand_of_isin.

(* ---- signature: C05/comparison-operand-of-comparison *)
(** ((col('a') == col('b')) == col('p'))   emits   "a" = "b" = "p" *)
Theorem C05_refuted_comparison_operand_of_comparison : exists t en, uwf t = true /\ udom en t = true /\ bad gen_cfg en t = true.
Proof.
  exists (UBin UEq (UBin UEq (UCol "a"%string) (UCol "b"%string)) (UCol "p"%string)).
  exists (mkEnv ["a"%string; "b"%string; "s"%string; "t"%string; "p"%string; "q"%string] [VNull; VNull; VNull; (VStr ""%string); VNull; (VBool true)] [("l"%string, [(VInt (10)%Z); (VInt (20)%Z); (VInt (30)%Z)])]).
  vm_compute. repeat split.
Qed.
Corollary C05_full_false_by_comparison_operand_of_comparison : ~ C05_full.
Proof. destruct C05_refuted_comparison_operand_of_comparison as (t & en & W & D & B). exact (bad_refutes gen_cfg t en W D B). Qed.
Print Assumptions C05_full_false_by_comparison_operand_of_comparison.

(* ---- signature: C05/comparison-operand-of-isin *)
(** (col('a') == col('b')).isin(True)   emits   "a" = "b" IN (TRUE) *)
Theorem C05_refuted_comparison_operand_of_isin : exists t en, uwf t = true /\ udom en t = true /\ bad gen_cfg en t = true.
Proof.
  exists (UIsin (UBin UEq (UCol "a"%string) (UCol "b"%string)) [(VBool true)]).
  exists (mkEnv ["a"%string; "b"%string; "s"%string; "t"%string; "p"%string; "q"%string] [(VInt (0)%Z); (VInt (0)%Z); (VStr "ab"%string); (VStr "ab"%string); (VBool true); (VBool true)] [("l"%string, [])]).
  vm_compute. repeat split.
Qed.
Corollary C05_full_false_by_comparison_operand_of_isin : ~ C05_full.
Proof. destruct C05_refuted_comparison_operand_of_isin as (t & en & W & D & B). exact (bad_refutes gen_cfg t en W D B). Qed.
Print Assumptions C05_full_false_by_comparison_operand_of_isin.

(* ---- signature: C05/endswith-unknown-function *)
(** col('s').endswith('a')   emits   ENDSWITH("s", 'a') *)
Theorem C05_refuted_endswith_unknown_function : exists t en, uwf t = true /\ udom en t = true /\ bad gen_cfg en t = true.
Proof.
  exists (UEndsWith (UCol "s"%string) (UPy (VStr "a"%string))).
  exists (mkEnv ["a"%string; "b"%string; "s"%string; "t"%string; "p"%string; "q"%string] [VNull; VNull; VNull; (VStr ""%string); VNull; (VBool true)] [("l"%string, [(VInt (10)%Z); (VInt (20)%Z); (VInt (30)%Z)])]).
  vm_compute. repeat split.
Qed.
Corollary C05_full_false_by_endswith_unknown_function : ~ C05_full.
Proof. destruct C05_refuted_endswith_unknown_function as (t & en & W & D & B). exact (bad_refutes gen_cfg t en W D B). Qed.
Print Assumptions C05_full_false_by_endswith_unknown_function.

(* ---- signature: C05/eqNullSafe-operand-of-comparison *)
(** (col('p').eqNullSafe(col('q')) == col('p'))   emits   "p" IS NOT DISTINCT FROM "q" = "p" *)
Theorem C05_refuted_eqNullSafe_operand_of_comparison : exists t en, uwf t = true /\ udom en t = true /\ bad gen_cfg en t = true.
Proof.
  exists (UBin UEq (UNse (UCol "p"%string) (UCol "q"%string)) (UCol "p"%string)).
  exists (mkEnv ["a"%string; "b"%string; "s"%string; "t"%string; "p"%string; "q"%string] [VNull; VNull; VNull; (VStr ""%string); VNull; (VBool true)] [("l"%string, [(VInt (10)%Z); (VInt (20)%Z); (VInt (30)%Z)])]).
  vm_compute. repeat split.
Qed.
Corollary C05_full_false_by_eqNullSafe_operand_of_comparison : ~ C05_full.
Proof. destruct C05_refuted_eqNullSafe_operand_of_comparison as (t & en & W & D & B). exact (bad_refutes gen_cfg t en W D B). Qed.
Print Assumptions C05_full_false_by_eqNullSafe_operand_of_comparison.

(* ---- signature: C05/eqNullSafe-operand-of-eqNullSafe *)
(** col('a').eqNullSafe(col('b')).eqNullSafe(col('p'))   emits   "a" IS NOT DISTINCT FROM "b" IS NOT DISTINCT FROM "p" *)
Theorem C05_refuted_eqNullSafe_operand_of_eqNullSafe : exists t en, uwf t = true /\ udom en t = true /\ bad gen_cfg en t = true.
Proof.
  exists (UNse (UNse (UCol "a"%string) (UCol "b"%string)) (UCol "p"%string)).
  exists (mkEnv ["a"%string; "b"%string; "s"%string; "t"%string; "p"%string; "q"%string] [VNull; VNull; VNull; (VStr ""%string); VNull; (VBool true)] [("l"%string, [(VInt (10)%Z); (VInt (20)%Z); (VInt (30)%Z)])]).
  vm_compute. repeat split.
Qed.
Corollary C05_full_false_by_eqNullSafe_operand_of_eqNullSafe : ~ C05_full.
Proof. destruct C05_refuted_eqNullSafe_operand_of_eqNullSafe as (t & en & W & D & B). exact (bad_refutes gen_cfg t en W D B). Qed.
Print Assumptions C05_full_false_by_eqNullSafe_operand_of_eqNullSafe.

(* ---- signature: C05/eqNullSafe-operand-of-isNotNull *)
(** col('a').eqNullSafe(col('b')).isNotNull()   emits   NOT "a" IS NOT DISTINCT FROM "b" IS NULL *)
Theorem C05_refuted_eqNullSafe_operand_of_isNotNull : exists t en, uwf t = true /\ udom en t = true /\ bad gen_cfg en t = true.
Proof.
  exists (UIsNotNull (UNse (UCol "a"%string) (UCol "b"%string))).
  exists (mkEnv ["a"%string; "b"%string; "s"%string; "t"%string; "p"%string; "q"%string] [VNull; VNull; VNull; (VStr ""%string); VNull; (VBool true)] [("l"%string, [(VInt (10)%Z); (VInt (20)%Z); (VInt (30)%Z)])]).
  vm_compute. repeat split.
Qed.
Corollary C05_full_false_by_eqNullSafe_operand_of_isNotNull : ~ C05_full.
Proof. destruct C05_refuted_eqNullSafe_operand_of_isNotNull as (t & en & W & D & B). exact (bad_refutes gen_cfg t en W D B). Qed.
Print Assumptions C05_full_false_by_eqNullSafe_operand_of_isNotNull.

(* ---- signature: C05/eqNullSafe-operand-of-isNull *)
(** col('a').eqNullSafe(col('b')).isNull()   emits   "a" IS NOT DISTINCT FROM "b" IS NULL *)
Theorem C05_refuted_eqNullSafe_operand_of_isNull : exists t en, uwf t = true /\ udom en t = true /\ bad gen_cfg en t = true.
Proof.
  exists (UIsNull (UNse (UCol "a"%string) (UCol "b"%string))).
  exists (mkEnv ["a"%string; "b"%string; "s"%string; "t"%string; "p"%string; "q"%string] [VNull; VNull; VNull; (VStr ""%string); VNull; (VBool true)] [("l"%string, [(VInt (10)%Z); (VInt (20)%Z); (VInt (30)%Z)])]).
  vm_compute. repeat split.
Qed.
Corollary C05_full_false_by_eqNullSafe_operand_of_isNull : ~ C05_full.
Proof. destruct C05_refuted_eqNullSafe_operand_of_isNull as (t & en & W & D & B). exact (bad_refutes gen_cfg t en W D B). Qed.
Print Assumptions C05_full_false_by_eqNullSafe_operand_of_isNull.

(* ---- signature: C05/eqNullSafe-operand-of-isin *)
(** col('a').eqNullSafe(col('b')).isin(True)   emits   "a" IS NOT DISTINCT FROM "b" IN (TRUE) *)
Theorem C05_refuted_eqNullSafe_operand_of_isin : exists t en, uwf t = true /\ udom en t = true /\ bad gen_cfg en t = true.
Proof.
  exists (UIsin (UNse (UCol "a"%string) (UCol "b"%string)) [(VBool true)]).
  exists (mkEnv ["a"%string; "b"%string; "s"%string; "t"%string; "p"%string; "q"%string] [(VInt (0)%Z); (VInt (0)%Z); (VStr "ab"%string); (VStr "ab"%string); (VBool true); (VBool true)] [("l"%string, [])]).
  vm_compute. repeat split.
Qed.
Corollary C05_full_false_by_eqNullSafe_operand_of_isin : ~ C05_full.
Proof. destruct C05_refuted_eqNullSafe_operand_of_isin as (t & en & W & D & B). exact (bad_refutes gen_cfg t en W D B). Qed.
Print Assumptions C05_full_false_by_eqNullSafe_operand_of_isin.

(* ---- signature: C05/getItem-column-index-not-offset *)
(** col('l').getItem(col('a'))   emits   "l"["a"] *)
Theorem C05_refuted_getItem_column_index_not_offset : exists t en, uwf t = true /\ udom en t = true /\ bad gen_cfg en t = true.
Proof.
  exists (UGetItemCol (UCol "l"%string) (UCol "a"%string)).
  exists (mkEnv ["a"%string; "b"%string; "s"%string; "t"%string; "p"%string; "q"%string] [(VInt (0)%Z); (VInt (1)%Z); (VStr ""%string); VNull; (VBool false); VNull] [("l"%string, [(VInt (7)%Z)])]).
  vm_compute. repeat split.
Qed.
Corollary C05_full_false_by_getItem_column_index_not_offset : ~ C05_full.
Proof. destruct C05_refuted_getItem_column_index_not_offset as (t & en & W & D & B). exact (bad_refutes gen_cfg t en W D B). Qed.
Print Assumptions C05_full_false_by_getItem_column_index_not_offset.

(* ---- signature: C05/isNotNull-operand-of-comparison *)
(** (col('p').isNotNull() == lit(False)).isNotNull()   emits   NOT NOT "p" IS NULL = FALSE IS NULL *)
Theorem C05_refuted_isNotNull_operand_of_comparison : exists t en, uwf t = true /\ udom en t = true /\ bad gen_cfg en t = true.
Proof.
  exists (UIsNotNull (UBin UEq (UIsNotNull (UCol "p"%string)) (ULit (VBool false)))).
  exists (mkEnv ["a"%string; "b"%string; "s"%string; "t"%string; "p"%string; "q"%string] [VNull; VNull; VNull; (VStr ""%string); VNull; (VBool true)] [("l"%string, [(VInt (10)%Z); (VInt (20)%Z); (VInt (30)%Z)])]).
  vm_compute. repeat split.
Qed.
Corollary C05_full_false_by_isNotNull_operand_of_comparison : ~ C05_full.
Proof. destruct C05_refuted_isNotNull_operand_of_comparison as (t & en & W & D & B). exact (bad_refutes gen_cfg t en W D B). Qed.
Print Assumptions C05_full_false_by_isNotNull_operand_of_comparison.

(* ---- signature: C05/isNotNull-operand-of-eqNullSafe *)
(** col('a').isNotNull().eqNullSafe(col('p'))   emits   NOT "a" IS NULL IS NOT DISTINCT FROM "p" *)
Theorem C05_refuted_isNotNull_operand_of_eqNullSafe : exists t en, uwf t = true /\ udom en t = true /\ bad gen_cfg en t = true.
Proof.
  exists (UNse (UIsNotNull (UCol "a"%string)) (UCol "p"%string)).
  exists (mkEnv ["a"%string; "b"%string; "s"%string; "t"%string; "p"%string; "q"%string] [VNull; VNull; VNull; (VStr ""%string); VNull; (VBool true)] [("l"%string, [(VInt (10)%Z); (VInt (20)%Z); (VInt (30)%Z)])]).
  vm_compute. repeat split.
Qed.
Corollary C05_full_false_by_isNotNull_operand_of_eqNullSafe : ~ C05_full.
Proof. destruct C05_refuted_isNotNull_operand_of_eqNullSafe as (t & en & W & D & B). exact (bad_refutes gen_cfg t en W D B). Qed.
Print Assumptions C05_full_false_by_isNotNull_operand_of_eqNullSafe.

(* ---- signature: C05/isNotNull-operand-of-isNotNull *)
(** col('a').isNotNull().isNotNull()   emits   NOT NOT "a" IS NULL IS NULL *)
Theorem C05_refuted_isNotNull_operand_of_isNotNull : exists t en, uwf t = true /\ udom en t = true /\ bad gen_cfg en t = true.
Proof.
  exists (UIsNotNull (UIsNotNull (UCol "a"%string))).
  exists (mkEnv ["a"%string; "b"%string; "s"%string; "t"%string; "p"%string; "q"%string] [VNull; VNull; VNull; (VStr ""%string); VNull; (VBool true)] [("l"%string, [(VInt (10)%Z); (VInt (20)%Z); (VInt (30)%Z)])]).
  vm_compute. repeat split.
Qed.
Corollary C05_full_false_by_isNotNull_operand_of_isNotNull : ~ C05_full.
Proof. destruct C05_refuted_isNotNull_operand_of_isNotNull as (t & en & W & D & B). exact (bad_refutes gen_cfg t en W D B). Qed.
Print Assumptions C05_full_false_by_isNotNull_operand_of_isNotNull.

(* ---- signature: C05/isNotNull-operand-of-isNull *)
(** col('a').isNotNull().isNull()   emits   NOT "a" IS NULL IS NULL *)
Theorem C05_refuted_isNotNull_operand_of_isNull : exists t en, uwf t = true /\ udom en t = true /\ bad gen_cfg en t = true.
Proof.
  exists (UIsNull (UIsNotNull (UCol "a"%string))).
  exists (mkEnv ["a"%string; "b"%string; "s"%string; "t"%string; "p"%string; "q"%string] [VNull; VNull; VNull; (VStr ""%string); VNull; (VBool true)] [("l"%string, [(VInt (10)%Z); (VInt (20)%Z); (VInt (30)%Z)])]).
  vm_compute. repeat split.
Qed.
Corollary C05_full_false_by_isNotNull_operand_of_isNull : ~ C05_full.
Proof. destruct C05_refuted_isNotNull_operand_of_isNull as (t & en & W & D & B). exact (bad_refutes gen_cfg t en W D B). Qed.
Print Assumptions C05_full_false_by_isNotNull_operand_of_isNull.

(* ---- signature: C05/isNull-operand-of-comparison *)
(** (col('p') == col('a').isNull())   emits   "p" = "a" IS NULL *)
Theorem C05_refuted_isNull_operand_of_comparison : exists t en, uwf t = true /\ udom en t = true /\ bad gen_cfg en t = true.
Proof.
  exists (UBin UEq (UCol "p"%string) (UIsNull (UCol "a"%string))).
  exists (mkEnv ["a"%string; "b"%string; "s"%string; "t"%string; "p"%string; "q"%string] [VNull; VNull; VNull; (VStr ""%string); VNull; (VBool true)] [("l"%string, [(VInt (10)%Z); (VInt (20)%Z); (VInt (30)%Z)])]).
  vm_compute. repeat split.
Qed.
Corollary C05_full_false_by_isNull_operand_of_comparison : ~ C05_full.
Proof. destruct C05_refuted_isNull_operand_of_comparison as (t & en & W & D & B). exact (bad_refutes gen_cfg t en W D B). Qed.
Print Assumptions C05_full_false_by_isNull_operand_of_comparison.

(* ---- signature: C05/isNull-operand-of-eqNullSafe *)
(** col('p').eqNullSafe(col('a').isNull())   emits   "p" IS NOT DISTINCT FROM "a" IS NULL *)
Theorem C05_refuted_isNull_operand_of_eqNullSafe : exists t en, uwf t = true /\ udom en t = true /\ bad gen_cfg en t = true.
Proof.
  exists (UNse (UCol "p"%string) (UIsNull (UCol "a"%string))).
  exists (mkEnv ["a"%string; "b"%string; "s"%string; "t"%string; "p"%string; "q"%string] [VNull; VNull; VNull; (VStr ""%string); VNull; (VBool true)] [("l"%string, [(VInt (10)%Z); (VInt (20)%Z); (VInt (30)%Z)])]).
  vm_compute. repeat split.
Qed.
Corollary C05_full_false_by_isNull_operand_of_eqNullSafe : ~ C05_full.
Proof. destruct C05_refuted_isNull_operand_of_eqNullSafe as (t & en & W & D & B). exact (bad_refutes gen_cfg t en W D B). Qed.
Print Assumptions C05_full_false_by_isNull_operand_of_eqNullSafe.

(* ---- signature: C05/like-operand-of-isin *)
(** col('s').like('a%').isin(True)   emits   "s" LIKE 'a%' IN (TRUE) *)
Theorem C05_refuted_like_operand_of_isin : exists t en, uwf t = true /\ udom en t = true /\ bad gen_cfg en t = true.
Proof.
  exists (UIsin (ULike (UCol "s"%string) "a%"%string) [(VBool true)]).
  exists (mkEnv ["a"%string; "b"%string; "s"%string; "t"%string; "p"%string; "q"%string] [VNull; VNull; VNull; (VStr ""%string); VNull; (VBool true)] [("l"%string, [(VInt (10)%Z); (VInt (20)%Z); (VInt (30)%Z)])]).
  vm_compute. repeat split.
Qed.
Corollary C05_full_false_by_like_operand_of_isin : ~ C05_full.
Proof. destruct C05_refuted_like_operand_of_isin as (t & en & W & D & B). exact (bad_refutes gen_cfg t en W D B). Qed.
Print Assumptions C05_full_false_by_like_operand_of_isin.

(* ---- signature: C05/not-operand-of-comparison *)
(** ((~col('q')) == lit(False)).isNull()   emits   NOT ("q") = FALSE IS NULL *)
Theorem C05_refuted_not_operand_of_comparison : exists t en, uwf t = true /\ udom en t = true /\ bad gen_cfg en t = true.
Proof.
  exists (UIsNull (UBin UEq (UNot (UCol "q"%string)) (ULit (VBool false)))).
  exists (mkEnv ["a"%string; "b"%string; "s"%string; "t"%string; "p"%string; "q"%string] [VNull; VNull; VNull; (VStr ""%string); VNull; (VBool true)] [("l"%string, [(VInt (10)%Z); (VInt (20)%Z); (VInt (30)%Z)])]).
  vm_compute. repeat split.
Qed.
Corollary C05_full_false_by_not_operand_of_comparison : ~ C05_full.
Proof. destruct C05_refuted_not_operand_of_comparison as (t & en & W & D & B). exact (bad_refutes gen_cfg t en W D B). Qed.
Print Assumptions C05_full_false_by_not_operand_of_comparison.

(* ---- signature: C05/not-operand-of-eqNullSafe *)
(** (~col('p')).eqNullSafe(col('p'))   emits   NOT ("p") IS NOT DISTINCT FROM "p" *)
Theorem C05_refuted_not_operand_of_eqNullSafe : exists t en, uwf t = true /\ udom en t = true /\ bad gen_cfg en t = true.
Proof.
  exists (UNse (UNot (UCol "p"%string)) (UCol "p"%string)).
  exists (mkEnv ["a"%string; "b"%string; "s"%string; "t"%string; "p"%string; "q"%string] [VNull; VNull; VNull; (VStr ""%string); VNull; (VBool true)] [("l"%string, [(VInt (10)%Z); (VInt (20)%Z); (VInt (30)%Z)])]).
  vm_compute. repeat split.
Qed.
Corollary C05_full_false_by_not_operand_of_eqNullSafe : ~ C05_full.
Proof. destruct C05_refuted_not_operand_of_eqNullSafe as (t & en & W & D & B). exact (bad_refutes gen_cfg t en W D B). Qed.
Print Assumptions C05_full_false_by_not_operand_of_eqNullSafe.

(* ---- signature: C05/not-operand-of-isNotNull *)
(** (~col('p')).isNotNull()   emits   NOT NOT ("p") IS NULL *)
Theorem C05_refuted_not_operand_of_isNotNull : exists t en, uwf t = true /\ udom en t = true /\ bad gen_cfg en t = true.
Proof.
  exists (UIsNotNull (UNot (UCol "p"%string))).
  exists (mkEnv ["a"%string; "b"%string; "s"%string; "t"%string; "p"%string; "q"%string] [VNull; VNull; VNull; (VStr ""%string); VNull; (VBool true)] [("l"%string, [(VInt (10)%Z); (VInt (20)%Z); (VInt (30)%Z)])]).
  vm_compute. repeat split.
Qed.
Corollary C05_full_false_by_not_operand_of_isNotNull : ~ C05_full.
Proof. destruct C05_refuted_not_operand_of_isNotNull as (t & en & W & D & B). exact (bad_refutes gen_cfg t en W D B). Qed.
Print Assumptions C05_full_false_by_not_operand_of_isNotNull.

(* ---- signature: C05/not-operand-of-isNull *)
(** (~col('p')).isNull()   emits   NOT ("p") IS NULL *)
Theorem C05_refuted_not_operand_of_isNull : exists t en, uwf t = true /\ udom en t = true /\ bad gen_cfg en t = true.
Proof.
  exists (UIsNull (UNot (UCol "p"%string))).
  exists (mkEnv ["a"%string; "b"%string; "s"%string; "t"%string; "p"%string; "q"%string] [VNull; VNull; VNull; (VStr ""%string); VNull; (VBool true)] [("l"%string, [(VInt (10)%Z); (VInt (20)%Z); (VInt (30)%Z)])]).
  vm_compute. repeat split.
Qed.
Corollary C05_full_false_by_not_operand_of_isNull : ~ C05_full.
Proof. destruct C05_refuted_not_operand_of_isNull as (t & en & W & D & B). exact (bad_refutes gen_cfg t en W D B). Qed.
Print Assumptions C05_full_false_by_not_operand_of_isNull.
