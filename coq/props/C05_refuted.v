(** C05 -- refutation witnesses: for each known finding that the model can express, a concrete tree and row on
    which the faithful model of the CURRENT source violates the full statement ([bad] = rejected by the grammar,
    unknown function, or a value other than PySpark's), and the corollary that C05_full is false.
    Generated from findings/C05-*.json; compiled chunk by chunk by checks/c05.py. *)
From SF Require Import C05.Main.
From Gen Require Import C05Facts.
Open Scope string_scope.
Definition C05_full : Prop := full_for gen_cfg.

(* ---- signature: C05/getItem-column-index-not-offset *)
(** col('l').getItem(col('a'))   emits   "l"["a"] *)
Theorem C05_refuted_getItem_column_index_not_offset : exists t en, uwf t = true /\ udom en t = true /\ bad gen_cfg en t = true.
Proof.
  exists (UGetItemCol (UCol "l"%string) (UCol "a"%string)).
  exists (mkEnv ["a"%string; "b"%string; "s"%string; "t"%string; "p"%string; "q"%string] [(VInt (0)%Z); (VInt (1)%Z); (VStr ""%string); VNull; (VBool false); VNull] [("l"%string, [(VInt (7)%Z)])]).
  vm_compute. repeat split.
Qed.
Corollary C05_full_false_by_getItem_column_index_not_offset : ~ C05_full.
Proof. destruct C05_refuted_getItem_column_index_not_offset as (t & en & W & D & B). exact (bad_refutes gen_cfg t en W D B). Qed.
Print Assumptions C05_full_false_by_getItem_column_index_not_offset.

