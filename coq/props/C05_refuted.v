(** C05 -- refutation witnesses: for each known finding that the model can express, a concrete tree and row on
    which the faithful model of the CURRENT source violates the full statement ([bad] = rejected by the grammar,
    unknown function, or a value other than PySpark's), and the corollary that C05_full is false.
    Generated from findings/C05-*.json; compiled chunk by chunk by checks/c05.py. *)
From SF Require Import C05.Main.
From Gen Require Import C05Facts.
Open Scope string_scope.
Definition C05_full : Prop := full_for gen_cfg.

(* ---- signature: C05/getItem-column-index-not-offset *)
(** col('l').getItem(col('a'))   emits   "l"["a"] *)
Theorem C05_refuted_getItem_column_index_not_offset : exists t en, uwf t = true /\ udom en t = true /\ bad gen_cfg en t = true.
Proof.
  exists (UGetItemCol (UCol "l"%string) (UCol "a"%string)).
  exists (mkEnv ["a"%string; "b"%string; "s"%string; "t"%string; "p"%string; "q"%string] [(VInt (0)%Z); (VInt (1)%Z); (VStr ""%string); VNull; (VBool false); VNull] [("l"%string, [(VInt (7)%Z)])]).
  vm_compute. repeat split.
Qed.
Corollary C05_full_false_by_getItem_column_index_not_offset : ~ C05_full.
Proof. destruct C05_refuted_getItem_column_index_not_offset as (t & en & W & D & B). exact (bad_refutes gen_cfg t en W D B). Qed.
Print Assumptions C05_full_false_by_getItem_column_index_not_offset.


(* ---- signature: C05/cast-fraction-to-integer-rounds *)
(** col('d').cast('int')   emits   CAST("d" AS INT) *)
Theorem C05_refuted_cast_fraction_to_integer_rounds : exists t en, uwf t = true /\ udom en t = true /\ bad gen_cfg en t = true.
Proof.
  exists (UCast (UCol "d"%string) "INT"%string).
  exists (mkEnv ["a"%string; "b"%string; "s"%string; "t"%string; "p"%string; "q"%string; "d"%string] [VNull; (VInt (-1)%Z); VNull; VNull; (VBool false); (VBool true); (VRat (7)%Z 4%positive)] [("l"%string, [(VInt (7)%Z)])]).
  vm_compute. repeat split.
Qed.
Corollary C05_full_false_by_cast_fraction_to_integer_rounds : ~ C05_full.
Proof. destruct C05_refuted_cast_fraction_to_integer_rounds as (t & en & W & D & B). exact (bad_refutes gen_cfg t en W D B). Qed.
Print Assumptions C05_full_false_by_cast_fraction_to_integer_rounds.

(* ---- signature: C05/substr-negative-start-before-string *)
(** col('s').substr(-3, 1)   emits   SUBSTRING("s", -3, 1) *)
Theorem C05_refuted_substr_negative_start_before_string : exists t en, uwf t = true /\ udom en t = true /\ bad gen_cfg en t = true.
Proof.
  exists (USubstr (UCol "s"%string) (UPy (VInt (-3)%Z)) (UPy (VInt (1)%Z))).
  exists (mkEnv ["a"%string; "b"%string; "s"%string; "t"%string; "p"%string; "q"%string; "d"%string] [VNull; (VInt (1)%Z); (VStr "a"%string); (VStr "ab"%string); (VBool true); (VBool false); VNull] [("l"%string, [])]).
  vm_compute. repeat split.
Qed.
Corollary C05_full_false_by_substr_negative_start_before_string : ~ C05_full.
Proof. destruct C05_refuted_substr_negative_start_before_string as (t & en & W & D & B). exact (bad_refutes gen_cfg t en W D B). Qed.
Print Assumptions C05_full_false_by_substr_negative_start_before_string.

(* ---- signature: C05/substr-start-zero *)
(** col('s').substr(0, 2)   emits   SUBSTRING("s", 0, 2) *)
Theorem C05_refuted_substr_start_zero : exists t en, uwf t = true /\ udom en t = true /\ bad gen_cfg en t = true.
Proof.
  exists (USubstr (UCol "s"%string) (UPy (VInt (0)%Z)) (UPy (VInt (2)%Z))).
  exists (mkEnv ["a"%string; "b"%string; "s"%string; "t"%string; "p"%string; "q"%string; "d"%string] [(VInt (0)%Z); (VInt (0)%Z); (VStr "ab"%string); (VStr "ab"%string); (VBool true); (VBool true); (VRat (0)%Z 1%positive)] [("l"%string, [])]).
  vm_compute. repeat split.
Qed.
Corollary C05_full_false_by_substr_start_zero : ~ C05_full.
Proof. destruct C05_refuted_substr_start_zero as (t & en & W & D & B). exact (bad_refutes gen_cfg t en W D B). Qed.
Print Assumptions C05_full_false_by_substr_start_zero.
