(** C01 -- property file.  Contains only: the full statement, the proved statement (closed by [exact]),
    the instantiation obligations on the facts regenerated from /repo, a non-vacuity example,
    and Print Assumptions. *)
From SF Require Import Model.Chain Model.ChainProof Model.ChainOrder Model.ChainG Model.ChainExt Model.ChainExtProof Model.ChainStages Model.ChainCheckX.
From Coq Require Import Permutation Sorting.Sorted.
From Gen Require Import C01Facts.
Open Scope Z_scope.

(** instantiation obligations (re-checked against /repo's current source on every run) *)
Lemma gen_cfg_ok : cfg_ok gen_cfg = true.
Proof. vm_compute. reflexivity. Qed.

Lemma gen_limit_ok : limit_ok gen_cfg.
Proof. intros a b Ha Hb. unfold gen_cfg, C01Facts.limit_merge; cbn [Chain.limit_merge]. lia. Qed.

(** orderBy replaces an ORDER BY already present in the open block (fixed defect; see known_findings) *)
Lemma gen_order_replaces : order_append = false.
Proof. reflexivity. Qed.

Lemma gen_new_kind_is_model :
  forallb (fun o => forallb (fun l =>
     opk_eqb (new_kind_df o l) (if opk_eqb o NO_OP then l else o) &&
     opk_eqb (new_kind_group o l) (if opk_eqb o NO_OP then l else o)) all_opk) all_opk = true.
Proof. vm_compute. reflexivity. Qed.

Lemma gen_select_replaces : select_append_default = false.
Proof. reflexivity. Qed.

(** the property at full strength: every operation list, every input frame *)
Definition C01_full : Prop :=
  forall ops input, wf_frame input -> NoDup (cols input) ->
    eval_df (compile gen_cfg ops (init_df (cols input))) input = spec_run ops input.

(** what is proved: the same statement on the decidable domain [ops_ok] (select lists with distinct
    output names; ORDER BY keys that are output names, or expressions over a pass-through block;
    no orderBy written into a block that already has an ORDER BY) *)
Theorem C01_partial :
  forall ops input, wf_frame input -> NoDup (cols input) ->
    ops_ok gen_cfg (init_df (cols input)) (cols input) ops = true ->
    eval_df (compile gen_cfg ops (init_df (cols input))) input = spec_run ops input.
Proof. exact (chain_from_input gen_cfg gen_cfg_ok gen_limit_ok). Qed.
Print Assumptions C01_partial.

(** the excluded case, orderBy written into a block that already has an ORDER BY (orderBy directly after
    orderBy): the result has Spark's columns, is a permutation of Spark's rows and is sorted by the new keys *)
Theorem C01_orderBy_after_orderBy : forall b S ks,
  b_limit b = None -> wf_frame S -> NoDup (cols S) ->
  forallb (key_ok (is_simple b (cols S)) (out_cols (b_sel b))) ks = true ->
  let R := eval_block (body gen_cfg (OOrderBy ks) b) S in
  let P := eval_block b S in
  cols R = cols P /\
  Permutation (rows R) (rows (spec_step (OOrderBy ks) P)) /\
  LocallySorted (le_rows (cols R) ks) (rows R).
Proof. exact (orderby_replaces gen_cfg gen_order_replaces). Qed.
Print Assumptions C01_orderBy_after_orderBy.

(** dropna's emulation (count the NULLs, keep rows below the minimum) is PySpark's how/thresh/subset rule *)
Theorem C01_dropna_emulation : forall cs r how thresh chk,
  holds cs r (EBin Lt (num_nulls_expr chk) (ELit (VInt (min_num_nulls how thresh (Z.of_nat (List.length chk))))))
  = dropna_keep cs how thresh chk r.
Proof. exact dropna_emulation_ok. Qed.
Print Assumptions C01_dropna_emulation.

(** fillna / replace write a CASE projection and toDF re-aliases the open SELECT: their decorators must claim at
    least SELECT; dropna may carry any kind the clause-ordering table knows.  One instantiation obligation on the
    generated decorator table; it fails for fillna/replace tagged Operation.FROM and for an undecorated toDF, the
    defects repaired in /repo. *)
Lemma gen_fillna_kind : deco_of decorator_table "fillna" = Some SELECT /\ deco_of decorator_table "replace" = Some SELECT.
Proof. split; vm_compute; reflexivity. Qed.
Lemma gen_composite_ok : composite_ok gen_cfg SELECT = true.
Proof. vm_compute. reflexivity. Qed.
Lemma gen_deco_ok : deco_ok gen_cfg (deco_of decorator_table) = true.
Proof. vm_compute. reflexivity. Qed.

(** the invariant of the wide theorems is [GInvR] (ChainG): [Chain.Inv] weakened so that the open block may read a
    source with hidden columns (what dropna leaves behind); every state with the original invariant has it *)
Lemma C01_inv_is_ginv : forall d ics, InvR gen_cfg d ics -> GInvR gen_cfg d ics.
Proof. exact (invr_ginvr gen_cfg). Qed.

Theorem C01_fillna : forall d ics input kvs,
  cols input = ics -> wf_frame input -> GInvR gen_cfg d ics ->
  exists d', step_x gen_cfg (deco_of decorator_table) d (XFillna kvs) = Some d' /\
             eval_df d' input = spec_x (XFillna kvs) (eval_df d input) /\ GInvR gen_cfg d' ics.
Proof.
  intros. exact (fillna_correct gen_cfg gen_cfg_ok gen_limit_ok (deco_of decorator_table) SELECT d ics input kvs
                   (proj1 gen_fillna_kind) gen_composite_ok H H0 H1).
Qed.
Print Assumptions C01_fillna.

Theorem C01_replace : forall d ics input tgt ps,
  cols input = ics -> wf_frame input -> GInvR gen_cfg d ics ->
  exists d', step_x gen_cfg (deco_of decorator_table) d (XReplace tgt ps) = Some d' /\
             eval_df d' input = spec_x (XReplace tgt ps) (eval_df d input) /\ GInvR gen_cfg d' ics.
Proof.
  intros. exact (replace_correct gen_cfg gen_cfg_ok gen_limit_ok (deco_of decorator_table) SELECT d ics input tgt ps
                   (proj2 gen_fillna_kind) gen_composite_ok H H0 H1).
Qed.
Print Assumptions C01_replace.

(** toDF(names) at any position of a chain: same rows, new names (as many distinct names as there are columns) *)
Lemma gen_toDF_kind : deco_of decorator_table "toDF" = Some SELECT.
Proof. vm_compute. reflexivity. Qed.
Theorem C01_toDF : forall d ics input ns,
  List.length ns = List.length (cur_cols d) -> NoDup ns ->
  cols input = ics -> wf_frame input -> GInvR gen_cfg d ics ->
  exists d', step_x gen_cfg (deco_of decorator_table) d (XToDF ns) = Some d' /\
             eval_df d' input = spec_x (XToDF ns) (eval_df d input) /\ GInvR gen_cfg d' ics.
Proof.
  intros. exact (toDF_correct gen_cfg (deco_of decorator_table) SELECT d ics input ns
                   gen_toDF_kind gen_composite_ok H H0 H1 H2 H3).
Qed.
Print Assumptions C01_toDF.

(** dropna(how, thresh, subset) at any position of a chain: the three blocks it compiles to (append the NULL count
    under a helper name that is not a current column; WHERE helper < k over a fresh block; SELECT the original
    columns) evaluate to PySpark's dropna for every how / thresh (also thresh <= 0: every row is kept) / subset of
    current columns *)
Lemma gen_dropna_kind : deco_of decorator_table "dropna" = Some FROM.
Proof. vm_compute. reflexivity. Qed.
Lemma gen_dropna_kind_ok : kind_reach_ok gen_cfg FROM = true.
Proof. vm_compute. reflexivity. Qed.
Theorem C01_dropna : forall d ics input how thresh subset,
  incl subset (cur_cols d) ->
  cols input = ics -> wf_frame input -> GInvR gen_cfg d ics ->
  exists d', step_x gen_cfg (deco_of decorator_table) d (XDropna how thresh subset) = Some d' /\
             eval_df d' input = spec_x (XDropna how thresh subset) (eval_df d input) /\ GInvR gen_cfg d' ics.
Proof.
  intros. exact (dropna_correct gen_cfg gen_cfg_ok gen_limit_ok (deco_of decorator_table) FROM d ics input how thresh subset
                   gen_dropna_kind gen_dropna_kind_ok H H0 H1 H2).
Qed.
Print Assumptions C01_dropna.
(** the helper columns of dropna (num_nulls) and dropDuplicates (row_num) get a name that no current column has
    (underscores are appended until the name is unused): formerly a side condition of the domain, now a fact *)
Theorem C01_helper_name_is_unused : forall base used, ~ In (fresh_name base used) used.
Proof. exact fresh_not_in. Qed.
Print Assumptions C01_helper_name_is_unused.

(** the state dropna leaves behind still reads the helper column: a where/select written into that block must not
    mention it ([hf_ok], part of [xs_ok]); the condition is vacuous wherever the original invariant holds *)
Theorem C01_hidden_condition_vacuous : forall d ics o, InvR gen_cfg d ics -> hf_ok gen_cfg d ics o = true.
Proof. exact (hf_ok_clean gen_cfg gen_cfg_ok). Qed.
Print Assumptions C01_hidden_condition_vacuous.

(** every list over the widened alphabet: core operations, withColumn/withColumnRenamed/drop, fillna, replace,
    toDF and dropna, in any order, on the decidable domain [xs_ok] *)
Theorem C01_partial_wide : forall xs input,
  wf_frame input -> NoDup (cols input) ->
  xs_ok gen_cfg (deco_of decorator_table) (init_df (cols input)) (cols input) xs = true ->
  exists d', run_x gen_cfg (deco_of decorator_table) (init_df (cols input)) xs = Some d' /\
             eval_df d' input = spec_xrun xs input.
Proof.
  intros xs input Hwf Hnd Hok.
  destruct (xchain_correct gen_cfg gen_cfg_ok gen_limit_ok (deco_of decorator_table) xs
              (init_df (cols input)) (cols input) input gen_deco_ok
              eq_refl Hwf (invr_ginvr gen_cfg _ _ (init_inv gen_cfg (cols input) Hnd)) Hok) as (d' & Hr & He).
  exists d'. split; [exact Hr|]. rewrite He. rewrite eval_init; auto.
Qed.
Print Assumptions C01_partial_wide.

Example C01_wide_domain_nonempty :
  xs_ok gen_cfg (deco_of decorator_table) (init_df ["a"; "b"]%string) ["a"; "b"]%string
    [XFillna [("a"%string, VInt 0)]; XCore (UOp (OWhere (EBin Eq (ECol "a") (ELit (VInt 0)))));
     XReplace ["b"%string] [(VInt 1, VInt 7)]; XCore (UWithColumn "c" (EBin Add (ECol "a") (ECol "b")));
     XCore (UOp (OOrderBy [mkKey (ECol "c") false true])); XCore (UDrop ["a"%string]); XCore (UOp (OLimit 2))] = true.
Proof. vm_compute. reflexivity. Qed.

(** chains with dropna and toDF at several positions, including dropna directly followed by where / fillna /
    dropna / distinct (all written into the block that still reads num_nulls) *)
Example C01_wide_domain_dropna_toDF :
  xs_ok gen_cfg (deco_of decorator_table) (init_df ["a"; "b"; "s"]%string) ["a"; "b"; "s"]%string
    [XCore (UOp (OWhere (EBin Gt (ECol "b") (ELit (VInt 0)))));
     XDropna true None ["a"; "s"]%string;
     XToDF ["x"; "y"; "z"]%string;
     XCore (UOp (OOrderBy [mkKey (ECol "y") true false; mkKey (ECol "x") false true]));
     XCore (UOp (OLimit 3));
     XDropna false (Some 2) [];
     XCore (UOp (OWhere (EIsNull (ECol "z"))));
     XFillna [("z"%string, VStr "q")];
     XDropna false None ["x"%string];
     XDropna true None [];
     XCore (UOp ODistinct);
     XToDF ["num_nulls"; "b"; "c"]%string;
     XCore (URename "num_nulls" "a")] = true.
Proof. vm_compute. reflexivity. Qed.

(** dropna on a frame that has a column called num_nulls (and dropDuplicates on one with row_num) is inside the domain
    since the helper names are chosen fresh (fixed findings C01/dropna-on-frame-with-column-named-num_nulls,
    C01/dropDuplicates-on-frame-with-column-named-row_num); still outside: mentioning dropna's hidden helper column in
    the where that directly follows it (PySpark raises AnalysisException there) *)
Example C01_wide_domain_helper_names :
  xs_ok gen_cfg (deco_of decorator_table) (init_df ["num_nulls"; "b"]%string) ["num_nulls"; "b"]%string
    [XDropna true None []; XDropna false (Some 0) ["b"%string]] = true /\
  xs_ok gen_cfg (deco_of decorator_table) (init_df ["a"; "b"]%string) ["a"; "b"]%string
    [XDropna true None []; XCore (UOp (OWhere (EBin Eq (ECol "num_nulls") (ELit (VInt 0)))))] = false.
Proof. split; vm_compute; reflexivity. Qed.

(** * The whole alphabet: + groupBy().agg() as a step, unpivot, dropDuplicates(subset)
    The compiled form is a list of stages (SELECT blocks, GROUP BY, UNION ALL, ROW_NUMBER) + an open C01 state. *)
Definition gen_g : gcfg := mkGcfg wrap_needed_group init_wraps_group group_agg_kind order_flag_desc order_flag_nulls_first.

(** instantiation obligations on the generated facts: group_operation's wrapper and GroupedData.agg's decorator
    leave a block GROUP BY can be written into (wrapped, or tagged below SELECT) and tag the result >= SELECT's
    rank in the table; unpivot / dropDuplicates carry a kind the clause-ordering table knows *)
Lemma gen_deco_ok_y : deco_ok_y gen_cfg gen_g (deco_of decorator_table) = true.
Proof. vm_compute. reflexivity. Qed.
(** every way of asking orderBy for a direction yields Spark's term: a sort column with an `ascending` flag (also the
    default, and bare names) becomes DESC iff the flag is false, with NULLS FIRST iff ascending; the Column methods carry
    the flags their names say (asc = ASC NULLS FIRST, desc = DESC NULLS LAST, ...) *)
Lemma gen_order_flags_are_sparks : forall asc, order_flag_desc asc = negb asc /\ order_flag_nulls_first asc = asc.
Proof. intros [|]; split; vm_compute; reflexivity. Qed.
Lemma gen_order_default_ascending : order_default_asc = true.
Proof. reflexivity. Qed.
Lemma gen_column_order_methods :
  column_order_methods =
  [("asc", (false, true)); ("asc_nulls_first", (false, true)); ("asc_nulls_last", (false, false));
   ("desc", (true, false)); ("desc_nulls_first", (true, true)); ("desc_nulls_last", (true, false))]%string.
Proof. reflexivity. Qed.

Lemma gen_group_wrapper_is_df_wrapper :
  forallb (fun l => forallb (fun n => Bool.eqb (wrap_needed_group l n) (wrap_needed_df l n)) all_opk) all_opk = true
  /\ init_wraps_group = init_wraps_df.
Proof. split; vm_compute; reflexivity. Qed.

(** the GROUP BY stage (distinct keys in first-occurrence order, members by filter, NULL an ordinary key, one group
    when there is no key) is PySpark's groupBy(keys).agg(aggs) on every frame *)
Theorem C01_agg_stage : forall keys aggs F, eval_group [] keys aggs F = spec_agg keys aggs F.
Proof. exact eval_group_spec. Qed.
Print Assumptions C01_agg_stage.

(** the UNION ALL of one projection per value column is unpivot's result branch after branch: same columns as
    PySpark's and a permutation of its (row-major) rows *)
Theorem C01_unpivot_stage : forall ids vals var vl F, vals <> [] ->
  eval_union (unpivot_parts ids vals var vl) F = unpivot_cm ids vals var vl F /\
  cols (unpivot_cm ids vals var vl F) = cols (spec_x (XUnpivot ids vals var vl) F) /\
  Permutation (rows (unpivot_cm ids vals var vl F)) (rows (spec_x (XUnpivot ids vals var vl) F)).
Proof. intros. split; [apply eval_union_unpivot; assumption | apply unpivot_perm]. Qed.
Print Assumptions C01_unpivot_stage.

(** ROW_NUMBER() OVER (PARTITION BY subset ORDER BY subset) = 1: whichever row of each partition the engine numbers
    1, the rows kept are taken from the input, have pairwise distinct keys, and every key of the input is kept *)
Theorem C01_dropDuplicates_any_pick : forall kf R ns, numbering_ok kf R ns ->
  (forall r, In r (picked R ns) -> In r R) /\ NoDup (map kf (picked R ns)) /\
  (forall r, In r R -> In (kf r) (map kf (picked R ns))).
Proof. exact window_pick_valid. Qed.
Print Assumptions C01_dropDuplicates_any_pick.
(** ... and the numbering the model uses (input order within a partition) is one such numbering *)
Theorem C01_row_number_representative : forall kf R, numbering_ok kf R (rownums kf [] R).
Proof. exact rownums_numbering_ok. Qed.
Print Assumptions C01_row_number_representative.
Example C01_numbering_ok_other_pick :
  numbering_ok (fun r => firstn 1 r) [[VInt 1; VInt 10]; [VInt 1; VInt 20]; [VNull; VInt 30]] [2; 1; 1].
Proof. split; [reflexivity|]. intros k [<-|[<-|[<-|[]]]]; reflexivity. Qed.

(** every list over ALL operation kinds of the property, every input frame, on the decidable domain [ys_ok]:
    the compiled stages evaluate to the sequential reference [ref_xrun] (= PySpark's meaning step by step, with
    first-occurrence representatives for group order and dropDuplicates' survivor and the branch-major
    representative of unpivot, see [ref_x_perm]) *)
Theorem C01_partial_all : forall xs input,
  wf_frame input -> NoDup (cols input) ->
  ys_ok gen_cfg gen_g (deco_of decorator_table) (init_y (cols input)) xs = true ->
  exists Y, run_y gen_cfg gen_g (deco_of decorator_table) (init_y (cols input)) xs = Some Y /\
            eval_stages (all_stages Y) input = ref_xrun xs input.
Proof.
  intros xs input Hwf Hnd Hok.
  destruct (ychain_correct gen_cfg gen_cfg_ok gen_limit_ok gen_g (deco_of decorator_table) xs
              (init_y (cols input)) input gen_deco_ok_y (init_yinv gen_cfg input Hwf Hnd) Hok) as (Y & Hr & He).
  exists Y. split; [exact Hr|]. rewrite all_stages_eval, He.
  unfold eval_y, init_y. cbn [y_d y_pre eval_stages fold_left]. rewrite eval_init; auto.
Qed.
Print Assumptions C01_partial_all.

Theorem C01_reference_is_spark_up_to_row_order : forall x fr,
  cols (ref_x x fr) = cols (spec_x x fr) /\ Permutation (rows (ref_x x fr)) (rows (spec_x x fr)).
Proof. exact ref_x_perm. Qed.
Print Assumptions C01_reference_is_spark_up_to_row_order.

Example C01_all_domain_nonempty :
  ys_ok gen_cfg gen_g (deco_of decorator_table) (init_y ["a"; "b"; "s"]%string)
    [XCore (UOp (OWhere (EBin Gt (ECol "b") (ELit (VInt 0)))));
     XDropna true None ["a"; "s"]%string;
     XDropDup ["s"%string];
     XToDF ["x"; "row_num"; "z"]%string;
     XDropDup ["row_num"; "z"]%string;
     XToDF ["x"; "y"; "z"]%string;
     XUnpivot ["z"%string] ["x"; "y"]%string "var"%string "val"%string;
     XCore (UOp (OWhere (ENot (EIsNull (ECol "val")))));
     XAgg ["z"; "var"]%string [((ASum, "val"%string), "g0"%string); ((ACountStar, "*"%string), "g1"%string)];
     XOrderFlags [("g0"%string, false); ("z"%string, true)];
     XCore (UOp (OLimit 3));
     XAgg [] [((AMax, "g1"%string), "m"%string)];
     XFillna [("m"%string, VInt 0)]] = true.
Proof. vm_compute. reflexivity. Qed.

(** and what the example program computes on a small frame with NULLs and duplicates *)
Example C01_all_example_runs :
  match run_y gen_cfg gen_g (deco_of decorator_table) (init_y ["a"; "b"; "s"]%string)
          [XDropDup ["s"%string]; XUnpivot ["s"%string] ["a"; "b"]%string "var"%string "val"%string;
           XAgg ["var"%string] [((ACount, "val"%string), "n"%string)]] with
  | Some Y => rows (eval_stages (all_stages Y)
                      (mkFrame ["a"; "b"; "s"]%string
                               [[VInt 1; VInt 2; VStr "x"]; [VNull; VInt 3; VStr "x"]; [VInt 1; VNull; VNull]]))
  | None => []
  end = [[VStr "a"; VInt 2]; [VStr "b"; VInt 1]].
Proof. vm_compute. reflexivity. Qed.

(** the domain is inhabited by a program that exercises every wrap decision *)
Example C01_domain_nonempty :
  ops_ok gen_cfg (init_df ["a"; "b"]%string) ["a"; "b"]%string
    [OWhere (EBin Gt (ECol "a") (ELit (VInt 0)));
     OSelect [(EBin Add (ECol "a") (ELit (VInt 1)), "a"%string); (ECol "b", "b"%string)];
     OWhere (EIsNull (ECol "b")); ODistinct;
     OOrderBy [mkKey (ECol "a") true false]; OLimit 3; OLimit 5;
     OSelect [(ECol "b", "b"%string)]; OOrderBy [mkKey (ECol "b") false true];
     OWhere (EBin Lt (ECol "b") (ELit (VInt 9)));
     OOrderBy [mkKey (EBin Mul (ECol "b") (ELit (VInt 2))) false true]]
  = true.
Proof. vm_compute. reflexivity. Qed.
