(** C01 -- property file.  Contains only: the full statement, the proved statement (closed by [exact]),
    the instantiation obligations on the facts regenerated from /repo, a non-vacuity example,
    and Print Assumptions. *)
From SF Require Import Model.Chain Model.ChainProof Model.ChainOrder Model.ChainExt Model.ChainExtProof Model.ChainCheckX.
From Coq Require Import Permutation Sorting.Sorted.
From Gen Require Import C01Facts.
Open Scope Z_scope.

(** instantiation obligations (re-checked against /repo's current source on every run) *)
Lemma gen_cfg_ok : cfg_ok gen_cfg = true.
Proof. vm_compute. reflexivity. Qed.

Lemma gen_limit_ok : limit_ok gen_cfg.
Proof. intros a b Ha Hb. unfold gen_cfg, C01Facts.limit_merge; cbn [Chain.limit_merge]. lia. Qed.

(** orderBy replaces an ORDER BY already present in the open block (fixed defect; see known_findings) *)
Lemma gen_order_replaces : order_append = false.
Proof. reflexivity. Qed.

Lemma gen_new_kind_is_model :
  forallb (fun o => forallb (fun l =>
     opk_eqb (new_kind_df o l) (if opk_eqb o NO_OP then l else o) &&
     opk_eqb (new_kind_group o l) (if opk_eqb o NO_OP then l else o)) all_opk) all_opk = true.
Proof. vm_compute. reflexivity. Qed.

Lemma gen_select_replaces : select_append_default = false.
Proof. reflexivity. Qed.

(** the property at full strength: every operation list, every input frame *)
Definition C01_full : Prop :=
  forall ops input, wf_frame input -> NoDup (cols input) ->
    eval_df (compile gen_cfg ops (init_df (cols input))) input = spec_run ops input.

(** what is proved: the same statement on the decidable domain [ops_ok] (select lists with distinct
    output names; ORDER BY keys that are output names, or expressions over a pass-through block;
    no orderBy written into a block that already has an ORDER BY) *)
Theorem C01_partial :
  forall ops input, wf_frame input -> NoDup (cols input) ->
    ops_ok gen_cfg (init_df (cols input)) (cols input) ops = true ->
    eval_df (compile gen_cfg ops (init_df (cols input))) input = spec_run ops input.
Proof. exact (chain_from_input gen_cfg gen_cfg_ok gen_limit_ok). Qed.
Print Assumptions C01_partial.

(** the excluded case, orderBy written into a block that already has an ORDER BY (orderBy directly after
    orderBy): the result has Spark's columns, is a permutation of Spark's rows and is sorted by the new keys *)
Theorem C01_orderBy_after_orderBy : forall b S ks,
  b_limit b = None -> wf_frame S -> NoDup (cols S) ->
  forallb (key_ok (is_simple b (cols S)) (out_cols (b_sel b))) ks = true ->
  let R := eval_block (body gen_cfg (OOrderBy ks) b) S in
  let P := eval_block b S in
  cols R = cols P /\
  Permutation (rows R) (rows (spec_step (OOrderBy ks) P)) /\
  LocallySorted (le_rows (cols R) ks) (rows R).
Proof. exact (orderby_replaces gen_cfg gen_order_replaces). Qed.
Print Assumptions C01_orderBy_after_orderBy.

(** dropna's emulation (count the NULLs, keep rows below the minimum) is PySpark's how/thresh/subset rule *)
Theorem C01_dropna_emulation : forall cs r how thresh chk,
  holds cs r (EBin Lt (num_nulls_expr chk) (ELit (VInt (min_num_nulls how thresh (Z.of_nat (List.length chk))))))
  = dropna_keep cs how thresh chk r.
Proof. exact dropna_emulation_ok. Qed.
Print Assumptions C01_dropna_emulation.

(** fillna / replace write a CASE projection: their decorator must claim at least SELECT (instantiation
    obligation on the generated decorator table; it fails for Operation.FROM, the defect repaired in /repo) *)
Lemma gen_fillna_kind : deco_of decorator_table "fillna" = Some SELECT /\ deco_of decorator_table "replace" = Some SELECT.
Proof. split; vm_compute; reflexivity. Qed.
Lemma gen_composite_ok : composite_ok gen_cfg SELECT = true.
Proof. vm_compute. reflexivity. Qed.

Theorem C01_fillna : forall d ics input kvs,
  cols input = ics -> wf_frame input -> InvR gen_cfg d ics ->
  exists d', step_x gen_cfg (deco_of decorator_table) d (XFillna kvs) = Some d' /\
             eval_df d' input = spec_x (XFillna kvs) (eval_df d input) /\ InvR gen_cfg d' ics.
Proof.
  intros. exact (fillna_correct gen_cfg gen_cfg_ok gen_limit_ok (deco_of decorator_table) SELECT d ics input kvs
                   (proj1 gen_fillna_kind) gen_composite_ok H H0 H1).
Qed.
Print Assumptions C01_fillna.

Theorem C01_replace : forall d ics input tgt ps,
  cols input = ics -> wf_frame input -> InvR gen_cfg d ics ->
  exists d', step_x gen_cfg (deco_of decorator_table) d (XReplace tgt ps) = Some d' /\
             eval_df d' input = spec_x (XReplace tgt ps) (eval_df d input) /\ InvR gen_cfg d' ics.
Proof.
  intros. exact (replace_correct gen_cfg gen_cfg_ok gen_limit_ok (deco_of decorator_table) SELECT d ics input tgt ps
                   (proj2 gen_fillna_kind) gen_composite_ok H H0 H1).
Qed.
Print Assumptions C01_replace.

(** every list over the widened alphabet (core operations, withColumn/withColumnRenamed/drop, fillna, replace) *)
Theorem C01_partial_wide : forall xs input,
  wf_frame input -> NoDup (cols input) ->
  xs_ok gen_cfg (deco_of decorator_table) (init_df (cols input)) (cols input) xs = true ->
  exists d', run_x gen_cfg (deco_of decorator_table) (init_df (cols input)) xs = Some d' /\
             eval_df d' input = spec_xrun xs input.
Proof.
  intros xs input Hwf Hnd Hok.
  destruct (xchain_correct gen_cfg gen_cfg_ok gen_limit_ok (deco_of decorator_table) SELECT SELECT xs
              (init_df (cols input)) (cols input) input
              (proj1 gen_fillna_kind) gen_composite_ok (proj2 gen_fillna_kind) gen_composite_ok
              eq_refl Hwf (init_inv gen_cfg (cols input) Hnd) Hok) as (d' & Hr & He).
  exists d'. split; [exact Hr|]. rewrite He. rewrite eval_init; auto.
Qed.
Print Assumptions C01_partial_wide.

Example C01_wide_domain_nonempty :
  xs_ok gen_cfg (deco_of decorator_table) (init_df ["a"; "b"]%string) ["a"; "b"]%string
    [XFillna [("a"%string, VInt 0)]; XCore (UOp (OWhere (EBin Eq (ECol "a") (ELit (VInt 0)))));
     XReplace ["b"%string] [(VInt 1, VInt 7)]; XCore (UWithColumn "c" (EBin Add (ECol "a") (ECol "b")));
     XCore (UOp (OOrderBy [mkKey (ECol "c") false true])); XCore (UDrop ["a"%string]); XCore (UOp (OLimit 2))] = true.
Proof. vm_compute. reflexivity. Qed.

(** the domain is inhabited by a program that exercises every wrap decision *)
Example C01_domain_nonempty :
  ops_ok gen_cfg (init_df ["a"; "b"]%string) ["a"; "b"]%string
    [OWhere (EBin Gt (ECol "a") (ELit (VInt 0)));
     OSelect [(EBin Add (ECol "a") (ELit (VInt 1)), "a"%string); (ECol "b", "b"%string)];
     OWhere (EIsNull (ECol "b")); ODistinct;
     OOrderBy [mkKey (ECol "a") true false]; OLimit 3; OLimit 5;
     OSelect [(ECol "b", "b"%string)]; OOrderBy [mkKey (ECol "b") false true];
     OWhere (EBin Lt (ECol "b") (ELit (VInt 9)));
     OOrderBy [mkKey (EBin Mul (ECol "b") (ELit (VInt 2))) false true]]
  = true.
Proof. vm_compute. reflexivity. Qed.
