(** C20 -- activate / deactivate / activate_context as a state machine over the import table.

    The model is parametric in [facts] (regenerated from /repo's source on every run: the ENGINE_TO_PREFIX and
    NAME_TO_FILE_OVERRIDE tables, the special-name list, every engine package's exports, the control shape of
    activate_context and deactivate, ...) and in an environment [env] (is the real PySpark installed; which
    sub-modules `import pyspark` loads; what importing the real pyspark.testing does).

    State = what is observable about `sys.modules` restricted to the documented pyspark paths, the attributes of the
    engine packages that decide what activate() registers, ACTIVATE_CONFIG, and the session singleton.
    Observations are *what an import statement yields* (three statement forms), never raw sys.modules equality.

    This file: model ([step], [run]), the property's meaning ([accept], the Spec), the diagnosis of a rejected step,
    and the executable verdict used by the correspondence check.  Theorems are in ActivateProof.v. *)
From Coq Require Export String List Bool Arith Lia.
Export ListNotations.
Open Scope string_scope.
Open Scope list_scope.
Open Scope nat_scope.

(* ------------------------------------------------------------------------------------------------ *)
(** * small library *)

Fixpoint assoc {A} (k : string) (l : list (string * A)) : option A :=
  match l with
  | [] => None
  | (k', v) :: r => if String.eqb k k' then Some v else assoc k r
  end.
Definition mem (x : string) (l : list string) : bool := existsb (String.eqb x) l.
Definition mem2 (a b : string) (l : list (string * string)) : bool :=
  existsb (fun p => String.eqb a (fst p) && String.eqb b (snd p)) l.
Definition assoc_list (k : string) (l : list (string * list string)) : list string :=
  match assoc k l with Some v => v | None => [] end.
Definition is_some {A} (o : option A) : bool := match o with Some _ => true | None => false end.
Definition is_nil {A} (l : list A) : bool := match l with [] => true | _ => false end.

(** dict assignment: replace the value of an existing key, otherwise append *)
Fixpoint cset (k : string) (v : nat) (l : list (string * nat)) : list (string * nat) :=
  match l with
  | [] => [(k, v)]
  | (k', v') :: r => if String.eqb k k' then (k, v) :: r else (k', v') :: cset k v r
  end.

(** Python's [str.startswith], [str.replace(p, "")] and [str.lower] (ASCII) *)
Fixpoint startswith (p s : string) : bool :=
  match p, s with
  | EmptyString, _ => true
  | String a p', String b s' => Ascii.eqb a b && startswith p' s'
  | String _ _, EmptyString => false
  end.
Fixpoint remove_all_go (p : string) (skip : nat) (s : string) : string :=
  match s with
  | EmptyString => EmptyString
  | String c s' =>
      match skip with
      | S k => remove_all_go p k s'
      | O => if negb (String.eqb p "") && startswith p s then remove_all_go p (String.length p - 1) s'
             else String c (remove_all_go p 0 s')
      end
  end.
Definition remove_all (p s : string) : string := remove_all_go p 0 s.
Definition lower_ascii (c : Ascii.ascii) : Ascii.ascii :=
  let n := Ascii.nat_of_ascii c in
  if (65 <=? n) && (n <=? 90) then Ascii.ascii_of_nat (n + 32) else c.
Fixpoint lower (s : string) : string :=
  match s with EmptyString => EmptyString | String c s' => String (lower_ascii c) (lower s') end.

(* ------------------------------------------------------------------------------------------------ *)
(** * facts regenerated from the source (tie T1) *)

Inductive catch_kind := CatchImportError | CatchAll.

Record facts := mkFacts {
  f_engines : list (string * string);             (* ENGINE_TO_PREFIX *)
  f_override : list (string * string);            (* NAME_TO_FILE_OVERRIDE *)
  f_specials : list string;                       (* names registered although they lack the prefix *)
  f_rename : string * string;                     (* ("Session", "SparkSession") *)
  f_pkg_names : list (string * list string);      (* engine -> names its __init__.py binds (classes) *)
  f_pkg_init : list (string * list string);       (* engine -> sub-modules loaded by importing the package *)
  f_pkg_files : list (string * list string);      (* engine -> the *.py files of the package *)
  f_forced : list string;                         (* sub-modules activate() imports before copying __dict__ *)
  f_reset_config : bool;                          (* activate() clears ACTIVATE_CONFIG before storing *)
  f_conn_key : string;                            (* "sqlframe.conn" (activate and Builder agree on it) *)
  f_ctx_finally : bool;                           (* activate_context: is deactivate() reached on the exceptional path *)
  f_catch : catch_kind;                           (* what deactivate()'s re-import loop swallows *)
  f_clear_protected : bool;                       (* ACTIVATE_CONFIG.clear() runs even if a re-import raises *)
  f_singleton_global : bool;                      (* _BaseSession.__new__ keeps one instance for all engine classes *)
  f_noconn : list string;                         (* engines whose Builder.session ignores the stored connection *)
  f_selfref : list string;                        (* engines whose Builder imports pyspark.sql.session when used *)
  f_cached : list string;                         (* engines whose Builder.session is a cached_property *)
  f_chain : list (string * nat);                  (* Builder._set_config(key, value): the elif chain, first match wins;
                                                     slot 0/1/2 = input/output/execution dialect, 3 = conn, 4 = schema *)
  f_mapkeys : list (string * nat);                (* Builder._set_config(map=...): the `if K in map` tests, in order *)
  f_defaults : list (string * (nat * (nat * nat)))  (* engine -> DEFAULT_INPUT/OUTPUT/EXECUTION_DIALECT of its Builder *)
}.

Definition pkg_names fa e := assoc_list e (f_pkg_names fa).
Definition pkg_init fa e := assoc_list e (f_pkg_init fa).
Definition pkg_files fa e := assoc_list e (f_pkg_files fa).

(** the sub-modules of pyspark.sql the property names *)
Definition doc_subs : list string :=
  ["functions"; "types"; "window"; "dataframe"; "session"; "column"; "catalog"; "readwriter"; "group"; "udf"].

(* ------------------------------------------------------------------------------------------------ *)
(** * environment *)

Inductive rimp := RAbsent | ROk | RRaise.     (* ImportError | imports | another exception *)
Record env := mkEnv {
  installed : bool;                  (* is the real `pyspark` findable *)
  bundle : list string;              (* pyspark.sql.<f> loaded as a side effect of `import pyspark` *)
  testing_imp : rimp;                (* what importing the real pyspark.testing does *)
  bad_raises : list string           (* engines whose session construction uses the connection at once (harness fact) *)
}.
Definition rimp_eqb a b := match a, b with RAbsent, RAbsent | ROk, ROk | RRaise, RRaise => true | _, _ => false end.

(* ------------------------------------------------------------------------------------------------ *)
(** * state *)

Inductive modref :=
| Real                         (* the real PySpark module of that name *)
| Mock (e : option string)     (* the MagicMock installed by activate(e); its .sql is engine e's package *)
| SfPkg (e : string)           (* sqlframe.<e> *)
| Sf (e f : string)            (* a module loaded from sqlframe/<e>/<f>.py *)
| Testing.                     (* sqlframe.testing *)

Definition opt_eqb (a b : option string) := match a, b with
  | None, None => true | Some x, Some y => String.eqb x y | _, _ => false end.
Definition modref_eqb (a b : modref) : bool :=
  match a, b with
  | Real, Real | Testing, Testing => true
  | Mock x, Mock y => opt_eqb x y
  | SfPkg x, SfPkg y => String.eqb x y
  | Sf x f, Sf y g => String.eqb x y && String.eqb f g
  | _, _ => false
  end.

Inductive sess_state := SNone | SLive (e : string) (c : option nat) | SPoisoned.

Inductive lastdial := LNone | LUnknown | LSome (d : nat * (nat * nat)).

Record state := mkState {
  top : option modref;                  (* sys.modules["pyspark"] *)
  sql : option modref;                  (* sys.modules["pyspark.sql"] *)
  tst : option modref;                  (* sys.modules["pyspark.testing"] *)
  subs : list (string * modref);        (* sys.modules["pyspark.sql.<f>"] (first binding wins) *)
  pattr : list (string * string);       (* (e, f): the package sqlframe.<e> has an attribute <f> (a sub-module) *)
  config : list (string * nat);         (* ACTIVATE_CONFIG, values as identities *)
  sess : sess_state;                    (* _BaseSession._instance *)
  bcache : list (string * (string * option nat));   (* engine -> the session its Builder has cached (engine, connection) *)
  bd : list (string * nat * nat);       (* (engine, slot, value): dialect attributes of that engine's Builder object,
                                           newest first; the Builder is a class attribute and lives as long as the process *)
  bk : list (string * nat);             (* engine -> the conn kwarg its Builder object holds (set by the last getOrCreate under
                                           that engine whose ACTIVATE_CONFIG had a connection; outlives activations) *)
  lastd : lastdial;                     (* input/output/execution dialect of the session the last getOrCreate returned *)
  junk : bool                           (* a failed import of the real pyspark.testing left sub-modules of it (and of
                                           pyspark.pandas) in sys.modules; re-importing any of them fails again *)
}.
Definition init_state : state := mkState None None None [] [] [] SNone [] [] [] LNone false.

Definition set_pys (s : state) t q ts sb := mkState t q ts sb (pattr s) (config s) (sess s) (bcache s) (bd s) (bk s) (lastd s) (junk s).
Definition set_subs (s : state) sb := mkState (top s) (sql s) (tst s) sb (pattr s) (config s) (sess s) (bcache s) (bd s) (bk s) (lastd s) (junk s).
Definition set_pattr (s : state) pa := mkState (top s) (sql s) (tst s) (subs s) pa (config s) (sess s) (bcache s) (bd s) (bk s) (lastd s) (junk s).
Definition set_sess (s : state) x := mkState (top s) (sql s) (tst s) (subs s) (pattr s) (config s) x (bcache s) (bd s) (bk s) (lastd s) (junk s).
Definition set_bcache (s : state) b := mkState (top s) (sql s) (tst s) (subs s) (pattr s) (config s) (sess s) b (bd s) (bk s) (lastd s) (junk s).
Definition set_junk (s : state) := mkState (top s) (sql s) (tst s) (subs s) (pattr s) (config s) (sess s) (bcache s) (bd s) (bk s) (lastd s) true.
Definition set_bd (s : state) b := mkState (top s) (sql s) (tst s) (subs s) (pattr s) (config s) (sess s) (bcache s) b (bk s) (lastd s) (junk s).
Definition set_lastd (s : state) d := mkState (top s) (sql s) (tst s) (subs s) (pattr s) (config s) (sess s) (bcache s) (bd s) (bk s) d (junk s).
Definition set_bk (s : state) b := mkState (top s) (sql s) (tst s) (subs s) (pattr s) (config s) (sess s) (bcache s) (bd s) b (lastd s) (junk s).

(* ------------------------------------------------------------------------------------------------ *)
(** * events and observations *)

Inductive path := PTop | PSql | PSub (f : string) | PTesting.
Inductive form := FA | FS | FB.
     (* FA: importlib.import_module(p)  = the module `from p import x` looks in
        FS: `import p as m`;  FB: `from <parent of p> import <last component of p>` *)
Inductive exitkind := XNormal | XRaise | XSessionRaise | XBaseRaise.
     (* XBaseRaise: the block is left by a BaseException that is not an Exception (KeyboardInterrupt, SystemExit, pytest.skip) *)

Inductive event :=
| Activate (e : string) (c : option nat) (kv : list (string * nat))
| Deactivate
| CtxEnter (e : string) (c : option nat) (kv : list (string * nat))
| CtxExit (k : exitkind)
| GetOrCreate
| Import (fm : form) (p : path)
| LoadFunctions (e : string)
| BuilderConfig (single : bool) (kv : list (string * nat))   (* SparkSession.builder.config(k, v) / .config(map={...}) *)
| ReadDialects.                                             (* input/output/execution dialect of the session just returned *)

Inductive eobs :=
| EOk | ERaised
| EMod (m : modref) | EImportError | EError
| GReal | GSession (e : string) (c : option nat) | GRaise | GUnknown
| EDial (d : option (nat * (nat * nat)))
| EOther.                         (* something the harness could not classify; never equal to a model answer *)

(* ------------------------------------------------------------------------------------------------ *)
(** * the model *)

Section Model.
Variable fa : facts.
Variable en : env.

(** ** real imports *)
Definition load_bundle (s : state) : state :=
  set_pys s (Some Real)
          (match sql s with None => Some Real | x => x end)
          (tst s)
          (subs s ++ map (fun f => (f, Real)) (bundle en)).      (* entries already present win (first binding) *)

Definition import_top (s : state) : eobs * state :=
  match top s with
  | Some m => (EMod m, s)
  | None => if installed en then (EMod Real, load_bundle s) else (EImportError, s)
  end.

Definition import_sql (s : state) : eobs * state :=
  match sql s with
  | Some m => (EMod m, s)
  | None =>
      let '(o, s1) := import_top s in
      match o with
      | EMod Real => match sql s1 with
                     | Some m => (EMod m, s1)
                     | None => (EMod Real, set_pys s1 (top s1) (Some Real) (tst s1) (subs s1))
                     end
      | EMod _ => (EImportError, s1)        (* a MagicMock has no __path__: "'pyspark' is not a package" *)
      | o' => (o', s1)
      end
  end.

Definition import_sub (f : string) (s : state) : eobs * state :=
  match assoc f (subs s) with
  | Some m => (EMod m, s)
  | None =>
      let '(o, s1) := import_sql s in
      match o with
      | EMod pm =>
          match assoc f (subs s1) with
          | Some m => (EMod m, s1)
          | None =>
              match pm with
              | Real => if mem f (bundle en) then (EMod Real, set_subs s1 ((f, Real) :: subs s1)) else (EImportError, s1)
              | SfPkg e =>
                  if mem f (pkg_files fa e)
                  then (EMod (Sf e f), set_pattr (set_subs s1 ((f, Sf e f) :: subs s1)) (pattr s1 ++ [(e, f)]))
                  else (EImportError, s1)
              | _ => (EImportError, s1)
              end
          end
      | o' => (o', s1)
      end
  end.

Definition import_testing (s : state) : eobs * state :=
  match tst s with
  | Some m => (EMod m, s)
  | None =>
      let '(o, s1) := import_top s in
      match o with
      | EMod Real =>
          match testing_imp en with
          | ROk => (EMod Real, set_pys s1 (top s1) (sql s1) (Some Real) (subs s1))
          | RRaise => (EError, set_junk s1)
          | RAbsent => (EImportError, s1)
          end
      | EMod _ => (EImportError, s1)
      | o' => (o', s1)
      end
  end.

Definition importA (p : path) (s : state) : eobs * state :=
  match p with
  | PTop => import_top s
  | PSql => import_sql s
  | PSub f => import_sub f s
  | PTesting => import_testing s
  end.

(** `import p as m`: __import__(p) (the same loading as FA), then the attribute chain from the top-level module *)
Definition importS (p : path) (s : state) : eobs * state :=
  let '(o, s1) := importA p s in
  match o with
  | EMod _ =>
      match top s1 with
      | Some (Mock me) =>
          match p, me with
          | PTop, _ => (EMod (Mock me), s1)
          | PTesting, _ => (EMod Testing, s1)
          | PSql, Some e => (EMod (SfPkg e), s1)
          | PSub f, Some e => if mem2 e f (pattr s1) then (EMod (Sf e f), s1) else (EImportError, s1)
          | _, None => (EMod (Mock None), s1)          (* attributes of a bare MagicMock *)
          end
      | _ => (o, s1)
      end
  | _ => (o, s1)
  end.

(** `from parent import child` *)
Definition importB (p : path) (s : state) : eobs * state :=
  match p with
  | PTop => import_top s
  | PSql =>
      let '(o, s1) := import_top s in
      match o with
      | EMod (Mock (Some e)) => (EMod (SfPkg e), s1)
      | EMod (Mock None) => (EMod (Mock None), s1)
      | EMod Real => import_sql s1
      | EMod _ => (EImportError, s1)
      | o' => (o', s1)
      end
  | PTesting =>
      let '(o, s1) := import_top s in
      match o with
      | EMod (Mock _) => (EMod Testing, s1)
      | EMod Real => import_testing s1
      | EMod _ => (EImportError, s1)
      | o' => (o', s1)
      end
  | PSub f =>
      let '(o, s1) := import_sql s in
      match o with
      | EMod (SfPkg e) =>
          if mem2 e f (pattr s1) then (EMod (Sf e f), s1)
          else if mem f (pkg_files fa e) then (EMod (Sf e f), set_pattr s1 (pattr s1 ++ [(e, f)]))
          else (EImportError, s1)
      | EMod Real => import_sub f s1
      | EMod _ => (EImportError, s1)
      | o' => (o', s1)
      end
  end.

Definition do_import (fm : form) (p : path) (s : state) : eobs * state :=
  match fm with FA => importA p s | FS => importS p s | FB => importB p s end.

(** ** activate *)
Definition name_matches (prefix n : string) : bool := startswith prefix n || mem n (f_specials fa).
Definition unprefixed (prefix n : string) : string :=
  let m := remove_all prefix n in
  if String.eqb m (fst (f_rename fa)) then snd (f_rename fa) else m.
Definition file_of (prefix n : string) : string :=
  let m := unprefixed prefix n in
  lower (match assoc m (f_override fa) with Some f => f | None => m end).
(** names in the package's __dict__ that matter: its classes plus the sub-modules it has as attributes *)
Definition dict_names (e : string) (pa : list (string * string)) : list string :=
  pkg_names fa e ++ map snd (filter (fun ef => String.eqb e (fst ef)) pa).
Definition reg_files (e prefix : string) (pa : list (string * string)) : list string :=
  map (file_of prefix) (filter (name_matches prefix) (dict_names e pa)).
Fixpoint take_good (files regs : list string) : list string :=
  match regs with
  | [] => []
  | f :: r => if mem f files then f :: take_good files r else []
  end.

Definition store_config (c : option nat) (kv : list (string * nat)) (s : state) : list (string * nat) :=
  let c0 := if f_reset_config fa then [] else config s in
  let c1 := match c with Some k => cset (f_conn_key fa) k c0 | None => c0 end in
  fold_left (fun acc p => cset (fst p) (snd p) acc) kv c1.

Definition attrs_after_import (e : string) (s : state) : list (string * string) :=
  pattr s ++ map (pair e) (pkg_init fa e ++ f_forced fa).

Definition activate (e : string) (c : option nat) (kv : list (string * nat)) (s : state) : eobs * state :=
  let cfg := store_config c kv s in
  match assoc e (f_engines fa) with
  | None => (ERaised, mkState (Some (Mock None)) (sql s) (Some Testing) (subs s) (pattr s) cfg (sess s) (bcache s) (bd s) (bk s) (lastd s) (junk s))
  | Some prefix =>
      let pa1 := attrs_after_import e s in
      let regs := reg_files e prefix pa1 in
      let good := take_good (pkg_files fa e) regs in
      (if length good =? length regs then EOk else ERaised,
       mkState (Some (Mock (Some e))) (Some (SfPkg e)) (Some Testing)
               (fold_left (fun acc f => (f, Sf e f) :: acc) good (subs s))
               (pa1 ++ map (pair e) good) cfg (sess s) (bcache s) (bd s) (bk s) (lastd s) (junk s))
  end.

(** ** deactivate *)
Definition any_present (s : state) : bool :=
  is_some (top s) || is_some (sql s) || is_some (tst s) || negb (is_nil (subs s)).
Definition testing_fails (s : state) : bool :=
  installed en && (is_some (tst s) || junk s) && rimp_eqb (testing_imp en) RRaise.
Definition deact_raises (s : state) : bool :=
  testing_fails s && match f_catch fa with CatchImportError => true | CatchAll => false end.
Definition deactivate (s : state) : eobs * state :=
  let raised := deact_raises s in
  let cfg := if raised && negb (f_clear_protected fa) then config s else [] in
  (if raised then ERaised else EOk,
   if (any_present s || junk s) && installed en
   then mkState (Some Real) (Some Real)
                (if is_some (tst s) && rimp_eqb (testing_imp en) ROk then Some Real else None)
                (map (fun f => (f, Real)) (bundle en)) (pattr s) cfg (sess s) (bcache s) (bd s) (bk s) (lastd s) (testing_fails s)
   else mkState None None None [] (pattr s) cfg (sess s) (bcache s) (bd s) (bk s) (lastd s) (junk s)).

Definition exit_deactivates (k : exitkind) : bool :=
  match k with XNormal => true | _ => f_ctx_finally fa end.

(** ** SparkSession.builder.getOrCreate() *)
Definition is_bad (c : option nat) : bool := match c with Some 9 => true | _ => false end.
Definition create_session (e : string) (s : state) : eobs * state :=
  let c := if mem e (f_noconn fa) then None else assoc e (bk s) in      (* the Builder's conn kwarg, not ACTIVATE_CONFIG *)
  if is_bad c && mem e (bad_raises en) then (GRaise, set_sess s SPoisoned)
  else (GSession e c, set_sess s (SLive e c)).
(** a Builder whose `session` is a cached_property keeps returning the first session it ever built *)
Definition remember (e : string) (r : eobs * state) : eobs * state :=
  match r with
  | (GSession e0 c0, s') => if mem e (f_cached fa) then (GSession e0 c0, set_bcache s' ((e, (e0, c0)) :: bcache s')) else r
  | _ => r
  end.
(** dialect attributes of the engine's Builder *)
Fixpoint dlook (e : string) (i : nat) (l : list (string * nat * nat)) : option nat :=
  match l with
  | [] => None
  | (e', i', v) :: r => if String.eqb e e' && Nat.eqb i i' then Some v else dlook e i r
  end.
Definition default_of (e : string) (i : nat) : nat :=
  match assoc e (f_defaults fa) with
  | Some (a, (b, c)) => match i with 0 => a | 1 => b | _ => c end
  | None => 0
  end.
Definition slot_of (e : string) (i : nat) (l : list (string * nat * nat)) : nat :=
  match dlook e i l with Some v => v | None => default_of e i end.
Definition dial_of (e : string) (l : list (string * nat * nat)) : nat * (nat * nat) :=
  (slot_of e 0 l, (slot_of e 1 l, slot_of e 2 l)).
(** Builder._set_config(key, value): the first branch of the elif chain whose key equals [k] *)
Definition apply_key (e k : string) (v : nat) (l : list (string * nat * nat)) : list (string * nat * nat) :=
  match assoc k (f_chain fa) with
  | Some i => if i <? 3 then (e, i, v) :: l else l
  | None => l
  end.
Definition apply_cfg (e : string) (cfg : list (string * nat)) (l : list (string * nat * nat)) :=
  fold_left (fun acc p => apply_key e (fst p) (snd p) acc) cfg l.
(** Builder._set_config(map=m): one `if K in map` test after the other *)
Definition apply_map (e : string) (m : list (string * nat)) (l : list (string * nat * nat)) :=
  fold_left (fun acc ks => match assoc (fst ks) m with
                           | Some v => if snd ks <? 3 then (e, snd ks, v) :: acc else acc
                           | None => acc
                           end) (f_mapkeys fa) l.

Definition goc_session (e : string) (s1 : state) : eobs * state :=
  match (if mem e (f_cached fa) then assoc e (bcache s1) else None) with
  | Some (e0, c0) => (GSession e0 c0, s1)
  | None =>
      match sess s1 with
      | SPoisoned => (GUnknown, s1)
      | SLive e0 c0 => if String.eqb e0 e || f_singleton_global fa then remember e (GSession e0 c0, s1)
                       else remember e (create_session e s1)
      | SNone => remember e (create_session e s1)
      end
  end.
(** _set_session_properties writes the Builder's three dialects onto the session that is returned *)
Definition note_dial (e : string) (r : eobs * state) : eobs * state :=
  match r with
  | (GSession e0 c0, s') => (GSession e0 c0, set_lastd s' (LSome (dial_of e (bd s'))))
  | (GUnknown, s') => (GUnknown, set_lastd s' LUnknown)
  | (o, s') => (o, set_lastd s' LNone)
  end.
Definition replay_config (e : string) (s : state) : state :=
  set_bk (set_bd s (apply_cfg e (config s) (bd s)))
         (match assoc (f_conn_key fa) (config s) with Some k => (e, k) :: bk s | None => bk s end).
Definition get_or_create (s : state) : eobs * state :=
  let '(o, s1) := import_sql s in
  match o with
  | EMod (SfPkg e) =>
      if mem e (f_selfref fa) then (GRaise, set_lastd s1 LNone)
      else note_dial e (goc_session e (replay_config e s1))   (* ACTIVATE_CONFIG is replayed into the Builder first *)
  | EMod Real => (GReal, set_lastd s1 LNone)
  | EMod _ => (EError, set_lastd s1 LNone)
  | o' => (o', set_lastd s1 LNone)
  end.

Definition builder_config (single : bool) (kv : list (string * nat)) (s : state) : eobs * state :=
  let '(o, s1) := import_sql s in
  match o with
  | EMod (SfPkg e) =>
      if mem e (f_selfref fa) then (ERaised, s1)
      else (EOk, set_bd s1 (if single then apply_cfg e kv (bd s1) else apply_map e kv (bd s1)))
  | _ => (EOk, s1)                      (* not activated: the harness does not touch the real PySpark's builder *)
  end.

Definition load_functions (e : string) (s : state) : eobs * state :=
  (EOk, set_pattr s (pattr s ++ map (pair e) (pkg_init fa e ++ (if mem "functions" (pkg_files fa e) then ["functions"] else [])))).

Definition step (s : state) (ev : event) : eobs * state :=
  match ev with
  | Activate e c kv | CtxEnter e c kv => activate e c kv s
  | Deactivate => deactivate s
  | CtxExit k => if exit_deactivates k then deactivate s else (EOk, s)
  | GetOrCreate => get_or_create s
  | Import fm p => do_import fm p s
  | LoadFunctions e => load_functions e s
  | BuilderConfig single kv => builder_config single kv s
  | ReadDialects => (match lastd s with LNone => EDial None | LUnknown => GUnknown | LSome d => EDial (Some d) end, s)
  end.

(** observations of a run: the event's result and ACTIVATE_CONFIG after it *)
Fixpoint run (s : state) (evs : list event) : list (eobs * list (string * nat)) * state :=
  match evs with
  | [] => ([], s)
  | ev :: r => let '(o, s1) := step s ev in
               let '(os, s2) := run s1 r in ((o, config s1) :: os, s2)
  end.
Definition final (s : state) (evs : list event) : state := snd (run s evs).

(* ------------------------------------------------------------------------------------------------ *)
(** * the property's meaning (Spec): independent of [facts] except for which engines exist / take a connection *)

Record sstate := mkS {
  active : option (string * option nat);       (* engine and connection of the activation in force *)
  hist : list (string * option nat);           (* every (engine, connection) activated so far *)
  lastgoc : option string                      (* the engine under which getOrCreate was last called: the process's current
                                                  session, if any, is that engine's *)
}.
Definition sinit : sstate := mkS None [] None.

Definition base_view (p : path) : eobs :=
  if installed en then
    match p with
    | PTop | PSql => EMod Real
    | PSub f => if mem f (bundle en) then EMod Real else EImportError
    | PTesting => match testing_imp en with ROk => EMod Real | RRaise => EError | RAbsent => EImportError end
    end
  else EImportError.

Definition belongs (e : string) (p : path) (m : modref) : bool :=
  match p, m with
  | PTop, Mock _ => true
  | PSql, SfPkg e' => String.eqb e e'
  | PSub f, Sf e' f' => String.eqb e e' && String.eqb f f'
  | PTesting, Testing => true
  | _, _ => false
  end.
Definition documented (p : path) : bool := match p with PSub f => mem f doc_subs | _ => true end.

Definition optnat_eqb (a b : option nat) := match a, b with
  | None, None => true | Some x, Some y => Nat.eqb x y | _, _ => false end.
Definition in_hist (e : string) (c : option nat) (h : list (string * option nat)) : bool :=
  existsb (fun p => String.eqb e (fst p) && optnat_eqb c (snd p)) h.
Definition tainted (h : list (string * option nat)) : bool := existsb (fun p => is_bad (snd p)) h.

Definition snext (ss : sstate) (ev : event) : sstate :=
  match ev with
  | Activate e c _ | CtxEnter e c _ => mkS (Some (e, c)) (hist ss ++ [(e, c)]) (lastgoc ss)
  | Deactivate | CtxExit _ => mkS None (hist ss) (lastgoc ss)
  | GetOrCreate => match active ss with Some (e, _) => mkS (active ss) (hist ss) (Some e) | None => ss end
  | _ => ss
  end.

Definition cfg_has (cfg : list (string * nat)) (k : string) (v : nat) : bool :=
  match assoc k cfg with Some v' => Nat.eqb v v' | None => false end.

(** does the property allow observation [o] / configuration [cfg] for event [ev] issued in spec state [ss]? *)
Definition accept (ss : sstate) (ev : event) (o : eobs) (cfg : list (string * nat)) : bool :=
  let ss' := snext ss ev in
  (match active ss' with None => is_nil cfg | Some _ => true end) &&
  match ev with
  | Activate e c kv | CtxEnter e c kv =>
      match o with EOk => true | _ => false end
      && match c with Some k => cfg_has cfg (f_conn_key fa) k | None => true end
      && forallb (fun p => cfg_has cfg (fst p) (snd p)) kv
  | Deactivate | CtxExit _ => match o with EOk => true | _ => false end
  | LoadFunctions _ => match o with EOk => true | _ => false end
  | BuilderConfig _ _ => match o with EOk => true | _ => false end
  | ReadDialects => true            (* judged by [accept_dial] *)
  | Import _ p =>
      if documented p then
        match active ss with
        | Some (e, _) => match o with EMod m => belongs e p m | _ => false end
        | None => match o, base_view p with
                  | EMod a, EMod b => modref_eqb a b
                  | EImportError, EImportError | EError, EError => true
                  | _, _ => false
                  end
        end
      else true
  | GetOrCreate =>
      match active ss with
      | Some (e, c) =>
          tainted (hist ss) ||
          match o with
          | GSession e' c' =>
              String.eqb e e' && ((mem e (f_noconn fa) && optnat_eqb c' None) || in_hist e c' (hist ss))
              (* a connection given now is the session's, unless the current session already is this engine's (reuse) *)
              && match c with
                 | Some k => opt_eqb (lastgoc ss) (Some e) || mem e (f_noconn fa) || optnat_eqb c' (Some k)
                 | None => true
                 end
          | _ => false
          end
      | None => match o with
                | GReal => installed en
                | EImportError => negb (installed en)
                | _ => false
                end
      end
  end.

(** spec verdict for a whole observation list *)
Fixpoint conforms (ss : sstate) (evs : list event) (obs : list (eobs * list (string * nat))) : bool :=
  match evs, obs with
  | [], _ => true
  | ev :: r, (o, cfg) :: ro => accept ss ev o cfg && conforms (snext ss ev) r ro
  | _ :: _, [] => false
  end.

(** ** the dialect part of "the engine's session with the given ... config"
    Judged on [ReadDialects] (the three dialect attributes of the session getOrCreate just returned):
    a slot given in the config of the activation in force has that value; otherwise a slot set through
    SparkSession.builder.config(...) during this activation has the latest such value; otherwise the value is the engine's
    default or one that was given to this engine earlier (the Builder object outlives activations, as PySpark's does). *)
Definition doc_slot (k : string) : option nat :=
  if String.eqb k "sqlframe.input.dialect" then Some 0
  else if String.eqb k "sqlframe.output.dialect" then Some 1
  else if String.eqb k "sqlframe.execution.dialect" then Some 2
  else None.
Definition slots_of (kv : list (string * nat)) : list (nat * nat) :=
  flat_map (fun p => match doc_slot (fst p) with Some i => [(i, snd p)] | None => [] end) kv.
Fixpoint nassoc (i : nat) (l : list (nat * nat)) : option nat :=
  match l with [] => None | (j, v) :: r => if Nat.eqb i j then Some v else nassoc i r end.
Record dstate := mkD {
  d_act : list (nat * nat);              (* slots given by the activation in force *)
  d_bld : list (nat * nat);              (* slots given through builder.config since then, newest first *)
  d_hist : list (string * nat * nat)     (* every (engine, slot, value) ever given *)
}.
Definition dinit : dstate := mkD [] [] [].
Definition dnext (ss : sstate) (ds : dstate) (ev : event) : dstate :=
  match ev with
  | Activate e _ kv | CtxEnter e _ kv =>
      mkD (slots_of kv) [] (d_hist ds ++ map (fun iv => (e, fst iv, snd iv)) (slots_of kv))
  | Deactivate | CtxExit _ => mkD [] [] (d_hist ds)
  | BuilderConfig _ kv =>
      match active ss with
      | Some (e, _) => mkD (d_act ds) (slots_of kv ++ d_bld ds) (d_hist ds ++ map (fun iv => (e, fst iv, snd iv)) (slots_of kv))
      | None => ds
      end
  | _ => ds
  end.
Definition dhist_has (e : string) (i v : nat) (h : list (string * nat * nat)) : bool :=
  existsb (fun x => match x with (e', i', v') => String.eqb e e' && Nat.eqb i i' && Nat.eqb v v' end) h.
Definition slot_ok (ds : dstate) (e : string) (i v : nat) : bool :=
  match nassoc i (d_act ds) with
  | Some w => Nat.eqb v w
  | None => match nassoc i (d_bld ds) with
            | Some w => Nat.eqb v w
            | None => Nat.eqb v (default_of e i) || dhist_has e i v (d_hist ds)
            end
  end.
Definition accept_dial (ss : sstate) (ds : dstate) (ev : event) (o : eobs) : bool :=
  match ev with
  | ReadDialects =>
      match active ss, o with
      | Some (e, _), EDial (Some (a, (b, c))) =>
          tainted (hist ss) || (slot_ok ds e 0 a && slot_ok ds e 1 b && slot_ok ds e 2 c)
      | _, EDial _ => true
      | _, _ => false
      end
  | _ => true
  end.

(** the same without judging which session getOrCreate returns (imports, restoration, configuration only) *)
Definition accept0 (ss : sstate) (ev : event) (o : eobs) (cfg : list (string * nat)) : bool :=
  match ev with
  | GetOrCreate => match active ss with None => is_nil cfg | Some _ => true end
  | _ => accept ss ev o cfg
  end.
Fixpoint conforms0 (ss : sstate) (evs : list event) (obs : list (eobs * list (string * nat))) : bool :=
  match evs, obs with
  | [], _ => true
  | ev :: r, (o, cfg) :: ro => accept0 ss ev o cfg && conforms0 (snext ss ev) r ro
  | _ :: _, [] => false
  end.

(* ------------------------------------------------------------------------------------------------ *)
(** * the domain on which the model is proved to conform *)

(** activate(e) in state [s] leaves no documented path pointing anywhere else than engine e *)
Definition act_ok (e : string) (s : state) : bool :=
  match assoc e (f_engines fa) with
  | None => false
  | Some prefix =>
      let regs := reg_files e prefix (attrs_after_import e s) in
      forallb (fun f => mem f (pkg_files fa e)) regs
      && forallb (fun f => mem f (pkg_files fa e)
                           && (mem f regs || match assoc f (subs s) with
                                            | None => true
                                            | Some m => modref_eqb m (Sf e f)
                                            end)) doc_subs
  end.

Definition engine_of (ev : event) : option string :=
  match ev with Activate e _ _ | CtxEnter e _ _ => Some e | _ => None end.
Fixpoint single_engine (e0 : option string) (evs : list event) : bool :=
  match evs with
  | [] => true
  | ev :: r => match engine_of ev, e0 with
               | Some e, Some e' => String.eqb e e' && single_engine e0 r
               | Some e, None => single_engine (Some e) r
               | None, _ => single_engine e0 r
               end
  end.

Fixpoint nodup_keys (kv : list (string * nat)) : bool :=
  match kv with [] => true | (k, _) :: r => negb (mem k (map fst r)) && nodup_keys r end.
(** the config argument is a dict that does not itself contain the connection key *)
Definition kv_wf (kv : list (string * nat)) : bool := nodup_keys kv && negb (mem (f_conn_key fa) (map fst kv)).

Definition step_ok (ss : sstate) (s : state) (ev : event) : bool :=
  match ev with
  | Activate e _ kv | CtxEnter e _ kv => act_ok e s && kv_wf kv
  | Deactivate => negb (deact_raises s)
  | CtxExit k => exit_deactivates k && negb (deact_raises s)
  | GetOrCreate | BuilderConfig _ _ => match active ss with Some (e, _) => negb (mem e (f_selfref fa)) | None => true end
  | _ => true
  end.
Fixpoint steps_ok (ss : sstate) (s : state) (evs : list event) : bool :=
  match evs with
  | [] => true
  | ev :: r => step_ok ss s ev && steps_ok (snext ss ev) (snd (step s ev)) r
  end.
(** with a per-class session singleton, a configuration that every activate() resets and no Builder that caches its
    session, the session clause needs no one-engine restriction *)
Definition multi_mode : bool := negb (f_singleton_global fa) && f_reset_config fa && is_nil (f_cached fa).
Definition in_domain (evs : list event) : bool := (single_engine None evs || multi_mode) && steps_ok sinit init_state evs.

(** domain for everything except the session: any number of engines, any switching *)
Definition step_ok0 (ss : sstate) (s : state) (ev : event) : bool :=
  match ev with GetOrCreate => true | _ => step_ok ss s ev end.
Fixpoint steps_ok0 (ss : sstate) (s : state) (evs : list event) : bool :=
  match evs with
  | [] => true
  | ev :: r => step_ok0 ss s ev && steps_ok0 (snext ss ev) (snd (step s ev)) r
  end.
Definition in_domain0 (evs : list event) : bool := steps_ok0 sinit init_state evs.

(* ------------------------------------------------------------------------------------------------ *)
(** * diagnosis of a rejected step (shape predicate of the deviation, computed on the model state) *)

Definition model_active (s : state) : option string :=
  match top s with Some (Mock (Some e)) => Some e | _ => None end.

Definition diagnose (ss : sstate) (s : state) (ev : event) : string :=
  match ev with
  | Deactivate => if deact_raises s then "R" else
                  match model_active s, active ss with None, None => if is_nil (config s) then "u" else "R" | _, _ => "u" end
  | CtxExit k =>
      if negb (exit_deactivates k) then "X"
      else if deact_raises s then "R" else "u"
  | Import _ p =>
      match active ss, model_active s with
      | None, Some _ => "X"                       (* the model is still activated although a context block was left *)
      | Some (e, _), Some e' =>
          if String.eqb e e' then
            match p with
            | PSub f => match assoc f (subs s) with       (* sys.modules still holds a foreign pyspark.sql.<f> *)
                        | Some m => if modref_eqb m (Sf e f) then "u" else "F"
                        | None => "u"
                        end
            | _ => "u"
            end
          else "u"
      | None, None => if is_nil (config s) then "u" else "R"
      | _, _ => "u"
      end
  | GetOrCreate =>
      match active ss, model_active s with
      | None, Some _ => "X"
      | Some (e, c), Some e' =>
          if negb (String.eqb e e') then "u"
          else if mem e (f_selfref fa) then "P"
          else match (if mem e (f_cached fa) then assoc e (bcache s) else None), sess s with
               | Some (e0, _), _ => if String.eqb e0 e then "u" else "S"
               | None, SLive e0 _ => if String.eqb e0 e then "u" else "S"
               | None, SNone => match assoc (f_conn_key fa) (config s), c with
                                | Some k, None => if in_hist e (Some k) (hist ss) then "u" else "C"
                                | _, _ => "u"
                                end
               | None, SPoisoned => "u"
               end
      | None, None => if is_nil (config s) then "u" else "R"
      | _, _ => "u"
      end
  | Activate _ _ _ | CtxEnter _ _ _ => "u"
  | BuilderConfig _ _ => match active ss, model_active s with
                         | Some (e, _), Some e' => if String.eqb e e' && mem e (f_selfref fa) then "P" else "u"
                         | None, Some _ => "X"
                         | _, _ => "u"
                         end
  | ReadDialects => "D"
  | LoadFunctions _ => match active ss, model_active s with
                       | None, Some _ => "X"
                       | None, None => if is_nil (config s) then "u" else "R"
                       | _, _ => "u"
                       end
  end.

(* ------------------------------------------------------------------------------------------------ *)
(** * executable verdict for the correspondence check *)

Definition eobs_eqb (a b : eobs) : bool :=
  match a, b with
  | EOk, EOk | ERaised, ERaised | EImportError, EImportError | EError, EError
  | GReal, GReal | GRaise, GRaise => true
  | EMod (Mock _), EMod (Mock _) => true          (* the harness cannot tell which activation made a MagicMock *)
  | EMod x, EMod y => modref_eqb x y
  | GSession e c, GSession e' c' => String.eqb e e' && optnat_eqb c c'
  | EDial None, EDial None => true
  | EDial (Some (a, (b, c))), EDial (Some (a', (b', c'))) => Nat.eqb a a' && Nat.eqb b b' && Nat.eqb c c'
  | _, _ => false
  end.
Definition cfg_eqb (a b : list (string * nat)) : bool :=
  Nat.eqb (length a) (length b) && forallb (fun p => cfg_has b (fst p) (snd p)) a.

(** per step three characters: impl = model ("1"/"0"/"u" when the model abstains), spec accepts impl ("1"/"0"),
    diagnosis letter of the step *)
Fixpoint verdict (ss : sstate) (ds : dstate) (s : state) (evs : list event) (obs : list (eobs * list (string * nat))) : string :=
  match evs, obs with
  | ev :: r, (o, cfg) :: ro =>
      let '(mo, s1) := step s ev in
      let m := match mo with
               | GUnknown => "u"
               | _ => if eobs_eqb mo o && cfg_eqb (config s1) cfg then "1" else "0"
               end in
      let a := if accept ss ev o cfg && accept_dial ss ds ev o then "1" else "0" in
      (m ++ a ++ diagnose ss s ev ++ verdict (snext ss ev) (dnext ss ds ev) s1 r ro)%string
  | [], [] => ""
  | _, _ => "!"
  end.

End Model.

Record tcase := mkCase { c_env : env; c_evs : list event; c_obs : list (eobs * list (string * nat)) }.

(** "<in_domain><model conforms><in_domain0><model conforms0>:<verdict>" *)
Definition check (fa : facts) (c : tcase) : string :=
  let b (x : bool) := if x then "1" else "0" in
  (b (in_domain fa (c_env c) (c_evs c))
   ++ b (conforms fa (c_env c) sinit (c_evs c) (fst (run fa (c_env c) init_state (c_evs c))))
   ++ b (in_domain0 fa (c_env c) (c_evs c))
   ++ b (conforms0 fa (c_env c) sinit (c_evs c) (fst (run fa (c_env c) init_state (c_evs c))))
   ++ ":" ++ verdict fa (c_env c) sinit dinit init_state (c_evs c) (c_obs c))%string.

(** the (file, pyspark name, sqlframe name) triples activate(e) registers in a fresh interpreter *)
Definition reg_table (fa : facts) (e : string) : list (string * (string * string)) :=
  match assoc e (f_engines fa) with
  | None => []
  | Some prefix =>
      map (fun n => (file_of fa prefix n, (unprefixed fa prefix n, n)))
          (filter (name_matches fa prefix)
                  (dict_names fa e (map (pair e) (pkg_init fa e ++ f_forced fa))))
  end.
