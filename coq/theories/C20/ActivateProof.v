(** C20 -- theorems about the activate/deactivate state machine of Activate.v.

    Everything is parametric in the regenerated [facts] and in the environment [env]; nothing here depends on /repo.
    Main results
      deactivate_resets          from ANY state, deactivate() leaves only real-PySpark entries; ACTIVATE_CONFIG is empty
                                 if it returned normally or the clear is protected
      real_view                  in such a state every import form on every path yields what it yielded before any activation
      deactivate_restores        for all event lists evs (any length) and all baseline states s0
      context_restores_on_any_exit   exit kinds that reach deactivate() behave exactly like deactivate()
      activate_homog / activate_maps_documented_paths   after activate(e) in an [act_ok] state every documented path, in every
                                 import form, yields engine e's module
      no_mixture                 for all event lists in [in_domain0] (any engines, any switching): imports, restoration
                                 and configuration are as the property demands
      goc_dialects_given         every ACTIVATE_CONFIG entry routed to a dialect slot determines that attribute of the session
      run_conforms               for all event lists in [in_domain] the model's observations are accepted by the Spec
                                 (no mixture, restoration, configuration, session) *)
From SF Require Export C20.Activate.

(* ------------------------------------------------------------------------------------------------ *)
(** * lists, association lists, strings *)

Lemma mem_In : forall x l, mem x l = true <-> In x l.
Proof.
  intros x l; unfold mem; rewrite existsb_exists; split.
  - intros [y [Hin He]]; apply String.eqb_eq in He; subst; exact Hin.
  - intros Hin; exists x; split; [exact Hin | apply String.eqb_refl].
Qed.

Lemma mem_app : forall x a b, mem x (a ++ b) = mem x a || mem x b.
Proof. intros; unfold mem; apply existsb_app. Qed.

Lemma assoc_app : forall A k (l1 l2 : list (string * A)),
  assoc k (l1 ++ l2) = match assoc k l1 with Some v => Some v | None => assoc k l2 end.
Proof.
  intros A k l1 l2; induction l1 as [|[k' v] r IH]; cbn; [reflexivity|].
  destruct (String.eqb k k'); [reflexivity | exact IH].
Qed.

Lemma assoc_map_real : forall f l, assoc f (map (fun g => (g, Real)) l) = if mem f l then Some Real else None.
Proof.
  intros f l; induction l as [|g r IH]; cbn; [reflexivity|].
  destruct (String.eqb f g); cbn; [reflexivity | exact IH].
Qed.

Lemma mem2_app : forall a b l1 l2, mem2 a b (l1 ++ l2) = mem2 a b l1 || mem2 a b l2.
Proof. intros; unfold mem2; apply existsb_app. Qed.

Lemma mem2_map_pair : forall e f l, mem2 e f (map (pair e) l) = mem f l.
Proof.
  intros e f l; induction l as [|g r IH]; cbn; [reflexivity|].
  rewrite String.eqb_refl; cbn. unfold mem2 in IH. rewrite IH. reflexivity.
Qed.

Lemma mem2_single : forall e f, mem2 e f [(e, f)] = true.
Proof. intros; unfold mem2; cbn. now rewrite !String.eqb_refl. Qed.

Lemma assoc_fold_cons : forall e f good sb,
  assoc f (fold_left (fun acc g => (g, Sf e g) :: acc) good sb)
  = if mem f good then Some (Sf e f) else assoc f sb.
Proof.
  intros e f good; induction good as [|g r IH]; intros sb; [reflexivity|].
  cbn [fold_left]. rewrite IH.
  replace (mem f (g :: r)) with (String.eqb f g || mem f r) by reflexivity.
  destruct (mem f r) eqn:Hr.
  - now rewrite orb_true_r.
  - rewrite orb_false_r. cbn [assoc]. destruct (String.eqb f g) eqn:He; [|reflexivity].
    apply String.eqb_eq in He; now subst.
Qed.

Lemma take_good_all : forall files regs,
  forallb (fun f => mem f files) regs = true -> take_good files regs = regs.
Proof.
  intros files regs; induction regs as [|f r IH]; cbn; [reflexivity|].
  intros H; apply andb_true_iff in H as [H1 H2]. rewrite H1, (IH H2). reflexivity.
Qed.

Lemma cset_assoc_same : forall k v l, assoc k (cset k v l) = Some v.
Proof.
  intros k v l; induction l as [|[k' v'] r IH]; cbn.
  - now rewrite String.eqb_refl.
  - destruct (String.eqb k k') eqn:He; cbn; [now rewrite String.eqb_refl | now rewrite He].
Qed.

Lemma cset_assoc_other : forall k k' v l, String.eqb k' k = false -> assoc k' (cset k v l) = assoc k' l.
Proof.
  intros k k' v l Hne; induction l as [|[k2 v2] r IH]; cbn.
  - now rewrite Hne.
  - destruct (String.eqb k k2) eqn:He; cbn.
    + apply String.eqb_eq in He; subst. now rewrite Hne.
    + destruct (String.eqb k' k2); [reflexivity | exact IH].
Qed.

Lemma fold_cset_other : forall kv k' init,
  mem k' (map fst kv) = false ->
  assoc k' (fold_left (fun acc p => cset (fst p) (snd p) acc) kv init) = assoc k' init.
Proof.
  induction kv as [|[k v] r IH]; intros k' init H; cbn in *; [reflexivity|].
  apply orb_false_iff in H as [H1 H2]. rewrite (IH _ _ H2). now apply cset_assoc_other.
Qed.

Lemma fold_cset_has : forall kv init,
  nodup_keys kv = true ->
  forallb (fun p => cfg_has (fold_left (fun acc p => cset (fst p) (snd p) acc) kv init) (fst p) (snd p)) kv = true.
Proof.
  induction kv as [|[k v] r IH]; intros init H; cbn in *; [reflexivity|].
  apply andb_true_iff in H as [H1 H2]. apply negb_true_iff in H1.
  apply andb_true_iff; split.
  - unfold cfg_has. rewrite (fold_cset_other _ _ _ H1), cset_assoc_same. apply Nat.eqb_refl.
  - exact (IH _ H2).
Qed.

Lemma existsb_snoc : forall A (p : A -> bool) l x, existsb p (l ++ [x]) = existsb p l || p x.
Proof. intros; rewrite existsb_app; cbn. now rewrite orb_false_r. Qed.

Lemma optnat_eqb_refl : forall c, optnat_eqb c c = true.
Proof. intros [n|]; cbn; [apply Nat.eqb_refl | reflexivity]. Qed.
Lemma optnat_eqb_eq : forall a b, optnat_eqb a b = true -> a = b.
Proof. intros [x|] [y|] H; cbn in H; try discriminate; [apply Nat.eqb_eq in H; now subst | reflexivity]. Qed.

Lemma modref_eqb_eq : forall a b, modref_eqb a b = true -> a = b.
Proof.
  intros a b; destruct a as [|[x|]|x|x f|], b as [|[y|]|y|y g|]; cbn; intros H; try discriminate; try reflexivity.
  - apply String.eqb_eq in H; now subst.
  - apply String.eqb_eq in H; now subst.
  - apply andb_true_iff in H as [H1 H2]. apply String.eqb_eq in H1, H2. now subst.
Qed.
Lemma modref_eqb_refl : forall a, modref_eqb a a = true.
Proof. intros [|[x|]|x|x f|]; cbn; rewrite ?String.eqb_refl; reflexivity. Qed.

Lemma rimp_eqb_eq : forall a b, rimp_eqb a b = true -> a = b.
Proof. intros [] [] H; cbn in H; try discriminate; reflexivity. Qed.

Arguments mem : simpl never.
Arguments mem2 : simpl never.
Arguments doc_subs : simpl never.

(* ------------------------------------------------------------------------------------------------ *)
Section Proofs.
Variable fa : facts.
Variable en : env.

Notation import_top := (import_top en).
Notation import_sql := (import_sql en).
Notation import_sub := (import_sub fa en).
Notation import_testing := (import_testing en).
Notation importA := (importA fa en).
Notation importS := (importS fa en).
Notation importB := (importB fa en).
Notation do_import := (do_import fa en).
Notation activate := (activate fa).
Notation deactivate := (deactivate fa en).
Notation base_view := (base_view en).
Notation step := (step fa en).
Notation run := (run fa en).

(** the session slot and the Builders' caches *)
Definition sessall (s : state) := (sess s, bcache s, bk s).
Lemma sessall_bk : forall s s', sessall s' = sessall s -> bk s' = bk s.
Proof. intros s s' H. unfold sessall in H. now inversion H. Qed.

(** what stays untouched by imports in a state without sqlframe modules *)
Definition frame (s s' : state) : Prop :=
  config s' = config s /\ sessall s' = sessall s /\ pattr s' = pattr s.
Lemma frame_refl : forall s, frame s s.
Proof. intros; repeat split. Qed.
Lemma frame_trans : forall a b c, frame a b -> frame b c -> frame a c.
Proof. intros a b c [H1 [H2 H3]] [H4 [H5 H6]]; repeat split; congruence. Qed.

(** * states that hold nothing but real-PySpark modules *)
Definition realc (s : state) : Prop :=
  (top s = None \/ (top s = Some Real /\ installed en = true)) /\
  (sql s = None \/ (sql s = Some Real /\ installed en = true)) /\
  (tst s = None \/ (tst s = Some Real /\ installed en = true /\ testing_imp en = ROk)) /\
  (forall f m, assoc f (subs s) = Some m -> m = Real /\ installed en = true /\ mem f (bundle en) = true).

Lemma realc_init : realc init_state.
Proof. repeat split; try (left; reflexivity); cbn in *; discriminate. Qed.

Lemma realc_load_bundle : forall s, realc s -> installed en = true -> realc (load_bundle en s).
Proof.
  intros s [Ht [Hq [Hts Hsb]]] Hi. unfold realc, load_bundle; cbn.
  refine (conj _ (conj _ (conj _ _))).
  - right; split; [reflexivity | exact Hi].
  - destruct Hq as [Hq | [Hq _]]; rewrite Hq; right; (split; [reflexivity | exact Hi]).
  - exact Hts.
  - intros f m H. rewrite assoc_app in H. destruct (assoc f (subs s)) eqn:Ha.
    + inversion H; subst. apply (Hsb _ _ Ha).
    + rewrite assoc_map_real in H. destruct (mem f (bundle en)) eqn:Hm; [|discriminate].
      inversion H; subst. split; [reflexivity | split; [exact Hi | reflexivity]].
Qed.

Lemma import_top_real : forall s, realc s ->
  fst (import_top s) = base_view PTop /\ realc (snd (import_top s)) /\ frame s (snd (import_top s)).
Proof.
  intros s Hr. pose proof Hr as [Ht [Hq [Hts Hsb]]]. unfold Activate.import_top, Activate.base_view.
  destruct Ht as [Ht | [Ht Hi]]; rewrite Ht.
  - destruct (installed en) eqn:Hi; cbn.
    + split; [reflexivity|]. split; [apply realc_load_bundle; assumption | repeat split].
    + split; [reflexivity|]. split; [exact Hr | apply frame_refl].
  - rewrite Hi; cbn. split; [reflexivity|]. split; [exact Hr | apply frame_refl].
Qed.

Lemma import_sql_real : forall s, realc s ->
  fst (import_sql s) = base_view PSql /\ realc (snd (import_sql s)) /\ frame s (snd (import_sql s)).
Proof.
  intros s Hr. pose proof Hr as [Ht [Hq [Hts Hsb]]]. unfold Activate.import_sql.
  destruct Hq as [Hq | [Hq Hi]]; rewrite Hq.
  - pose proof (import_top_real s Hr) as [Ho [Hr1 Hf1]].
    destruct (import_top s) as [o s1]; cbn in Ho, Hr1, Hf1. subst o.
    unfold Activate.base_view. destruct (installed en) eqn:Hi; cbn.
    + pose proof Hr1 as [_ [Hq1 _]].
      destruct Hq1 as [Hq1 | [Hq1 _]]; rewrite Hq1; cbn.
      * split; [reflexivity|]. split; [|destruct Hf1 as [A [B C]]; repeat split; assumption].
        destruct Hr1 as [Ht1 [_ [Hts1 Hsb1]]]. unfold realc; cbn.
        refine (conj Ht1 (conj _ (conj Hts1 Hsb1))). right; split; [reflexivity | exact Hi].
      * split; [reflexivity|]. split; assumption.
    + split; [reflexivity|]. split; assumption.
  - cbn. unfold Activate.base_view. rewrite Hi. split; [reflexivity|]. split; [exact Hr | apply frame_refl].
Qed.

Lemma import_testing_real : forall s, realc s ->
  fst (import_testing s) = base_view PTesting /\ realc (snd (import_testing s)) /\ frame s (snd (import_testing s)).
Proof.
  intros s Hr. pose proof Hr as [Ht [Hq [Hts Hsb]]]. unfold Activate.import_testing.
  destruct Hts as [Hts | [Hts [Hi Hok]]]; rewrite Hts.
  - pose proof (import_top_real s Hr) as [Ho [Hr1 Hf1]].
    destruct (import_top s) as [o s1]; cbn in Ho, Hr1, Hf1. subst o.
    unfold Activate.base_view. destruct (installed en) eqn:Hi; cbn.
    + destruct (testing_imp en) eqn:Hti; cbn.
      * split; [reflexivity|]. split; assumption.
      * split; [reflexivity|]. split; [|destruct Hf1 as [A [B C]]; repeat split; assumption].
        destruct Hr1 as [Ht1 [Hq1 [_ Hsb1]]]. unfold realc; cbn.
        refine (conj Ht1 (conj Hq1 (conj _ Hsb1))). right; repeat split; assumption.
      * split; [reflexivity|]. split; [|destruct Hf1 as [A [B C]]; repeat split; assumption].
        destruct Hr1 as [Ht1 [Hq1 [Hts1 Hsb1]]]. unfold realc; cbn. exact (conj Ht1 (conj Hq1 (conj Hts1 Hsb1))).
    + split; [reflexivity|]. split; assumption.
  - cbn. unfold Activate.base_view. rewrite Hi, Hok. split; [reflexivity|]. split; [exact Hr | apply frame_refl].
Qed.

Lemma import_sub_real : forall f s, realc s ->
  fst (import_sub f s) = base_view (PSub f) /\ realc (snd (import_sub f s)) /\ frame s (snd (import_sub f s)).
Proof.
  intros f s Hr. pose proof Hr as [Ht [Hq [Hts Hsb]]]. unfold Activate.import_sub.
  destruct (assoc f (subs s)) as [m|] eqn:Ha.
  - destruct (Hsb _ _ Ha) as [Hm [Hi Hb]]. subst m. cbn. unfold Activate.base_view. rewrite Hi, Hb.
    split; [reflexivity|]. split; [exact Hr | apply frame_refl].
  - pose proof (import_sql_real s Hr) as [Ho [Hr1 Hf1]].
    destruct (import_sql s) as [o s1]; cbn in Ho, Hr1, Hf1. subst o.
    unfold Activate.base_view. destruct (installed en) eqn:Hi; cbn.
    + pose proof Hr1 as [Ht1 [Hq1 [Hts1 Hsb1]]].
      destruct (assoc f (subs s1)) as [m|] eqn:Ha1.
      * destruct (Hsb1 _ _ Ha1) as [Hm [_ Hb]]. subst m. rewrite Hb. cbn. split; [reflexivity|]. split; assumption.
      * destruct (mem f (bundle en)) eqn:Hb; cbn.
        -- split; [reflexivity|]. split; [|destruct Hf1 as [A [B C]]; repeat split; assumption].
           unfold realc; cbn. refine (conj Ht1 (conj Hq1 (conj Hts1 _))).
           intros g m H. destruct (String.eqb g f) eqn:He.
           ++ apply String.eqb_eq in He; subst g. inversion H; subst. repeat split; assumption.
           ++ apply (Hsb1 _ _ H).
        -- split; [reflexivity|]. split; assumption.
    + split; [reflexivity|]. split; assumption.
Qed.

Lemma importA_real : forall p s, realc s ->
  fst (importA p s) = base_view p /\ realc (snd (importA p s)) /\ frame s (snd (importA p s)).
Proof.
  intros [| |f|] s Hr; cbn [Activate.importA].
  - now apply import_top_real. - now apply import_sql_real.
  - now apply import_sub_real. - now apply import_testing_real.
Qed.

Lemma realc_top_not_mock : forall s, realc s -> forall me, top s <> Some (Mock me).
Proof. intros s [[Ht | [Ht _]] _] me; rewrite Ht; discriminate. Qed.

Lemma importS_real : forall p s, realc s ->
  fst (importS p s) = base_view p /\ realc (snd (importS p s)) /\ frame s (snd (importS p s)).
Proof.
  intros p s Hr. unfold Activate.importS.
  pose proof (importA_real p s Hr) as [Ho [Hr1 Hf1]].
  destruct (importA p s) as [o s1]; cbn in Ho, Hr1, Hf1.
  pose proof (realc_top_not_mock s1 Hr1) as Hnm.
  destruct o; try (cbn; split; [assumption | split; assumption]).
  destruct (top s1) as [[| me | | |]|]; try (cbn; split; [assumption | split; assumption]).
  exfalso; apply (Hnm me); reflexivity.
Qed.

Lemma base_view_not_installed : forall p, installed en = false -> base_view p = EImportError.
Proof. intros p H; unfold Activate.base_view; now rewrite H. Qed.

Lemma importB_real : forall p s, realc s ->
  fst (importB p s) = base_view p /\ realc (snd (importB p s)) /\ frame s (snd (importB p s)).
Proof.
  intros [| |f|] s Hr; cbn [Activate.importB].
  - now apply import_top_real.
  - pose proof (import_top_real s Hr) as [Ho [Hr1 Hf1]].
    destruct (import_top s) as [o s1]; cbn in Ho, Hr1, Hf1. subst o.
    destruct (installed en) eqn:Hi.
    + assert (Hb : base_view PTop = EMod Real) by (unfold Activate.base_view; now rewrite Hi). rewrite Hb.
      pose proof (import_sql_real s1 Hr1) as [Ho2 [Hr2 Hf2]].
      split; [exact Ho2 | split; [exact Hr2 | exact (frame_trans _ _ _ Hf1 Hf2)]].
    + rewrite !base_view_not_installed by assumption. cbn. split; [reflexivity | split; assumption].
  - pose proof (import_sql_real s Hr) as [Ho [Hr1 Hf1]].
    destruct (import_sql s) as [o s1]; cbn in Ho, Hr1, Hf1. subst o.
    destruct (installed en) eqn:Hi.
    + assert (Hb : base_view PSql = EMod Real) by (unfold Activate.base_view; now rewrite Hi). rewrite Hb.
      pose proof (import_sub_real f s1 Hr1) as [Ho2 [Hr2 Hf2]].
      split; [exact Ho2 | split; [exact Hr2 | exact (frame_trans _ _ _ Hf1 Hf2)]].
    + rewrite !base_view_not_installed by assumption. cbn. split; [reflexivity | split; assumption].
  - pose proof (import_top_real s Hr) as [Ho [Hr1 Hf1]].
    destruct (import_top s) as [o s1]; cbn in Ho, Hr1, Hf1. subst o.
    destruct (installed en) eqn:Hi.
    + assert (Hb : base_view PTop = EMod Real) by (unfold Activate.base_view; now rewrite Hi). rewrite Hb.
      pose proof (import_testing_real s1 Hr1) as [Ho2 [Hr2 Hf2]].
      split; [exact Ho2 | split; [exact Hr2 | exact (frame_trans _ _ _ Hf1 Hf2)]].
    + rewrite !base_view_not_installed by assumption. cbn. split; [reflexivity | split; assumption].
Qed.

(** real_view: in a state without sqlframe modules every import statement, in every form, on every path,
    yields exactly what it yielded before any activation; and the state stays of that kind *)
Theorem real_view : forall fm p s, realc s ->
  fst (do_import fm p s) = base_view p /\ realc (snd (do_import fm p s)) /\ frame s (snd (do_import fm p s)).
Proof.
  intros [] p s Hr; cbn [Activate.do_import];
    [now apply importA_real | now apply importS_real | now apply importB_real].
Qed.

(** * deactivate *)
Theorem deactivate_resets : forall s,
  realc (snd (deactivate s))
  /\ (fst (deactivate s) = EOk -> config (snd (deactivate s)) = [])
  /\ (f_clear_protected fa = true -> config (snd (deactivate s)) = [])
  /\ pattr (snd (deactivate s)) = pattr s /\ sessall (snd (deactivate s)) = sessall s.
Proof.
  intros s. unfold Activate.deactivate. cbn [fst snd].
  split; [|split; [|split]].
  - destruct ((any_present s || junk s) && installed en) eqn:Hp; unfold realc; cbn.
    + apply andb_true_iff in Hp as [_ Hi].
      refine (conj _ (conj _ (conj _ _))).
      * right; split; [reflexivity | exact Hi].
      * right; split; [reflexivity | exact Hi].
      * destruct (is_some (tst s) && rimp_eqb (testing_imp en) ROk) eqn:Ht; [|left; reflexivity].
        apply andb_true_iff in Ht as [_ Ht]. apply rimp_eqb_eq in Ht.
        right; repeat split; assumption.
      * intros f m H. rewrite assoc_map_real in H. destruct (mem f (bundle en)) eqn:Hm; [|discriminate].
        inversion H; subst. split; [reflexivity | split; [exact Hi | reflexivity]].
    + refine (conj _ (conj _ (conj _ _))); try (left; reflexivity). intros f m H; discriminate.
  - intros Hok. destruct (deact_raises fa en s) eqn:Hr; [discriminate|].
    destruct ((any_present s || junk s) && installed en); reflexivity.
  - intros Hp. rewrite Hp, andb_false_r.
    destruct ((any_present s || junk s) && installed en); reflexivity.
  - destruct ((any_present s || junk s) && installed en); split; reflexivity.
Qed.

(* ------------------------------------------------------------------------------------------------ *)
(** * activated states: every documented path belongs to one engine *)

Definition docs_exist (e : string) : bool := forallb (fun f => mem f (pkg_files fa e)) doc_subs.

Definition homog (e : string) (s : state) : Prop :=
  top s = Some (Mock (Some e)) /\ sql s = Some (SfPkg e) /\ tst s = Some Testing /\
  (forall f, mem f doc_subs = true -> assoc f (subs s) = None \/ assoc f (subs s) = Some (Sf e f)) /\
  docs_exist e = true.

(** a pyspark.sql.<f> entry that came from an engine package is also an attribute of that package *)
Definition attr_inv (s : state) : Prop :=
  forall f e', assoc f (subs s) = Some (Sf e' f) -> mem2 e' f (pattr s) = true.

Lemma attr_inv_init : attr_inv init_state.
Proof. intros f e' H; cbn in H; discriminate. Qed.

Lemma docs_exist_mem : forall e f, docs_exist e = true -> mem f doc_subs = true -> mem f (pkg_files fa e) = true.
Proof.
  intros e f Hd Hm. unfold docs_exist in Hd. rewrite forallb_forall in Hd. apply Hd. now apply mem_In.
Qed.

Theorem activate_homog : forall e c kv s,
  act_ok fa e s = true -> attr_inv s ->
  fst (activate e c kv s) = EOk /\ homog e (snd (activate e c kv s)) /\ attr_inv (snd (activate e c kv s))
  /\ config (snd (activate e c kv s)) = store_config fa c kv s /\ sessall (snd (activate e c kv s)) = sessall s.
Proof.
  intros e c kv s Hok Hai. unfold act_ok in Hok. unfold Activate.activate.
  destruct (assoc e (f_engines fa)) as [prefix|]; [|discriminate].
  apply andb_true_iff in Hok as [Hregs Hdocs].
  rewrite (take_good_all _ _ Hregs). rewrite Nat.eqb_refl. cbn [fst snd].
  set (regs := reg_files fa e prefix (attrs_after_import fa e s)) in *.
  rewrite forallb_forall in Hdocs.
  split; [reflexivity|]. split; [|split; [|split; reflexivity]].
  - unfold homog; cbn. refine (conj eq_refl (conj eq_refl (conj eq_refl (conj _ _)))).
    + intros f Hf. rewrite assoc_fold_cons.
      apply mem_In in Hf. specialize (Hdocs _ Hf). apply andb_true_iff in Hdocs as [_ Hd].
      destruct (mem f regs); [right; reflexivity|]. cbn in Hd.
      destruct (assoc f (subs s)) as [m|]; [|left; reflexivity].
      apply modref_eqb_eq in Hd. subst m. right; reflexivity.
    + unfold docs_exist. rewrite forallb_forall. intros f Hf. specialize (Hdocs _ Hf).
      apply andb_true_iff in Hdocs as [Hd _]. exact Hd.
  - intros f e' H. cbn in H |- *. rewrite assoc_fold_cons in H.
    rewrite mem2_app. destruct (mem f regs) eqn:Hm.
    + inversion H; subst e'. rewrite mem2_map_pair, Hm. apply orb_true_r.
    + unfold attrs_after_import. rewrite mem2_app, (Hai _ _ H). reflexivity.
Qed.

Lemma attr_inv_more : forall s pa, attr_inv s -> attr_inv (set_pattr s (pattr s ++ pa)).
Proof. intros s pa H f e' Ha. cbn in *. rewrite mem2_app, (H _ _ Ha). reflexivity. Qed.

Definition keeps (s s' : state) : Prop := config s' = config s /\ sessall s' = sessall s /\ junk s' = junk s.
Lemma keeps_refl : forall s, keeps s s. Proof. intros; repeat split. Qed.

Lemma import_sub_homog : forall e f s, homog e s -> attr_inv s ->
  (mem f doc_subs = true ->
     fst (import_sub f s) = EMod (Sf e f) /\ assoc f (subs (snd (import_sub f s))) = Some (Sf e f))
  /\ homog e (snd (import_sub f s)) /\ attr_inv (snd (import_sub f s)) /\ keeps s (snd (import_sub f s)).
Proof.
  intros e f s Hh Hai. pose proof Hh as [Ht [Hq [Hts [Hsb Hde]]]].
  unfold Activate.import_sub. destruct (assoc f (subs s)) as [m|] eqn:Ha.
  - cbn. split; [|split; [exact Hh | split; [exact Hai | apply keeps_refl]]].
    intros Hd. destruct (Hsb _ Hd) as [H|H]; rewrite H in Ha; [discriminate|]. inversion Ha; subst. split; [reflexivity | exact H].
  - unfold Activate.import_sql. rewrite Hq. rewrite Ha.
    destruct (mem f (pkg_files fa e)) eqn:Hf; cbn.
    + split; [intros _; rewrite String.eqb_refl; split; reflexivity|].
      split; [|split; [|repeat split]].
      * unfold homog; cbn. refine (conj Ht (conj Hq (conj Hts (conj _ Hde)))).
        intros g Hg. destruct (String.eqb g f) eqn:He.
        -- apply String.eqb_eq in He; subst g. right; reflexivity.
        -- apply (Hsb _ Hg).
      * intros g e' H. cbn in H |- *. rewrite mem2_app. destruct (String.eqb g f) eqn:He.
        -- apply String.eqb_eq in He; subst g. inversion H; subst e'. rewrite mem2_single. apply orb_true_r.
        -- rewrite (Hai _ _ H). reflexivity.
    + split; [|split; [exact Hh | split; [exact Hai | apply keeps_refl]]].
      intros Hd. rewrite (docs_exist_mem _ _ Hde Hd) in Hf. discriminate.
Qed.

Lemma importA_homog : forall e p s, homog e s -> attr_inv s ->
  (documented p = true -> exists m, fst (importA p s) = EMod m /\ belongs e p m = true)
  /\ homog e (snd (importA p s)) /\ attr_inv (snd (importA p s)) /\ keeps s (snd (importA p s)).
Proof.
  intros e p s Hh Hai. pose proof Hh as [Ht [Hq [Hts [Hsb Hde]]]].
  destruct p as [| |f|]; cbn [Activate.importA].
  - unfold Activate.import_top. rewrite Ht. cbn.
    split; [intros _; eexists; split; reflexivity | split; [exact Hh | split; [exact Hai | apply keeps_refl]]].
  - unfold Activate.import_sql. rewrite Hq. cbn.
    split; [intros _; eexists; split; [reflexivity | cbn; apply String.eqb_refl]
           | split; [exact Hh | split; [exact Hai | apply keeps_refl]]].
  - destruct (import_sub_homog e f s Hh Hai) as [H1 H2]. split; [|exact H2].
    intros Hd. cbn in Hd. destruct (H1 Hd) as [Ho _]. eexists; split; [exact Ho | cbn; now rewrite !String.eqb_refl].
  - unfold Activate.import_testing. rewrite Hts. cbn.
    split; [intros _; eexists; split; reflexivity | split; [exact Hh | split; [exact Hai | apply keeps_refl]]].
Qed.

Lemma importS_homog : forall e p s, homog e s -> attr_inv s ->
  (documented p = true -> exists m, fst (importS p s) = EMod m /\ belongs e p m = true)
  /\ homog e (snd (importS p s)) /\ attr_inv (snd (importS p s)) /\ keeps s (snd (importS p s)).
Proof.
  intros e p s Hh Hai. unfold Activate.importS.
  destruct p as [| |f|].
  - (* PTop *) cbn [Activate.importA]. unfold Activate.import_top. destruct Hh as [Ht R]. rewrite Ht. cbn. rewrite Ht.
    split; [intros _; eexists; split; reflexivity | split; [exact (conj Ht R) | split; [exact Hai | apply keeps_refl]]].
  - (* PSql *) cbn [Activate.importA]. unfold Activate.import_sql. destruct Hh as [Ht [Hq R]]. rewrite Hq. cbn. rewrite Ht.
    split; [intros _; eexists; split; [reflexivity | cbn; apply String.eqb_refl]
           | split; [exact (conj Ht (conj Hq R)) | split; [exact Hai | apply keeps_refl]]].
  - (* PSub f *) cbn [Activate.importA].
    destruct (import_sub_homog e f s Hh Hai) as [H1 [Hh1 [Hai1 Hk1]]].
    destruct (import_sub f s) as [o s1]; cbn [fst snd] in *.
    pose proof Hh1 as [Ht1 _].
    destruct (mem f doc_subs) eqn:Hd.
    + destruct (H1 eq_refl) as [Ho Ha]. subst o. rewrite Ht1. rewrite (Hai1 _ _ Ha). cbn.
      split; [intros _; eexists; split; [reflexivity | cbn; now rewrite !String.eqb_refl] | split; [exact Hh1 | split; assumption]].
    + split; [cbn; rewrite Hd; discriminate|].
      destruct o; try (cbn; split; [exact Hh1 | split; assumption]).
      rewrite Ht1. destruct (mem2 e f (pattr s1)); cbn; (split; [exact Hh1 | split; assumption]).
  - (* PTesting *) cbn [Activate.importA]. unfold Activate.import_testing. destruct Hh as [Ht [Hq [Hts R]]]. rewrite Hts. cbn. rewrite Ht.
    split; [intros _; eexists; split; reflexivity
           | split; [exact (conj Ht (conj Hq (conj Hts R))) | split; [exact Hai | apply keeps_refl]]].
Qed.

Lemma importB_homog : forall e p s, homog e s -> attr_inv s ->
  (documented p = true -> exists m, fst (importB p s) = EMod m /\ belongs e p m = true)
  /\ homog e (snd (importB p s)) /\ attr_inv (snd (importB p s)) /\ keeps s (snd (importB p s)).
Proof.
  intros e p s Hh Hai. pose proof Hh as [Ht [Hq [Hts [Hsb Hde]]]].
  destruct p as [| |f|]; cbn [Activate.importB].
  - unfold Activate.import_top. rewrite Ht. cbn.
    split; [intros _; eexists; split; reflexivity | split; [exact Hh | split; [exact Hai | apply keeps_refl]]].
  - unfold Activate.import_top. rewrite Ht. cbn.
    split; [intros _; eexists; split; [reflexivity | cbn; apply String.eqb_refl]
           | split; [exact Hh | split; [exact Hai | apply keeps_refl]]].
  - unfold Activate.import_sql. rewrite Hq.
    destruct (mem2 e f (pattr s)) eqn:Hm; cbn.
    + split; [intros _; eexists; split; [reflexivity | cbn; now rewrite !String.eqb_refl]
             | split; [exact Hh | split; [exact Hai | apply keeps_refl]]].
    + destruct (mem f (pkg_files fa e)) eqn:Hf; cbn.
      * split; [intros _; eexists; split; [reflexivity | cbn; now rewrite !String.eqb_refl]|].
        split; [exact Hh | split; [apply attr_inv_more; exact Hai | repeat split]].
      * split; [|split; [exact Hh | split; [exact Hai | apply keeps_refl]]].
        intros Hd. cbn in Hd. rewrite (docs_exist_mem _ _ Hde Hd) in Hf. discriminate.
  - unfold Activate.import_top. rewrite Ht. cbn.
    split; [intros _; eexists; split; reflexivity | split; [exact Hh | split; [exact Hai | apply keeps_refl]]].
Qed.

(** activate_maps_documented_paths, for every statement form, with the state staying homogeneous *)
Theorem homog_view : forall e fm p s, homog e s -> attr_inv s ->
  (documented p = true -> exists m, fst (do_import fm p s) = EMod m /\ belongs e p m = true)
  /\ homog e (snd (do_import fm p s)) /\ attr_inv (snd (do_import fm p s)) /\ keeps s (snd (do_import fm p s)).
Proof.
  intros e [] p s Hh Hai; cbn [Activate.do_import];
    [now apply importA_homog | now apply importS_homog | now apply importB_homog].
Qed.

Theorem activate_maps_documented_paths : forall e c kv s fm p,
  act_ok fa e s = true -> attr_inv s -> documented p = true ->
  exists m, fst (do_import fm p (snd (activate e c kv s))) = EMod m /\ belongs e p m = true.
Proof.
  intros e c kv s fm p Hok Hai Hd.
  destruct (activate_homog e c kv s Hok Hai) as [_ [Hh [Hai' _]]].
  destruct (homog_view e fm p _ Hh Hai') as [H _]. exact (H Hd).
Qed.

(* ------------------------------------------------------------------------------------------------ *)
(** * the invariant behind [run_conforms] *)

Lemma in_hist_In : forall e c h, in_hist e c h = true -> In (e, c) h.
Proof.
  intros e c h H. unfold in_hist in H. apply existsb_exists in H as [[e' c'] [Hin He]].
  cbn in He. apply andb_true_iff in He as [H1 H2]. apply String.eqb_eq in H1. apply optnat_eqb_eq in H2. now subst.
Qed.
Lemma In_in_hist : forall e c h, In (e, c) h -> in_hist e c h = true.
Proof.
  intros e c h H. unfold in_hist. apply existsb_exists. exists (e, c). split; [exact H|].
  cbn. now rewrite String.eqb_refl, optnat_eqb_refl.
Qed.
Lemma in_hist_snoc : forall e c h x, in_hist e c h = true -> in_hist e c (h ++ [x]) = true.
Proof. intros. unfold in_hist in *. rewrite existsb_app, H. reflexivity. Qed.
Lemma in_hist_last : forall e c h, in_hist e c (h ++ [(e, c)]) = true.
Proof. intros. apply In_in_hist. apply in_or_app. right; left; reflexivity. Qed.
Lemma tainted_snoc : forall h x, tainted h = true -> tainted (h ++ [x]) = true.
Proof. intros. unfold tainted in *. rewrite existsb_app, H. reflexivity. Qed.
Lemma in_hist_bad_tainted : forall e h, in_hist e (Some 9) h = true -> tainted h = true.
Proof.
  intros e h H. apply in_hist_In in H. unfold tainted. apply existsb_exists. exists (e, Some 9). split; [exact H | reflexivity].
Qed.

Definition hist_engine (E : option string) (h : list (string * option nat)) : Prop :=
  match E with None => h = [] | Some e0 => forall e c, In (e, c) h -> e = e0 end.

Lemma hist_engine_in : forall E h e c, hist_engine E h -> in_hist e c h = true -> E = Some e.
Proof.
  intros [e0|] h e c He Hin; apply in_hist_In in Hin; cbn in He.
  - now rewrite (He _ _ Hin).
  - subst h. destruct Hin.
Qed.

Definition sess_valid (ss : sstate) (e0 : string) (c0 : option nat) : Prop :=
  in_hist e0 c0 (hist ss) = true
  \/ (mem e0 (f_noconn fa) = true /\ c0 = None /\ exists c, in_hist e0 c (hist ss) = true).

Definition sess_ok (ss : sstate) (s : state) : Prop :=
  match sess s with
  | SNone => True
  | SPoisoned => tainted (hist ss) = true
  | SLive e0 c0 => sess_valid ss e0 c0
  end
  /\ forall e e0 c0, assoc e (bcache s) = Some (e0, c0) -> sess_valid ss e0 c0.

Record Inv (E : option string) (ss : sstate) (s : state) : Prop := mkInv {
  inv_attr : attr_inv s;
  inv_hist : multi_mode fa = true \/ hist_engine E (hist ss);
  inv_act : match active ss with
            | None => realc s /\ config s = []
            | Some (e, c) => homog e s /\ in_hist e c (hist ss) = true
                             /\ (forall k, c = Some k -> assoc (f_conn_key fa) (config s) = Some k)
            end;
  inv_cfg : forall k, assoc (f_conn_key fa) (config s) = Some k -> exists e', in_hist e' (Some k) (hist ss) = true;
  inv_cfgm : multi_mode fa = true ->
             match active ss with
             | Some (e, _) => forall k, assoc (f_conn_key fa) (config s) = Some k -> in_hist e (Some k) (hist ss) = true
             | None => True
             end;
  inv_sess : sess_ok ss s;
  inv_bk : forall e' k, assoc e' (bk s) = Some k -> in_hist e' (Some k) (hist ss) = true
}.

Lemma Inv_init : Inv None sinit init_state.
Proof.
  constructor; cbn.
  - apply attr_inv_init. - right; reflexivity. - split; [apply realc_init | reflexivity].
  - intros k H; discriminate. - intros _; exact I. - split; [exact I | intros e e0 c0 H; discriminate].
  - intros e' k H; discriminate.
Qed.

Lemma realc_attr_inv : forall s, realc s -> attr_inv s.
Proof. intros s [_ [_ [_ Hsb]]] f e' H. destruct (Hsb _ _ H) as [Hm _]. discriminate. Qed.

Lemma accept_base_view_self : forall p,
  match base_view p, base_view p with
  | EMod a, EMod b => modref_eqb a b
  | EImportError, EImportError | EError, EError => true
  | _, _ => false
  end = true.
Proof.
  intros p. unfold Activate.base_view.
  destruct (installed en); [|reflexivity].
  destruct p as [| |f|]; try reflexivity.
  - destruct (mem f (bundle en)); reflexivity.
  - destruct (testing_imp en); reflexivity.
Qed.

Definition single_ok (E : option string) (ev : event) : Prop :=
  match engine_of ev, E with Some e, Some e0 => e = e0 | _, _ => True end.
Definition next_engine (E : option string) (ev : event) : option string :=
  match engine_of ev with Some e => Some e | None => E end.

Lemma store_config_conn : forall c kv s k,
  kv_wf fa kv = true -> c = Some k -> assoc (f_conn_key fa) (store_config fa c kv s) = Some k.
Proof.
  intros c kv s k Hwf Hc. subst c. unfold kv_wf in Hwf. apply andb_true_iff in Hwf as [_ Hn]. apply negb_true_iff in Hn.
  unfold store_config. rewrite (fold_cset_other _ _ _ Hn). apply cset_assoc_same.
Qed.
Lemma store_config_noconn : forall kv s,
  kv_wf fa kv = true ->
  assoc (f_conn_key fa) (store_config fa None kv s) = if f_reset_config fa then None else assoc (f_conn_key fa) (config s).
Proof.
  intros kv s Hwf. unfold kv_wf in Hwf. apply andb_true_iff in Hwf as [_ Hn]. apply negb_true_iff in Hn.
  unfold store_config. rewrite (fold_cset_other _ _ _ Hn). destruct (f_reset_config fa); reflexivity.
Qed.
Lemma store_config_kv : forall c kv s,
  kv_wf fa kv = true -> forallb (fun p => cfg_has (store_config fa c kv s) (fst p) (snd p)) kv = true.
Proof.
  intros c kv s Hwf. unfold kv_wf in Hwf. apply andb_true_iff in Hwf as [Hnd _].
  unfold store_config. now apply fold_cset_has.
Qed.

Lemma sess_valid_snoc : forall ss ac lg x e0 c0,
  sess_valid ss e0 c0 -> sess_valid (mkS ac (hist ss ++ [x]) lg) e0 c0.
Proof.
  intros ss ac lg x e0 c0 [H | [H1 [H2 [c H3]]]]; unfold sess_valid; cbn [hist].
  - left; now apply in_hist_snoc.
  - right; split; [exact H1 | split; [exact H2 | exists c; now apply in_hist_snoc]].
Qed.

Lemma sess_ok_snoc : forall ss s s' x ac lg,
  sessall s' = sessall s -> sess_ok ss s -> sess_ok (mkS ac (hist ss ++ [x]) lg) s'.
Proof.
  intros ss s s' x ac lg He [H1 H2]. unfold sessall in He. inversion He as [[Hs Hb Hk]]. unfold sess_ok. rewrite Hs, Hb.
  split.
  - destruct (sess s) as [|e0 c0|]; [exact I | now apply sess_valid_snoc | cbn [hist]; now apply tainted_snoc].
  - intros e e0 c0 H. apply sess_valid_snoc. exact (H2 _ _ _ H).
Qed.

Lemma step_activate : forall E ss s e c kv,
  Inv E ss s -> act_ok fa e s && kv_wf fa kv = true ->
  (multi_mode fa = true \/ match E with Some e0 => e = e0 | None => True end) ->
  forall ev, (ev = Activate e c kv \/ ev = CtxEnter e c kv) ->
  accept fa en ss ev (fst (activate e c kv s)) (config (snd (activate e c kv s))) = true
  /\ Inv (Some e) (snext ss ev) (snd (activate e c kv s)).
Proof.
  intros E ss s e c kv HI Hok HE ev Hev. apply andb_true_iff in Hok as [Hok Hwf].
  destruct (activate_homog e c kv s Hok (inv_attr _ _ _ HI)) as [Ho [Hh [Hai [Hcfg Hse]]]].
  assert (Hsn : snext ss ev = mkS (Some (e, c)) (hist ss ++ [(e, c)]) (lastgoc ss)) by (destruct Hev; subst ev; reflexivity).
  split.
  - unfold accept. rewrite Hsn. cbn [active]. rewrite Ho, Hcfg.
    assert (Hgoal : (match c with Some k => cfg_has (store_config fa c kv s) (f_conn_key fa) k | None => true end
                     && forallb (fun p => cfg_has (store_config fa c kv s) (fst p) (snd p)) kv) = true).
    { apply andb_true_iff; split; [|now apply store_config_kv].
      destruct c as [k|]; [|reflexivity]. unfold cfg_has. rewrite (store_config_conn (Some k) kv s k Hwf eq_refl).
      apply Nat.eqb_refl. }
    destruct Hev; subst ev; cbn; exact Hgoal.
  - rewrite Hsn. constructor; cbn [active hist].
    + exact Hai.
    + destruct (inv_hist _ _ _ HI) as [Hm | Hh0]; [left; exact Hm|].
      destruct HE as [Hm | HE]; [left; exact Hm|]. right.
      cbn. intros e' c' Hin. apply in_app_or in Hin as [Hin | [Hin | []]].
      * destruct E as [e0|]; cbn in Hh0.
        -- subst e. now apply (Hh0 _ _ Hin).
        -- rewrite Hh0 in Hin. destruct Hin.
      * now inversion Hin.
    + split; [exact Hh | split; [apply in_hist_last|]].
      intros k Hc. rewrite Hcfg. exact (store_config_conn c kv s k Hwf Hc).
    + intros k Hk. rewrite Hcfg in Hk. destruct c as [k0|].
      * rewrite (store_config_conn (Some k0) kv s k0 Hwf eq_refl) in Hk. inversion Hk; subst.
        exists e. apply in_hist_last.
      * rewrite (store_config_noconn kv s Hwf) in Hk. destruct (f_reset_config fa); [discriminate|].
        destruct (inv_cfg _ _ _ HI _ Hk) as [e' He']. exists e'. now apply in_hist_snoc.
    + intros Hm k Hk. rewrite Hcfg in Hk. destruct c as [k0|].
      * rewrite (store_config_conn (Some k0) kv s k0 Hwf eq_refl) in Hk. inversion Hk; subst. apply in_hist_last.
      * rewrite (store_config_noconn kv s Hwf) in Hk.
        unfold multi_mode in Hm. apply andb_true_iff in Hm as [Hm _]. apply andb_true_iff in Hm as [_ Hm].
        rewrite Hm in Hk. discriminate.
    + apply (sess_ok_snoc ss s); [exact Hse | exact (inv_sess _ _ _ HI)].
    + intros e' k H. apply in_hist_snoc. apply (inv_bk _ _ _ HI e' k).
      unfold Activate.activate in H. destruct (assoc e (f_engines fa)); exact H.
Qed.

Lemma sess_ok_same : forall ss ss' s s',
  hist ss' = hist ss -> sessall s' = sessall s -> sess_ok ss s -> sess_ok ss' s'.
Proof.
  intros ss ss' s s' Hh He H. unfold sessall in He. inversion He as [[Hs Hb Hk]].
  unfold sess_ok, sess_valid in *. rewrite Hh, Hs, Hb. exact H.
Qed.

Lemma step_deactivate : forall E ss s ev,
  Inv E ss s -> deact_raises fa en s = false -> snext ss ev = mkS None (hist ss) (lastgoc ss) ->
  (match ev with Deactivate | CtxExit _ => True | _ => False end) ->
  accept fa en ss ev (fst (deactivate s)) (config (snd (deactivate s))) = true
  /\ Inv E (snext ss ev) (snd (deactivate s)).
Proof.
  intros E ss s ev HI Hnr Hsn Hev.
  destruct (deactivate_resets s) as [Hr [Hc [_ [Hpa Hse]]]].
  assert (Ho : fst (deactivate s) = EOk) by (unfold Activate.deactivate; cbn; now rewrite Hnr).
  specialize (Hc Ho).
  split.
  - unfold accept. rewrite Hsn. cbn [active]. rewrite Hc, Ho. destruct ev; try destruct Hev; reflexivity.
  - rewrite Hsn. constructor; cbn [active hist].
    + now apply realc_attr_inv.
    + exact (inv_hist _ _ _ HI).
    + split; assumption.
    + intros k Hk. rewrite Hc in Hk. discriminate.
    + intros _; exact I.
    + apply (sess_ok_same ss _ s); [reflexivity | exact Hse | exact (inv_sess _ _ _ HI)].
    + intros e' k H. apply (inv_bk _ _ _ HI e' k). unfold Activate.deactivate in H. cbn [snd] in H.
      destruct ((any_present s || junk s) && installed en); exact H.
Qed.

Lemma step_import : forall E ss s fm p,
  Inv E ss s ->
  accept fa en ss (Import fm p) (fst (do_import fm p s)) (config (snd (do_import fm p s))) = true
  /\ Inv E ss (snd (do_import fm p s)).
Proof.
  intros E ss s fm p HI. pose proof (inv_act _ _ _ HI) as Hact.
  unfold accept. cbn [snext].
  destruct (active ss) as [[e c]|] eqn:Hac.
  - destruct Hact as [Hh [Hin Hc]].
    destruct (homog_view e fm p s Hh (inv_attr _ _ _ HI)) as [Hd [Hh' [Hai' [Hk1 [Hk2 Hk3]]]]].
    split.
    + cbn. destruct (documented p) eqn:Hdoc; [|reflexivity].
      destruct (Hd eq_refl) as [m [Ho Hb]]. rewrite Ho. exact Hb.
    + constructor.
      * exact Hai'.
      * exact (inv_hist _ _ _ HI).
      * rewrite Hac. split; [exact Hh' | split; [exact Hin|]]. rewrite Hk1. exact Hc.
      * rewrite Hk1. exact (inv_cfg _ _ _ HI).
      * rewrite Hk1. exact (inv_cfgm _ _ _ HI).
      * apply (sess_ok_same ss ss s); [reflexivity | exact Hk2 | exact (inv_sess _ _ _ HI)].
      * rewrite (sessall_bk _ _ Hk2). exact (inv_bk _ _ _ HI).
  - destruct Hact as [Hr Hcfg].
    destruct (real_view fm p s Hr) as [Ho [Hr' [Hf1 [Hf2 Hf3]]]].
    split.
    + rewrite Hf1, Hcfg. cbn. destruct (documented p); [|reflexivity]. rewrite Ho. apply accept_base_view_self.
    + constructor.
      * now apply realc_attr_inv.
      * exact (inv_hist _ _ _ HI).
      * rewrite Hac. split; [exact Hr' | congruence].
      * rewrite Hf1. exact (inv_cfg _ _ _ HI).
      * rewrite Hf1. exact (inv_cfgm _ _ _ HI).
      * apply (sess_ok_same ss ss s); [reflexivity | exact Hf2 | exact (inv_sess _ _ _ HI)].
      * rewrite (sessall_bk _ _ Hf2). exact (inv_bk _ _ _ HI).
Qed.

Lemma realc_set_pattr : forall s pa, realc s -> realc (set_pattr s pa).
Proof. intros s pa H; exact H. Qed.
Lemma homog_set_pattr : forall e s pa, homog e s -> homog e (set_pattr s pa).
Proof. intros e s pa H; exact H. Qed.

Lemma step_loadf : forall E ss s e,
  Inv E ss s ->
  accept fa en ss (LoadFunctions e) (fst (load_functions fa e s)) (config (snd (load_functions fa e s))) = true
  /\ Inv E ss (snd (load_functions fa e s)).
Proof.
  intros E ss s e HI. pose proof (inv_act _ _ _ HI) as Hact. unfold load_functions. cbn [fst snd].
  split.
  - unfold accept. cbn [snext]. destruct (active ss) as [[e' c]|]; cbn; [reflexivity|].
    destruct Hact as [_ Hc]. rewrite Hc. reflexivity.
  - constructor.
    + apply attr_inv_more. exact (inv_attr _ _ _ HI).
    + exact (inv_hist _ _ _ HI).
    + destruct (active ss) as [[e' c]|]; exact Hact.
    + exact (inv_cfg _ _ _ HI).
    + exact (inv_cfgm _ _ _ HI).
    + exact (inv_sess _ _ _ HI).
    + exact (inv_bk _ _ _ HI).
Qed.

Lemma Inv_sessall : forall E ss s s',
  Inv E ss s ->
  top s' = top s -> sql s' = sql s -> tst s' = tst s -> subs s' = subs s -> pattr s' = pattr s -> config s' = config s ->
  bk s' = bk s -> sess_ok ss s' -> Inv E ss s'.
Proof.
  intros E ss s s' HI Ht Hq Hts Hsb Hpa Hc Hbk Hs. constructor.
  - intros f e' H. rewrite Hsb in H. rewrite Hpa. exact (inv_attr _ _ _ HI f e' H).
  - exact (inv_hist _ _ _ HI).
  - pose proof (inv_act _ _ _ HI) as H. destruct (active ss) as [[e c]|].
    + destruct H as [[A [B [C [D F]]]] [G K]]. split; [|split; [exact G | rewrite Hc; exact K]].
      unfold homog. rewrite Ht, Hq, Hts, Hsb. exact (conj A (conj B (conj C (conj D F)))).
    + destruct H as [[A [B [C D]]] G]. split; [|congruence].
      unfold realc. rewrite Ht, Hq, Hts, Hsb. exact (conj A (conj B (conj C D))).
  - rewrite Hc. exact (inv_cfg _ _ _ HI).
  - rewrite Hc. exact (inv_cfgm _ _ _ HI).
  - exact Hs.
  - rewrite Hbk. exact (inv_bk _ _ _ HI).
Qed.

(** a connection given now is the session's, unless the process's current session already is this engine's *)
Definition fresh_ok (ss : sstate) (e : string) (c c0 : option nat) : Prop :=
  match c with
  | Some k => lastgoc ss = Some e \/ mem e (f_noconn fa) = true \/ c0 = Some k
  | None => True
  end.

Lemma accept_session : forall ss e c c0 cfg,
  active ss = Some (e, c) -> sess_valid ss e c0 -> (tainted (hist ss) = true \/ fresh_ok ss e c c0) ->
  accept fa en ss GetOrCreate (GSession e c0) cfg = true.
Proof.
  intros ss e c c0 cfg Hac Hv Hf. unfold accept. cbn [snext]. rewrite Hac. cbn [active].
  destruct Hf as [Ht | Hf]; [rewrite Ht; reflexivity|].
  cbn. rewrite String.eqb_refl. cbn [andb].
  assert (H1 : (mem e (f_noconn fa) && optnat_eqb c0 None || in_hist e c0 (hist ss)) = true).
  { destruct Hv as [H | [H1 [H2 _]]]; [rewrite H; apply orb_true_r | subst c0; rewrite H1; reflexivity]. }
  rewrite H1. cbn [andb].
  assert (H2 : match c with
               | Some k => opt_eqb (lastgoc ss) (Some e) || mem e (f_noconn fa) || optnat_eqb c0 (Some k)
               | None => true
               end = true).
  { destruct c as [k|]; [|reflexivity]. destruct Hf as [H | [H | H]].
    - rewrite H. cbn. now rewrite String.eqb_refl.
    - rewrite H. now rewrite orb_true_r.
    - subst c0. cbn. rewrite Nat.eqb_refl. now rewrite !orb_true_r. }
  rewrite H2. apply orb_true_r.
Qed.

Lemma remember_sess : forall e r, sess (snd (remember fa e r)) = sess (snd r).
Proof. intros e [o s']. unfold remember. destruct o; try reflexivity. destruct (mem e (f_cached fa)); reflexivity. Qed.

(** what the Spec's [lastgoc] says about the model's session slot *)
Definition LastP (lg : option string) (ss : sstate) (s : state) : Prop :=
  match lg with
  | Some e' => (exists c, in_hist e' c (hist ss) = true)
               /\ (tainted (hist ss) = true \/ exists c0, sess s = SLive e' c0)
  | None => sess s = SNone /\ bcache s = []
  end.
Definition Last (ss : sstate) (s : state) : Prop := LastP (lastgoc ss) ss s.

Lemma sess_valid_engine : forall E ss e0 c0, hist_engine E (hist ss) -> sess_valid ss e0 c0 -> E = Some e0.
Proof.
  intros E ss e0 c0 Hh [H | [_ [_ [c H]]]]; exact (hist_engine_in _ _ _ _ Hh H).
Qed.

Lemma Inv_remember : forall E ss e r,
  Inv E ss (snd r) -> (forall e0 c0, fst r = GSession e0 c0 -> sess_valid ss e0 c0) ->
  fst (remember fa e r) = fst r /\ Inv E ss (snd (remember fa e r)).
Proof.
  intros E ss e [o s'] HI Hv. unfold remember. cbn [fst snd] in *.
  destruct o; try (split; [reflexivity | exact HI]).
  destruct (mem e (f_cached fa)); [|split; [reflexivity | exact HI]].
  cbn [fst snd]. split; [reflexivity|].
  apply (Inv_sessall E ss s'); try reflexivity; [exact HI|].
  destruct (inv_sess _ _ _ HI) as [H1 H2]. split; [exact H1|].
  intros e' e1 c1 H. cbn in H. destruct (String.eqb e' e).
  - inversion H; subst. now apply Hv.
  - exact (H2 _ _ _ H).
Qed.

Lemma step_goc_session : forall E ss s e c,
  Inv E ss s -> Last ss s -> active ss = Some (e, c) ->
  (forall k, c = Some k -> assoc e (bk s) = Some k) ->      (* ACTIVATE_CONFIG has just been replayed into the Builder *)
  accept fa en ss GetOrCreate (fst (goc_session fa en e s)) (config (snd (goc_session fa en e s))) = true
  /\ Inv E ss (snd (goc_session fa en e s))
  /\ (tainted (hist ss) = true \/ exists c0, sess (snd (goc_session fa en e s)) = SLive e c0).
Proof.
  intros E ss s e c HI HL Hac Hbkc. pose proof (inv_act _ _ _ HI) as Hact. rewrite Hac in Hact.
  unfold goc_session.
  - destruct Hact as [Hh [Hin Hc]]. pose proof Hh as [Ht [Hq _]].
    destruct (inv_sess _ _ _ HI) as [Hse Hbc].
    (* what the two modes give: the stored connection was given to this engine; a live / cached session that is
       returned is this engine's *)
    assert (Hconn : forall k, assoc (f_conn_key fa) (config s) = Some k -> in_hist e (Some k) (hist ss) = true).
    { intros k Hk. destruct (inv_hist _ _ _ HI) as [Hm | Hh0].
      - pose proof (inv_cfgm _ _ _ HI Hm) as H. rewrite Hac in H. exact (H k Hk).
      - destruct (inv_cfg _ _ _ HI _ Hk) as [e' He'].
        pose proof (hist_engine_in _ _ _ _ Hh0 He') as H1. pose proof (hist_engine_in _ _ _ _ Hh0 Hin) as H2.
        rewrite H1 in H2. inversion H2; subst e'. exact He'. }
    assert (Hlive : forall e0 c0, sess_valid ss e0 c0 -> String.eqb e0 e || f_singleton_global fa = true -> e0 = e).
    { intros e0 c0 Hv Hb. destruct (inv_hist _ _ _ HI) as [Hm | Hh0].
      - unfold multi_mode in Hm. apply andb_true_iff in Hm as [Hm _]. apply andb_true_iff in Hm as [Hm _].
        apply negb_true_iff in Hm. rewrite Hm, orb_false_r in Hb. now apply String.eqb_eq in Hb.
      - pose proof (sess_valid_engine _ _ _ _ Hh0 Hv) as H1. pose proof (hist_engine_in _ _ _ _ Hh0 Hin) as H2.
        rewrite H1 in H2. now inversion H2. }
    assert (Hlive1 : forall e0 c0, sess_valid ss e0 c0 -> hist_engine E (hist ss) -> e0 = e).
    { intros e0 c0 Hv Hh0. pose proof (sess_valid_engine _ _ _ _ Hh0 Hv) as H1. pose proof (hist_engine_in _ _ _ _ Hh0 Hin) as H2.
      rewrite H1 in H2. now inversion H2. }
    (* the creation of a new session of engine e from the stored configuration *)
    assert (Hcreate :
              accept fa en ss GetOrCreate (fst (remember fa e (create_session fa en e s)))
                     (config (snd (remember fa e (create_session fa en e s)))) = true
              /\ Inv E ss (snd (remember fa e (create_session fa en e s)))
              /\ (tainted (hist ss) = true \/ exists c0, sess (snd (remember fa e (create_session fa en e s))) = SLive e c0)).
    { unfold create_session.
      set (c' := if mem e (f_noconn fa) then None else assoc e (bk s)).
      destruct (is_bad c' && mem e (bad_raises en)) eqn:Hbad.
      - apply andb_true_iff in Hbad as [Hb _].
        assert (Ht9 : tainted (hist ss) = true).
        { unfold c' in Hb. destruct (mem e (f_noconn fa)); [discriminate|].
          destruct (assoc e (bk s)) as [k|] eqn:Hk; [|discriminate].
          cbn in Hb. destruct k as [|[|[|[|[|[|[|[|[|[|k]]]]]]]]]]; try discriminate.
          apply (in_hist_bad_tainted e). exact (inv_bk _ _ _ HI e 9 Hk). }
        cbn [remember fst snd]. split; [unfold accept; cbn [snext]; rewrite Hac; cbn; rewrite Ht9; reflexivity|].
        split; [|left; exact Ht9].
        apply (Inv_sessall E ss s); try reflexivity; [exact HI|].
        destruct (inv_sess _ _ _ HI) as [_ H2]. split; [exact Ht9 | exact H2].
      - assert (Hv : sess_valid ss e c').
        { unfold c'. destruct (mem e (f_noconn fa)) eqn:Hn.
          - right; split; [exact Hn | split; [reflexivity | exists c; exact Hin]].
          - left. destruct (assoc e (bk s)) as [k|] eqn:Hk.
            + exact (inv_bk _ _ _ HI e k Hk).
            + destruct c as [k|]; [discriminate (Hbkc k eq_refl)|]. exact Hin. }
        assert (Hfr : fresh_ok ss e c c').
        { unfold fresh_ok. destruct c as [k|]; [|exact I]. unfold c'.
          destruct (mem e (f_noconn fa)) eqn:Hn; [right; left; reflexivity | right; right; exact (Hbkc k eq_refl)]. }
        assert (HI1 : Inv E ss (set_sess s (SLive e c'))).
        { apply (Inv_sessall E ss s); try reflexivity; [exact HI|].
          destruct (inv_sess _ _ _ HI) as [_ H2]. split; [exact Hv | exact H2]. }
        destruct (Inv_remember E ss e (GSession e c', set_sess s (SLive e c')) HI1) as [Ho HI2].
        { intros e0 c0 H. cbn in H. inversion H; subst. exact Hv. }
        rewrite Ho. cbn [fst]. split; [apply (accept_session ss e c); [exact Hac | exact Hv | right; exact Hfr]|].
        split; [exact HI2|]. right. exists c'. rewrite remember_sess. reflexivity. }
    (* the Spec's record of the last getOrCreate, read on the model *)
    assert (Hlast : (exists c1, sess s = SLive e c1) \/ (exists e1 c1, mem e (f_cached fa) = true /\ assoc e (bcache s) = Some (e1, c1)) ->
                    tainted (hist ss) = true \/ (lastgoc ss = Some e /\ exists c1, sess s = SLive e c1)).
    { intros Hw. unfold Last, LastP in HL. destruct (lastgoc ss) as [e'|] eqn:Hlg.
      - destruct HL as [[cc Hin'] [Ht' | [c1 Hs1]]]; [left; exact Ht'|]. right.
        assert (He' : e' = e).
        { destruct Hw as [[c2 Hs2] | [e1 [c2 [Hmc Hbc2]]]].
          - rewrite Hs1 in Hs2. now inversion Hs2.
          - destruct (inv_hist _ _ _ HI) as [Hm | Hh0].
            + unfold multi_mode in Hm. apply andb_true_iff in Hm as [_ Hm].
              destruct (f_cached fa); [unfold mem in Hmc; cbn in Hmc; discriminate | discriminate].
            + pose proof (hist_engine_in _ _ _ _ Hh0 Hin') as H1. pose proof (hist_engine_in _ _ _ _ Hh0 Hin) as H2.
              rewrite H1 in H2. now inversion H2. }
        subst e'. split; [reflexivity | exists c1; exact Hs1].
      - destruct HL as [Hs0 Hb0]. destruct Hw as [[c2 Hs2] | [e1 [c2 [_ Hbc2]]]].
        + rewrite Hs0 in Hs2. discriminate.
        + rewrite Hb0 in Hbc2. discriminate. }
    destruct (if mem e (f_cached fa) then assoc e (bcache s) else None) as [[e0 c0]|] eqn:Hcache.
    + (* the Builder's cached session: only possible in the one-engine mode *)
      destruct (mem e (f_cached fa)) eqn:Hmc; [|discriminate].
      pose proof (Hbc _ _ _ Hcache) as Hv.
      assert (He0 : e0 = e).
      { destruct (inv_hist _ _ _ HI) as [Hm | Hh0]; [|exact (Hlive1 _ _ Hv Hh0)].
        unfold multi_mode in Hm. apply andb_true_iff in Hm as [_ Hm].
        destruct (f_cached fa); [unfold mem in Hmc; cbn in Hmc; discriminate | discriminate]. }
      subst e0. cbn [fst snd].
      destruct (Hlast (or_intror (ex_intro _ e (ex_intro _ c0 (conj eq_refl Hcache))))) as [Ht' | [Hlg Hs1]].
      * split; [apply (accept_session ss e c); [exact Hac | exact Hv | left; exact Ht']|]. split; [exact HI | left; exact Ht'].
      * split; [apply (accept_session ss e c); [exact Hac | exact Hv | right]|].
        -- unfold fresh_ok. destruct c; [left; exact Hlg | exact I].
        -- split; [exact HI | right; exact Hs1].
    + destruct (sess s) as [|e0 c0|] eqn:Hs.
      * exact Hcreate.
      * destruct (String.eqb e0 e || f_singleton_global fa) eqn:Hb.
        -- pose proof (Hlive _ _ Hse Hb) as He0. subst e0.
           destruct (Inv_remember E ss e (GSession e c0, s) HI) as [Ho HI2].
           { intros e1 c1 H. cbn in H. inversion H; subst. exact Hse. }
           rewrite Ho. cbn [fst].
           assert (Hsr : sess (snd (remember fa e (GSession e c0, s))) = SLive e c0) by (rewrite remember_sess; exact Hs).
           destruct (Hlast (or_introl (ex_intro _ c0 eq_refl))) as [Ht' | [Hlg _]].
           ++ split; [apply (accept_session ss e c); [exact Hac | exact Hse | left; exact Ht']|]. split; [exact HI2 | left; exact Ht'].
           ++ split; [apply (accept_session ss e c); [exact Hac | exact Hse | right]|].
              ** unfold fresh_ok. destruct c; [left; exact Hlg | exact I].
              ** split; [exact HI2 | right; exists c0; exact Hsr].
        -- exact Hcreate.
      * cbn [fst snd]. split; [unfold accept; cbn [snext]; rewrite Hac; cbn; rewrite Hse; reflexivity|].
        split; [exact HI | left; exact Hse].
Qed.

Lemma Inv_aux : forall E ss s s',
  Inv E ss s ->
  top s' = top s -> sql s' = sql s -> tst s' = tst s -> subs s' = subs s -> pattr s' = pattr s -> config s' = config s ->
  sessall s' = sessall s -> Inv E ss s'.
Proof.
  intros E ss s s' HI Ht Hq Hts Hsb Hpa Hc Hs.
  apply (Inv_sessall E ss s); try assumption; [exact (sessall_bk _ _ Hs)|].
  apply (sess_ok_same ss ss s); [reflexivity | exact Hs | exact (inv_sess _ _ _ HI)].
Qed.

Lemma note_dial_spec : forall E ss e r,
  Inv E ss (snd r) ->
  fst (note_dial fa e r) = fst r /\ config (snd (note_dial fa e r)) = config (snd r) /\ Inv E ss (snd (note_dial fa e r)).
Proof.
  intros E ss e [o s'] HI. unfold note_dial. cbn [fst snd] in *.
  destruct o; cbn [fst snd]; (split; [reflexivity | split; [reflexivity | apply (Inv_aux E ss s'); try reflexivity; exact HI]]).
Qed.

Lemma Inv_ss : forall E ss ss' s, Inv E ss s -> active ss' = active ss -> hist ss' = hist ss -> Inv E ss' s.
Proof.
  intros E [a h l] [a' h' l'] s HI Ha Hh. cbn in Ha, Hh. subst a' h'. destruct HI. constructor; assumption.
Qed.

Lemma note_dial_sessall : forall e r, sessall (snd (note_dial fa e r)) = sessall (snd r).
Proof. intros e [o s']. unfold note_dial. destruct o; reflexivity. Qed.

Lemma step_goc : forall E ss s,
  Inv E ss s -> Last ss s ->
  (match active ss with Some (e, _) => mem e (f_selfref fa) = false | None => True end) ->
  accept fa en ss GetOrCreate (fst (get_or_create fa en s)) (config (snd (get_or_create fa en s))) = true
  /\ Inv E (snext ss GetOrCreate) (snd (get_or_create fa en s))
  /\ Last (snext ss GetOrCreate) (snd (get_or_create fa en s)).
Proof.
  intros E ss s HI HL Hsr. pose proof (inv_act _ _ _ HI) as Hact.
  unfold get_or_create. cbn [snext].
  destruct (active ss) as [[e c]|] eqn:Hac.
  - destruct Hact as [Hh [Hin _]]. pose proof Hh as [_ [Hq _]].
    unfold Activate.import_sql. rewrite Hq, Hsr.
    set (s2 := replay_config fa e s).
    assert (Hconn : forall k, assoc (f_conn_key fa) (config s) = Some k -> in_hist e (Some k) (hist ss) = true).
    { intros k Hk. destruct (inv_hist _ _ _ HI) as [Hm | Hh0].
      - pose proof (inv_cfgm _ _ _ HI Hm) as H. rewrite Hac in H. exact (H k Hk).
      - destruct (inv_cfg _ _ _ HI _ Hk) as [e' He'].
        pose proof (hist_engine_in _ _ _ _ Hh0 He') as H1. pose proof (hist_engine_in _ _ _ _ Hh0 Hin) as H2.
        rewrite H1 in H2. inversion H2; subst e'. exact He'. }
    assert (HI2 : Inv E ss s2).
    { apply (Inv_sessall E ss (set_bk s (bk s2))); try reflexivity; [|exact (inv_sess _ _ _ HI)].
      destruct HI. constructor; try assumption.
        intros e' k H. unfold s2, replay_config in H. cbn [bk set_bk] in H.
        destruct (assoc (f_conn_key fa) (config s)) as [k0|] eqn:Hk0; [|now apply inv_bk0].
        cbn in H. destruct (String.eqb e' e) eqn:He; [|now apply inv_bk0].
        apply String.eqb_eq in He. subst e'. inversion H; subst. exact (Hconn k eq_refl). }
    assert (HL2 : Last ss s2) by exact HL.
    assert (Hbkc : forall k, c = Some k -> assoc e (bk s2) = Some k).
    { intros k Hc. pose proof (inv_act _ _ _ HI) as Ha. rewrite Hac in Ha. destruct Ha as [_ [_ Hcc]].
      unfold s2, replay_config. cbn [bk set_bk]. rewrite (Hcc k Hc). cbn. now rewrite String.eqb_refl. }
    destruct (step_goc_session E ss s2 e c HI2 HL2 Hac Hbkc) as [Hacc [HI3 Hs3]].
    destruct (note_dial_spec E ss e (goc_session fa en e s2) HI3) as [Ho [Hcf HI4]].
    rewrite Ho, Hcf. split; [exact Hacc|]. split.
    + apply (Inv_ss E ss); [exact HI4 | rewrite Hac; reflexivity | reflexivity].
    + unfold Last, LastP. cbn [lastgoc hist]. split; [exists c; exact Hin|].
      destruct Hs3 as [Ht | [c0 Hs0]]; [left; exact Ht|]. right. exists c0.
      pose proof (note_dial_sessall e (goc_session fa en e s2)) as Hsa. unfold sessall in Hsa. inversion Hsa as [[H1 H2 H3]].
      rewrite H1. exact Hs0.
  - destruct Hact as [Hr Hcfg].
    destruct (import_sql_real s Hr) as [Ho [Hr' [Hf1 [Hf2 Hf3]]]].
    destruct (import_sql s) as [o s1]; cbn [fst snd] in *. subst o.
    assert (HI' : Inv E ss s1).
    { constructor.
      - now apply realc_attr_inv. - exact (inv_hist _ _ _ HI).
      - rewrite Hac. split; [exact Hr' | congruence].
      - rewrite Hf1. exact (inv_cfg _ _ _ HI).
      - intros _. rewrite Hac. exact I.
      - apply (sess_ok_same ss ss s); [reflexivity | exact Hf2 | exact (inv_sess _ _ _ HI)].
      - rewrite (sessall_bk _ _ Hf2). exact (inv_bk _ _ _ HI). }
    assert (HI2 : Inv E ss (set_lastd s1 LNone)) by (apply (Inv_aux E ss s1); try reflexivity; exact HI').
    assert (HL2 : Last ss (set_lastd s1 LNone)).
    { unfold Last, LastP in *. unfold sessall in Hf2. inversion Hf2 as [[H1 H2 H3]]. cbn [sess bcache set_lastd]. rewrite H1, H2. exact HL. }
    unfold accept. cbn [snext]. rewrite Hac. cbn iota. rewrite Hac.
    unfold Activate.base_view. destruct (installed en) eqn:Hi; cbn [fst snd].
    + split; [cbn [config set_lastd]; rewrite Hf1, Hcfg; reflexivity | split; [exact HI2 | exact HL2]].
    + split; [cbn [config set_lastd]; rewrite Hf1, Hcfg; reflexivity | split; [exact HI2 | exact HL2]].
Qed.

(** every other event leaves the session slot and the Builder caches alone *)
Lemma import_sql_sessall : forall s, sessall (snd (import_sql s)) = sessall s.
Proof.
  intros s. unfold Activate.import_sql, Activate.import_top, load_bundle.
  destruct (sql s); [reflexivity|]. destruct (top s) as [[| | | |]|]; try reflexivity.
  - destruct (sql s); reflexivity.
  - destruct (installed en); [|reflexivity]. cbn. destruct (sql s); reflexivity.
Qed.

Lemma step_bconf : forall E ss s single kv,
  Inv E ss s ->
  (match active ss with Some (e, _) => mem e (f_selfref fa) = false | None => True end) ->
  accept fa en ss (BuilderConfig single kv) (fst (builder_config fa en single kv s)) (config (snd (builder_config fa en single kv s))) = true
  /\ Inv E ss (snd (builder_config fa en single kv s)).
Proof.
  intros E ss s single kv HI Hsr. pose proof (inv_act _ _ _ HI) as Hact.
  unfold builder_config, accept. cbn [snext].
  destruct (active ss) as [[e c]|] eqn:Hac.
  - destruct Hact as [Hh _]. pose proof Hh as [_ [Hq _]].
    unfold Activate.import_sql. rewrite Hq, Hsr. cbn [fst snd].
    split; [reflexivity | apply (Inv_aux E ss s); try reflexivity; exact HI].
  - destruct Hact as [Hr Hcfg].
    destruct (import_sql_real s Hr) as [Ho [Hr' [Hf1 [Hf2 Hf3]]]].
    destruct (import_sql s) as [o s1]; cbn [fst snd] in *. subst o.
    assert (HI' : Inv E ss s1).
    { constructor.
      - now apply realc_attr_inv. - exact (inv_hist _ _ _ HI).
      - rewrite Hac. split; [exact Hr' | congruence].
      - rewrite Hf1. exact (inv_cfg _ _ _ HI).
      - intros _. rewrite Hac. exact I.
      - apply (sess_ok_same ss ss s); [reflexivity | exact Hf2 | exact (inv_sess _ _ _ HI)].
      - rewrite (sessall_bk _ _ Hf2). exact (inv_bk _ _ _ HI). }
    unfold Activate.base_view. destruct (installed en); cbn [fst snd];
      (split; [rewrite Hf1, Hcfg; reflexivity | exact HI']).
Qed.

Lemma step_readd : forall E ss s o,
  Inv E ss s -> accept fa en ss ReadDialects o (config s) = true.
Proof.
  intros E ss s o HI. pose proof (inv_act _ _ _ HI) as Hact. unfold accept. cbn [snext].
  destruct (active ss) as [[e c]|]; [reflexivity|]. destruct Hact as [_ Hc]. rewrite Hc. reflexivity.
Qed.

Lemma import_top_sessall : forall s, sessall (snd (import_top s)) = sessall s.
Proof.
  intros s. unfold Activate.import_top, load_bundle. destruct (top s); [reflexivity|].
  destruct (installed en); reflexivity.
Qed.

Ltac sessall_via H := let s1 := fresh "s1" in let o := fresh "o" in let E := fresh "E" in
  match type of H with sessall (snd ?t) = _ => destruct t as [o s1] eqn:E; cbn [snd] in H end.

Lemma import_sub_sessall : forall f s, sessall (snd (import_sub f s)) = sessall s.
Proof.
  intros f s. unfold Activate.import_sub. destruct (assoc f (subs s)); [reflexivity|].
  pose proof (import_sql_sessall s) as H. destruct (import_sql s) as [o s1]. cbn [snd] in H.
  destruct o as [| |m| | | | | | | |]; try exact H.
  destruct (assoc f (subs s1)); [exact H|].
  destruct m; try exact H.
  - destruct (mem f (bundle en)); exact H.
  - destruct (mem f (pkg_files fa e)); exact H.
Qed.

Lemma import_testing_sessall : forall s, sessall (snd (import_testing s)) = sessall s.
Proof.
  intros s. unfold Activate.import_testing. destruct (tst s); [reflexivity|].
  pose proof (import_top_sessall s) as H. destruct (import_top s) as [o s1]. cbn [snd] in H.
  destruct o as [| |m| | | | | | | |]; try exact H.
  destruct m; try exact H. destruct (testing_imp en); exact H.
Qed.

Lemma importA_sessall : forall p s, sessall (snd (importA p s)) = sessall s.
Proof.
  intros [| |f|] s; cbn [Activate.importA];
    [apply import_top_sessall | apply import_sql_sessall | apply import_sub_sessall | apply import_testing_sessall].
Qed.

Lemma do_import_sessall : forall fm p s, sessall (snd (do_import fm p s)) = sessall s.
Proof.
  intros [] p s; cbn [Activate.do_import].
  - apply importA_sessall.
  - unfold Activate.importS. pose proof (importA_sessall p s) as H. destruct (importA p s) as [o s1]. cbn [snd] in H.
    destruct o as [| |m| | | | | | | |]; try exact H.
    destruct (top s1) as [[| me | | |]|]; try exact H.
    destruct p as [| |f|], me as [e|]; try exact H.
    destruct (mem2 e f (pattr s1)); exact H.
  - destruct p as [| |f|]; cbn [Activate.importB].
    + apply import_top_sessall.
    + pose proof (import_top_sessall s) as H. destruct (import_top s) as [o s1]. cbn [snd] in H.
      destruct o as [| |m| | | | | | | |]; try exact H.
      destruct m as [|[e|]| | |]; try exact H. rewrite import_sql_sessall. exact H.
    + pose proof (import_sql_sessall s) as H. destruct (import_sql s) as [o s1]. cbn [snd] in H.
      destruct o as [| |m| | | | | | | |]; try exact H.
      destruct m; try exact H.
      * rewrite import_sub_sessall. exact H.
      * destruct (mem2 e f (pattr s1)); [exact H|]. destruct (mem f (pkg_files fa e)); exact H.
    + pose proof (import_top_sessall s) as H. destruct (import_top s) as [o s1]. cbn [snd] in H.
      destruct o as [| |m| | | | | | | |]; try exact H.
      destruct m; try exact H. rewrite import_testing_sessall. exact H.
Qed.

Lemma step_sessall : forall s ev, ev <> GetOrCreate -> sessall (snd (step s ev)) = sessall s.
Proof.
  intros s ev Hne. destruct ev as [e c kv | | e c kv | k | | fm p | e | single kv | ]; cbn [Activate.step].
  - unfold Activate.activate. destruct (assoc e (f_engines fa)); reflexivity.
  - unfold Activate.deactivate. cbn [snd]. destruct ((any_present s || junk s) && installed en); reflexivity.
  - unfold Activate.activate. destruct (assoc e (f_engines fa)); reflexivity.
  - destruct (exit_deactivates fa k); [|reflexivity].
    unfold Activate.deactivate. cbn [snd]. destruct ((any_present s || junk s) && installed en); reflexivity.
  - contradiction Hne; reflexivity.
  - apply do_import_sessall.
  - reflexivity.
  - unfold builder_config. pose proof (import_sql_sessall s) as H. destruct (import_sql s) as [o s1]. cbn [snd] in H.
    destruct o as [| |m| | | | | | | |]; try exact H.
    destruct m; try exact H. destruct (mem e (f_selfref fa)); exact H.
  - reflexivity.
Qed.

Lemma Last_step : forall ss s ev, ev <> GetOrCreate -> Last ss s -> Last (snext ss ev) (snd (step s ev)).
Proof.
  intros ss s ev Hne HL. pose proof (step_sessall s ev Hne) as Hsa. unfold sessall in Hsa. inversion Hsa as [[H1 H2 H3]].
  assert (Hlg : lastgoc (snext ss ev) = lastgoc ss) by (destruct ev; try reflexivity; contradiction Hne; reflexivity).
  assert (Hh : forall e c, in_hist e c (hist ss) = true -> in_hist e c (hist (snext ss ev)) = true).
  { intros e c H. destruct ev; cbn [snext hist]; try exact H; try (now apply in_hist_snoc). contradiction Hne; reflexivity. }
  assert (Ht : tainted (hist ss) = true -> tainted (hist (snext ss ev)) = true).
  { intros H. destruct ev; cbn [snext hist]; try exact H; try (now apply tainted_snoc). contradiction Hne; reflexivity. }
  unfold Last, LastP in *. rewrite Hlg. destruct (lastgoc ss) as [e'|].
  - destruct HL as [[c Hin] Hd]. split; [exists c; now apply Hh|].
    destruct Hd as [Hd | [c0 Hs]]; [left; now apply Ht | right; exists c0; rewrite H1; exact Hs].
  - rewrite H1, H2. exact HL.
Qed.

Lemma step_inv : forall E ss s ev,
  Inv E ss s -> Last ss s -> step_ok fa en ss s ev = true -> (multi_mode fa = true \/ single_ok E ev) ->
  accept fa en ss ev (fst (step s ev)) (config (snd (step s ev))) = true
  /\ Inv (next_engine E ev) (snext ss ev) (snd (step s ev))
  /\ Last (snext ss ev) (snd (step s ev)).
Proof.
  intros E ss s ev HI HL Hok Hs.
  assert (Hmain : ev <> GetOrCreate ->
            accept fa en ss ev (fst (step s ev)) (config (snd (step s ev))) = true
            /\ Inv (next_engine E ev) (snext ss ev) (snd (step s ev))).
  { intros Hne.
    destruct ev as [e c kv | | e c kv | k | | fm p | e | single kv | ]; cbn [Activate.step step_ok] in *;
      unfold next_engine, single_ok in *; cbn [engine_of] in *.
    - apply (step_activate E ss s e c kv HI Hok); [destruct Hs as [Hs | Hs]; [left; exact Hs | right; destruct E; auto] | left; reflexivity].
    - apply negb_true_iff in Hok. apply (step_deactivate E ss s Deactivate HI Hok); [reflexivity | exact I].
    - apply (step_activate E ss s e c kv HI Hok); [destruct Hs as [Hs | Hs]; [left; exact Hs | right; destruct E; auto] | right; reflexivity].
    - apply andb_true_iff in Hok as [Hx Hnr]. rewrite Hx. apply negb_true_iff in Hnr.
      apply (step_deactivate E ss s (CtxExit k) HI Hnr); [reflexivity | exact I].
    - contradiction Hne; reflexivity.
    - apply (step_import E ss s fm p HI).
    - apply (step_loadf E ss s e HI).
    - apply (step_bconf E ss s single kv HI). destruct (active ss) as [[e c]|]; [|exact I]. now apply negb_true_iff in Hok.
    - cbn [fst snd]. split; [exact (step_readd E ss s _ HI) | exact HI]. }
  destruct ev as [e c kv | | e c kv | k | | fm p | e | single kv | ];
    try (destruct Hmain as [A B]; [discriminate|]; split; [exact A | split; [exact B | apply Last_step; [discriminate | exact HL]]]).
  cbn [Activate.step step_ok] in *. unfold next_engine. cbn [engine_of].
  apply (step_goc E ss s HI HL). destruct (active ss) as [[e c]|]; [|exact I]. now apply negb_true_iff in Hok.
Qed.

Lemma single_engine_step : forall E ev r,
  single_engine E (ev :: r) = true -> single_ok E ev /\ single_engine (next_engine E ev) r = true.
Proof.
  intros E ev r H. cbn in H. unfold single_ok, next_engine.
  destruct (engine_of ev) as [e|]; [|split; [exact I | exact H]].
  destruct E as [e0|]; [|split; [exact I | exact H]].
  apply andb_true_iff in H as [He Hr]. apply String.eqb_eq in He. subst e0. split; [reflexivity | exact Hr].
Qed.

Lemma run_conforms_gen : forall evs E ss s,
  Inv E ss s -> Last ss s -> (multi_mode fa = true \/ single_engine E evs = true) -> steps_ok fa en ss s evs = true ->
  conforms fa en ss evs (fst (run s evs)) = true.
Proof.
  induction evs as [|ev r IH]; intros E ss s HI HL Hse Hok; [reflexivity|].
  cbn [Activate.run steps_ok] in *. apply andb_true_iff in Hok as [Hok1 Hok2].
  assert (Hs : (multi_mode fa = true \/ single_ok E ev)
               /\ (multi_mode fa = true \/ single_engine (next_engine E ev) r = true)).
  { destruct Hse as [Hm | Hse]; [split; left; exact Hm|].
    destruct (single_engine_step _ _ _ Hse) as [Hs1 Hs2]. split; right; assumption. }
  destruct Hs as [Hs1 Hs2].
  destruct (step_inv E ss s ev HI HL Hok1 Hs1) as [Hacc [HI' HL']].
  destruct (step s ev) as [o s1] eqn:Hst. cbn [fst snd] in *.
  specialize (IH _ _ _ HI' HL' Hs2 Hok2).
  destruct (run s1 r) as [os s2]. cbn [fst conforms] in *. now rewrite Hacc, IH.
Qed.

(** ** the main theorem: for every event list (any length) and every environment, if the list is in the domain then
    every observation the model makes is one the property allows *)
Theorem run_conforms : forall evs,
  in_domain fa en evs = true -> conforms fa en sinit evs (fst (run init_state evs)) = true.
Proof.
  intros evs H. unfold in_domain in H. apply andb_true_iff in H as [H1 H2].
  apply (run_conforms_gen evs None sinit init_state Inv_init); [split; reflexivity | |exact H2].
  apply orb_true_iff in H1 as [H1 | H1]; [right; exact H1 | left; exact H1].
Qed.

(** ** no_mixture: the same for ANY number of engines and any switching between them, for everything the property says
    about imports, restoration and configuration (which session getOrCreate returns is judged by [run_conforms] only) *)
Definition Inv0 (ss : sstate) (s : state) : Prop :=
  attr_inv s /\ match active ss with
                | None => realc s /\ config s = []
                | Some (e, _) => homog e s
                end.

Lemma accept_activate_cfg : forall (e : string) c kv s,
  kv_wf fa kv = true ->
  (match c with Some k => cfg_has (store_config fa c kv s) (f_conn_key fa) k | None => true end
   && forallb (fun p => cfg_has (store_config fa c kv s) (fst p) (snd p)) kv) = true.
Proof.
  intros e c kv s Hwf. apply andb_true_iff; split; [|now apply store_config_kv].
  destruct c as [k|]; [|reflexivity]. unfold cfg_has. rewrite (store_config_conn (Some k) kv s k Hwf eq_refl).
  apply Nat.eqb_refl.
Qed.

Definition same_core (s s' : state) : Prop :=
  top s' = top s /\ sql s' = sql s /\ tst s' = tst s /\ subs s' = subs s /\ pattr s' = pattr s /\ config s' = config s.

Lemma Inv0_core : forall ss s s', Inv0 ss s -> same_core s s' -> Inv0 ss s'.
Proof.
  intros ss s s' [Hai Hact] [Ht [Hq [Hts [Hsb [Hpa Hc]]]]]. split.
  - intros f e' H. rewrite Hsb in H. rewrite Hpa. exact (Hai f e' H).
  - destruct (active ss) as [[e c]|].
    + destruct Hact as [A [B [C [D F]]]]. unfold homog. rewrite Ht, Hq, Hts, Hsb. exact (conj A (conj B (conj C (conj D F)))).
    + destruct Hact as [[A [B [C D]]] G]. split; [|congruence].
      unfold realc. rewrite Ht, Hq, Hts, Hsb. exact (conj A (conj B (conj C D))).
Qed.

Lemma same_core_trans : forall a b c, same_core a b -> same_core b c -> same_core a c.
Proof.
  intros a b c [A1 [A2 [A3 [A4 [A5 A6]]]]] [B1 [B2 [B3 [B4 [B5 B6]]]]]. repeat split; congruence.
Qed.

Lemma goc_session_core : forall e s, same_core s (snd (goc_session fa en e s)).
Proof.
  intros e s. unfold goc_session.
  destruct (if mem e (f_cached fa) then assoc e (bcache s) else None) as [[e1 c1]|]; [repeat split|].
  unfold remember, create_session.
  destruct (sess s) as [|e1 c1|]; [| |repeat split].
  - destruct (is_bad _ && _); cbn [fst snd]; [repeat split|]. destruct (mem e (f_cached fa)); repeat split.
  - destruct (String.eqb e1 e || f_singleton_global fa).
    + destruct (mem e (f_cached fa)); repeat split.
    + destruct (is_bad _ && _); cbn [fst snd]; [repeat split|]. destruct (mem e (f_cached fa)); repeat split.
Qed.

Lemma note_dial_core : forall e r, same_core (snd r) (snd (note_dial fa e r)).
Proof. intros e [o s']. unfold note_dial. destruct o; repeat split. Qed.

Lemma goc_core_active : forall e s, sql s = Some (SfPkg e) -> same_core s (snd (get_or_create fa en s)).
Proof.
  intros e s Hq. unfold get_or_create, Activate.import_sql. rewrite Hq.
  destruct (mem e (f_selfref fa)); [repeat split|].
  set (s2 := replay_config fa e s).
  apply (same_core_trans s s2); [repeat split|].
  apply (same_core_trans s2 (snd (goc_session fa en e s2))); [apply goc_session_core | apply note_dial_core].
Qed.

Lemma bconf_core_active : forall e s single kv, sql s = Some (SfPkg e) -> same_core s (snd (builder_config fa en single kv s)).
Proof.
  intros e s single kv Hq. unfold builder_config, Activate.import_sql. rewrite Hq.
  destruct (mem e (f_selfref fa)); repeat split.
Qed.

Lemma step_inv0 : forall ss s ev,
  Inv0 ss s -> step_ok0 fa en ss s ev = true ->
  accept0 fa en ss ev (fst (step s ev)) (config (snd (step s ev))) = true /\ Inv0 (snext ss ev) (snd (step s ev)).
Proof.
  intros ss s ev [Hai Hact] Hok.
  assert (Hactiv : forall e c kv, act_ok fa e s && kv_wf fa kv = true ->
            forall ev', (ev' = Activate e c kv \/ ev' = CtxEnter e c kv) ->
            accept0 fa en ss ev' (fst (activate e c kv s)) (config (snd (activate e c kv s))) = true
            /\ Inv0 (snext ss ev') (snd (activate e c kv s))).
  { intros e c kv H ev' Hev. apply andb_true_iff in H as [Hk Hwf].
    destruct (activate_homog e c kv s Hk Hai) as [Ho [Hh [Hai' [Hcfg _]]]].
    split.
    - assert (Ha : accept fa en ss ev' (fst (activate e c kv s)) (config (snd (activate e c kv s))) = true).
      { unfold accept. destruct Hev; subst ev'; cbn [snext active]; rewrite Ho, Hcfg; cbn; apply (accept_activate_cfg e c kv s Hwf). }
      destruct Hev; subst ev'; exact Ha.
    - destruct Hev; subst ev'; (split; [exact Hai' | exact Hh]). }
  assert (Hdeact : deact_raises fa en s = false -> forall ev', snext ss ev' = mkS None (hist ss) (lastgoc ss) ->
            (match ev' with Deactivate | CtxExit _ => True | _ => False end) ->
            accept0 fa en ss ev' (fst (deactivate s)) (config (snd (deactivate s))) = true
            /\ Inv0 (snext ss ev') (snd (deactivate s))).
  { intros Hnr ev' Hsn Hev. destruct (deactivate_resets s) as [Hr [Hc _]].
    assert (Ho : fst (deactivate s) = EOk) by (unfold Activate.deactivate; cbn; now rewrite Hnr).
    specialize (Hc Ho). split.
    - destruct ev'; try destruct Hev; unfold accept0, accept; rewrite Hsn; cbn [active]; rewrite Hc, Ho; reflexivity.
    - rewrite Hsn. split; [now apply realc_attr_inv | split; assumption]. }
  destruct ev as [e c kv | | e c kv | k | | fm p | e | single kv | ]; cbn [Activate.step step_ok0 step_ok] in *.
  - apply (Hactiv e c kv Hok). left; reflexivity.
  - apply negb_true_iff in Hok. apply (Hdeact Hok Deactivate); [reflexivity | exact I].
  - apply (Hactiv e c kv Hok). right; reflexivity.
  - apply andb_true_iff in Hok as [Hx Hnr]. rewrite Hx. apply negb_true_iff in Hnr.
    apply (Hdeact Hnr (CtxExit k)); [reflexivity | exact I].
  - (* getOrCreate: only the import of pyspark.sql, the session slot and the Builder caches can change *)
    unfold accept0. cbn [snext].
    destruct (active ss) as [[e c]|] eqn:Hac.
    + pose proof Hact as [_ [Hq _]]. split; [reflexivity|].
      assert (H0 : Inv0 ss (snd (get_or_create fa en s)))
        by (apply (Inv0_core ss s); [unfold Inv0; rewrite Hac; split; assumption | now apply (goc_core_active e)]).
      unfold Inv0 in *. cbn [active]. rewrite Hac in H0. exact H0.
    + unfold get_or_create. destruct Hact as [Hr Hcfg].
      destruct (import_sql_real s Hr) as [Ho [Hr' [Hf1 _]]].
      destruct (import_sql s) as [o s1]; cbn [fst snd] in *. subst o.
      assert (HI' : Inv0 ss (set_lastd s1 LNone)) by (unfold Inv0; rewrite Hac; split; [now apply realc_attr_inv | split; [exact Hr' | cbn; congruence]]).
      unfold Activate.base_view. destruct (installed en); cbn [fst snd];
        (split; [cbn [config set_lastd]; rewrite Hf1, Hcfg; reflexivity | exact HI']).
  - (* imports *)
    unfold accept0, accept. cbn [snext].
    destruct (active ss) as [[e c]|] eqn:Hac.
    + destruct (homog_view e fm p s Hact Hai) as [Hd [Hh' [Hai' [Hk1 _]]]].
      split.
      * cbn. destruct (documented p) eqn:Hdoc; [|reflexivity].
        destruct (Hd eq_refl) as [m [Ho Hb]]. rewrite Ho. exact Hb.
      * unfold Inv0. rewrite Hac. split; assumption.
    + destruct Hact as [Hr Hcfg].
      destruct (real_view fm p s Hr) as [Ho [Hr' [Hf1 _]]].
      split.
      * rewrite Hf1, Hcfg. cbn. destruct (documented p); [|reflexivity]. rewrite Ho. apply accept_base_view_self.
      * unfold Inv0. rewrite Hac. split; [now apply realc_attr_inv | split; [exact Hr' | congruence]].
  - (* import sqlframe.<e>.functions *)
    unfold load_functions. cbn [fst snd]. split.
    + unfold accept0, accept. cbn [snext]. destruct (active ss) as [[e' c]|]; cbn; [reflexivity|].
      destruct Hact as [_ Hc]. rewrite Hc. reflexivity.
    + split; [apply attr_inv_more; exact Hai|]. cbn [snext]. destruct (active ss) as [[e' c]|]; exact Hact.
  - (* SparkSession.builder.config(...) *)
    unfold accept0, accept. cbn [snext].
    destruct (active ss) as [[e c]|] eqn:Hac.
    + pose proof Hact as [_ [Hq _]]. apply negb_true_iff in Hok.
      split.
      * unfold builder_config, Activate.import_sql. rewrite Hq, Hok. reflexivity.
      * apply (Inv0_core ss s); [unfold Inv0; rewrite Hac; split; assumption | now apply (bconf_core_active e)].
    + unfold builder_config. destruct Hact as [Hr Hcfg].
      destruct (import_sql_real s Hr) as [Ho [Hr' [Hf1 _]]].
      destruct (import_sql s) as [o s1]; cbn [fst snd] in *. subst o.
      assert (HI' : Inv0 ss s1) by (unfold Inv0; rewrite Hac; split; [now apply realc_attr_inv | split; [exact Hr' | congruence]]).
      unfold Activate.base_view. destruct (installed en); cbn [fst snd]; (split; [rewrite Hf1, Hcfg; reflexivity | exact HI']).
  - (* reading the dialects of the last session *)
    cbn [fst snd]. split; [|split; assumption].
    unfold accept0, accept. cbn [snext]. destruct (active ss) as [[e c]|]; [reflexivity|].
    destruct Hact as [_ Hc]. rewrite Hc. reflexivity.
Qed.

Theorem no_mixture : forall evs,
  in_domain0 fa en evs = true -> conforms0 fa en sinit evs (fst (run init_state evs)) = true.
Proof.
  intros evs. unfold in_domain0.
  assert (Hgen : forall evs ss s, Inv0 ss s -> steps_ok0 fa en ss s evs = true ->
                   conforms0 fa en ss evs (fst (run s evs)) = true).
  { clear evs. induction evs as [|ev r IH]; intros ss s HI Hok; [reflexivity|].
    cbn [Activate.run steps_ok0] in *. apply andb_true_iff in Hok as [Hok1 Hok2].
    destruct (step_inv0 ss s ev HI Hok1) as [Hacc HI'].
    destruct (step s ev) as [o s1] eqn:Hst. cbn [fst snd] in *.
    specialize (IH _ _ HI' Hok2).
    destruct (run s1 r) as [os s2]. cbn [fst conforms0] in *. now rewrite Hacc, IH. }
  apply Hgen. split; [apply attr_inv_init | split; [apply realc_init | reflexivity]].
Qed.

(** ** config |-> session attributes: whatever the Builder object held before, every ACTIVATE_CONFIG entry that
    Builder._set_config routes to a dialect slot determines that attribute of the session getOrCreate returns *)
Lemma dlook_cons_other : forall e i e' j v l, Nat.eqb i j = false -> dlook e i ((e', j, v) :: l) = dlook e i l.
Proof. intros. cbn. rewrite H. now rewrite andb_false_r. Qed.

Lemma apply_cfg_given : forall e i v cfg l,
  (forall k' v', In (k', v') cfg -> assoc k' (f_chain fa) = Some i -> v' = v) ->
  ((exists k, In (k, v) cfg /\ assoc k (f_chain fa) = Some i /\ i <? 3 = true) \/ dlook e i l = Some v) ->
  dlook e i (apply_cfg fa e cfg l) = Some v.
Proof.
  intros e i v cfg. induction cfg as [|[k1 v1] r IH]; intros l Hu H.
  - destruct H as [[k [[] _]] | H]. exact H.
  - unfold apply_cfg. cbn [fold_left fst snd]. apply IH.
    + intros k' v' Hin. apply Hu. right; exact Hin.
    + destruct H as [[k [[Heq | Hin] [Hk Hi]]] | Hl].
      * inversion Heq; subst k1 v1. right. unfold apply_key. rewrite Hk, Hi. cbn.
        now rewrite String.eqb_refl, Nat.eqb_refl.
      * left. exists k. repeat split; assumption.
      * right. unfold apply_key. destruct (assoc k1 (f_chain fa)) as [j|] eqn:Hj; [|exact Hl].
        destruct (j <? 3); [|exact Hl].
        destruct (Nat.eqb i j) eqn:Hij.
        -- apply Nat.eqb_eq in Hij. subst j. rewrite (Hu k1 v1 (or_introl eq_refl) Hj).
           cbn. now rewrite String.eqb_refl, Nat.eqb_refl.
        -- rewrite dlook_cons_other by exact Hij. exact Hl.
Qed.

Lemma goc_session_bd : forall e s, bd (snd (goc_session fa en e s)) = bd s.
Proof.
  intros e s. unfold goc_session.
  destruct (if mem e (f_cached fa) then assoc e (bcache s) else None) as [[e1 c1]|]; [reflexivity|].
  unfold remember, create_session.
  destruct (sess s) as [|e1 c1|]; [| |reflexivity].
  - destruct (is_bad _ && _); cbn [fst snd]; [reflexivity|]. destruct (mem e (f_cached fa)); reflexivity.
  - destruct (String.eqb e1 e || f_singleton_global fa).
    + destruct (mem e (f_cached fa)); reflexivity.
    + destruct (is_bad _ && _); cbn [fst snd]; [reflexivity|]. destruct (mem e (f_cached fa)); reflexivity.
Qed.

Definition nth_dial (i : nat) (d : nat * (nat * nat)) : nat :=
  match d with (a, (b, c)) => match i with 0 => a | 1 => b | _ => c end end.

Theorem goc_dialects_given : forall s e k i v,
  sql s = Some (SfPkg e) -> mem e (f_selfref fa) = false ->
  assoc k (f_chain fa) = Some i -> i <? 3 = true -> In (k, v) (config s) ->
  (forall k' v', In (k', v') (config s) -> assoc k' (f_chain fa) = Some i -> v' = v) ->
  forall e0 c0, fst (get_or_create fa en s) = GSession e0 c0 ->
  exists d, lastd (snd (get_or_create fa en s)) = LSome d /\ nth_dial i d = v.
Proof.
  intros s e k i v Hq Hsr Hk Hi Hin Hu e0 c0. unfold get_or_create, Activate.import_sql. rewrite Hq, Hsr.
  set (s2 := replay_config fa e s).
  pose proof (goc_session_bd e s2) as Hbd.
  destruct (goc_session fa en e s2) as [o s3]. cbn [snd] in Hbd. unfold note_dial.
  destruct o; cbn [fst snd]; intros Ho; try discriminate.
  eexists; split; [reflexivity|].
  rewrite Hbd. unfold s2, replay_config. cbn [bd set_bd set_bk].
  assert (Hl : dlook e i (apply_cfg fa e (config s) (bd s)) = Some v).
  { apply apply_cfg_given; [exact Hu|]. left. exists k. repeat split; assumption. }
  unfold dial_of, nth_dial, slot_of.
  destruct i as [|[|[|i]]]; try (rewrite Hl; reflexivity). cbn in Hi. discriminate.
Qed.

(** ** deactivate_restores: after ANY history, from any starting state, a deactivate() that returns gives back exactly the
    import behaviour of a never-activated interpreter, for every statement form and every path, and an empty configuration *)
Theorem deactivate_restores : forall evs s0 fm p,
  let s := snd (deactivate (final fa en s0 evs)) in
  fst (do_import fm p s) = base_view p
  /\ (fst (deactivate (final fa en s0 evs)) = EOk -> config s = []).
Proof.
  intros evs s0 fm p s. destruct (deactivate_resets (final fa en s0 evs)) as [Hr [Hc _]].
  split; [exact (proj1 (real_view fm p _ Hr)) | exact Hc].
Qed.

(** deactivate() can only fail to return when the environment makes a real re-import raise something that the loop does
    not swallow *)
Theorem deactivate_returns : forall s,
  (f_catch fa = CatchAll \/ testing_imp en <> RRaise \/ installed en = false) -> fst (deactivate s) = EOk.
Proof.
  intros s H. unfold Activate.deactivate, deact_raises, testing_fails. cbn [fst].
  destruct H as [H | [H | H]].
  - rewrite H. now rewrite andb_false_r.
  - destruct (testing_imp en); try (now rewrite !andb_false_r). now contradiction H.
  - rewrite H. reflexivity.
Qed.

(** ** context_restores_on_any_exit: an exit kind that reaches deactivate() *is* deactivate(); one that does not leaves
    the state untouched (which is the defect when activate_context lacks try/finally) *)
Theorem context_restores_on_any_exit : forall k s,
  exit_deactivates fa k = true -> step s (CtxExit k) = deactivate s.
Proof. intros k s H. cbn. now rewrite H. Qed.
Theorem context_exit_skips : forall k s,
  exit_deactivates fa k = false -> step s (CtxExit k) = (EOk, s).
Proof. intros k s H. cbn. now rewrite H. Qed.
Theorem exit_deactivates_all : f_ctx_finally fa = true -> forall k, exit_deactivates fa k = true.
Proof. intros H []; cbn; auto. Qed.

End Proofs.
