(** C14 -- writes to tables and files, save modes, catalog, failed writes.

    Three layers, all total and computable:
    - engine   : my definition of what DuckDB does with the statements sqlframe emits
                 (CREATE [OR REPLACE] TABLE [IF NOT EXISTS] AS, INSERT INTO ... SELECT, DROP TABLE, COPY ... TO)
                 on a state  table |-> (schema, rows),  path |-> content;
    - model    : sqlframe's DataFrameWriter / reader.table / catalog on top of the engine, parametric in the
                 facts [cfg] that are regenerated from /repo on every run (saveAsTable's mode -> statement,
                 _validate_mode, DuckDB _write, which mode the per-format methods hand on, schema-cache policy);
    - spec     : the state machine of the property text / PySpark (error | ignore | overwrite | append),
                 without any cache.
    This file does not depend on /repo. *)
From SF Require Import Base.Val.
From Coq Require Import Ascii.
Open Scope string_scope.
Open Scope nat_scope.

(* ------------------------------------------------------------------------------------------------ *)
(** * Data *)

Inductive ty := TInt | TStr | TBool | TOther.    (* TOther: any engine type outside the domain (never well-formed) *)
Definition ty_eqb (a b : ty) : bool :=
  match a, b with TInt, TInt | TStr, TStr | TBool, TBool | TOther, TOther => true | _, _ => false end.
Lemma ty_eqb_eq a b : ty_eqb a b = true <-> a = b.
Proof. destruct a, b; simpl; split; intro H; congruence. Qed.

Definition schema := list (string * ty).
Record tbl := mkTbl { t_cols : schema; t_rows : list row }.
Definition names (t : tbl) : list string := map fst (t_cols t).
Definition types (t : tbl) : list ty := map snd (t_cols t).

Inductive fmt := FCsv | FJson | FParquet.
Definition fmt_eqb (a b : fmt) : bool :=
  match a, b with FCsv, FCsv | FJson, FJson | FParquet, FParquet => true | _, _ => false end.
Lemma fmt_eqb_eq a b : fmt_eqb a b = true <-> a = b.
Proof. destruct a, b; simpl; split; intro H; congruence. Qed.

(** a DataFrame handed to the writer: either it evaluates to a table, or its SELECT raises in the engine at
    run time ([DBad t]: declared columns [t_cols t]; [t_rows t] are the rows produced before the error) *)
Inductive df := DGood (t : tbl) | DBad (t : tbl).
Definition df_tbl (d : df) : tbl := match d with DGood t | DBad t => t end.
Definition df_bad (d : df) : bool := match d with DBad _ => true | DGood _ => false end.

(** what a path holds: a complete file of a format, or the debris of an interrupted COPY *)
Inductive content := CFull (f : fmt) (t : tbl) | CPartial.

Inductive err := EExists | EMissing | EFailed | ENotImpl.
Inductive obs :=
| OOk | OErr (e : err) | ORows (t : tbl) | OBool (b : bool) | ONames (l : list string) | OCols (s : schema).

(* ------------------------------------------------------------------------------------------------ *)
(** * Association lists keyed by strings *)

Section Assoc.
  Context {A : Type}.
  Fixpoint alookup (k : string) (l : list (string * A)) : option A :=
    match l with
    | [] => None
    | (k', v) :: r => if String.eqb k' k then Some v else alookup k r
    end.
  Fixpoint aremove (k : string) (l : list (string * A)) : list (string * A) :=
    match l with
    | [] => []
    | (k', v) :: r => if String.eqb k' k then aremove k r else (k', v) :: aremove k r
    end.
  Definition aset (k : string) (v : A) (l : list (string * A)) := (k, v) :: aremove k l.
  Definition aset_opt (k : string) (o : option A) (l : list (string * A)) :=
    match o with Some v => aset k v l | None => aremove k l end.
  Definition akeys (l : list (string * A)) : list string := map fst l.
  Definition ahas (k : string) (l : list (string * A)) : bool :=
    match alookup k l with Some _ => true | None => false end.

  Lemma alookup_aremove_eq k l : alookup k (aremove k l) = None.
  Proof.
    induction l as [|[k' v] r IH]; simpl; [reflexivity|].
    destruct (String.eqb k' k) eqn:E; simpl; [exact IH|]. rewrite E. exact IH.
  Qed.
  Lemma alookup_aremove_neq k k' l : k <> k' -> alookup k' (aremove k l) = alookup k' l.
  Proof.
    intro Hne. induction l as [|[k0 v] r IH]; simpl; [reflexivity|].
    destruct (String.eqb k0 k) eqn:E; simpl.
    - apply String.eqb_eq in E; subst k0.
      destruct (String.eqb k k') eqn:E'; [apply String.eqb_eq in E'; congruence | exact IH].
    - destruct (String.eqb k0 k'); [reflexivity | exact IH].
  Qed.
  Lemma alookup_aset_eq k v l : alookup k (aset k v l) = Some v.
  Proof. unfold aset; simpl. rewrite String.eqb_refl. reflexivity. Qed.
  Lemma alookup_aset_neq k k' v l : k <> k' -> alookup k' (aset k v l) = alookup k' l.
  Proof.
    intro Hne. unfold aset; simpl.
    destruct (String.eqb k k') eqn:E; [apply String.eqb_eq in E; congruence|].
    apply alookup_aremove_neq; exact Hne.
  Qed.
  Lemma in_keys_aremove k k' l : In k' (akeys (aremove k l)) -> In k' (akeys l) /\ k' <> k.
  Proof.
    induction l as [|[k0 v] r IH]; simpl; [tauto|].
    destruct (String.eqb k0 k) eqn:E; simpl.
    - intro H. destruct (IH H) as [H1 H2]. split; [right; exact H1 | exact H2].
    - intros [H|H].
      + subst k0. split; [left; reflexivity|]. intro; subst. rewrite String.eqb_refl in E. discriminate.
      + destruct (IH H) as [H1 H2]. split; [right; exact H1 | exact H2].
  Qed.
  Lemma nodup_aremove k l : NoDup (akeys l) -> NoDup (akeys (aremove k l)).
  Proof.
    induction l as [|[k0 v] r IH]; simpl; intro H; [constructor|].
    inversion H as [|? ? Hn Hr]; subst.
    destruct (String.eqb k0 k); [apply IH; exact Hr|].
    simpl. constructor; [|apply IH; exact Hr].
    intro Hin. apply in_keys_aremove in Hin. tauto.
  Qed.
  Lemma nodup_aset k v l : NoDup (akeys l) -> NoDup (akeys (aset k v l)).
  Proof.
    intro H. unfold aset; simpl. constructor; [|apply nodup_aremove; exact H].
    intro Hin. apply in_keys_aremove in Hin. tauto.
  Qed.
  Lemma in_keys_lookup k l : In k (akeys l) <-> ahas k l = true.
  Proof.
    unfold ahas. induction l as [|[k0 v] r IH]; simpl.
    - split; [tauto | discriminate].
    - destruct (String.eqb k0 k) eqn:E.
      + apply String.eqb_eq in E. split; [reflexivity | intros _; left; exact E].
      + split.
        * intros [H|H]; [subst; rewrite String.eqb_refl in E; discriminate | apply IH; exact H].
        * intro H. right. apply IH. exact H.
  Qed.
End Assoc.

(* ------------------------------------------------------------------------------------------------ *)
(** * Small decidable equalities *)

Definition optstr_eqb (a b : option string) : bool :=
  match a, b with
  | None, None => true
  | Some x, Some y => String.eqb x y
  | _, _ => false
  end.
Lemma optstr_eqb_eq a b : optstr_eqb a b = true <-> a = b.
Proof.
  destruct a, b; simpl; split; intro H; try congruence.
  - apply String.eqb_eq in H; congruence.
  - inversion H; apply String.eqb_refl.
Qed.

Fixpoint list_eqb {A} (eqb : A -> A -> bool) (a b : list A) : bool :=
  match a, b with
  | [], [] => true
  | x :: a', y :: b' => eqb x y && list_eqb eqb a' b'
  | _, _ => false
  end.
Lemma list_eqb_eq {A} (eqb : A -> A -> bool) (H : forall x y, eqb x y = true <-> x = y) a b :
  list_eqb eqb a b = true <-> a = b.
Proof.
  revert b; induction a as [|x a IH]; intros [|y b]; simpl; split; intro E; try congruence.
  - apply andb_true_iff in E; destruct E as [E1 E2]. apply H in E1. apply IH in E2. congruence.
  - inversion E; subst. apply andb_true_iff. split; [apply H; reflexivity | apply IH; reflexivity].
Qed.

Definition names_eqb := list_eqb String.eqb.
Lemma names_eqb_eq a b : names_eqb a b = true <-> a = b.
Proof. apply list_eqb_eq. intros; apply String.eqb_eq. Qed.
Definition types_eqb := list_eqb ty_eqb.
Lemma types_eqb_eq a b : types_eqb a b = true <-> a = b.
Proof. apply list_eqb_eq. apply ty_eqb_eq. Qed.
Definition col_eqb (a b : string * ty) : bool := String.eqb (fst a) (fst b) && ty_eqb (snd a) (snd b).
Lemma col_eqb_eq a b : col_eqb a b = true <-> a = b.
Proof.
  destruct a as [n t], b as [m u]; unfold col_eqb; simpl. rewrite andb_true_iff, String.eqb_eq, ty_eqb_eq.
  split; [intros [? ?]; congruence | intro H; inversion H; tauto].
Qed.
Definition schema_eqb := list_eqb col_eqb.
Lemma schema_eqb_eq a b : schema_eqb a b = true <-> a = b.
Proof. apply list_eqb_eq. apply col_eqb_eq. Qed.
Definition rows_eqb := list_eqb row_eqb.
Lemma rows_eqb_eq a b : rows_eqb a b = true <-> a = b.
Proof. apply list_eqb_eq. apply row_eqb_eq. Qed.
Definition tbl_eqb (a b : tbl) : bool := schema_eqb (t_cols a) (t_cols b) && rows_eqb (t_rows a) (t_rows b).
Lemma tbl_eqb_eq a b : tbl_eqb a b = true <-> a = b.
Proof.
  destruct a as [c r], b as [c' r']; unfold tbl_eqb; simpl. rewrite andb_true_iff, schema_eqb_eq, rows_eqb_eq.
  split; [intros [? ?]; congruence | intro H; inversion H; tauto].
Qed.
Definition content_eqb (a b : content) : bool :=
  match a, b with
  | CPartial, CPartial => true
  | CFull f t, CFull g u => fmt_eqb f g && tbl_eqb t u
  | _, _ => false
  end.
Lemma content_eqb_eq a b : content_eqb a b = true <-> a = b.
Proof.
  destruct a as [f t|], b as [g u|]; simpl; split; intro H; try congruence.
  - apply andb_true_iff in H; destruct H as [H1 H2]. apply fmt_eqb_eq in H1. apply tbl_eqb_eq in H2. congruence.
  - inversion H; subst. apply andb_true_iff. split; [apply fmt_eqb_eq | apply tbl_eqb_eq]; reflexivity.
Qed.
Definition optcontent_eqb (a b : option content) : bool :=
  match a, b with
  | None, None => true
  | Some x, Some y => content_eqb x y
  | _, _ => false
  end.
Lemma optcontent_eqb_eq a b : optcontent_eqb a b = true <-> a = b.
Proof.
  destruct a, b; simpl; split; intro H; try congruence.
  - apply content_eqb_eq in H; congruence.
  - inversion H; apply content_eqb_eq; reflexivity.
Qed.

(* ------------------------------------------------------------------------------------------------ *)
(** * Well-formed frames; the inference-safe fragment for CSV / JSON files *)

Fixpoint all_chars (p : ascii -> bool) (s : string) : bool :=
  match s with EmptyString => true | String c r => p c && all_chars p r end.
Fixpoint ascii_in (c : ascii) (s : string) : bool :=
  match s with EmptyString => false | String d r => Ascii.eqb c d || ascii_in c r end.

(** unquoted lower-case identifiers (table and column names of the domain) *)
Definition ident_ok (s : string) : bool :=
  match s with
  | EmptyString => false
  | String c _ => ascii_in c "abcdefghijklmnopqrstuvwxyz"
                  && all_chars (fun c => ascii_in c "abcdefghijklmnopqrstuvwxyz0123456789_") s
  end.

Definition val_has_ty (t : ty) (v : val) : bool :=
  match v, t with
  | VNull, _ => true
  | VInt _, TInt => true
  | VStr _, TStr => true
  | VBool _, TBool => true
  | _, _ => false
  end.
Fixpoint row_typed (ts : list ty) (r : row) : bool :=
  match ts, r with
  | [], [] => true
  | t :: ts', v :: r' => val_has_ty t v && row_typed ts' r'
  | _, _ => false
  end.
Fixpoint nodupb (l : list string) : bool :=
  match l with [] => true | x :: r => negb (existsb (String.eqb x) r) && nodupb r end.

(** columns named by distinct identifiers, at least one column, every row has one value of the column's type
    (or NULL) per column *)
Definition tbl_wfb (t : tbl) : bool :=
  forallb (fun x => negb (ty_eqb x TOther)) (types t)
  && negb (Nat.eqb (List.length (t_cols t)) 0) && forallb ident_ok (names t) && nodupb (names t)
  && forallb (row_typed (types t)) (t_rows t).

(** strings whose text no CSV / JSON reader takes for a number, boolean, date or NULL *)
Definition plain_str (s : string) : bool :=
  match s with
  | EmptyString => false
  | String c _ => ascii_in c "kmpqvwxz"
                  && all_chars (fun c => ascii_in c "abcdefghijklmnopqrstuvwxyz0123456789") s
  end.
Definition plain_val (v : val) : bool := match v with VStr s => plain_str s | _ => true end.
Definition is_null (v : val) : bool := match v with VNull => true | _ => false end.
Fixpoint col_has_value (i : nat) (rs : list row) : bool :=
  match rs with [] => false | r :: rs' => negb (is_null (nth i r VNull)) || col_has_value i rs' end.

(** type/NULL inference of read_csv / read_json is C09's subject; file round trips are claimed on frames on
    which inference is trivially right: at least one row, no all-NULL column, plain strings *)
Definition file_safe (f : fmt) (t : tbl) : bool :=
  match f with
  | FParquet => true
  | _ => forallb (fun i => col_has_value i (t_rows t)) (seq 0 (List.length (t_cols t)))
         && forallb (forallb plain_val) (t_rows t)
  end.

(* ------------------------------------------------------------------------------------------------ *)
(** * Engine: statement semantics (my definition of DuckDB on the emitted fragment) *)

Fixpoint mapM {A B} (f : A -> option B) (l : list A) : option (list B) :=
  match l with
  | [] => Some []
  | x :: r => match f x, mapM f r with Some y, Some ys => Some (y :: ys) | _, _ => None end
  end.

(** SELECT n1, ..., nk FROM t : fails (binder error) when a name is missing *)
Definition project (ns : list string) (t : tbl) : option tbl :=
  match mapM (fun n => index_of n (names t)) ns with
  | None => None
  | Some ix => Some (mkTbl (map (fun i => nth i (t_cols t) (EmptyString, TInt)) ix)
                           (map (fun r => map (fun i => nth i r VNull) ix) (t_rows t)))
  end.

(** the SELECT of a statement: the DataFrame, optionally under one more projection layer *)
Definition query := (df * option (list string))%type.
Definition eval_query (q : query) : option tbl :=
  match q with
  | (DBad _, _) => None
  | (DGood t, None) => Some t
  | (DGood t, Some ns) => project ns t
  end.

Inductive stmt :=
| SCreate (if_not_exists or_replace : bool) (n : string) (q : query)
| SInsert (n : string) (q : query)
| SDrop (n : string).

Definition tables := list (string * tbl).
Definition files := list (string * content).

(** INSERT is positional; the fragment modelled has equal column types position by position (everything else is
    reported as an engine error here and kept out of every domain predicate: DuckDB would try value casts) *)
Definition compatible (old new : tbl) : bool := types_eqb (types old) (types new).

Definition exec (tabs : tables) (s : stmt) : tables * obs :=
  match s with
  | SCreate ine orr n q =>
      if ine && orr then (tabs, OErr EFailed)                      (* syntax error in DuckDB *)
      else match alookup n tabs with
           | Some _ =>
               if orr then match eval_query q with
                           | Some t => (aset n t tabs, OOk)
                           | None => (tabs, OErr EFailed)
                           end
               else if ine then (tabs, OOk)                         (* the SELECT is not even run *)
               else (tabs, OErr EExists)
           | None => match eval_query q with
                     | Some t => (aset n t tabs, OOk)
                     | None => (tabs, OErr EFailed)
                     end
           end
  | SInsert n q =>
      match alookup n tabs with
      | None => (tabs, OErr EMissing)
      | Some old =>
          match eval_query q with
          | None => (tabs, OErr EFailed)
          | Some t => if compatible old t
                      then (aset n (mkTbl (t_cols old) (t_rows old ++ t_rows t)) tabs, OOk)
                      else (tabs, OErr EFailed)
          end
      end
  | SDrop n =>
      match alookup n tabs with
      | Some _ => (aremove n tabs, OOk)
      | None => (tabs, OErr EMissing)
      end
  end.

(** COPY (q) TO path: on success the path holds the complete new file.  What a *failed* COPY leaves at the
    path is runtime behaviour of the engine / file system: the parameter [residue] (previous content |->
    content afterwards).  [atomic_residue] is statement atomicity; [duckdb_residue] is what DuckDB 1.2.2 was
    observed to do (an existing file survives -- it writes tmp_<name> and renames --, a new path keeps a
    truncated file). *)
Definition residue_fn := option content -> option content.
Definition atomic_residue : residue_fn := fun prev => prev.
Definition duckdb_residue : residue_fn :=
  fun prev => match prev with Some c => Some c | None => Some CPartial end.

Definition copy (residue : residue_fn) (fs : files) (p : string) (f : fmt) (q : query) : files * obs :=
  match eval_query q with
  | Some t => (aset p (CFull f t) fs, OOk)
  | None => let r := residue (alookup p fs) in
            ((if optcontent_eqb r (alookup p fs) then fs else aset_opt p r fs), OErr EFailed)
  end.

(* ------------------------------------------------------------------------------------------------ *)
(** * Python helpers used by the generated facts *)

Definition py_str_opt (a : option string) : string := match a with None => "None" | Some s => s end.
(** [a or b] for an Optional[str] [a] *)
Definition py_or_str (a : option string) (b : string) : string :=
  match a with Some s => if String.eqb s "" then b else s | None => b end.
Definition py_or_opt (a b : option string) : option string :=
  match a with Some s => if String.eqb s "" then b else Some s | None => b end.
Definition py_truthy_optbool (a : option bool) : bool := match a with Some true => true | _ => false end.

(* ------------------------------------------------------------------------------------------------ *)
(** * Model of sqlframe (parametric in the generated facts) *)

Inductive sat_action := SatInsert | SatCreate (if_not_exists or_replace : bool).
Inductive vres := VRaiseExists | VOk (mode : string) (skip : bool).
Inductive wact := WSkip | WNotImpl | WCopy.
Inductive byname_src := ByCache | ByEngine.

Record cfg := mkCfg {
  sat_plan : bool -> option string -> option string -> sat_action;   (* saveAsTable(mode=arg) on a writer with _mode;
                                                                         the bool: catalog.tableExists(name) *)
  validate_mode : bool -> option string -> vres;               (* _validate_mode(path exists?, mode) *)
  after_validate : string -> bool -> wact;                     (* DuckDB _write after _validate_mode *)
  path_mode : fmt -> option string -> option string -> option string;  (* mode that csv/json/parquet pass on *)
  add_if_absent : bool;                                        (* catalog.add_table keeps an existing entry *)
  byname_source : byname_src;                                  (* where byName takes the column order from *)
  cleans_new_path_debris : bool                                (* _write removes what a failed COPY left at a NEW path *)
}.

(** what is left at a path after a failed COPY, for the implementation described by [c]: DuckDB's debris, unless
    sqlframe removes what appeared at a path that did not exist before *)
Definition residue_of (c : cfg) : residue_fn :=
  if cleans_new_path_debris c then atomic_residue else duckdb_residue.

Record mstate := mkM { m_tabs : tables; m_files : files; m_cache : list (string * list string) }.
Definition m_init : mstate := mkM [] [] [].

Inductive op :=
| OpSave (n : string) (arg self : option string) (d : df)          (* df.write.mode(self).saveAsTable(n, mode=arg) *)
| OpInsert (n : string) (by_name : bool) (d : df)                  (* df.write[.byName].insertInto(n) *)
| OpWrite (p : string) (f : fmt) (arg self : option string) (d : df) (* df.write.mode(self).<f>(p, mode=arg) *)
| OpReadTable (n : string)                                         (* session.table(n): columns, types, rows *)
| OpReadPath (p : string) (f : fmt)                                (* session.read.<f>(p) *)
| OpDrop (n : string)                                              (* DROP TABLE n on the connection *)
| OpExists (n : string) | OpList | OpCols (n : string) | OpGet (n : string).   (* catalog API *)

Definition nonempty_cols (o : option (list string)) : option (list string) :=
  match o with Some (c :: cs) => Some (c :: cs) | _ => None end.

Definition cached (st : mstate) (n : string) : option (list string) := nonempty_cols (alookup n (m_cache st)).
Definition actual (tabs : tables) (n : string) : option (list string) :=
  nonempty_cols (option_map names (alookup n tabs)).

Definition m_insert (c : cfg) (st : mstate) (n : string) (by_name : bool) (d : df) : mstate * obs :=
  let proj := if by_name
              then match byname_source c with ByCache => cached st n | ByEngine => actual (m_tabs st) n end
              else None in
  let '(tabs', ob) := exec (m_tabs st) (SInsert n (d, proj)) in
  (mkM tabs' (m_files st) (m_cache st), ob).

Definition m_save (c : cfg) (st : mstate) (n : string) (arg self : option string) (d : df) : mstate * obs :=
  match sat_plan c (ahas n (m_tabs st)) arg self with
  | SatInsert => m_insert c st n false d
  | SatCreate ine orr =>
      let '(tabs', ob) := exec (m_tabs st) (SCreate ine orr n (d, None)) in
      (mkM tabs' (m_files st) (m_cache st), ob)
  end.

Definition m_write (c : cfg) (residue : residue_fn) (st : mstate) (p : string) (f : fmt)
           (arg self : option string) (d : df) : mstate * obs :=
  match validate_mode c (ahas p (m_files st)) (path_mode c f arg self) with
  | VRaiseExists => (st, OErr EExists)
  | VOk m skip =>
      match after_validate c m skip with
      | WSkip => (st, OOk)
      | WNotImpl => (st, OErr ENotImpl)
      | WCopy => let '(fs', ob) := copy residue (m_files st) p f (d, None) in
                 (mkM (m_tabs st) fs' (m_cache st), ob)
      end
  end.

(** session.table(n): catalog.add_table (fetches the columns from the engine unless an entry is kept), then
    SELECT <cached columns> FROM n *)
Definition m_read_table (c : cfg) (st : mstate) (n : string) : mstate * obs :=
  let cols := match cached st n with
              | Some cs => if add_if_absent c then Some cs else actual (m_tabs st) n
              | None => actual (m_tabs st) n
              end in
  let cache' := match cols with Some cs => aset n cs (m_cache st) | None => m_cache st end in
  let st' := mkM (m_tabs st) (m_files st) cache' in
  match alookup n (m_tabs st), cols with
  | Some t, Some cs => match project cs t with
                       | Some t' => (st', ORows t')
                       | None => (st', OErr EMissing)
                       end
  | _, _ => (st', OErr EMissing)
  end.

Definition read_path (fs : files) (p : string) (f : fmt) : obs :=
  match alookup p fs with
  | Some (CFull g t) => if fmt_eqb f g then ORows t else OErr EFailed
  | Some CPartial => OErr EFailed
  | None => OErr EMissing
  end.

Definition catalog_obs (tabs : tables) (o : op) : obs :=
  match o with
  | OpExists n => OBool (ahas n tabs)
  | OpList => ONames (akeys tabs)
  | OpCols n => OCols (match alookup n tabs with Some t => t_cols t | None => [] end)
  | OpGet n => if ahas n tabs then OOk else OErr EMissing
  | _ => OOk
  end.

Definition m_step (c : cfg) (residue : residue_fn) (st : mstate) (o : op) : mstate * obs :=
  match o with
  | OpSave n a s d => m_save c st n a s d
  | OpInsert n b d => m_insert c st n b d
  | OpWrite p f a s d => m_write c residue st p f a s d
  | OpReadTable n => m_read_table c st n
  | OpReadPath p f => (st, read_path (m_files st) p f)
  | OpDrop n => let '(tabs', ob) := exec (m_tabs st) (SDrop n) in (mkM tabs' (m_files st) (m_cache st), ob)
  | _ => (st, catalog_obs (m_tabs st) o)
  end.

Fixpoint m_run (c : cfg) (residue : residue_fn) (st : mstate) (ops : list op) : mstate * list obs :=
  match ops with
  | [] => (st, [])
  | o :: r => let '(st1, ob) := m_step c residue st o in
              let '(st2, obs) := m_run c residue st1 r in (st2, ob :: obs)
  end.

(* ------------------------------------------------------------------------------------------------ *)
(** * Spec: the save-mode state machine of the property (PySpark's meaning), no cache *)

Record sstate := mkS { s_tabs : tables; s_files : files }.
Definition s_init : sstate := mkS [] [].
Definition abs (st : mstate) : sstate := mkS (m_tabs st) (m_files st).

Inductive smode := MError | MIgnore | MOverwrite | MAppend.
Definition parse_mode (m : option string) : option smode :=
  match m with
  | None => Some MError
  | Some s => if String.eqb s "error" then Some MError
              else if String.eqb s "errorifexists" then Some MError
              else if String.eqb s "ignore" then Some MIgnore
              else if String.eqb s "overwrite" then Some MOverwrite
              else if String.eqb s "append" then Some MAppend
              else None
  end.
(** DataFrameWriter.mode(None) keeps the mode; an explicit mode= argument wins *)
Definition eff_mode (arg self : option string) : option string :=
  match arg with Some s => Some s | None => self end.

Definition eval_df (d : df) : option tbl := match d with DGood t => Some t | DBad _ => None end.

Definition s_append (tabs : tables) (n : string) (old new : tbl) : tables * obs :=
  if compatible old new then (aset n (mkTbl (t_cols old) (t_rows old ++ t_rows new)) tabs, OOk)
  else (tabs, OErr EFailed).

(** insertInto: positional, or (byName) the frame's columns matched to the table's by name *)
Definition s_insert (st : sstate) (n : string) (by_name : bool) (d : df) : sstate * obs :=
  match alookup n (s_tabs st) with
  | None => (st, OErr EMissing)
  | Some old =>
      match eval_df d with
      | None => (st, OErr EFailed)
      | Some t =>
          let t' := if by_name
                    then (if Nat.eqb (List.length (t_cols t)) (List.length (t_cols old)) then project (names old) t else None)
                    else Some t in
          match t' with
          | None => (st, OErr EFailed)
          | Some u => let '(tabs', ob) := s_append (s_tabs st) n old u in (mkS tabs' (s_files st), ob)
          end
      end
  end.

Definition s_create (st : sstate) (n : string) (d : df) : sstate * obs :=
  match eval_df d with
  | Some t => (mkS (aset n t (s_tabs st)) (s_files st), OOk)
  | None => (st, OErr EFailed)
  end.

Definition s_save (st : sstate) (n : string) (arg self : option string) (d : df) : sstate * obs :=
  match parse_mode (eff_mode arg self) with
  | None => (st, OErr EFailed)
  | Some m =>
      match alookup n (s_tabs st), m with
      | Some _, MError => (st, OErr EExists)
      | Some _, MIgnore => (st, OOk)
      | Some _, MAppend => s_insert st n true d          (* saveAsTable(append) resolves columns by name *)
      | _, _ => s_create st n d                           (* absent (any mode, append included), or overwrite *)
      end
  end.

Definition s_write (st : sstate) (p : string) (f : fmt) (arg self : option string) (d : df) : sstate * obs :=
  match parse_mode (eff_mode arg self) with
  | None => (st, OErr EFailed)
  | Some m =>
      match alookup p (s_files st), m with
      | Some _, MError => (st, OErr EExists)
      | Some _, MIgnore => (st, OOk)
      | Some (CFull g old), MAppend =>
          match eval_df d with
          | Some t => if fmt_eqb f g && compatible old t
                      then (mkS (s_tabs st) (aset p (CFull g (mkTbl (t_cols old) (t_rows old ++ t_rows t))) (s_files st)), OOk)
                      else (st, OErr EFailed)
          | None => (st, OErr EFailed)
          end
      | _, _ => match eval_df d with
                | Some t => (mkS (s_tabs st) (aset p (CFull f t) (s_files st)), OOk)
                | None => (st, OErr EFailed)               (* a failed write leaves the target as it was *)
                end
      end
  end.

Definition s_step (st : sstate) (o : op) : sstate * obs :=
  match o with
  | OpSave n a s d => s_save st n a s d
  | OpInsert n b d => s_insert st n b d
  | OpWrite p f a s d => s_write st p f a s d
  | OpReadTable n => (st, match alookup n (s_tabs st) with Some t => ORows t | None => OErr EMissing end)
  | OpReadPath p f => (st, read_path (s_files st) p f)
  | OpDrop n => let '(tabs', ob) := exec (s_tabs st) (SDrop n) in (mkS tabs' (s_files st), ob)
  | _ => (st, catalog_obs (s_tabs st) o)
  end.

Fixpoint s_run (st : sstate) (ops : list op) : sstate * list obs :=
  match ops with
  | [] => (st, [])
  | o :: r => let '(st1, ob) := s_step st o in
              let '(st2, obs) := s_run st1 r in (st2, ob :: obs)
  end.

(* ------------------------------------------------------------------------------------------------ *)
(** * Decidable side condition on the generated facts, and the domain of the refinement theorem *)

Definition modes : list (option string) :=
  [None; Some "error"; Some "errorifexists"; Some "ignore"; Some "overwrite"; Some "append"].
Definition mode_known (m : option string) : bool := existsb (optstr_eqb m) modes.

Definition expected_sat (table_exists : bool) (m : option smode) : sat_action :=
  match m with
  | Some MAppend => if table_exists then SatInsert else SatCreate false false   (* append creates a missing table *)
  | Some MIgnore => SatCreate true false
  | Some MOverwrite => SatCreate false true
  | _ => SatCreate false false
  end.
Definition sat_eqb (a b : sat_action) : bool :=
  match a, b with
  | SatInsert, SatInsert => true
  | SatCreate x y, SatCreate x' y' => Bool.eqb x x' && Bool.eqb y y'
  | _, _ => false
  end.

Inductive pplan := PRaise | PSkip | PNotImpl | PCopy.
Definition path_plan (c : cfg) (ex : bool) (m : option string) : pplan :=
  match validate_mode c ex m with
  | VRaiseExists => PRaise
  | VOk m' skip => match after_validate c m' skip with WSkip => PSkip | WNotImpl => PNotImpl | WCopy => PCopy end
  end.
Definition expected_plan (ex : bool) (m : option smode) : pplan :=
  match m, ex with
  | Some MError, true => PRaise
  | Some MIgnore, true => PSkip
  | Some MAppend, _ => PNotImpl        (* appending to files is documented as unsupported on DuckDB *)
  | _, _ => PCopy
  end.
Definition pplan_eqb (a b : pplan) : bool :=
  match a, b with PRaise, PRaise | PSkip, PSkip | PNotImpl, PNotImpl | PCopy, PCopy => true | _, _ => false end.

(** [cfg_ok]: for the six modes of the property, saveAsTable chooses the statement the mode asks for, whichever way
    the mode is given, and the path pipeline refuses / skips / copies as the mode asks for *)
Definition cfg_ok (c : cfg) : bool :=
  forallb (fun a => forallb (fun s =>
     forallb (fun ex => sat_eqb (sat_plan c ex a s) (expected_sat ex (parse_mode (eff_mode a s)))) [true; false]) modes) modes
  && forallb (fun m => forallb (fun ex =>
     pplan_eqb (path_plan c ex m) (expected_plan ex (parse_mode m))) [true; false]) modes.

Definition df_ok (d : df) : bool := tbl_wfb (df_tbl d).

Definition is_append (m : option string) : bool :=
  match parse_mode m with Some MAppend => true | _ => false end.

(** the byName column source of the model agrees with the table's real columns *)
Definition byname_src_ok (c : cfg) (st : mstate) (n : string) (old : tbl) : bool :=
  match byname_source c with
  | ByCache => match cached st n with Some cs => names_eqb cs (names old) | None => false end
  | ByEngine => true
  end.

(** [step_ok]: the domain of the refinement theorem, decided on the model's current state.  Every clause is either
    the property's own quantifier (six modes, well-formed frames, identifiers), the inference-safe fragment for
    files, a type-compatible insert, -- or excludes one of the deviations refuted in props/C14.v. *)
Definition step_ok (c : cfg) (residue : residue_fn) (st : mstate) (o : op) : bool :=
  match o with
  | OpSave n a s d =>
      ident_ok n && mode_known a && mode_known s && df_ok d
      && (if is_append (eff_mode a s)
          then match alookup n (m_tabs st) with
               | Some old => names_eqb (names (df_tbl d)) (names old) && compatible old (df_tbl d)   (* positional = by name *)
               | None => true                                                                         (* append creates *)
               end
          else true)
  | OpInsert n b d =>
      ident_ok n && df_ok d
      && match alookup n (m_tabs st) with
         | None => true
         | Some old =>
             if b then byname_src_ok c st n old
                       && Nat.eqb (List.length (t_cols (df_tbl d))) (List.length (t_cols old))
                       && match project (names old) (df_tbl d) with Some u => compatible old u | None => true end
             else compatible old (df_tbl d)
         end
  | OpWrite p f a s d =>
      mode_known a && mode_known s && df_ok d
      && optstr_eqb (path_mode c f a s) (eff_mode a s)                 (* the writer's mode reaches _write *)
      && negb (is_append (eff_mode a s))                                (* unsupported on DuckDB *)
      && (df_bad d || file_safe f (df_tbl d))
      && (negb (df_bad d) || optcontent_eqb (residue (alookup p (m_files st))) (alookup p (m_files st)))
  | OpReadTable n =>
      ident_ok n
      && match alookup n (m_tabs st) with
         | None => true
         | Some t => tbl_wfb t
                     && match cached st n with
                        | Some cs => negb (add_if_absent c) || names_eqb cs (names t)   (* no stale entry *)
                        | None => true
                        end
         end
  | OpReadPath p f =>
      match alookup p (m_files st) with
      | Some (CFull g _) => fmt_eqb f g
      | Some CPartial => false
      | None => true
      end
  | _ => true
  end.

Fixpoint hist_ok (c : cfg) (residue : residue_fn) (st : mstate) (ops : list op) : bool :=
  match ops with
  | [] => true
  | o :: r => step_ok c residue st o && hist_ok c residue (fst (m_step c residue st o)) r
  end.

(* ------------------------------------------------------------------------------------------------ *)
(** * "created and dropped so far", read off the history and its outcomes only *)

Definition live_step (acc : string -> bool) (o : op) (ob : obs) : string -> bool :=
  match o, ob with
  | OpSave n _ _ _, OOk => fun k => if String.eqb n k then true else acc k
  | OpDrop n, OOk => fun k => if String.eqb n k then false else acc k
  | _, _ => acc
  end.
Fixpoint live (acc : string -> bool) (ops : list op) (obs : list obs) : string -> bool :=
  match ops, obs with
  | o :: r, ob :: obr => live (live_step acc o ob) r obr
  | _, _ => acc
  end.

(** the property's own quantifier, state-independent: six modes, identifiers, well-formed frames (inference-safe
    ones for CSV / JSON files) *)
Definition op_wf (o : op) : bool :=
  match o with
  | OpSave n a s d => ident_ok n && mode_known a && mode_known s && df_ok d
  | OpInsert n _ d => ident_ok n && df_ok d
  | OpWrite _ f a s d => mode_known a && mode_known s && df_ok d && (df_bad d || file_safe f (df_tbl d))
  | OpReadTable n | OpDrop n | OpExists n | OpCols n | OpGet n => ident_ok n
  | _ => true
  end.

Definition is_write (o : op) : bool :=
  match o with OpSave _ _ _ _ | OpInsert _ _ _ | OpWrite _ _ _ _ _ => true | _ => false end.
Definition op_df (o : op) : option df :=
  match o with OpSave _ _ _ d | OpInsert _ _ d | OpWrite _ _ _ _ d => Some d | _ => None end.
(** a failed COPY leaves the path of this write as it was *)
Definition atomic_at (residue : residue_fn) (st : mstate) (o : op) : bool :=
  match o with
  | OpWrite p _ _ _ _ => optcontent_eqb (residue (alookup p (m_files st))) (alookup p (m_files st))
  | _ => true
  end.
