(** C14 -- executable comparison of an observed run (implementation on DuckDB, or PySpark recording) with the
    model and the spec.  Used by checks/c14.py through vm_compute; nothing here is a proof obligation. *)
From SF Require Import Base.Val C14.Writer C14.WriterProof C14.Views C14.Builder.
Open Scope string_scope.
Open Scope nat_scope.

Fixpoint count_row (r : row) (l : list row) : nat :=
  match l with [] => 0 | x :: l' => (if row_eqb r x then 1 else 0) + count_row r l' end.
Definition bag_eqb (a b : list row) : bool :=
  Nat.eqb (List.length a) (List.length b) && forallb (fun r => Nat.eqb (count_row r a) (count_row r b)) a.

(** same columns (names, types, order), same rows as a multiset *)
Definition tbl_match (a b : tbl) : bool := schema_eqb (t_cols a) (t_cols b) && bag_eqb (t_rows a) (t_rows b).

Definition set_eqb (a b : list string) : bool :=
  Nat.eqb (List.length a) (List.length b)
  && forallb (fun x => existsb (String.eqb x) b) a && forallb (fun x => existsb (String.eqb x) a) b.

Definition err_eqb (a b : err) : bool :=
  match a, b with
  | EExists, EExists | EMissing, EMissing | EFailed, EFailed | ENotImpl, ENotImpl => true
  | _, _ => false
  end.

Definition obs_match (a b : obs) : bool :=
  match a, b with
  | OOk, OOk => true
  | OErr e, OErr e' => err_eqb e e'
  | ORows t, ORows t' => tbl_match t t'
  | OBool x, OBool y => Bool.eqb x y
  | ONames x, ONames y => set_eqb x y
  | OCols x, OCols y => schema_eqb x y
  | _, _ => false
  end.

(** what the harness reads directly from the DuckDB connection / the file system after a step *)
Record snap := mkSnap {
  sn_tabs : tables; sn_files : list (string * bool);
  (* the catalog API asked after the step: per table name of the history (tableExists, listColumns, getTable succeeded),
     and listTables *)
  sn_cat : list (string * (bool * schema * bool));
  sn_list : list string }.

Definition tabs_match (impl model : tables) : bool :=
  set_eqb (akeys impl) (akeys model)
  && forallb (fun kv => match alookup (fst kv) model with Some t => tbl_match (snd kv) t | None => false end) impl.
Definition files_match (impl : list (string * bool)) (model : files) : bool :=
  forallb (fun kv => Bool.eqb (snd kv) (ahas (fst kv) model)) impl.
Definition obs_cols (o : option obs) : schema := match o with Some (OCols c) => c | _ => [] end.
Definition obs_true (o : option obs) : bool := match o with Some (OBool b) => b | Some OOk => true | _ => false end.
(** the catalog API's answers right after the step, against what model / spec say it answers (views included) *)
Definition cat_match (impl : list (string * (bool * schema * bool))) (listed : list string)
           (model : tables) (vs : views) : bool :=
  set_eqb listed (akeys model ++ akeys vs)
  && forallb (fun kv => let '(ex, cols, got) := snd kv in
                        Bool.eqb ex (obs_true (view_obs model vs (OpExists (fst kv))))
                        && Bool.eqb got (obs_true (view_obs model vs (OpGet (fst kv))))
                        && schema_eqb cols (obs_cols (view_obs model vs (OpCols (fst kv))))) impl.
Definition snap_match (s : snap) (tabs : tables) (fs : files) (vs : views) : bool :=
  tabs_match (sn_tabs s) tabs && files_match (sn_files s) fs && cat_match (sn_cat s) (sn_list s) tabs vs.

Record case := mkCase { c_ops : list op; c_obs : list obs; c_snaps : list snap }.

Definition bit (b : bool) : string := if b then "1" else "0".

(** may the observed step be judged against the spec?  The property's own quantifier ([op_wf]) and, for inserts into
    an existing table, column types that agree position by position (after the by-name reordering where the spec
    reorders) -- DuckDB and Spark both try value casts otherwise, which neither model nor spec describe. *)
Definition judge_ok (s : sstate) (o : op) : bool :=
  op_wf o &&
  match o with
  | OpInsert n b d =>
      match alookup n (s_tabs s) with
      | None => true
      | Some old => if b then Nat.eqb (List.length (t_cols (df_tbl d))) (List.length (t_cols old))   (* extra columns: not judged *)
                              && match project (names old) (df_tbl d) with Some u => compatible old u | None => true end
                    else compatible old (df_tbl d)
      end
  | OpSave n a sf d =>
      if is_append (eff_mode a sf)
      then match alookup n (s_tabs s) with
           | None => true
           | Some old => match project (names old) (df_tbl d) with Some u => compatible old u | None => true end
           end
      else true
  | OpWrite p f a sf d =>
      if is_append (eff_mode a sf)
      then match alookup p (s_files s) with
           | Some (CFull g old) => fmt_eqb f g && compatible old (df_tbl d)
           | Some CPartial => false
           | None => true
           end
      else true
  | OpReadPath p f => match alookup p (s_files s) with
                      | Some (CFull g t) => fmt_eqb f g && file_safe g t      (* written by a judged step *)
                      | Some CPartial => false
                      | None => true
                      end
  | _ => true
  end.

(** is the step inside the region where the model claims to describe the implementation exactly?  (everything of
    [op_wf] except inserts whose positional column types differ -- DuckDB then casts values -- and reads of files
    that hold a frame outside the inference-safe fragment) *)
Definition faithful_ok (c : cfg) (m : mstate) (o : op) : bool :=
  let pos_ok n proj d :=
    match alookup n (m_tabs m) with
    | None => true
    | Some old => match eval_query (DGood (df_tbl d), proj) with Some u => compatible old u | None => true end
    end in
  op_wf o &&
  match o with
  | OpInsert n b d =>
      pos_ok n (if b then match byname_source c with ByCache => cached m n | ByEngine => actual (m_tabs m) n end
                else None) d
  | OpSave n a s d => match sat_plan c (ahas n (m_tabs m)) a s with SatInsert => pos_ok n None d | _ => true end
  | OpReadPath p f => match alookup p (m_files m) with
                      | Some (CFull g t) => fmt_eqb f g && file_safe g t
                      | Some CPartial => false
                      | None => true
                      end
  | _ => true
  end.

Record xcase := mkXCase { x_ops : list xop; x_obs : list obs; x_snaps : list snap }.

(** an insert (insertInto, or saveAsTable in append mode) into a name that is also a temporary view is outside the
    property and outside model and spec: PySpark refuses it (the view is resolved first), sqlframe inserts into the table
    positionally but fails on byName (the view's untyped columns are looked up) *)
Definition insert_under_view (vs : views) (o : op) : bool :=
  match o with
  | OpInsert n _ _ => ahas n vs
  | OpSave n a s _ => is_append (eff_mode a s) && ahas n vs
  | _ => false
  end.
Definition x_judge_ok (s : sstate * views) (xo : xop) : bool :=
  match xo with
  | XOp o => judge_ok (fst s) o && negb (insert_under_view (snd s) o)
  | XTempView n t => ident_ok n && tbl_wfb t
  | XGuardedSave n d => ident_ok n && df_ok d
  | XForeign n => ident_ok n
  end.
Definition x_faithful_ok (c : cfg) (m : mstate * views) (xo : xop) : bool :=
  match xo with
  | XOp o => faithful_ok c (fst m) o && negb (insert_under_view (snd m) o)
  | XTempView n t => ident_ok n && tbl_wfb t
  | XGuardedSave n d => ident_ok n && df_ok d
  | XForeign n => ident_ok n
  end.

Record ycase := mkYCase { y_ops : list yop; y_obs : list obs; y_snaps : list snap }.

Definition y_judge_ok (s : sstate * views) (yo : yop) : bool :=
  match yo with
  | YOp xo => x_judge_ok s xo
  | YInsert calls n d => forallb call_known calls && x_judge_ok s (XOp (OpInsert n (w_by_name (brun ideal calls)) d))
  | YSave calls n arg d => forallb call_known calls && x_judge_ok s (XOp (OpSave n arg (w_mode (brun ideal calls)) d))
  | YWrite calls p f arg d => forallb call_known calls && x_judge_ok s (XOp (OpWrite p f arg (w_mode (brun ideal calls)) d))
  end.
(** the model's exact region, on the flags the regenerated builder computes *)
Definition y_faithful_ok (c : cfg) (b : bcfg) (m : mstate * views) (yo : yop) : bool :=
  match yo with
  | YOp xo => x_faithful_ok c m xo
  | YInsert calls n d => forallb call_known calls && x_faithful_ok c m (XOp (OpInsert n (w_by_name (brun b calls)) d))
  | YSave calls n arg d =>
      let w := brun b calls in
      forallb call_known calls
      && if w_by_name w
         then match sat_plan c (ahas n (m_tabs (fst m))) arg (w_mode w) with
              | SatInsert => x_faithful_ok c m (XOp (OpInsert n true d)) && mode_known arg && mode_known (w_mode w)
              | SatCreate _ _ => x_faithful_ok c m (XOp (OpSave n arg (w_mode w) d))
              end
         else x_faithful_ok c m (XOp (OpSave n arg (w_mode w) d))
  | YWrite calls p f arg d => forallb call_known calls && x_faithful_ok c m (XOp (OpWrite p f arg (w_mode (brun b calls)) d))
  end.

(** per step eight characters:
    impl obs = model obs | impl snapshot = model state | impl obs = spec obs | impl snapshot = spec state |
    step in the theorem's domain | model = spec on this step (observation and abstract state) |
    step may be judged against the spec | step inside the model's exact region *)
Fixpoint walk (c : cfg) (b : bcfg) (residue : residue_fn) (m : mstate * views) (s : sstate * views)
         (ops : list yop) (io : list obs) (sn : list snap) : string :=
  match ops, io, sn with
  | o :: ops', i :: io', n :: sn' =>
      let ok := y_step_ok c residue m o in
      let '(m', mo) := y_m_step c b residue m o in
      let '(s', so) := y_s_step s o in
      bit (obs_match i mo) ++ bit (snap_match n (m_tabs (fst m')) (m_files (fst m')) (snd m'))
      ++ bit (obs_match i so) ++ bit (snap_match n (s_tabs (fst s')) (s_files (fst s')) (snd s'))
      ++ bit ok
      ++ bit (obs_match mo so && tabs_match (m_tabs (fst m')) (s_tabs (fst s'))
              && list_eqb (fun a b => String.eqb (fst a) (fst b) && content_eqb (snd a) (snd b))
                          (m_files (fst m')) (s_files (fst s')))
      ++ bit (y_judge_ok s o)
      ++ bit (y_faithful_ok c b m o)
      ++ walk c b residue m' s' ops' io' sn'
  | _, _, _ => ""
  end.

Definition check (c : cfg) (b : bcfg) (k : ycase) : string :=
  walk c b (residue_of c) (m_init, []) (s_init, []) (y_ops k) (y_obs k) (y_snaps k).

(** spec conformance: a PySpark recording against the spec alone (one character per step) *)
Fixpoint walk_spec (s : sstate) (ops : list op) (io : list obs) : string :=
  match ops, io with
  | o :: ops', i :: io' => let '(s', so) := s_step s o in bit (obs_match i so) ++ walk_spec s' ops' io'
  | _, _ => ""
  end.
Definition check_spec (k : case) : string := walk_spec s_init (c_ops k) (c_obs k).
