(** C14 -- the writer model under objects that share a table's NAME but are not the table:
    session temporary views (df.createOrReplaceTempView) and tables of the same name in another schema.

    A temporary view legitimately shadows the table in session.table and is reported by the catalog API
    (tableExists / listTables / listColumns / getTable, as in PySpark); it must never influence what a write does to
    the table.  A same-named table in another schema must influence nothing at all ([XForeign] is a no-op of model
    and spec: the harness creates staging.<n> behind the session's back).
    The layer wraps [m_step] / [s_step]; the refinement theorem is lifted from WriterProof.  Does not depend on /repo. *)
From SF Require Import Base.Val C14.Writer C14.WriterProof.
Open Scope string_scope.
Open Scope nat_scope.

Definition views := list (string * tbl).

Inductive xop :=
| XOp (o : op)
| XTempView (n : string) (t : tbl)        (* df.createOrReplaceTempView(n), df evaluates to t *)
| XGuardedSave (n : string) (d : df)      (* if not catalog.tableExists(n): df.write.saveAsTable(n) *)
| XForeign (n : string).                  (* CREATE TABLE staging.<n> ... on the connection: another namespace *)

(** what the session answers when views are around; [None]: the operation does not look at views *)
Definition view_obs (tabs : tables) (vs : views) (o : op) : option obs :=
  match o with
  | OpExists n => Some (OBool (ahas n tabs || ahas n vs))
  | OpList => Some (ONames (akeys tabs ++ akeys vs))
  | OpCols n => Some (OCols (match alookup n vs with
                             | Some t => map (fun c => (fst c, TOther)) (t_cols t)   (* views: names only, dataType '' *)
                             | None => match alookup n tabs with Some t => t_cols t | None => [] end
                             end))
  | OpGet n => Some (if ahas n tabs || ahas n vs then OOk else OErr EMissing)
  | OpReadTable n => match alookup n vs with Some t => Some (ORows t) | None => None end
  | _ => None
  end.

(** createOrReplaceTempView also writes the view's column names into the session's schema cache under that name *)
Definition cache_after_view (c : cfg) (st : mstate) (n : string) (t : tbl) : mstate :=
  match cached st n with
  | Some _ => if add_if_absent c then st else mkM (m_tabs st) (m_files st) (aset n (names t) (m_cache st))
  | None => mkM (m_tabs st) (m_files st) (aset n (names t) (m_cache st))
  end.

Definition x_m_step (c : cfg) (residue : residue_fn) (xs : mstate * views) (xo : xop) : (mstate * views) * obs :=
  let '(st, vs) := xs in
  match xo with
  | XOp o => match view_obs (m_tabs st) vs o with
             | Some ob => ((st, vs), ob)
             | None => let '(st', ob) := m_step c residue st o in ((st', vs), ob)
             end
  | XTempView n t => ((cache_after_view c st n t, aset n t vs), OOk)
  | XGuardedSave n d =>
      if ahas n (m_tabs st) || ahas n vs then ((st, vs), OOk)
      else let '(st', ob) := m_step c residue st (OpSave n None None d) in ((st', vs), ob)
  | XForeign _ => ((st, vs), OOk)
  end.

Definition x_s_step (xs : sstate * views) (xo : xop) : (sstate * views) * obs :=
  let '(st, vs) := xs in
  match xo with
  | XOp o => match view_obs (s_tabs st) vs o with
             | Some ob => ((st, vs), ob)
             | None => let '(st', ob) := s_step st o in ((st', vs), ob)
             end
  | XTempView n t => ((st, aset n t vs), OOk)
  | XGuardedSave n d =>
      if ahas n (s_tabs st) || ahas n vs then ((st, vs), OOk)
      else let '(st', ob) := s_step st (OpSave n None None d) in ((st', vs), ob)
  | XForeign _ => ((st, vs), OOk)
  end.

Fixpoint x_m_run (c : cfg) (residue : residue_fn) (xs : mstate * views) (ops : list xop) : (mstate * views) * list obs :=
  match ops with
  | [] => (xs, [])
  | o :: r => let '(xs1, ob) := x_m_step c residue xs o in
              let '(xs2, obs) := x_m_run c residue xs1 r in (xs2, ob :: obs)
  end.
Fixpoint x_s_run (xs : sstate * views) (ops : list xop) : (sstate * views) * list obs :=
  match ops with
  | [] => (xs, [])
  | o :: r => let '(xs1, ob) := x_s_step xs o in
              let '(xs2, obs) := x_s_run xs1 r in (xs2, ob :: obs)
  end.

Definition x_abs (xs : mstate * views) : sstate * views := (abs (fst xs), snd xs).

(** domain: that of the wrapped operation (nothing to ask when a view answers); the guarded save is a default-mode
    saveAsTable; views are well-formed frames under an identifier *)
Definition x_step_ok (c : cfg) (residue : residue_fn) (xs : mstate * views) (xo : xop) : bool :=
  match xo with
  | XOp o => match view_obs (m_tabs (fst xs)) (snd xs) o with
             | Some _ => true
             | None => step_ok c residue (fst xs) o
             end
  | XTempView n t => ident_ok n && tbl_wfb t
  | XGuardedSave n d => step_ok c residue (fst xs) (OpSave n None None d)
  | XForeign n => ident_ok n
  end.
Fixpoint x_hist_ok (c : cfg) (residue : residue_fn) (xs : mstate * views) (ops : list xop) : bool :=
  match ops with
  | [] => true
  | o :: r => x_step_ok c residue xs o && x_hist_ok c residue (fst (x_m_step c residue xs o)) r
  end.

Lemma abs_cache_after_view c st n t : abs (cache_after_view c st n t) = abs st.
Proof.
  unfold cache_after_view. destruct (cached st n); [destruct (add_if_absent c)|]; reflexivity.
Qed.

Theorem x_step_refines c residue xs xo :
  cfg_ok c = true -> x_step_ok c residue xs xo = true ->
  x_s_step (x_abs xs) xo = (x_abs (fst (x_m_step c residue xs xo)), snd (x_m_step c residue xs xo)).
Proof.
  intros Hc Hok. destruct xs as [st vs]. destruct xo as [o|n t|n d|n]; cbn [x_abs fst snd x_s_step x_m_step].
  - cbn [x_step_ok fst snd] in Hok. change (s_tabs (abs st)) with (m_tabs st).
    destruct (view_obs (m_tabs st) vs o) as [ob|]; [reflexivity|].
    rewrite (step_refines c residue st o Hc Hok).
    destruct (m_step c residue st o) as [st' ob]. reflexivity.
  - unfold x_abs. cbn [fst snd]. rewrite abs_cache_after_view. reflexivity.
  - cbn [x_step_ok fst snd] in Hok. change (s_tabs (abs st)) with (m_tabs st).
    destruct (ahas n (m_tabs st) || ahas n vs); [reflexivity|].
    rewrite (step_refines c residue st _ Hc Hok).
    destruct (m_step c residue st (OpSave n None None d)) as [st' ob]. reflexivity.
  - reflexivity.
Qed.

(** every history with temporary views, guarded re-creates and foreign same-named tables, from every state *)
Theorem x_modes_refine_spec c residue :
  cfg_ok c = true ->
  forall ops xs, x_hist_ok c residue xs ops = true ->
    x_s_run (x_abs xs) ops = (x_abs (fst (x_m_run c residue xs ops)), snd (x_m_run c residue xs ops)).
Proof.
  intros Hc ops. induction ops as [|o r IH]; intros xs Hok; [reflexivity|].
  cbn [x_hist_ok] in Hok. apply andb_true_iff in Hok; destruct Hok as [Ho Hr].
  cbn [x_s_run x_m_run]. rewrite (x_step_refines c residue xs o Hc Ho).
  destruct (x_m_step c residue xs o) as [xs1 ob]. cbn [fst snd] in *.
  rewrite (IH xs1 Hr). destruct (x_m_run c residue xs1 r) as [xs2 obs]. reflexivity.
Qed.

(** a write never looks at the views and never changes them; a view never changes tables or files *)
Theorem views_do_not_touch_writes c residue st vs o :
  is_write o = true ->
  x_m_step c residue (st, vs) (XOp o) = ((fst (m_step c residue st o), vs), snd (m_step c residue st o)).
Proof.
  intro Hw. destruct o; cbn [is_write] in Hw; try discriminate; cbn [x_m_step view_obs];
    destruct (m_step c residue st _); reflexivity.
Qed.

Theorem tempview_keeps_tables_and_files c residue st vs n t :
  abs (fst (fst (x_m_step c residue (st, vs) (XTempView n t)))) = abs st.
Proof. cbn [x_m_step fst]. apply abs_cache_after_view. Qed.

Theorem foreign_changes_nothing c residue xs n :
  x_m_step c residue xs (XForeign n) = (xs, OOk).
Proof. destruct xs. reflexivity. Qed.

(** a failing frame behind the guard, or written while views exist, still leaves everything as it was *)
Theorem x_failed_write_leaves_state c residue st vs o d :
  is_write o = true -> op_df o = Some d -> df_bad d = true -> atomic_at residue st o = true ->
  fst (x_m_step c residue (st, vs) (XOp o)) = (st, vs).
Proof.
  intros Hw Hd Hb Hat. rewrite (views_do_not_touch_writes c residue st vs o Hw). cbn [fst].
  destruct (failed_write_leaves_state c residue st o d Hw Hd Hb Hat) as [E _]. rewrite E. reflexivity.
Qed.

(** tableExists with views around: a live table or a registered view *)
Theorem x_exists_answer c residue st vs n :
  snd (x_m_step c residue (st, vs) (XOp (OpExists n))) = OBool (ahas n (m_tabs st) || ahas n vs).
Proof. reflexivity. Qed.
