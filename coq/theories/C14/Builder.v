(** C14 -- the DataFrameWriter's builder calls as a SEQUENCE whose flags persist.

    df.write.byName.mode("append").format("parquet")...  builds a writer step by step; each call must change its own
    flag and keep the others, whatever the order of the calls.  [bcfg] holds what each builder method does to the flags
    (regenerated from /repo: mode(), byName, format(), through copy() / the constructor); [bcfg_ok] says "exactly what the
    ideal builder does", decided over the finite flag space; the terminal calls (insertInto / saveAsTable / csv|json|parquet)
    then run on the flags the sequence produced.  Layer over Views.v; does not depend on /repo. *)
From SF Require Import Base.Val C14.Writer C14.WriterProof C14.Views.
Open Scope string_scope.
Open Scope nat_scope.

Record wflags := mkW { w_mode : option string; w_by_name : bool; w_format : option string }.
Definition w0 : wflags := mkW None false None.                      (* df.write *)

Inductive bcall := BMode (m : option string) | BByName | BFormat (f : string).

Record bcfg := mkB {
  b_mode : wflags -> option string -> wflags;
  b_byname : wflags -> wflags;
  b_format : wflags -> string -> wflags }.

Definition ideal : bcfg :=
  mkB (fun w m => mkW m (w_by_name w) (w_format w))
      (fun w => mkW (w_mode w) true (w_format w))
      (fun w f => mkW (w_mode w) (w_by_name w) (Some f)).

Definition bstep (b : bcfg) (w : wflags) (c : bcall) : wflags :=
  match c with BMode m => b_mode b w m | BByName => b_byname b w | BFormat f => b_format b w f end.
Definition brun_from (b : bcfg) (w : wflags) (calls : list bcall) : wflags := fold_left (bstep b) calls w.
Definition brun (b : bcfg) (calls : list bcall) : wflags := brun_from b w0 calls.

(** the finite flag space of the property: six modes, byName or not, no format or one of the three *)
Definition fmts : list (option string) := [None; Some "csv"; Some "json"; Some "parquet"].
Definition fmt_names : list string := ["csv"; "json"; "parquet"].
Definition fmt_known (f : option string) : bool := existsb (optstr_eqb f) fmts.
Definition flags_known (w : wflags) : bool := mode_known (w_mode w) && fmt_known (w_format w).
Definition call_known (c : bcall) : bool :=
  match c with BMode m => mode_known m | BByName => true | BFormat f => existsb (String.eqb f) fmt_names end.

Definition wflags_eqb (a b : wflags) : bool :=
  optstr_eqb (w_mode a) (w_mode b) && Bool.eqb (w_by_name a) (w_by_name b) && optstr_eqb (w_format a) (w_format b).
Lemma wflags_eqb_eq a b : wflags_eqb a b = true -> a = b.
Proof.
  destruct a as [m n f], b as [m' n' f']; unfold wflags_eqb; simpl. intro H.
  apply andb_true_iff in H; destruct H as [H Hf]. apply andb_true_iff in H; destruct H as [Hm Hn].
  apply optstr_eqb_eq in Hm. apply optstr_eqb_eq in Hf. apply Bool.eqb_prop in Hn. congruence.
Qed.

Definition all_calls : list bcall := map BMode modes ++ [BByName] ++ map BFormat fmt_names.

(** [bcfg_ok]: on every flag state of the space, every builder call does what the ideal builder does *)
Definition bcfg_ok (b : bcfg) : bool :=
  forallb (fun m => forallb (fun n => forallb (fun f => forallb (fun c =>
     wflags_eqb (bstep b (mkW m n f) c) (bstep ideal (mkW m n f) c)) all_calls) fmts) [true; false]) modes.

Lemma fmt_known_in f : fmt_known f = true -> In f fmts.
Proof.
  unfold fmt_known. intro H. apply existsb_exists in H. destruct H as [x [Hin E]].
  apply optstr_eqb_eq in E. subst. exact Hin.
Qed.

Lemma call_known_in c : call_known c = true -> In c all_calls.
Proof.
  unfold all_calls. destruct c as [m| |f]; intro H; cbn [call_known] in H.
  - apply mode_known_in in H. apply in_or_app. left. apply in_map. exact H.
  - apply in_or_app. right. apply in_or_app. left. left. reflexivity.
  - apply existsb_exists in H. destruct H as [x [Hin E]]. apply String.eqb_eq in E. subst.
    apply in_or_app. right. apply in_or_app. right. apply in_map. exact Hin.
Qed.

Lemma bstep_ok b w c :
  bcfg_ok b = true -> flags_known w = true -> call_known c = true -> bstep b w c = bstep ideal w c.
Proof.
  intros Hb Hw Hc. destruct w as [m n f]. unfold flags_known in Hw; simpl in Hw.
  apply andb_true_iff in Hw; destruct Hw as [Hm Hf].
  unfold bcfg_ok in Hb. rewrite forallb_forall in Hb. specialize (Hb m (mode_known_in m Hm)).
  rewrite forallb_forall in Hb. assert (Hn : In n [true; false]) by (destruct n; simpl; tauto).
  specialize (Hb n Hn). rewrite forallb_forall in Hb. specialize (Hb f (fmt_known_in f Hf)).
  rewrite forallb_forall in Hb. apply wflags_eqb_eq. apply Hb. apply call_known_in. exact Hc.
Qed.

Lemma ideal_keeps_known w c : flags_known w = true -> call_known c = true -> flags_known (bstep ideal w c) = true.
Proof.
  unfold flags_known. intros Hw Hc. apply andb_true_iff in Hw; destruct Hw as [Hm Hf].
  destruct c as [m| |f]; simpl in *.
  - rewrite Hc, Hf. reflexivity.
  - rewrite Hm, Hf. reflexivity.
  - rewrite Hm. simpl.
    repeat (apply orb_true_iff in Hc; destruct Hc as [Hc|Hc]); try discriminate;
      apply String.eqb_eq in Hc; subst; reflexivity.
Qed.

(** whatever the calls and their order: the regenerated builder computes the flags of the ideal builder *)
Theorem brun_ok b calls w :
  bcfg_ok b = true -> flags_known w = true -> forallb call_known calls = true ->
  brun_from b w calls = brun_from ideal w calls.
Proof.
  intro Hb. revert w. induction calls as [|c r IH]; intros w Hw Hc; [reflexivity|].
  simpl in Hc. apply andb_true_iff in Hc; destruct Hc as [Hc Hr].
  unfold brun_from in *. simpl. rewrite (bstep_ok b w c Hb Hw Hc).
  apply IH; [apply ideal_keeps_known; assumption | exact Hr].
Qed.

(** the flags persist: byName stays set once called, the mode is that of the last mode() call, the format that of the
    last format() call -- in every order of the calls *)
Definition is_byname (c : bcall) : bool := match c with BByName => true | _ => false end.
Fixpoint last_mode (calls : list bcall) (acc : option string) : option string :=
  match calls with [] => acc | BMode m :: r => last_mode r m | _ :: r => last_mode r acc end.
Fixpoint last_format (calls : list bcall) (acc : option string) : option string :=
  match calls with [] => acc | BFormat f :: r => last_format r (Some f) | _ :: r => last_format r acc end.

Theorem builder_flags_persist calls w :
  brun_from ideal w calls
  = mkW (last_mode calls (w_mode w)) (w_by_name w || existsb is_byname calls) (last_format calls (w_format w)).
Proof.
  revert w. induction calls as [|c r IH]; intro w.
  - destruct w; simpl. rewrite orb_false_r. reflexivity.
  - unfold brun_from in *. simpl. rewrite IH. destruct c; simpl; try reflexivity.
    rewrite orb_true_r. reflexivity.
Qed.

Corollary byname_survives_any_order b pre post :
  bcfg_ok b = true -> forallb call_known (pre ++ BByName :: post) = true ->
  w_by_name (brun b (pre ++ BByName :: post)) = true.
Proof.
  intros Hb Hk. unfold brun. rewrite (brun_ok b _ w0 Hb eq_refl Hk). rewrite builder_flags_persist. simpl.
  rewrite existsb_app. simpl. rewrite orb_true_r. reflexivity.
Qed.

(* ------------------------------------------------------------------------------------------------ *)
(** * Terminal calls on the flags the sequence produced *)

Inductive yop :=
| YOp (xo : xop)
| YInsert (calls : list bcall) (n : string) (d : df)                           (* df.write.<calls>.insertInto(n) *)
| YSave (calls : list bcall) (n : string) (arg : option string) (d : df)       (* df.write.<calls>.saveAsTable(n, mode=arg) *)
| YWrite (calls : list bcall) (p : string) (f : fmt) (arg : option string) (d : df).   (* df.write.<calls>.<f>(p, mode=arg) *)

(** saveAsTable on a byName writer: the append branch is `self.insertInto(name)` on that same writer, i.e. by name *)
Definition m_save_byname (c : cfg) (st : mstate) (n : string) (arg self : option string) (d : df) : mstate * obs :=
  match sat_plan c (ahas n (m_tabs st)) arg self with
  | SatInsert => m_insert c st n true d
  | SatCreate _ _ => m_save c st n arg self d
  end.

Definition y_m_step (c : cfg) (b : bcfg) (residue : residue_fn) (xs : mstate * views) (yo : yop) : (mstate * views) * obs :=
  match yo with
  | YOp xo => x_m_step c residue xs xo
  | YInsert calls n d => x_m_step c residue xs (XOp (OpInsert n (w_by_name (brun b calls)) d))
  | YSave calls n arg d =>
      let w := brun b calls in
      if w_by_name w
      then let '(st', ob) := m_save_byname c (fst xs) n arg (w_mode w) d in ((st', snd xs), ob)
      else x_m_step c residue xs (XOp (OpSave n arg (w_mode w) d))
  | YWrite calls p f arg d => x_m_step c residue xs (XOp (OpWrite p f arg (w_mode (brun b calls)) d))
  end.

(** the spec: the ideal builder; saveAsTable in append mode is by name anyway *)
Definition y_s_step (xs : sstate * views) (yo : yop) : (sstate * views) * obs :=
  match yo with
  | YOp xo => x_s_step xs xo
  | YInsert calls n d => x_s_step xs (XOp (OpInsert n (w_by_name (brun ideal calls)) d))
  | YSave calls n arg d => x_s_step xs (XOp (OpSave n arg (w_mode (brun ideal calls)) d))
  | YWrite calls p f arg d => x_s_step xs (XOp (OpWrite p f arg (w_mode (brun ideal calls)) d))
  end.

Fixpoint y_m_run (c : cfg) (b : bcfg) (residue : residue_fn) (xs : mstate * views) (ops : list yop) : (mstate * views) * list obs :=
  match ops with
  | [] => (xs, [])
  | o :: r => let '(xs1, ob) := y_m_step c b residue xs o in
              let '(xs2, obs) := y_m_run c b residue xs1 r in (xs2, ob :: obs)
  end.
Fixpoint y_s_run (xs : sstate * views) (ops : list yop) : (sstate * views) * list obs :=
  match ops with
  | [] => (xs, [])
  | o :: r => let '(xs1, ob) := y_s_step xs o in
              let '(xs2, obs) := y_s_run xs1 r in (xs2, ob :: obs)
  end.

(** domain: known calls, and the domain of the terminal call on the ideal flags; a by-name saveAsTable that appends
    to an existing table is a by-name insertInto *)
Definition y_step_ok (c : cfg) (residue : residue_fn) (xs : mstate * views) (yo : yop) : bool :=
  match yo with
  | YOp xo => x_step_ok c residue xs xo
  | YInsert calls n d =>
      forallb call_known calls && x_step_ok c residue xs (XOp (OpInsert n (w_by_name (brun ideal calls)) d))
  | YSave calls n arg d =>
      let w := brun ideal calls in
      forallb call_known calls
      && if w_by_name w
         then mode_known arg
              && (if is_append (eff_mode arg (w_mode w)) && ahas n (m_tabs (fst xs))
                  then step_ok c residue (fst xs) (OpInsert n true d)
                  else step_ok c residue (fst xs) (OpSave n arg (w_mode w) d))
              && negb (ahas n (snd xs))
         else x_step_ok c residue xs (XOp (OpSave n arg (w_mode w) d))
  | YWrite calls p f arg d =>
      forallb call_known calls && x_step_ok c residue xs (XOp (OpWrite p f arg (w_mode (brun ideal calls)) d))
  end.
Fixpoint y_hist_ok (c : cfg) (b : bcfg) (residue : residue_fn) (xs : mstate * views) (ops : list yop) : bool :=
  match ops with
  | [] => true
  | o :: r => y_step_ok c residue xs o && y_hist_ok c b residue (fst (y_m_step c b residue xs o)) r
  end.

Lemma brun_known calls : forallb call_known calls = true -> flags_known (brun ideal calls) = true.
Proof.
  unfold brun, brun_from. generalize w0 (eq_refl : flags_known w0 = true).
  induction calls as [|c r IH]; intros w Hw Hk; [exact Hw|].
  simpl in Hk. apply andb_true_iff in Hk; destruct Hk as [Hc Hr]. simpl.
  apply IH; [apply ideal_keeps_known; assumption | exact Hr].
Qed.

Lemma save_byname_refines c residue st n arg self d :
  cfg_ok c = true -> mode_known arg = true -> mode_known self = true ->
  (if is_append (eff_mode arg self) && ahas n (m_tabs st)
   then step_ok c residue st (OpInsert n true d)
   else step_ok c residue st (OpSave n arg self d)) = true ->
  s_save (abs st) n arg self d
  = (abs (fst (m_save_byname c st n arg self d)), snd (m_save_byname c st n arg self d)).
Proof.
  intros Hc Ha Hs Hok. unfold m_save_byname. rewrite (cfg_ok_sat c _ arg self Hc Ha Hs).
  destruct (parse_known _ (eff_mode_known arg self Ha Hs)) as [sm Esm].
  unfold is_append in Hok. rewrite Esm in *.
  assert (Hsave : step_ok c residue st (OpSave n arg self d) = true ->
                  s_save (abs st) n arg self d = (abs (fst (m_save c st n arg self d)), snd (m_save c st n arg self d))).
  { intro H. pose proof (sim_save c residue st n arg self d Hc H) as E.
    destruct (m_save c st n arg self d). exact E. }
  destruct sm; simpl expected_sat; try (apply Hsave; exact Hok).
  destruct (ahas n (m_tabs st)) eqn:Eh; simpl in Hok; [|apply Hsave; exact Hok].
  (* append onto an existing table: by name on both sides *)
  pose proof (sim_insert c residue st n true d Hok) as E.
  destruct (m_insert c st n true d) as [st' ob]. simpl. rewrite <- E.
  unfold s_save. rewrite Esm. unfold ahas in Eh. unfold abs; simpl.
  destruct (alookup n (m_tabs st)); [reflexivity | discriminate].
Qed.

Theorem y_step_refines c b residue xs yo :
  cfg_ok c = true -> bcfg_ok b = true -> y_step_ok c residue xs yo = true ->
  y_s_step (x_abs xs) yo = (x_abs (fst (y_m_step c b residue xs yo)), snd (y_m_step c b residue xs yo)).
Proof.
  intros Hc Hb Hok. destruct yo as [xo|calls n d|calls n arg d|calls p f arg d]; cbn [y_s_step y_m_step y_step_ok] in *.
  - exact (x_step_refines c residue xs xo Hc Hok).
  - apply andb_true_iff in Hok; destruct Hok as [Hk Hok].
    unfold brun. rewrite (brun_ok b calls w0 Hb eq_refl Hk). exact (x_step_refines c residue xs _ Hc Hok).
  - apply andb_true_iff in Hok; destruct Hok as [Hk Hok].
    unfold brun in *. rewrite (brun_ok b calls w0 Hb eq_refl Hk).
    pose proof (brun_known calls Hk) as Hkn. unfold brun in Hkn.
    destruct (w_by_name (brun_from ideal w0 calls)).
    + apply andb_true_iff in Hok; destruct Hok as [Hok Hnv].
      apply andb_true_iff in Hok; destruct Hok as [Harg Hok].
      unfold flags_known in Hkn. apply andb_true_iff in Hkn; destruct Hkn as [Hmode _].
      destruct xs as [st vs]. cbn [fst snd x_abs x_s_step] in *.
      (* no view of that name: the views layer hands the save on to the table layer *)
      cbn [view_obs].
      pose proof (save_byname_refines c residue st n arg _ d Hc Harg Hmode Hok) as E.
      destruct (m_save_byname c st n arg (w_mode (brun_from ideal w0 calls)) d) as [st' ob]. cbn [fst snd] in *.
      cbn [s_step]. rewrite E. reflexivity.
    + exact (x_step_refines c residue xs _ Hc Hok).
  - apply andb_true_iff in Hok; destruct Hok as [Hk Hok].
    unfold brun. rewrite (brun_ok b calls w0 Hb eq_refl Hk). exact (x_step_refines c residue xs _ Hc Hok).
Qed.

(** every history whose writes are built by arbitrary sequences of builder calls, from every state *)
Theorem y_modes_refine_spec c b residue :
  cfg_ok c = true -> bcfg_ok b = true ->
  forall ops xs, y_hist_ok c b residue xs ops = true ->
    y_s_run (x_abs xs) ops = (x_abs (fst (y_m_run c b residue xs ops)), snd (y_m_run c b residue xs ops)).
Proof.
  intros Hc Hb ops. induction ops as [|o r IH]; intros xs Hok; [reflexivity|].
  cbn [y_hist_ok] in Hok. apply andb_true_iff in Hok; destruct Hok as [Ho Hr].
  cbn [y_s_run y_m_run]. rewrite (y_step_refines c b residue xs o Hc Hb Ho).
  destruct (y_m_step c b residue xs o) as [xs1 ob]. cbn [fst snd] in *.
  rewrite (IH xs1 Hr). destruct (y_m_run c b residue xs1 r) as [xs2 obs]. reflexivity.
Qed.
