(** C14 -- theorems about the writer model (all histories, all states, all frames). *)
From SF Require Import Base.Val C14.Writer.
Open Scope string_scope.
Open Scope nat_scope.

(* ------------------------------------------------------------------------------------------------ *)
(** * SELECT <all columns in order> FROM t  is  t *)

Lemma nodupb_NoDup l : nodupb l = true -> NoDup l.
Proof.
  induction l as [|x r IH]; simpl; intro H; [constructor|].
  apply andb_true_iff in H; destruct H as [H1 H2].
  constructor; [|apply IH; exact H2].
  intro Hin. apply negb_true_iff in H1.
  assert (E : existsb (String.eqb x) r = true).
  { apply existsb_exists. exists x. split; [exact Hin | apply String.eqb_refl]. }
  congruence.
Qed.

Lemma index_of_skip x pre r : ~ In x pre -> index_of x (pre ++ x :: r) = Some (List.length pre).
Proof.
  induction pre as [|y pre IH]; simpl; intro Hn.
  - rewrite String.eqb_refl. reflexivity.
  - destruct (String.eqb y x) eqn:E.
    + apply String.eqb_eq in E. exfalso. apply Hn. left. exact E.
    + rewrite IH; [reflexivity|]. intro H. apply Hn. right. exact H.
Qed.

Lemma mapM_index_seq pre l :
  NoDup (pre ++ l) -> mapM (fun n => index_of n (pre ++ l)) l = Some (seq (List.length pre) (List.length l)).
Proof.
  revert pre; induction l as [|x r IH]; intros pre Hnd; simpl; [reflexivity|].
  rewrite index_of_skip; [|apply NoDup_remove_2 in Hnd; intro H; apply Hnd; apply in_or_app; left; exact H].
  specialize (IH (pre ++ [x])%list).
  rewrite <- app_assoc in IH. simpl in IH. rewrite IH; [|exact Hnd].
  rewrite app_length. simpl. rewrite Nat.add_1_r. reflexivity.
Qed.

Lemma map_nth_seq {A} (l : list A) (d : A) : map (fun i => nth i l d) (seq 0 (List.length l)) = l.
Proof.
  induction l as [|x r IH]; simpl; [reflexivity|].
  f_equal. rewrite <- seq_shift, map_map. exact IH.
Qed.

Lemma row_typed_length ts r : row_typed ts r = true -> List.length r = List.length ts.
Proof.
  revert r; induction ts as [|t ts IH]; intros [|v r]; simpl; intro H; try discriminate; [reflexivity|].
  apply andb_true_iff in H; destruct H as [_ H]. f_equal. apply IH. exact H.
Qed.

Lemma project_id t : tbl_wfb t = true -> project (names t) t = Some t.
Proof.
  unfold tbl_wfb. intro H.
  apply andb_true_iff in H; destruct H as [H Hrows].
  apply andb_true_iff in H; destruct H as [H Hnd].
  apply nodupb_NoDup in Hnd.
  unfold project. pose proof (mapM_index_seq [] (names t) Hnd) as E. simpl in E. rewrite E.
  destruct t as [cs rs]; unfold names, types in *; simpl in *.
  rewrite map_length. rewrite map_nth_seq. f_equal. f_equal.
  induction rs as [|r rs IH]; simpl; [reflexivity|].
  simpl in Hrows. apply andb_true_iff in Hrows; destruct Hrows as [Hr Hrs].
  f_equal; [|apply IH; exact Hrs].
  apply row_typed_length in Hr. rewrite map_length in Hr. rewrite <- Hr. apply map_nth_seq.
Qed.

(* ------------------------------------------------------------------------------------------------ *)
(** * What [cfg_ok] gives for the six modes *)

Lemma mode_known_in m : mode_known m = true -> In m modes.
Proof.
  unfold mode_known. intro H. apply existsb_exists in H. destruct H as [x [Hin E]].
  apply optstr_eqb_eq in E. subst. exact Hin.
Qed.

Lemma sat_eqb_eq a b : sat_eqb a b = true -> a = b.
Proof.
  destruct a as [|x y], b as [|x' y']; simpl; intro H; try discriminate; [reflexivity|].
  apply andb_true_iff in H; destruct H as [H1 H2].
  apply Bool.eqb_prop in H1. apply Bool.eqb_prop in H2. congruence.
Qed.
Lemma pplan_eqb_eq a b : pplan_eqb a b = true -> a = b.
Proof. destruct a, b; simpl; intro H; try discriminate; reflexivity. Qed.

Lemma cfg_ok_sat c ex a s :
  cfg_ok c = true -> mode_known a = true -> mode_known s = true ->
  sat_plan c ex a s = expected_sat ex (parse_mode (eff_mode a s)).
Proof.
  intros Hc Ha Hs. unfold cfg_ok in Hc. apply andb_true_iff in Hc; destruct Hc as [Hc _].
  rewrite forallb_forall in Hc. specialize (Hc a (mode_known_in a Ha)).
  rewrite forallb_forall in Hc. specialize (Hc s (mode_known_in s Hs)).
  rewrite forallb_forall in Hc. apply sat_eqb_eq. apply Hc. destruct ex; simpl; tauto.
Qed.

Lemma cfg_ok_plan c ex m :
  cfg_ok c = true -> mode_known m = true -> path_plan c ex m = expected_plan ex (parse_mode m).
Proof.
  intros Hc Hm. unfold cfg_ok in Hc. apply andb_true_iff in Hc; destruct Hc as [_ Hc].
  rewrite forallb_forall in Hc. specialize (Hc m (mode_known_in m Hm)).
  rewrite forallb_forall in Hc. apply pplan_eqb_eq. apply Hc. destruct ex; simpl; tauto.
Qed.

Lemma eff_mode_known a s : mode_known a = true -> mode_known s = true -> mode_known (eff_mode a s) = true.
Proof. intros Ha Hs. destruct a; simpl; assumption. Qed.

Lemma parse_known m : mode_known m = true -> exists sm, parse_mode m = Some sm.
Proof.
  intro H. apply mode_known_in in H. unfold modes in H. simpl in H.
  repeat (destruct H as [H|H]; [subst; simpl; eexists; reflexivity|]). contradiction.
Qed.

(* ------------------------------------------------------------------------------------------------ *)
(** * One step of the model is one step of the spec (on the domain) *)

Lemma ahas_alookup {A} k (l : list (string * A)) : ahas k l = match alookup k l with Some _ => true | None => false end.
Proof. reflexivity. Qed.

Lemma sim_insert_pos c st n d :
  df_ok d = true ->
  match alookup n (m_tabs st) with Some old => compatible old (df_tbl d) = true | None => True end ->
  let '(st', ob) := m_insert c st n false d in s_insert (abs st) n false d = (abs st', ob).
Proof.
  intros Hd Hc. unfold m_insert, s_insert, abs; simpl.
  destruct (alookup n (m_tabs st)) as [old|] eqn:El; simpl; [|reflexivity].
  destruct d as [t|t]; simpl; [|reflexivity].
  unfold s_append. simpl in Hc. rewrite Hc. reflexivity.
Qed.

Lemma sim_insert c residue st n b d :
  step_ok c residue st (OpInsert n b d) = true ->
  let '(st', ob) := m_insert c st n b d in s_insert (abs st) n b d = (abs st', ob).
Proof.
  intro Hok. simpl in Hok.
  apply andb_true_iff in Hok; destruct Hok as [Hok Hl].
  apply andb_true_iff in Hok; destruct Hok as [_ Hd].
  destruct b.
  - unfold m_insert, s_insert, abs; simpl.
    destruct (alookup n (m_tabs st)) as [old|] eqn:El; simpl; [|destruct (byname_source c); reflexivity].
    apply andb_true_iff in Hl; destruct Hl as [Hl Hcomp].
    apply andb_true_iff in Hl; destruct Hl as [Hsrc Hlen].
    destruct d as [t|t]; simpl in *; [|destruct (byname_source c); reflexivity].
    rewrite Hlen.
    assert (Eproj : (match byname_source c with ByCache => cached st n | ByEngine => actual (m_tabs st) n end)
                    = Some (names old) \/
                    ((match byname_source c with ByCache => cached st n | ByEngine => actual (m_tabs st) n end) = None
                     /\ names old = [])).
    { unfold byname_src_ok in Hsrc. destruct (byname_source c).
      - destruct (cached st n) as [cs|]; [|discriminate]. apply names_eqb_eq in Hsrc. subst. left; reflexivity.
      - unfold actual. rewrite El. simpl. destruct (names old); [right; split; reflexivity | left; reflexivity]. }
    destruct Eproj as [E|[E En]]; rewrite E.
    + destruct (project (names old) t) as [u|]; [|reflexivity].
      unfold s_append. rewrite Hcomp. reflexivity.
    + (* a table without columns cannot take a frame with at least one column: lengths differ *)
      exfalso. unfold df_ok, tbl_wfb in Hd. simpl in Hd.
      apply andb_true_iff in Hd; destruct Hd as [Hd _]. apply andb_true_iff in Hd; destruct Hd as [Hd _].
      apply andb_true_iff in Hd; destruct Hd as [Hd _]. apply andb_true_iff in Hd; destruct Hd as [_ Hd].
      apply Nat.eqb_eq in Hlen. unfold names in En. apply (f_equal (@List.length string)) in En.
      rewrite map_length in En. simpl in En. rewrite En in Hlen. rewrite Hlen in Hd. discriminate.
  - apply sim_insert_pos; [exact Hd|].
    destruct (alookup n (m_tabs st)); [exact Hl | exact I].
Qed.

Lemma sim_save c residue st n a s d :
  cfg_ok c = true -> step_ok c residue st (OpSave n a s d) = true ->
  let '(st', ob) := m_save c st n a s d in s_save (abs st) n a s d = (abs st', ob).
Proof.
  intros Hc Hok. simpl in Hok.
  apply andb_true_iff in Hok; destruct Hok as [Hok Happ].
  apply andb_true_iff in Hok; destruct Hok as [Hok Hd].
  apply andb_true_iff in Hok; destruct Hok as [Hok Hs].
  apply andb_true_iff in Hok; destruct Hok as [_ Ha].
  unfold m_save, s_save. rewrite (cfg_ok_sat c _ a s Hc Ha Hs).
  destruct (parse_known _ (eff_mode_known a s Ha Hs)) as [sm Esm].
  unfold is_append in Happ. rewrite Esm in *. simpl.
  destruct sm; simpl.
  - (* error *) unfold abs; simpl. destruct (alookup n (m_tabs st)); simpl.
    + reflexivity.
    + unfold s_create. destruct d; reflexivity.
  - (* ignore *) unfold abs; simpl. destruct (alookup n (m_tabs st)); simpl.
    + reflexivity.
    + unfold s_create. destruct d; reflexivity.
  - (* overwrite *) unfold abs; simpl. unfold s_create.
    destruct (alookup n (m_tabs st)); simpl; destruct d; reflexivity.
  - (* append *)
    unfold ahas. destruct (alookup n (m_tabs st)) as [old|] eqn:El.
    + (* the table exists and the frame has the table's column names in order: positional = by name *)
      apply andb_true_iff in Happ; destruct Happ as [Hn Hcomp].
      apply names_eqb_eq in Hn.
      unfold m_insert, s_insert, abs; simpl. rewrite El. simpl.
      destruct d as [t|t]; simpl in *; [|reflexivity].
      assert (El' : List.length (t_cols t) = List.length (t_cols old)).
      { unfold names in Hn. apply (f_equal (@List.length string)) in Hn. rewrite !map_length in Hn. exact Hn. }
      rewrite El', Nat.eqb_refl. rewrite <- Hn. rewrite (project_id t Hd).
      unfold s_append. rewrite Hcomp. reflexivity.
    + (* the table does not exist: append creates it *)
      unfold abs, exec, s_create; simpl. destruct d; reflexivity.
Qed.

Lemma sim_write c residue st p f a s d :
  cfg_ok c = true -> step_ok c residue st (OpWrite p f a s d) = true ->
  let '(st', ob) := m_write c residue st p f a s d in s_write (abs st) p f a s d = (abs st', ob).
Proof.
  intros Hc Hok. simpl in Hok.
  apply andb_true_iff in Hok; destruct Hok as [Hok Hat].
  apply andb_true_iff in Hok; destruct Hok as [Hok _].
  apply andb_true_iff in Hok; destruct Hok as [Hok Hna].
  apply andb_true_iff in Hok; destruct Hok as [Hok Hpm].
  apply andb_true_iff in Hok; destruct Hok as [Hok _].
  apply andb_true_iff in Hok; destruct Hok as [Ha Hs].
  apply optstr_eqb_eq in Hpm.
  pose proof (cfg_ok_plan c (ahas p (m_files st)) (eff_mode a s) Hc (eff_mode_known a s Ha Hs)) as Hplan.
  unfold path_plan in Hplan. unfold m_write, s_write. rewrite Hpm.
  destruct (parse_known _ (eff_mode_known a s Ha Hs)) as [sm Esm].
  unfold is_append in Hna. rewrite Esm in *. simpl in Hplan.
  unfold abs; simpl. rewrite ahas_alookup in Hplan.
  destruct (validate_mode c _ (eff_mode a s)) as [|m' skip] eqn:Ev.
  - (* raise: the plan says so only for error mode on an existing target *)
    destruct sm; destruct (alookup p (m_files st)) as [[g old|]|]; simpl in *; try discriminate; reflexivity.
  - destruct (after_validate c m' skip) eqn:Ew.
    + (* skip *)
      destruct sm; destruct (alookup p (m_files st)) as [[g old|]|]; simpl in *; try discriminate; reflexivity.
    + (* not implemented: only append, excluded *)
      destruct sm; destruct (alookup p (m_files st)) as [[g old|]|]; simpl in *; try discriminate.
    + (* copy *)
      unfold copy. simpl.
      destruct d as [t|t]; simpl in *.
      * destruct sm; destruct (alookup p (m_files st)) as [[g old|]|]; simpl in *; try discriminate; reflexivity.
      * rewrite Hat.
        destruct sm; destruct (alookup p (m_files st)) as [[g old|]|]; simpl in *; try discriminate;
          destruct st; reflexivity.
Qed.

Lemma sim_read_table c residue st n :
  step_ok c residue st (OpReadTable n) = true ->
  let '(st', ob) := m_read_table c st n in
  (abs st', ob) = (abs st, match alookup n (m_tabs st) with Some t => ORows t | None => OErr EMissing end).
Proof.
  intro Hok. simpl in Hok. apply andb_true_iff in Hok; destruct Hok as [_ Hok].
  unfold m_read_table.
  destruct (alookup n (m_tabs st)) as [t|] eqn:El.
  - apply andb_true_iff in Hok; destruct Hok as [Hwf Hc].
    assert (Ecols : (match cached st n with
                     | Some cs => if add_if_absent c then Some cs else actual (m_tabs st) n
                     | None => actual (m_tabs st) n end) = Some (names t)).
    { assert (Eact : actual (m_tabs st) n = Some (names t)).
      { unfold actual. rewrite El. simpl.
        destruct (names t) eqn:En; [|reflexivity].
        exfalso. unfold tbl_wfb in Hwf.
        apply andb_true_iff in Hwf; destruct Hwf as [Hwf _]. apply andb_true_iff in Hwf; destruct Hwf as [Hwf _].
        apply andb_true_iff in Hwf; destruct Hwf as [Hwf _]. apply andb_true_iff in Hwf; destruct Hwf as [_ Hwf].
        unfold names in En. apply (f_equal (@List.length string)) in En. rewrite map_length in En.
        simpl in En. rewrite En in Hwf. discriminate. }
      destruct (cached st n) as [cs|]; [|exact Eact].
      destruct (add_if_absent c); simpl in Hc; [|exact Eact].
      apply names_eqb_eq in Hc. subst. reflexivity. }
    rewrite Ecols. rewrite (project_id t Hwf). reflexivity.
  - destruct (match cached st n with
              | Some cs => if add_if_absent c then Some cs else actual (m_tabs st) n
              | None => actual (m_tabs st) n end); reflexivity.
Qed.

Theorem step_refines c residue st o :
  cfg_ok c = true -> step_ok c residue st o = true ->
  s_step (abs st) o = (abs (fst (m_step c residue st o)), snd (m_step c residue st o)).
Proof.
  intros Hc Hok. destruct o as [n a s d|n b d|p f a s d|n|p f|n|n| |n|n]; simpl m_step; simpl s_step.
  - pose proof (sim_save c residue st n a s d Hc Hok) as H. destruct (m_save c st n a s d). exact H.
  - pose proof (sim_insert c residue st n b d Hok) as H. destruct (m_insert c st n b d). exact H.
  - pose proof (sim_write c residue st p f a s d Hc Hok) as H. destruct (m_write c residue st p f a s d). exact H.
  - pose proof (sim_read_table c residue st n Hok) as H. destruct (m_read_table c st n) as [st' ob]. simpl.
    inversion H; subst. unfold abs in *. simpl in *. congruence.
  - reflexivity.
  - unfold abs; simpl. destruct (alookup n (m_tabs st)); reflexivity.
  - reflexivity.
  - reflexivity.
  - reflexivity.
  - reflexivity.
Qed.

(** ** modes_refine_spec: every history of the domain, from every state, any number of writes and targets *)
Theorem modes_refine_spec c residue :
  cfg_ok c = true ->
  forall ops st, hist_ok c residue st ops = true ->
    s_run (abs st) ops = (abs (fst (m_run c residue st ops)), snd (m_run c residue st ops)).
Proof.
  intros Hc ops. induction ops as [|o r IH]; intros st Hok; simpl; [reflexivity|].
  simpl in Hok. apply andb_true_iff in Hok; destruct Hok as [Ho Hr].
  rewrite (step_refines c residue st o Hc Ho).
  destruct (m_step c residue st o) as [st1 ob] eqn:E1. simpl in *.
  rewrite (IH st1 Hr).
  destruct (m_run c residue st1 r) as [st2 obs]. reflexivity.
Qed.

Corollary modes_refine_spec_obs c residue :
  cfg_ok c = true ->
  forall ops, hist_ok c residue m_init ops = true ->
    snd (m_run c residue m_init ops) = snd (s_run s_init ops).
Proof.
  intros Hc ops Hok. pose proof (modes_refine_spec c residue Hc ops m_init Hok) as H.
  change (abs m_init) with s_init in H. rewrite H. reflexivity.
Qed.

(** the design's Section form: under statement atomicity of COPY the pointwise residue clause is always met *)
Section AtomicStmt.
  Variable residue : residue_fn.
  Hypothesis atomic_stmt : forall prev, residue prev = prev.

  Lemma optcontent_eqb_refl x : optcontent_eqb x x = true.
  Proof. apply optcontent_eqb_eq. reflexivity. Qed.

  Lemma atomic_at_holds st o : atomic_at residue st o = true.
  Proof. destruct o; simpl; try reflexivity. rewrite atomic_stmt. apply optcontent_eqb_refl. Qed.
End AtomicStmt.

(* ------------------------------------------------------------------------------------------------ *)
(** * Round trip: what was written is what is read *)

Theorem roundtrip_table c residue st n a s t :
  cfg_ok c = true ->
  step_ok c residue st (OpSave n a s (DGood t)) = true ->
  snd (m_step c residue st (OpSave n a s (DGood t))) = OOk ->
  (ahas n (m_tabs st) = false \/ parse_mode (eff_mode a s) = Some MOverwrite) ->
  let st1 := fst (m_step c residue st (OpSave n a s (DGood t))) in
  step_ok c residue st1 (OpReadTable n) = true ->
  snd (m_step c residue st1 (OpReadTable n)) = ORows t.
Proof.
  intros Hc Hok Hob Hfresh st1 Hok2.
  pose proof (step_refines c residue st _ Hc Hok) as H1.
  pose proof (step_refines c residue st1 _ Hc Hok2) as H2.
  fold st1 in H1. rewrite Hob in H1. simpl in H1.
  apply (f_equal snd) in H2. simpl in H2. simpl m_step. rewrite <- H2. clear H2.
  (* the spec's own step creates / replaces the table *)
  unfold s_save in H1.
  simpl in Hok. apply andb_true_iff in Hok; destruct Hok as [Hok _].
  apply andb_true_iff in Hok; destruct Hok as [Hok _].
  apply andb_true_iff in Hok; destruct Hok as [Hok Hs'].
  apply andb_true_iff in Hok; destruct Hok as [_ Ha'].
  destruct (parse_known _ (eff_mode_known a s Ha' Hs')) as [sm Esm]. rewrite Esm in H1.
  unfold ahas in Hfresh. unfold abs in H1 at 1 2; simpl in H1.
  assert (Hcreate : s_create (mkS (m_tabs st) (m_files st)) n (DGood t) = (abs st1, OOk)
                    -> alookup n (m_tabs st1) = Some t).
  { unfold s_create; simpl. intro E. inversion E as [[Et Ef]]. apply alookup_aset_eq. }
  destruct (alookup n (m_tabs st)) as [old|] eqn:El.
  - destruct Hfresh as [Hf|Hf]; [discriminate|]. rewrite Esm in Hf. inversion Hf; subst sm.
    rewrite (Hcreate H1). reflexivity.
  - destruct sm; rewrite (Hcreate H1); reflexivity.
Qed.

Theorem roundtrip_path c residue st p f a s t :
  cfg_ok c = true ->
  step_ok c residue st (OpWrite p f a s (DGood t)) = true ->
  snd (m_step c residue st (OpWrite p f a s (DGood t))) = OOk ->
  (ahas p (m_files st) = false \/ parse_mode (eff_mode a s) = Some MOverwrite) ->
  let st1 := fst (m_step c residue st (OpWrite p f a s (DGood t))) in
  snd (m_step c residue st1 (OpReadPath p f)) = ORows t.
Proof.
  intros Hc Hok Hob Hfresh st1.
  pose proof (step_refines c residue st _ Hc Hok) as H1.
  fold st1 in H1. rewrite Hob in H1. simpl in H1. simpl.
  unfold s_write in H1.
  simpl in Hok. apply andb_true_iff in Hok; destruct Hok as [Hok _].
  apply andb_true_iff in Hok; destruct Hok as [Hok _].
  apply andb_true_iff in Hok; destruct Hok as [Hok Hna].
  apply andb_true_iff in Hok; destruct Hok as [Hok _].
  apply andb_true_iff in Hok; destruct Hok as [Hok _].
  apply andb_true_iff in Hok; destruct Hok as [Ha' Hs'].
  destruct (parse_known _ (eff_mode_known a s Ha' Hs')) as [sm Esm]. rewrite Esm in H1.
  unfold is_append in Hna. rewrite Esm in Hna.
  unfold ahas in Hfresh. unfold abs in H1 at 1 2 3 4; simpl in H1.
  assert (Hset : (mkS (m_tabs st) (aset p (CFull f t) (m_files st)), OOk) = (abs st1, OOk)
                 -> read_path (m_files st1) p f = ORows t).
  { intro E. inversion E as [[Et Ef]]. unfold read_path. rewrite alookup_aset_eq.
    replace (fmt_eqb f f) with true; [reflexivity|]. symmetry. apply fmt_eqb_eq. reflexivity. }
  destruct (alookup p (m_files st)) as [[g old|]|] eqn:El.
  - destruct Hfresh as [Hf|Hf]; [discriminate|]. rewrite Esm in Hf. inversion Hf; subst sm. exact (Hset H1).
  - destruct Hfresh as [Hf|Hf]; [discriminate|]. rewrite Esm in Hf. inversion Hf; subst sm. exact (Hset H1).
  - destruct sm; try discriminate; exact (Hset H1).
Qed.

(* ------------------------------------------------------------------------------------------------ *)
(** * The catalog reflects exactly the tables created and dropped so far (any facts, any history) *)

Lemma exec_insert_keeps tabs n q k :
  ahas k (fst (exec tabs (SInsert n q))) = ahas k tabs.
Proof.
  unfold exec. destruct (alookup n tabs) as [old|] eqn:El; simpl; [|reflexivity].
  destruct (eval_query q) as [t|]; simpl; [|reflexivity].
  destruct (compatible old t); simpl; [|reflexivity].
  unfold ahas. destruct (String.eqb n k) eqn:E.
  - apply String.eqb_eq in E; subst. rewrite alookup_aset_eq, El. reflexivity.
  - rewrite alookup_aset_neq; [reflexivity|]. intro; subst. rewrite String.eqb_refl in E. discriminate.
Qed.

Lemma exec_insert_ok_has tabs n q : snd (exec tabs (SInsert n q)) = OOk -> ahas n tabs = true.
Proof.
  unfold exec, ahas. destruct (alookup n tabs) as [old|]; simpl; [reflexivity|discriminate].
Qed.

Lemma exec_create_has tabs ine orr n q k :
  ahas k (fst (exec tabs (SCreate ine orr n q))) =
  match snd (exec tabs (SCreate ine orr n q)) with
  | OOk => if String.eqb n k then true else ahas k tabs
  | _ => ahas k tabs
  end.
Proof.
  assert (Hset : forall t, ahas k (aset n t tabs) = if String.eqb n k then true else ahas k tabs).
  { intro t. unfold ahas. destruct (String.eqb n k) eqn:E.
    - apply String.eqb_eq in E; subst. rewrite alookup_aset_eq. reflexivity.
    - rewrite alookup_aset_neq; [reflexivity|]. intro; subst. rewrite String.eqb_refl in E. discriminate. }
  unfold exec. destruct (ine && orr); simpl; [reflexivity|].
  destruct (alookup n tabs) as [old|] eqn:El.
  - destruct orr.
    + destruct (eval_query q); simpl; [apply Hset | reflexivity].
    + destruct ine; simpl; [|reflexivity].
      destruct (String.eqb n k) eqn:E; [|reflexivity].
      apply String.eqb_eq in E; subst. unfold ahas. rewrite El. reflexivity.
  - destruct (eval_query q); simpl; [apply Hset | reflexivity].
Qed.

Lemma exec_drop_has tabs n k :
  ahas k (fst (exec tabs (SDrop n))) =
  match snd (exec tabs (SDrop n)) with
  | OOk => if String.eqb n k then false else ahas k tabs
  | _ => ahas k tabs
  end.
Proof.
  unfold exec. destruct (alookup n tabs) eqn:El; simpl; [|reflexivity].
  unfold ahas. destruct (String.eqb n k) eqn:E.
  - apply String.eqb_eq in E; subst. rewrite alookup_aremove_eq. reflexivity.
  - rewrite alookup_aremove_neq; [reflexivity|]. intro; subst. rewrite String.eqb_refl in E. discriminate.
Qed.

Lemma step_live c residue st o k :
  ahas k (m_tabs (fst (m_step c residue st o))) =
  live_step (fun k => ahas k (m_tabs st)) o (snd (m_step c residue st o)) k.
Proof.
  destruct o as [n a s d|n b d|p f a s d|n|p f|n|n| |n|n]; simpl.
  - unfold m_save. destruct (sat_plan c _ a s) as [|ine orr].
    + unfold m_insert.
      pose proof (exec_insert_keeps (m_tabs st) n (d, None) k) as Hk.
      pose proof (exec_insert_ok_has (m_tabs st) n (d, None)) as Hh.
      destruct (exec (m_tabs st) (SInsert n (d, None))) as [tabs' ob]; simpl in *.
      rewrite Hk. destruct ob; try reflexivity.
      destruct (String.eqb n k) eqn:E; [|reflexivity].
      apply String.eqb_eq in E; subst. apply Hh. reflexivity.
    + pose proof (exec_create_has (m_tabs st) ine orr n (d, None) k) as Hk.
      destruct (exec (m_tabs st) (SCreate ine orr n (d, None))) as [tabs' ob]; simpl in *.
      rewrite Hk. destruct ob; reflexivity.
  - unfold m_insert.
    match goal with |- context [exec (m_tabs st) (SInsert n ?q)] =>
      pose proof (exec_insert_keeps (m_tabs st) n q k) as Hk;
      destruct (exec (m_tabs st) (SInsert n q)) as [tabs' ob] end; simpl in *.
    rewrite Hk. destruct ob; reflexivity.
  - unfold m_write. destruct (validate_mode c _ _) as [|m skip]; simpl; [reflexivity|].
    destruct (after_validate c m skip); simpl; try reflexivity.
    destruct (copy residue (m_files st) p f (d, None)) as [fs' ob]; simpl. destruct ob; reflexivity.
  - unfold m_read_table.
    destruct (alookup n (m_tabs st)); destruct (match cached st n with
              | Some cs => if add_if_absent c then Some cs else actual (m_tabs st) n
              | None => actual (m_tabs st) n end); simpl; try reflexivity.
    destruct (project l t); reflexivity.
  - destruct (read_path (m_files st) p f); reflexivity.
  - pose proof (exec_drop_has (m_tabs st) n k) as Hk. unfold exec in Hk.
    destruct (alookup n (m_tabs st)); simpl in *; exact Hk.
  - reflexivity.
  - reflexivity.
  - reflexivity.
  - destruct (ahas n (m_tabs st)); reflexivity.
Qed.

Lemma live_ext acc acc' ops obs : (forall k, acc k = acc' k) -> forall k, live acc ops obs k = live acc' ops obs k.
Proof.
  revert acc acc' obs; induction ops as [|o r IH]; intros acc acc' [|ob obr] H k; simpl; try apply H.
  apply IH. intro k'. destruct o, ob; simpl; try apply H; rewrite H; reflexivity.
Qed.

(** tableExists after any history = "a saveAsTable succeeded on it since it was last dropped" *)
Theorem catalog_reflects c residue ops st k :
  ahas k (m_tabs (fst (m_run c residue st ops))) =
  live (fun k => ahas k (m_tabs st)) ops (snd (m_run c residue st ops)) k.
Proof.
  revert st; induction ops as [|o r IH]; intro st; simpl; [reflexivity|].
  pose proof (step_live c residue st o) as Hs.
  destruct (m_step c residue st o) as [st1 ob]; simpl in Hs.
  specialize (IH st1). destruct (m_run c residue st1 r) as [st2 obs]; simpl in *.
  rewrite IH. apply live_ext. intro k'. rewrite Hs. reflexivity.
Qed.

(** listTables has no duplicates and lists exactly the live tables *)
Lemma step_nodup c residue st o :
  NoDup (akeys (m_tabs st)) -> NoDup (akeys (m_tabs (fst (m_step c residue st o)))).
Proof.
  intro H.
  assert (Hins : forall n q, NoDup (akeys (fst (exec (m_tabs st) (SInsert n q))))).
  { intros n q. unfold exec. destruct (alookup n (m_tabs st)) as [old|]; cbn [fst]; [|exact H].
    destruct (eval_query q) as [t|]; cbn [fst]; [|exact H]. destruct (compatible old t); cbn [fst]; [|exact H].
    apply nodup_aset. exact H. }
  destruct o as [n a s d|n b d|p f a s d|n|p f|n|n| |n|n]; cbn [m_step fst m_tabs]; try exact H.
  - unfold m_save. destruct (sat_plan c _ a s) as [|ine orr].
    + unfold m_insert. specialize (Hins n (d, None)).
      destruct (exec (m_tabs st) (SInsert n (d, None))); exact Hins.
    + assert (Hc : NoDup (akeys (fst (exec (m_tabs st) (SCreate ine orr n (d, None)))))).
      { unfold exec. destruct (ine && orr); cbn [fst]; [exact H|].
        destruct (alookup n (m_tabs st)).
        - destruct orr; [destruct (eval_query (d, None)); cbn [fst]; [apply nodup_aset|]; exact H|].
          destruct ine; exact H.
        - destruct (eval_query (d, None)); cbn [fst]; [apply nodup_aset|]; exact H. }
      destruct (exec (m_tabs st) (SCreate ine orr n (d, None))); exact Hc.
  - unfold m_insert.
    match goal with |- context [exec (m_tabs st) (SInsert n ?q)] =>
      specialize (Hins n q); destruct (exec (m_tabs st) (SInsert n q)) end. exact Hins.
  - unfold m_write. destruct (validate_mode c _ _) as [|m skip]; cbn [fst m_tabs]; [exact H|].
    destruct (after_validate c m skip); cbn [fst m_tabs]; try exact H.
    destruct (copy residue (m_files st) p f (d, None)); exact H.
  - unfold m_read_table.
    destruct (alookup n (m_tabs st)) as [t|]; destruct (match cached st n with
              | Some cs => if add_if_absent c then Some cs else actual (m_tabs st) n
              | None => actual (m_tabs st) n end) as [l|]; cbn [fst m_tabs]; try exact H.
    destruct (project l t); exact H.
  - assert (Hd : NoDup (akeys (fst (exec (m_tabs st) (SDrop n))))).
    { unfold exec. destruct (alookup n (m_tabs st)); cbn [fst]; [apply nodup_aremove|]; exact H. }
    destruct (exec (m_tabs st) (SDrop n)); exact Hd.
Qed.

Theorem list_tables_exact c residue ops :
  let st := fst (m_run c residue m_init ops) in
  NoDup (akeys (m_tabs st)) /\
  forall k, In k (akeys (m_tabs st)) <-> live (fun _ => false) ops (snd (m_run c residue m_init ops)) k = true.
Proof.
  simpl. split.
  - assert (G : forall st, NoDup (akeys (m_tabs st)) -> NoDup (akeys (m_tabs (fst (m_run c residue st ops))))).
    { induction ops as [|o r IH]; intros st H; simpl; [exact H|].
      pose proof (step_nodup c residue st o H) as H1.
      destruct (m_step c residue st o) as [st1 ob]; simpl in H1.
      specialize (IH st1 H1). destruct (m_run c residue st1 r); exact IH. }
    apply G. constructor.
  - intro k. rewrite in_keys_lookup. rewrite (catalog_reflects c residue ops m_init k). simpl.
    unfold ahas at 1. simpl. tauto.
Qed.

(* ------------------------------------------------------------------------------------------------ *)
(** * A write whose query fails in the engine leaves everything as it was; the session stays usable *)

Lemma eval_bad d pr : df_bad d = true -> eval_query (d, pr) = None.
Proof. destruct d; simpl; [discriminate | reflexivity]. Qed.

Lemma exec_create_bad tabs ine orr n d pr : df_bad d = true -> fst (exec tabs (SCreate ine orr n (d, pr))) = tabs.
Proof.
  intro Hb. unfold exec. rewrite (eval_bad d pr Hb).
  destruct (ine && orr); [reflexivity|]. destruct (alookup n tabs); [|reflexivity].
  destruct orr; [reflexivity|]. destruct ine; reflexivity.
Qed.
Lemma exec_insert_bad tabs n d pr : df_bad d = true -> fst (exec tabs (SInsert n (d, pr))) = tabs.
Proof.
  intro Hb. unfold exec. rewrite (eval_bad d pr Hb). destruct (alookup n tabs); reflexivity.
Qed.

Definition no_rows (ob : obs) : Prop := match ob with OOk | OErr _ => True | _ => False end.

Lemma exec_create_bad_obs tabs ine orr n d pr :
  df_bad d = true -> no_rows (snd (exec tabs (SCreate ine orr n (d, pr)))).
Proof.
  intro Hb. unfold exec. rewrite (eval_bad d pr Hb).
  destruct (ine && orr); [exact I|]. destruct (alookup n tabs); [|exact I].
  destruct orr; [exact I|]. destruct ine; exact I.
Qed.
Lemma exec_insert_bad_obs tabs n d pr :
  df_bad d = true -> no_rows (snd (exec tabs (SInsert n (d, pr)))).
Proof.
  intro Hb. unfold exec. rewrite (eval_bad d pr Hb). destruct (alookup n tabs); exact I.
Qed.

(** [failed_write_leaves_state]: any facts, any state, any write (table or path, any mode, byName or not) whose
    DataFrame raises in the engine: the whole state -- tables, files, schema cache -- is unchanged, provided a failed
    COPY leaves this path as it was ([atomic_at]: the runtime half, an assumption about the engine).  Hence every
    later operation behaves as if the write had not been attempted. *)
Theorem failed_write_leaves_state c residue st o d :
  is_write o = true -> op_df o = Some d -> df_bad d = true -> atomic_at residue st o = true ->
  fst (m_step c residue st o) = st /\ no_rows (snd (m_step c residue st o)).
Proof.
  intros Hw Hd Hb Hat.
  destruct o as [n a s d'|n b d'|p f a s d'|n|p f|n|n| |n|n]; cbn [is_write] in Hw; try discriminate;
    cbn [op_df] in Hd; inversion Hd; subst d'; cbn [m_step].
  - unfold m_save. destruct (sat_plan c _ a s) as [|ine orr].
    + unfold m_insert.
      pose proof (exec_insert_bad (m_tabs st) n d None Hb) as E.
      pose proof (exec_insert_bad_obs (m_tabs st) n d None Hb) as E2.
      destruct (exec (m_tabs st) (SInsert n (d, None))) as [tabs' ob]. cbn [fst snd] in *. subst tabs'.
      split; [destruct st; reflexivity | exact E2].
    + pose proof (exec_create_bad (m_tabs st) ine orr n d None Hb) as E.
      pose proof (exec_create_bad_obs (m_tabs st) ine orr n d None Hb) as E2.
      destruct (exec (m_tabs st) (SCreate ine orr n (d, None))) as [tabs' ob]. cbn [fst snd] in *. subst tabs'.
      split; [destruct st; reflexivity | exact E2].
  - unfold m_insert.
    match goal with |- context [exec (m_tabs st) (SInsert n (d, ?pr))] =>
      pose proof (exec_insert_bad (m_tabs st) n d pr Hb) as E;
      pose proof (exec_insert_bad_obs (m_tabs st) n d pr Hb) as E2;
      destruct (exec (m_tabs st) (SInsert n (d, pr))) as [tabs' ob] end.
    cbn [fst snd] in *. subst tabs'. split; [destruct st; reflexivity | exact E2].
  - unfold m_write. destruct (validate_mode c _ _) as [|m skip]; cbn [fst snd]; [split; [reflexivity | exact I]|].
    destruct (after_validate c m skip); cbn [fst snd]; try (split; [reflexivity | exact I]).
    unfold copy. rewrite (eval_bad d None Hb). cbn [atomic_at] in Hat. rewrite Hat. cbn [fst snd].
    split; [destruct st; reflexivity | exact I].
Qed.

Corollary session_usable_after_failed_write c residue st o d rest :
  is_write o = true -> op_df o = Some d -> df_bad d = true -> atomic_at residue st o = true ->
  m_run c residue st (o :: rest) =
  (fst (m_run c residue st rest), snd (m_step c residue st o) :: snd (m_run c residue st rest)).
Proof.
  intros Hw Hd Hb Hat. destruct (failed_write_leaves_state c residue st o d Hw Hd Hb Hat) as [E _].
  simpl. destruct (m_step c residue st o) as [st1 ob]; simpl in *. subst st1.
  destruct (m_run c residue st rest); reflexivity.
Qed.

(** table targets need no assumption at all; with statement atomicity of COPY neither do paths *)
Corollary failed_table_write_leaves_state c residue st o d :
  is_write o = true -> op_df o = Some d -> df_bad d = true ->
  (match o with OpWrite _ _ _ _ _ => False | _ => True end) ->
  fst (m_step c residue st o) = st.
Proof.
  intros Hw Hd Hb Ht. apply (failed_write_leaves_state c residue st o d Hw Hd Hb).
  destruct o; simpl; try reflexivity. contradiction.
Qed.

Corollary failed_write_leaves_state_atomic c residue :
  (forall prev, residue prev = prev) ->
  forall st o d, is_write o = true -> op_df o = Some d -> df_bad d = true ->
    fst (m_step c residue st o) = st /\ no_rows (snd (m_step c residue st o)).
Proof.
  intros Hat st o d Hw Hd Hb. apply (failed_write_leaves_state c residue st o d Hw Hd Hb).
  apply atomic_at_holds. exact Hat.
Qed.

(* ------------------------------------------------------------------------------------------------ *)
(** * The property at full strength, for given facts and given engine behaviour on a failed COPY
      (stated here so that props/C14.v and props/C14_refuted.v speak about the same statement) *)

Definition hist_wf (ops : list op) : bool := forallb op_wf ops.

Definition modes_full (c : cfg) (residue : residue_fn) : Prop :=
  forall ops, hist_wf ops = true ->
    s_run s_init ops = (abs (fst (m_run c residue m_init ops)), snd (m_run c residue m_init ops)).
Definition catalog_full (c : cfg) (residue : residue_fn) : Prop :=
  forall ops k,
    ahas k (m_tabs (fst (m_run c residue m_init ops)))
    = live (fun _ => false) ops (snd (m_run c residue m_init ops)) k.
Definition faults_full (c : cfg) (residue : residue_fn) : Prop :=
  forall st o d, is_write o = true -> op_df o = Some d -> df_bad d = true ->
    fst (m_step c residue st o) = st.
Definition property_full (c : cfg) (residue : residue_fn) : Prop :=
  modes_full c residue /\ catalog_full c residue /\ faults_full c residue.

(** what is proved of [property_full], in one statement: the decidable domain [hist_ok] for the mode/round-trip part,
    nothing for the catalog part, the engine premise [atomic_at] for the fault part *)
Theorem property_partial c residue :
  cfg_ok c = true ->
  (forall ops, hist_ok c residue m_init ops = true ->
     s_run s_init ops = (abs (fst (m_run c residue m_init ops)), snd (m_run c residue m_init ops)))
  /\ catalog_full c residue
  /\ (forall st o d, is_write o = true -> op_df o = Some d -> df_bad d = true -> atomic_at residue st o = true ->
        fst (m_step c residue st o) = st).
Proof.
  intro Hc. split; [|split].
  - intros ops Hok. exact (modes_refine_spec c residue Hc ops m_init Hok).
  - intros ops k. exact (catalog_reflects c residue ops m_init k).
  - intros st o d Hw Hd Hb Hat. exact (proj1 (failed_write_leaves_state c residue st o d Hw Hd Hb Hat)).
Qed.
