(** Executable glue for the C13 correspondence check: run a history on the model machine and on the
    value-semantics specification, compare both with what the implementation and the engine oracle
    returned, and say whether each step lies in the domain of the theorems. *)
From SF Require Export C13.Wrap.
Open Scope string_scope.
Open Scope list_scope.

(** what the harness observed for a step: an exception, or columns / rows / df.columns
    (a register step that returned normally is [IOk [] [] []]) *)
Inductive iobs := IErr | IOk (cs : list string) (rs : list row) (static : list string).

Record case := mkCase {
  k_tables : list (string * frame);
  k_frames : list frame;
  k_steps : list step;
  k_impl : list iobs;
  k_oracle : list iobs }.

Definition init_df (fr : frame) : df := mkDf [] (QSel (FVal fr) [] (Some (passthrough (cols fr))) false).
Definition init_state (frs : list frame) : state := mkSt [] [] (map (fun fr => Some (init_df fr)) frs) 0.
Definition init_spec (frs : list frame) : sstate := mkSp [] (map Some frs).

(** model / spec observation: nothing, an error, or a frame plus the static column list *)
Inductive obs := BNone | BErr | BOk (fr : frame) (static : list string).

Definition fuel_of (d : df) : nat := S (S (List.length (d_chain d))).

Definition mobs (tables : list (string * frame)) (o : outcome) : obs :=
  match o with
  | ONone => BNone
  | OErr => BErr
  | ODf d => match eval_df (fuel_of d) d (base tables) with
             | Some fr => BOk fr (static_cols (d_leaf d))
             | None => BErr
             end
  end.
Definition sobs (o : option (option frame)) : obs :=
  match o with
  | None => BNone
  | Some None => BErr
  | Some (Some fr) => BOk fr (cols fr)
  end.

Definition strs_eqb := list_eqb String.eqb.

Definition obs_eqb (a b : obs) : bool :=
  match a, b with
  | BNone, BNone | BErr, BErr => true
  | BOk f1 s1, BOk f2 s2 => strs_eqb (cols f1) (cols f2) && bag_eqb (rows f1) (rows f2) && strs_eqb s1 s2
  | _, _ => false
  end.
Definition iobs_eqb (with_static : bool) (i : iobs) (b : obs) : bool :=
  match i, b with
  | IErr, BErr => true
  | IOk [] [] [], BNone => true
  | IOk cs rs st, BOk fr s =>
      (* without rows the harness can only report df.columns, which is compared as the static list *)
      (match rs with [] => with_static | _ => false end || strs_eqb cs (cols fr))
      && bag_eqb rs (rows fr) && (negb with_static || strs_eqb st s)
  | _, _ => false
  end.

(** ** the domain of the theorems, step by step *)
Definition cache_fresh (tables : list (string * frame)) (st : state) : bool :=
  forallb (fun kc =>
    match assoc (fst kc) (s_cache st) with
    | Some [] => true
    | Some cs =>
        match assoc (fst kc) (s_views st) with
        | Some d => strs_eqb (static_cols (d_leaf d)) cs
        | None => match assoc (fst kc) tables with Some fr => strs_eqb (cols fr) cs | None => true end
        end
    | None => true
    end) (s_cache st).

Definition step_dom (c : cfg) (tables : list (string * frame)) (st : state) (s : step) : bool :=
  match s with
  | SReg _ h => match heap_get (s_heap st) h with
                | Some d => negb (has_star (static_cols (d_leaf d)))
                            && fresh_for (fresh (s_next st)) d && nodupb (static_cols (d_leaf d))
                | None => true end
  | SSql q =>
      (* the schema cache is right, knows every table the query names, and the premises of
         [session_sql_sound] hold for the qualified query *)
      cache_fresh tables st
      && (let q0 := lower_query q in
          forallb (fun n => is_some (assoc n (q_ctes q0)) || is_some (cache_cols (s_cache st) n)) (refs q0))
      && match qualify (s_cache st) (lower_query q) with
         | Some q1 => sql_side_ok c st q1 && negb (has_star (static_cols (q_main q1)))
         | None => false
         end
  | SJoinB h1 h2 _ _ =>
      match heap_get (s_heap st) h1, heap_get (s_heap st) h2 with
      | Some d1, Some d2 => negb (has_star (static_cols (d_leaf d1))) && negb (has_star (static_cols (d_leaf d2)))
                            && forallb (fun c => match assoc (fst c) (d_chain d1), assoc (fst c) (d_chain d2) with
                                                 | Some a, Some b => sq_eqb a b | _, _ => true end) (d_chain d2)
      | _, _ => true
      end
  | _ => true
  end.

(** sqlglot replaces every Table node *equal* (name and alias) to a spliced reference, also inside the
    added view CTEs; the model ignores aliases there.  A step is alias-exact when no added CTE body
    mentions a spliced view name, so that the difference cannot matter. *)
Definition alias_exact (c : cfg) (st : state) (s : step) : bool :=
  match s with
  | SSql q => c_user_refs_only c ||
      match qualify (s_cache st) (lower_query q) with
      | Some q1 =>
          let vs := view_refs (c_skip_own_ctes c) q1 (s_views st) in
          forallb (fun v => match assoc v (s_views st) with
                            | Some d => forallb (fun c => forallb (fun m => negb (mem m vs)) (names_sq (snd c))) (d_chain d)
                            | None => true end) vs
      | None => true
      end
  | _ => true
  end.

Definition b2s (b : bool) : string := if b then "1" else "0".

Section Check.
  Variable c : cfg.

  (** per step six characters: impl=model | impl=spec | model=spec | in-domain (this and all earlier steps)
      | oracle=spec | model is alias-exact *)
  Fixpoint go (tables : list (string * frame)) (st : state) (sp : sstate) (dom : bool)
              (steps : list step) (impl oracle : list iobs) : string :=
    match steps with
    | [] => ""
    | s :: rest =>
        let '(st', o) := mstep c tables st s in
        let '(sp', so) := sstep tables sp s in
        let m := mobs tables o in
        let p := sobs so in
        let i := hd IErr impl in
        let e := hd IErr oracle in
        let dom' := dom && step_dom c tables st s in
        String.append
          (String.append (b2s (iobs_eqb true i m))
            (String.append (b2s (iobs_eqb true i p))
              (String.append (b2s (obs_eqb m p))
                (String.append (b2s dom') (String.append (b2s (iobs_eqb false e p)) (b2s (alias_exact c st s)))))))
          (go tables st' sp' dom' rest (tl impl) (tl oracle))
    end.

  Definition check (k : case) : string :=
    go (k_tables k) (init_state (k_frames k)) (init_spec (k_frames k)) true (k_steps k) (k_impl k) (k_oracle k).

  (** model and spec observations of a whole history (for the property statement and replays) *)
  Fixpoint model_obs (tables : list (string * frame)) (st : state) (steps : list step) : list obs :=
    match steps with
    | [] => []
    | s :: rest => let '(st', o) := mstep c tables st s in mobs tables o :: model_obs tables st' rest
    end.
  Fixpoint spec_obs (tables : list (string * frame)) (sp : sstate) (steps : list step) : list obs :=
    match steps with
    | [] => []
    | s :: rest => let '(sp', so) := sstep tables sp s in sobs so :: spec_obs tables sp' rest
    end.
End Check.

(** the whole property, executably: on a history the model machine and the value-semantics spec give
    the same observation at every step *)
Definition agree (c : cfg) (tables : list (string * frame)) (frames : list frame) (steps : list step) : bool :=
  list_eqb obs_eqb (model_obs c tables (init_state frames) steps) (spec_obs tables (init_spec frames) steps).
