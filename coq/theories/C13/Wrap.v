(** C13 -- freezing a SELECT into a CTE ([_convert_leaf_to_cte]) preserves its meaning, hence
    - the frame stored by createOrReplaceTempView denotes exactly the registered DataFrame, and
    - the DataFrame returned by session.sql denotes what the engine returns for the spliced query;
    composed with [splice_sound]: session.sql(q) collects to r iff the engine answers r for the
    (qualified) query in the environment where every view name denotes its stored frame. *)
From SF Require Export C13.Session.
From Coq Require Import Permutation.
Open Scope string_scope.
Open Scope list_scope.

(** * adding a fresh CTE at the end of a WITH list *)
Section Snoc.
  Variable C : list (string * sq).
  Variable nm : string.
  Variable m : sq.
  Variable base : env.
  Hypothesis Hnew : assoc nm C = None.
  Hypothesis Hbodies : forall n b, In (n, b) C -> ~ In nm (names_sq b).

  Lemma assoc_snoc_other n : n <> nm -> assoc n (C ++ [(nm, m)]) = assoc n C.
  Proof.
    intro Hn. rewrite assoc_app. destruct (assoc n C); [reflexivity|].
    simpl. destruct (String.eqb nm n) eqn:E; [|reflexivity].
    apply String.eqb_eq in E. congruence.
  Qed.

  Lemma cte_env_snoc_other : forall f n, n <> nm ->
    cte_env f (C ++ [(nm, m)]) base n = cte_env f C base n.
  Proof.
    induction f as [|f IH]; intros n Hn; cbn [cte_env]; rewrite (assoc_snoc_other n Hn).
    - reflexivity.
    - destruct (assoc n C) as [body|] eqn:Eb; [|reflexivity].
      apply eval_sq_ext. intros k Hk. apply IH. intro; subst k.
      exact (Hbodies n body (assoc_In _ _ _ Eb) Hk).
  Qed.

  Lemma cte_env_snoc_new f : ~ In nm (names_sq m) ->
    cte_env (S f) (C ++ [(nm, m)]) base nm = eval_sq (cte_env f C base) m.
  Proof.
    intro Hm. cbn [cte_env]. rewrite assoc_app, Hnew. simpl. rewrite String.eqb_refl.
    apply eval_sq_ext. intros k Hk. apply cte_env_snoc_other. intro; subst k. exact (Hm Hk).
  Qed.

  Lemma cte_env_snoc_new_0 : cte_env 0 (C ++ [(nm, m)]) base nm = None.
  Proof. cbn [cte_env]. rewrite assoc_app, Hnew. simpl. rewrite String.eqb_refl. reflexivity. Qed.
End Snoc.

(** * the leaf that selects a frozen CTE's columns by name is the identity *)
Lemma mem_true_In n l : In n l -> mem n l = true.
Proof. intro H. apply mem_In. exact H. Qed.

Lemma passthrough_cols_in cs : forallb (fun it : expr * string => cols_in cs (fst it)) (passthrough cs) = true.
Proof.
  apply forallb_forall. intros [e a] Hin. unfold passthrough in Hin. apply in_map_iff in Hin.
  destruct Hin as [c [Hc Hin]]. injection Hc as <- <-. simpl. unfold cols_in. simpl.
  rewrite (mem_true_In c cs Hin). reflexivity.
Qed.

Lemma leaf_star fr : sel_frame [] None false fr = Some fr.
Proof.
  unfold sel_frame. simpl. f_equal. destruct fr as [cs rs]. simpl. f_equal.
  apply filter_true. intros; reflexivity.
Qed.

Lemma leaf_pass fr : wf_frame fr -> NoDup (cols fr) ->
  sel_frame [] (Some (passthrough (cols fr))) false fr = Some fr.
Proof.
  intros Hwf Hnd. unfold sel_frame. simpl. rewrite passthrough_cols_in. f_equal.
  exact (eval_pass_block fr Hwf Hnd).
Qed.

Lemma leaf_static fr cs : (has_star cs = false -> cs = cols fr /\ wf_frame fr /\ NoDup cs) ->
  sel_frame [] (sel_of_static cs) false fr = Some fr.
Proof.
  intro H. unfold sel_of_static. destruct (has_star cs) eqn:E; [apply leaf_star|].
  destruct (H eq_refl) as [-> [Hwf Hnd]]. apply leaf_pass; assumption.
Qed.

(** * what a SELECT returns has the columns its select list announces *)
Lemma dedup_on_incl {A} (k : A -> row) : forall (l : list A) seen x, In x (dedup_on k seen l) -> In x l.
Proof.
  induction l as [|y l IH]; intros seen x H; simpl in *; [contradiction|].
  destruct (existsb (row_eqb (k y)) seen).
  - right; eauto.
  - destruct H as [<-|H]; [left; reflexivity | right; eauto].
Qed.

Lemma agg_frame_shape w ks ag fr0 fr : agg_frame w ks ag fr0 = Some fr ->
  cols fr = map snd ks ++ map snd ag /\ wf_frame fr.
Proof.
  unfold agg_frame. destruct (_ && _ && _); [|discriminate]. intro H. inversion H; subst; clear H.
  split; [reflexivity|]. intros r Hr. cbn [rows cols] in *.
  apply in_map_iff in Hr. destruct Hr as [k [<- Hk]].
  rewrite !app_length, !map_length. f_equal.
  destruct ks as [|k0 ks'].
  - destruct Hk as [<-|[]]. reflexivity.
  - unfold dedup in Hk. apply dedup_on_incl in Hk. apply in_map_iff in Hk.
    destruct Hk as [r0 [<- _]]. rewrite map_length. reflexivity.
Qed.

Lemma eval_sq_shape e q fr : eval_sq e q = Some fr -> has_star (static_cols q) = false ->
  cols fr = static_cols q /\ wf_frame fr.
Proof.
  destruct q as [f w sel d | f w ks ag]; cbn [eval_sq static_cols]; intros H Hs.
  - destruct (eval_from e f) as [fr0|]; [|discriminate].
    destruct sel as [items|]; [|discriminate Hs].
    unfold sel_frame in H. destruct (forallb (cols_in (cols fr0)) w); [|discriminate].
    destruct (forallb _ items); [|discriminate]. inversion H; subst.
    split; [reflexivity | apply wf_eval_block].
  - destruct (eval_from e f) as [fr0|]; [|discriminate]. eapply agg_frame_shape. exact H.
Qed.

(** * [freeze] (= _convert_leaf_to_cte) preserves the meaning; the frozen last CTE *is* the DataFrame *)
Definition fresh_for (nm : string) (d : df) : bool :=
  negb (is_some (assoc nm (d_chain d)))
  && forallb (fun c => negb (mem nm (names_sq (snd c)))) (d_chain d)
  && negb (mem nm (names_sq (d_leaf d))).

Lemma fresh_for_inv nm d : fresh_for nm d = true ->
  assoc nm (d_chain d) = None
  /\ (forall n b, In (n, b) (d_chain d) -> ~ In nm (names_sq b))
  /\ ~ In nm (names_sq (d_leaf d)).
Proof.
  unfold fresh_for. intro H.
  apply andb_true_iff in H. destruct H as [H H3]. apply andb_true_iff in H. destruct H as [H1 H2].
  split; [|split].
  - destruct (assoc nm (d_chain d)); [discriminate | reflexivity].
  - intros n b Hin Hm. rewrite forallb_forall in H2. specialize (H2 _ Hin). simpl in H2.
    apply negb_true_iff in H2. apply mem_true_In in Hm. congruence.
  - intro Hm. apply negb_true_iff in H3. apply mem_true_In in Hm. congruence.
Qed.

Lemma last_name_snoc (ch : list (string * sq)) nm b : last_name (ch ++ [(nm, b)]) = Some nm.
Proof. unfold last_name. rewrite rev_app_distr. reflexivity. Qed.

(** the last CTE of the stored frame, resolved in the stored chain, is the registered DataFrame *)
Theorem freeze_last_is_df nm d base0 f : fresh_for nm d = true ->
  cte_env (S f) (d_chain (freeze nm d)) base0 nm = eval_df f d base0.
Proof.
  intro Hf. destruct (fresh_for_inv nm d Hf) as [H1 [H2 H3]].
  unfold freeze, eval_df. cbn [d_chain]. apply cte_env_snoc_new; assumption.
Qed.

(** hence, right after createOrReplaceTempView(name) of d, the view's meaning (what the splice and
    session.table use) is d's meaning *)
Corollary registered_view_means_df key nm d views base0 g : fresh_for nm d = true ->
  view_env (S g) ((key, freeze nm d) :: views) base0 key = eval_df g d base0.
Proof.
  intro Hf. unfold view_env. cbn [assoc]. rewrite String.eqb_refl.
  unfold freeze at 1. cbn [d_chain]. rewrite last_name_snoc. apply freeze_last_is_df. exact Hf.
Qed.

(** collecting the frozen frame gives the same rows and columns as collecting d *)
Theorem freeze_sound nm d base0 f fr : fresh_for nm d = true -> nodupb (static_cols (d_leaf d)) = true ->
  eval_df f d base0 = Some fr -> eval_df (S f) (freeze nm d) base0 = Some fr.
Proof.
  intros Hf Hnd E. unfold eval_df at 1. unfold freeze at 2. cbn [d_leaf eval_sq eval_from].
  rewrite (freeze_last_is_df nm d base0 f Hf), E.
  apply leaf_static. intro Hs. unfold eval_df in E.
  destruct (eval_sq_shape _ _ _ E Hs) as [Hc Hw]. repeat split; auto. apply nodupb_sound. exact Hnd.
Qed.

(** * transforming a frame further: where(e) on any model DataFrame (also one returned by session.sql or
    session.table) filters exactly the rows the frame collects to *)
Definition where_df (nm : string) (d : df) (e : expr) : df :=
  mkDf (d_chain d ++ [(nm, d_leaf d)])
       (QSel (FName nm) [e] (sel_of_static (static_cols (d_leaf d))) false).

Theorem where_sound nm d e base0 f fr :
  fresh_for nm d = true -> nodupb (static_cols (d_leaf d)) = true ->
  eval_df f d base0 = Some fr ->
  eval_df (S f) (where_df nm d e) base0 = sel_frame [e] None false fr.
Proof.
  intros Hf Hnd E. destruct (fresh_for_inv nm d Hf) as [H1 [H2 H3]].
  unfold eval_df at 1, where_df. cbn [d_leaf d_chain eval_sq eval_from].
  rewrite (cte_env_snoc_new (d_chain d) nm (d_leaf d) base0 H1 H2 f H3).
  fold (eval_df f d base0). rewrite E.
  unfold sel_of_static. destruct (has_star (static_cols (d_leaf d))) eqn:Hs; [reflexivity|].
  unfold eval_df in E. destruct (eval_sq_shape _ _ _ E Hs) as [Hc Hw].
  rewrite <- Hc. apply nodupb_sound in Hnd. rewrite <- Hc in Hnd.
  unfold sel_frame. destruct (forallb (cols_in (cols fr)) [e]); [|reflexivity].
  rewrite passthrough_cols_in. f_equal.
  apply (eval_simple_block (mkBlock [e] (passthrough (cols fr)) false [] None) fr); auto.
Qed.

(** * the DataFrame returned by session.sql *)
Definition sql_df (nm : string) (sp : query) : df :=
  mkDf (q_ctes sp ++ [(nm, q_main sp)])
       (QSel (FName nm) [] (sel_of_static (static_cols (q_main sp))) false).

Definition fresh_for_query (nm : string) (sp : query) : bool :=
  fresh_for nm (mkDf (q_ctes sp) (q_main sp)).

Lemma sql_df_is_freeze nm sp : sql_df nm sp = freeze nm (mkDf (q_ctes sp) (q_main sp)).
Proof. reflexivity. Qed.

Lemma eval_df_query f sp base0 : eval_df f (mkDf (q_ctes sp) (q_main sp)) base0 = run f sp base0.
Proof. reflexivity. Qed.

(** collecting session.sql's DataFrame = running the spliced query on the engine *)
Theorem sql_df_sound nm sp base0 r :
  fresh_for_query nm sp = true -> nodupb (static_cols (q_main sp)) = true ->
  ((exists f, eval_df f (sql_df nm sp) base0 = Some r) <-> Run sp base0 r).
Proof.
  intros Hf Hnd. rewrite sql_df_is_freeze. split.
  - intros [f E]. destruct f as [|f].
    + exfalso. unfold eval_df, freeze in E. cbn [d_leaf d_chain eval_sq eval_from] in E.
      destruct (fresh_for_inv _ _ Hf) as [H1 _]. cbn [d_chain] in H1.
      rewrite cte_env_snoc_new_0 in E by exact H1. discriminate.
    + exists f. unfold eval_df at 1 in E. unfold freeze at 2 in E. cbn [d_leaf eval_sq eval_from] in E.
      rewrite (freeze_last_is_df nm _ base0 f Hf), eval_df_query in E.
      destruct (run f sp base0) as [fr|] eqn:Er; [|discriminate].
      assert (Hl : sel_frame [] (sel_of_static (static_cols (q_main sp))) false fr = Some fr).
      { apply leaf_static. intro Hs. unfold run in Er.
        destruct (eval_sq_shape _ _ _ Er Hs) as [Hc Hw]. repeat split; auto. apply nodupb_sound. exact Hnd. }
      cbn [d_leaf] in E. rewrite Hl in E. congruence.
  - intros [f E]. exists (S f). apply freeze_sound; [exact Hf | exact Hnd | exact E].
Qed.

(** * session.sql end to end (after qualify): splice, freeze, collect *)
Theorem sql_sound : forall so uo q1 views base0 nm r,
  no_capture so uo q1 views = true ->
  fresh_for_query nm (splice so uo q1 views) = true ->
  nodupb (static_cols (q_main (splice so uo q1 views))) = true ->
  ((exists f, eval_df f (sql_df nm (splice so uo q1 views)) base0 = Some r)
   <-> exists g, Run q1 (view_env g views base0) r).
Proof.
  intros so uo q1 views base0 nm r NC Hf Hnd.
  rewrite (sql_df_sound nm (splice so uo q1 views) base0 r Hf Hnd).
  apply splice_sound. exact NC.
Qed.

(** * the same statements about the state machine's steps *)
Section MachineLevel.
  Variable c : cfg.
  Variable tables : list (string * frame).

  (** the query session.sql freezes: the spliced query, with the user's CTEs renamed when the source does so *)
  Definition sql_result_query (st : state) (q1 : query) : query :=
    let sp0 := splice (c_skip_own_ctes c) (c_user_refs_only c) q1 (s_views st) in
    if c_hash_user_ctes c then alpha_ctes (user_cte_names (s_next st) q1) sp0 else sp0.

  Definition sql_side_ok (st : state) (q1 : query) : bool :=
    let so := c_skip_own_ctes c in
    let uo := c_user_refs_only c in
    no_capture so uo q1 (s_views st)
    && (negb (c_hash_user_ctes c)
        || alpha_ok (user_cte_names (s_next st) q1) (splice so uo q1 (s_views st)))
    && fresh_for_query (fresh (s_next st)) (sql_result_query st q1)
    && nodupb (static_cols (q_main (sql_result_query st q1))).

  Lemma Run_alpha names q0 r : alpha_ok names q0 = true ->
    (Run (alpha_ctes names q0) (base tables) r <-> Run q0 (base tables) r).
  Proof.
    intro OK. unfold Run. split; intros [f E]; exists f.
    - rewrite <- (alpha_sound names q0 (base tables) f OK). exact E.
    - rewrite (alpha_sound names q0 (base tables) f OK). exact E.
  Qed.

  (** session.sql(q): if qualify accepts the query as q1 and a DataFrame comes back, collecting it
      yields r exactly when the engine yields r for q1 with every view name bound to its stored frame *)
  Theorem session_sql_sound : forall st q q1 d,
    qualify (s_cache st) (lower_query q) = Some q1 ->
    snd (mstep c tables st (SSql q)) = ODf d ->
    sql_side_ok st q1 = true ->
    forall r, (exists f, eval_df f d (base tables) = Some r)
              <-> exists g, Run q1 (view_env g (s_views st) (base tables)) r.
  Proof.
    intros st q q1 d Hq Hd Hok r. unfold sql_side_ok in Hok.
    apply andb_true_iff in Hok. destruct Hok as [Hok Hnd]. apply andb_true_iff in Hok. destruct Hok as [Hok Hf].
    apply andb_true_iff in Hok. destruct Hok as [NC Ha].
    cbn [mstep] in Hd. rewrite Hq in Hd. destruct (forallb _ _); cbn [snd] in Hd; [|discriminate].
    inversion Hd; subst d. clear Hd.
    fold (sql_result_query st q1).
    change (mkDf (q_ctes (sql_result_query st q1) ++ [(fresh (s_next st), q_main (sql_result_query st q1))])
                 (QSel (FName (fresh (s_next st))) [] (sel_of_static (static_cols (q_main (sql_result_query st q1)))) false))
      with (sql_df (fresh (s_next st)) (sql_result_query st q1)).
    rewrite (sql_df_sound (fresh (s_next st)) (sql_result_query st q1) (base tables) r Hf Hnd).
    unfold sql_result_query. destruct (c_hash_user_ctes c); cbn [negb orb] in Ha.
    - rewrite (Run_alpha _ _ r Ha). apply splice_sound. exact NC.
    - apply splice_sound. exact NC.
  Qed.

  (** createOrReplaceTempView(name) of d followed by session.table(name') for any spelling of the name:
      the frame that comes back collects to exactly d's rows and columns, and the meaning the splice uses
      for the view is d's meaning *)
  Theorem register_then_table_sees_df : forall st name name' h d,
    cfg_ok c = true -> heap_get (s_heap st) h = Some d -> lower name = lower name' ->
    snd (mstep c tables st (SReg name h)) = ONone ->
    fresh_for (fresh (s_next st)) d = true -> nodupb (static_cols (d_leaf d)) = true ->
    let st' := fst (mstep c tables st (SReg name h)) in
    exists d', lookup_table c tables st' name' = Some d'
      /\ (forall f fr, eval_df f d (base tables) = Some fr -> eval_df (S f) d' (base tables) = Some fr)
      /\ (forall g, view_env (S g) (s_views st') (base tables) (lower name) = eval_df g d (base tables)).
  Proof.
    intros st name name' h d Hc Hh Hn Hret Hf Hnd st'.
    exists (stored c st d). split; [|split].
    - apply register_lookup; assumption.
    - intros f fr E. unfold stored. destruct (cfg_ok_inv c Hc) as [Hfz _]. rewrite Hfz.
      apply freeze_sound; assumption.
    - intro g. subst st'. destruct (cfg_ok_inv c Hc) as [Hfz [_ [Hr _]]].
      cbn [mstep] in *. rewrite Hh in *. rewrite Hr, Hfz in *. cbn [norm_key] in *.
      destruct (negb _ && has_star _); cbn [snd] in Hret; [discriminate|]. cbn [fst s_views].
      apply registered_view_means_df. exact Hf.
  Qed.
End MachineLevel.

(** * the model of qualify preserves the meaning of a SELECT tree when the schema is non-empty and its
    column information is right (the premise the stale-cache defect breaks); with an empty schema it does
    not (early alias expansion, [C13_refuted_alias_expansion]) *)
Definition info_right (info : colinfo) (e : env) : Prop :=
  forall f cs fr, from_cols info f = Some cs -> eval_from e f = Some fr ->
                  cols fr = cs /\ wf_frame fr /\ NoDup cs.

Lemma sel_star_expand w d fr : wf_frame fr -> NoDup (cols fr) ->
  sel_frame w (Some (passthrough (cols fr))) d fr = sel_frame w None d fr.
Proof.
  intros Hwf Hnd. unfold sel_frame. destruct (forallb (cols_in (cols fr)) w); [|reflexivity].
  rewrite passthrough_cols_in. f_equal.
  unfold eval_block. cbn [b_where b_sel b_distinct b_order b_limit].
  rewrite out_cols_passthrough. f_equal.
  set (rs := filter (all_hold (cols fr) w) (rows fr)).
  assert (Hps : map (fun r => (proj (cols fr) (passthrough (cols fr)) r, r)) rs = map (fun r => (r, r)) rs).
  { apply map_ext_in. intros r Hr. unfold rs in Hr. apply filter_In in Hr. destruct Hr as [Hr _].
    rewrite proj_passthrough; auto. }
  rewrite Hps. rewrite sort_on_nil_keys by reflexivity.
  destruct d.
  - rewrite map_fst_dedup_on. rewrite map_map. cbn [fst]. rewrite map_id. reflexivity.
  - rewrite map_map. cbn [fst]. apply map_id.
Qed.

Lemma qualify_sound_both info e : info_right info e ->
  (forall q q', qualify_sq info true q = Some q' -> eval_sq e q' = eval_sq e q) /\
  (forall f f', qualify_from info true f = Some f' -> eval_from e f' = eval_from e f).
Proof.
  intro Hinfo. apply sq_from_ind.
  - intros f IH w sel d q' H. cbn [qualify_sq] in H.
    destruct (qualify_from info true f) as [f'|] eqn:Ef; [|discriminate].
    destruct (refs_ok info true f (sel_refs w sel)); [|discriminate].
    inversion H; subst q'; clear H. cbn [eval_sq]. rewrite (IH f' eq_refl).
    destruct (eval_from e f) as [fr|] eqn:Efr; [|reflexivity].
    destruct sel as [items|]; [reflexivity|].
    destruct (is_join f); [reflexivity|].
    destruct (from_cols info f) as [cs|] eqn:Ec; [|reflexivity].
    destruct (Hinfo f cs fr Ec Efr) as [Hc [Hwf Hnd]]. subst cs.
    apply sel_star_expand; assumption.
  - intros f IH w ks ag q' H. cbn [qualify_sq] in H.
    destruct (qualify_from info true f) as [f'|] eqn:Ef; [|discriminate].
    destruct (refs_ok info true f (agg_refs w ks ag)); [|discriminate].
    inversion H; subst q'. cbn [eval_sq]. rewrite (IH f' eq_refl). reflexivity.
  - intros n f' H. inversion H. reflexivity.
  - intros fr f' H. inversion H. reflexivity.
  - intros q IH f' H. cbn [qualify_from] in H.
    destruct (qualify_sq info true q) as [q'|] eqn:Eq; [|discriminate]. inversion H; subst f'.
    cbn [eval_from]. apply IH. reflexivity.
  - intros l IHl la r IHr ra on f' H. cbn [qualify_from] in H.
    destruct (qualify_from info true l) as [l'|] eqn:El; [|discriminate].
    destruct (qualify_from info true r) as [r'|] eqn:Er; [|discriminate].
    destruct (refs_ok info true _ _); [|discriminate]. inversion H; subst f'.
    cbn [eval_from]. rewrite (IHl l' eq_refl), (IHr r' eq_refl). reflexivity.
Qed.

Theorem qualify_sq_sound info e q q' : info_right info e ->
  qualify_sq info true q = Some q' -> eval_sq e q' = eval_sq e q.
Proof. intros Hi H. exact (proj1 (qualify_sound_both info e Hi) q q' H). Qed.

(** * the proved part of C13 in one statement, for any configuration that passes [cfg_ok] *)
Definition C13_proved (c : cfg) : Prop :=
  (* (1) the splice is a sound substitution, for every query tree, registry and base environment *)
  (forall so uo q views base0 r, no_capture so uo q views = true ->
     (Run (splice so uo q views) base0 r <-> exists g, Run q (view_env g views base0) r))
  (* (2) session.sql end to end, after qualify *)
  /\ (forall tables st q q1 d,
        qualify (s_cache st) (lower_query q) = Some q1 ->
        snd (mstep c tables st (SSql q)) = ODf d ->
        sql_side_ok c st q1 = true ->
        forall r, (exists f, eval_df f d (base tables) = Some r)
                  <-> exists g, Run q1 (view_env g (s_views st) (base tables)) r)
  (* (3) createOrReplaceTempView then session.table / the splice, every spelling of the name *)
  /\ (forall tables st name name' h d,
        heap_get (s_heap st) h = Some d -> lower name = lower name' ->
        snd (mstep c tables st (SReg name h)) = ONone ->
        fresh_for (fresh (s_next st)) d = true -> nodupb (static_cols (d_leaf d)) = true ->
        exists d', lookup_table c tables (fst (mstep c tables st (SReg name h))) name' = Some d'
          /\ (forall f fr, eval_df f d (base tables) = Some fr -> eval_df (S f) d' (base tables) = Some fr)
          /\ (forall g, view_env (S g) (s_views (fst (mstep c tables st (SReg name h)))) (base tables) (lower name)
                        = eval_df g d (base tables)))
  (* (4) re-registration: the last registration wins, for every history before and after *)
  /\ (forall tables before after st0 name name' h d,
        heap_get (s_heap (mrun c tables st0 before)) h = Some d -> lower name = lower name' ->
        snd (mstep c tables (mrun c tables st0 before) (SReg name h)) = ONone ->
        forallb (fun s => negb (registers c (lower name) s)) after = true ->
        lookup_table c tables (mrun c tables st0 (before ++ [SReg name h] ++ after)) name'
        = Some (stored c (mrun c tables st0 before) d))
  (* (6) a frame (e.g. the result of session.sql) transformed further by where(e) filters its own rows *)
  /\ (forall tables st h e d fr f,
        heap_get (s_heap st) h = Some d ->
        fresh_for (fresh (s_next st)) d = true -> nodupb (static_cols (d_leaf d)) = true ->
        eval_df f d (base tables) = Some fr ->
        exists d', snd (mstep c tables st (SWhere h e)) = ODf d'
                   /\ eval_df (S f) d' (base tables) = sel_frame [e] None false fr)
  (* (7) qualify (as modelled) with a non-empty schema whose column information is right preserves meaning *)
  /\ (forall info e q q', info_right info e -> qualify_sq info true q = Some q' -> eval_sq e q' = eval_sq e q)
  (* (5) DataFrames already built keep their definition and meaning through every later history *)
  /\ (forall tables steps st h d,
        heap_get (s_heap st) h = Some d ->
        heap_get (s_heap (mrun c tables st steps)) h = Some d
        /\ forall f, meaning tables (mrun c tables st steps) h f = meaning tables st h f).

Theorem C13_package : forall c, cfg_ok c = true -> C13_proved c.
Proof.
  intros c Hc. unfold C13_proved. split; [|split; [|split; [|split; [|split; [|split]]]]].
  - intros so uo q views base0 r NC. apply splice_sound; exact NC.
  - intros tables st q q1 d Hq Hd Hok r. apply (session_sql_sound c tables st q q1 d); assumption.
  - intros tables st name name' h d Hh Hn Hret Hf Hnd.
    exact (register_then_table_sees_df c tables st name name' h d Hc Hh Hn Hret Hf Hnd).
  - intros tables before after st0 name name' h d Hh Hn Hret Hafter. apply rereg_last_wins; assumption.
  - intros tables st h e d fr f Hh Hf Hnd E. cbn [mstep]. rewrite Hh. cbn [snd].
    eexists. split; [reflexivity|]. apply (where_sound _ d e (base tables) f fr Hf Hnd E).
  - intros info e q q' Hi H. exact (qualify_sq_sound info e q q' Hi H).
  - intros tables steps st h d Hh. apply (earlier_frames_unchanged c tables steps st h d Hh).
Qed.

