(** C13 -- the temp-view registry and session.sql's splice, with the substitution theorem.

    A (frozen) DataFrame is a chain of CTE definitions plus a leaf SELECT over them.  session.sql(q):
    for every table reference of q (anywhere: main SELECT, sub-queries, CTE bodies) whose name is a
    registered view, append the view's CTE chain to q's WITH list, skipping CTE names already present,
    and retarget the reference to the *last CTE of the view's chain*  (session.py 422-442).

    [splice_sound]: on [no_capture] queries, the spliced query run on the engine gives exactly what the
    user's query gives in the environment where each view name denotes the view's frozen meaning. *)
From SF Require Export C13.Query.
Open Scope string_scope.
Open Scope list_scope.

Record df := mkDf { d_chain : list (string * sq); d_leaf : sq }.
Definition registry := list (string * df).

Definition last_name (ch : list (string * sq)) : option string :=
  match rev ch with (n, _) :: _ => Some n | [] => None end.

(** every table reference of the query, CTE bodies included (sqlglot's find_all(exp.Table)) *)
Definition refs (q : query) : list string :=
  flat_map (fun c => names_sq (snd c)) (q_ctes q) ++ names_sq (q_main q).

(** [so] ("skip own"): a name that is a CTE of the query itself is not a view reference (the repaired
    session.sql); without it every table reference named like a view is one (the hijack defect). *)
Definition view_refs (so : bool) (q : query) (views : registry) : list string :=
  filter (fun n => is_some (assoc n views) && negb (so && is_some (assoc n (q_ctes q)))) (refs q).

(** ctes_to_add: the chain's CTEs whose name is not yet in the WITH list *)
Definition add_chain (acc ch : list (string * sq)) : list (string * sq) :=
  acc ++ filter (fun c => negb (mem (fst c) (map fst acc))) ch.

Definition spliced_ctes (so : bool) (q : query) (views : registry) : list (string * sq) :=
  fold_left (fun acc v => match assoc v views with Some d => add_chain acc (d_chain d) | None => acc end)
            (view_refs so q views) (q_ctes q).
(** the CTEs the splice adds behind the query's own *)
Definition added_ctes (so : bool) (q : query) (views : registry) : list (string * sq) :=
  skipn (List.length (q_ctes q)) (spliced_ctes so q views).

Definition target (views : registry) (n : string) : string :=
  match assoc n views with
  | Some d => match last_name (d_chain d) with Some l => l | None => n end
  | None => n
  end.

Definition rho_of (so : bool) (q : query) (views : registry) : string -> string :=
  fun n => if mem n (view_refs so q views) then target views n else n.

Definition ren_ctes (rho : string -> string) (l : list (string * sq)) : list (string * sq) :=
  map (fun c => (fst c, ren_sq rho (snd c))) l.

(** [uo] ("user references only"): only the table references of the user's query are retargeted (the
    repaired session.sql); without it every equal-looking reference is, also inside the added CTEs
    (modelled without aliases: every reference of that name). *)
Definition splice (so uo : bool) (q : query) (views : registry) : query :=
  let rho := rho_of so q views in
  let A := added_ctes so q views in
  mkQuery (ren_ctes rho (q_ctes q) ++ (if uo then A else ren_ctes rho A)) (ren_sq rho (q_main q)).

(** the frozen meaning of a registered view: its last CTE, resolved in its own chain *)
Definition view_env (g : nat) (views : registry) (base : env) : env :=
  fun n => match assoc n views with
           | Some d => match last_name (d_chain d) with
                       | Some l => cte_env g (d_chain d) base l
                       | None => None
                       end
           | None => base n
           end.

Definition opt_sq_eqb (a b : option sq) : bool :=
  match a, b with Some x, Some y => sq_eqb x y | None, None => true | _, _ => false end.

(** The decidable side condition.
    (c1) no CTE of the user's query is named like a view the query refers to (else the reference to
         the user's own CTE is hijacked);
    (c2) for each referenced view: its chain is not empty; every CTE of its chain is, in the spliced
         WITH list, bound to that very definition (neither a user CTE nor another view's CTE of the
         same name shadows it); when the splice also rewrites the added CTEs ([uo] = false) its bodies
         mention no spliced view name, otherwise no user CTE carries the name of a chain CTE; and any
         name the bodies leave free is also free in the spliced WITH list;
    (c3) a name of the user's query that is neither a view nor a user CTE is not captured by a CTE
         that the splice adds. *)
Definition no_capture (so uo : bool) (q : query) (views : registry) : bool :=
  let vs := view_refs so q views in
  let U := q_ctes q in
  let C := spliced_ctes so q views in
  forallb (fun c => negb (mem (fst c) vs)) U
  && forallb (fun v =>
       match assoc v views with
       | Some d =>
           let ch := d_chain d in
           is_some (last_name ch)
           && forallb (fun c =>
                match assoc (fst c) ch with
                | Some body =>
                    opt_sq_eqb (assoc (fst c) C) (Some body)
                    && (if uo then negb (is_some (assoc (fst c) U))
                        else forallb (fun m => negb (mem m vs)) (names_sq body))
                    && forallb (fun m => is_some (assoc m ch) || negb (is_some (assoc m C))) (names_sq body)
                | None => false
                end) ch
       | None => true
       end) vs
  && forallb (fun n => mem n vs || is_some (assoc n U) || negb (is_some (assoc n C))) (refs q).

(** * Proof of the substitution theorem *)

Lemma mem_In n l : mem n l = true <-> In n l.
Proof.
  unfold mem. rewrite existsb_exists. split.
  - intros [x [Hx E]]. apply String.eqb_eq in E. subst. exact Hx.
  - intro H. exists n. split; [exact H | apply String.eqb_refl].
Qed.

Lemma last_name_assoc ch l : last_name ch = Some l -> is_some (assoc l ch) = true.
Proof.
  unfold last_name. intro H.
  destruct (rev ch) as [|[n b] t] eqn:E; [discriminate|]. inversion H; subst.
  assert (Hin : In l (map fst ch)).
  { apply in_map_iff. exists (l, b). split; [reflexivity|]. apply in_rev. rewrite E. left; reflexivity. }
  clear -Hin. induction ch as [|[k v] ch IH]; simpl in *; [contradiction|].
  destruct (String.eqb k l) eqn:Ek; [reflexivity|].
  destruct Hin as [->|Hin]; [rewrite String.eqb_refl in Ek; discriminate | auto].
Qed.

Lemma view_refs_spec so q views n :
  In n (view_refs so q views) <->
  In n (refs q) /\ is_some (assoc n views) = true /\ (so && is_some (assoc n (q_ctes q))) = false.
Proof.
  unfold view_refs. rewrite filter_In. rewrite andb_true_iff, negb_true_iff. tauto.
Qed.

Lemma assoc_ren_ctes rho n l : assoc n (ren_ctes rho l) = option_map (ren_sq rho) (assoc n l).
Proof. apply assoc_map_snd. Qed.

Section SpliceProof.
  Variables so uo : bool.
  Variable q : query.
  Variable views : registry.
  Variable base : env.
  Hypothesis NC : no_capture so uo q views = true.

  Let vs := view_refs so q views.
  Let U := q_ctes q.
  Let C := spliced_ctes so q views.
  Let A := added_ctes so q views.
  Let rho := rho_of so q views.
  Let C' := ren_ctes rho U ++ (if uo then A else ren_ctes rho A).

  Lemma nc1 : forall n body, assoc n U = Some body -> mem n vs = false.
  Proof.
    intros n body H. unfold no_capture in NC.
    apply andb_true_iff in NC. destruct NC as [H12 _]. apply andb_true_iff in H12. destruct H12 as [H1 _].
    rewrite forallb_forall in H1. specialize (H1 _ (assoc_In _ _ _ H)). simpl in H1.
    apply negb_true_iff in H1. exact H1.
  Qed.

  Lemma nc2 : forall v d, In v vs -> assoc v views = Some d ->
    is_some (last_name (d_chain d)) = true /\
    forall c body, assoc c (d_chain d) = Some body ->
      assoc c C = Some body /\
      (if uo then assoc c U = None else forall m, In m (names_sq body) -> mem m vs = false) /\
      forall m, In m (names_sq body) -> assoc m (d_chain d) = None -> assoc m C = None.
  Proof.
    intros v d Hv Hd. unfold no_capture in NC.
    apply andb_true_iff in NC. destruct NC as [H12 _]. apply andb_true_iff in H12. destruct H12 as [_ H2].
    rewrite forallb_forall in H2. specialize (H2 v Hv). rewrite Hd in H2.
    apply andb_true_iff in H2. destruct H2 as [Hl Hc]. split; [exact Hl|].
    intros c body Hcb. rewrite forallb_forall in Hc.
    specialize (Hc _ (assoc_In _ _ _ Hcb)). cbn [fst] in Hc. rewrite Hcb in Hc.
    apply andb_true_iff in Hc. destruct Hc as [Hc Hn]. apply andb_true_iff in Hc. destruct Hc as [He Hu].
    split; [|split].
    - fold C in He. destruct (assoc c C) as [b'|]; simpl in He; [|discriminate].
      apply sq_eqb_eq in He. congruence.
    - destruct uo.
      + fold U in Hu. destruct (assoc c U); simpl in Hu; [discriminate | reflexivity].
      + intros m Hm. rewrite forallb_forall in Hu. specialize (Hu m Hm). apply negb_true_iff in Hu. exact Hu.
    - intros m Hm Hnone. rewrite forallb_forall in Hn. specialize (Hn m Hm).
      rewrite Hnone in Hn. simpl in Hn. fold C in Hn.
      destruct (assoc m C); simpl in Hn; [discriminate | reflexivity].
  Qed.

  Lemma nc3 : forall n, In n (refs q) -> mem n vs = false -> assoc n U = None -> assoc n C = None.
  Proof.
    intros n Hn Hv Hu. unfold no_capture in NC.
    apply andb_true_iff in NC. destruct NC as [_ H3].
    rewrite forallb_forall in H3. specialize (H3 n Hn). fold vs U C in H3.
    rewrite Hv, Hu in H3. simpl in H3. destruct (assoc n C); simpl in H3; [discriminate | reflexivity].
  Qed.

  (** the user's CTEs stay in front of the spliced WITH list *)
  Lemma spliced_prefix : C = U ++ A.
  Proof.
    assert (H : forall l acc, exists X, fold_left (fun acc v => match assoc v views with
                 | Some d => add_chain acc (d_chain d) | None => acc end) l acc = acc ++ X).
    { induction l as [|v l IH]; intro acc; simpl.
      - exists []. rewrite app_nil_r. reflexivity.
      - destruct (assoc v views) as [d|]; [|apply IH].
        destruct (IH (add_chain acc (d_chain d))) as [X HX]. unfold add_chain in HX.
        rewrite <- app_assoc in HX. eexists; exact HX. }
    destruct (H (view_refs so q views) U) as [X HX].
    unfold A, added_ctes. fold C. fold U. unfold C, spliced_ctes. fold U. rewrite HX.
    rewrite skipn_app, skipn_all, Nat.sub_diag. reflexivity.
  Qed.

  Lemma assoc_C n : assoc n C = match assoc n U with Some b => Some b | None => assoc n A end.
  Proof. rewrite spliced_prefix. apply assoc_app. Qed.

  Lemma assoc_C'_user n body : assoc n U = Some body -> assoc n C' = Some (ren_sq rho body).
  Proof. intro H. unfold C'. rewrite assoc_app, assoc_ren_ctes, H. reflexivity. Qed.

  Lemma assoc_C'_none n : assoc n C = None -> assoc n C' = None.
  Proof.
    rewrite assoc_C. intro H. unfold C'. rewrite assoc_app, assoc_ren_ctes.
    destruct (assoc n U); [discriminate|]. cbn [option_map].
    destruct uo; [exact H | rewrite assoc_ren_ctes, H; reflexivity].
  Qed.

  (** inside the spliced WITH list a view's chain means what it means on its own *)
  Lemma chain_in_scope v d : In v vs -> assoc v views = Some d ->
    forall f c, is_some (assoc c (d_chain d)) = true ->
      cte_env f C' base c = cte_env f (d_chain d) base c.
  Proof.
    intros Hv Hd. destruct (nc2 v d Hv Hd) as [_ H2].
    assert (Hbody : forall c body, assoc c (d_chain d) = Some body -> assoc c C' = Some body).
    { intros c body Eb. destruct (H2 c body Eb) as [HC [Hu _]].
      destruct uo eqn:Euo.
      - unfold C'. rewrite assoc_app, assoc_ren_ctes, Hu. cbn [option_map].
        rewrite assoc_C, Hu in HC. exact HC.
      - assert (Hfix : ren_sq rho body = body).
        { apply ren_sq_fix. intros m Hm. unfold rho, rho_of. fold vs. rewrite (Hu m Hm). reflexivity. }
        rewrite assoc_C in HC. unfold C'. rewrite assoc_app, !assoc_ren_ctes.
        destruct (assoc c U) as [b|].
        + cbn [option_map]. inversion HC; subst. rewrite Hfix. reflexivity.
        + cbn [option_map]. rewrite HC. cbn [option_map]. rewrite Hfix. reflexivity. }
    induction f as [|f IH]; intros c Hc.
    - destruct (assoc c (d_chain d)) as [body|] eqn:Eb; [|discriminate].
      cbn [cte_env]. rewrite (Hbody c body Eb), Eb. reflexivity.
    - destruct (assoc c (d_chain d)) as [body|] eqn:Eb; [|discriminate].
      destruct (H2 c body Eb) as [_ [_ Hfree]]. cbn [cte_env]. rewrite (Hbody c body Eb), Eb.
      apply eval_sq_ext. intros m Hm.
      destruct (assoc m (d_chain d)) as [bm|] eqn:Em.
      + apply IH. rewrite Em. reflexivity.
      + pose proof (assoc_C'_none m (Hfree m Hm Em)) as HN.
        destruct f; cbn [cte_env]; rewrite HN, Em; reflexivity.
  Qed.

  Lemma view_lookup n : In n (refs q) -> mem n vs = true -> assoc n U = None ->
    forall f, cte_env f C' base (rho n) = view_env f views base n.
  Proof.
    intros Hn Hv Hu f. apply mem_In in Hv. pose proof Hv as Hv0.
    apply view_refs_spec in Hv. destruct Hv as [_ [Hs _]].
    destruct (assoc n views) as [d|] eqn:Ed; [|discriminate].
    destruct (nc2 n d Hv0 Ed) as [Hl _].
    destruct (last_name (d_chain d)) as [l|] eqn:El; [|discriminate].
    unfold rho, rho_of, view_env, target. fold vs. rewrite (proj2 (mem_In n vs) Hv0), Ed, El.
    apply (chain_in_scope n d Hv0 Ed). apply last_name_assoc. exact El.
  Qed.

  Lemma base_lookup n : In n (refs q) -> mem n vs = false -> assoc n U = None ->
    forall f g, cte_env f C' base (rho n) = base n /\ view_env g views base n = base n.
  Proof.
    intros Hn Hv Hu f g. split.
    - unfold rho, rho_of. fold vs. rewrite Hv.
      pose proof (assoc_C'_none n (nc3 n Hn Hv Hu)) as HC.
      destruct f; cbn [cte_env]; rewrite HC; reflexivity.
    - unfold view_env. destruct (assoc n views) as [d|] eqn:Ed; [|reflexivity].
      exfalso. assert (In n vs).
      { apply view_refs_spec. split; [exact Hn|]. split; [rewrite Ed; reflexivity|].
        fold U. rewrite Hu. apply andb_false_r. }
      apply mem_In in H. fold vs in H. congruence.
  Qed.

  Lemma body_refs n body : assoc n U = Some body -> forall m, In m (names_sq body) -> In m (refs q).
  Proof.
    intros H m Hm. unfold refs. apply in_or_app. left. apply in_flat_map.
    exists (n, body). split; [apply assoc_In; exact H | exact Hm].
  Qed.

  Lemma view_env_mono g g' : (g <= g')%nat -> env_le (view_env g views base) (view_env g' views base).
  Proof.
    intros Hle n r. unfold view_env. destruct (assoc n views) as [d|]; [|auto].
    destruct (last_name (d_chain d)) as [l|]; [|auto].
    apply cte_env_mono; [exact Hle | apply env_le_refl].
  Qed.

  (** spliced query => user's query over the views' meanings *)
  Lemma splice_fwd : forall f n r, In n (refs q) ->
    cte_env f C' base (rho n) = Some r -> cte_env f U (view_env f views base) n = Some r.
  Proof.
    induction f as [|f IH]; intros n r Hn E.
    - destruct (assoc n U) as [body|] eqn:Eu.
      + pose proof (nc1 n body Eu) as Hv. unfold rho, rho_of in E. fold vs in E. rewrite Hv in E.
        cbn [cte_env] in E. rewrite (assoc_C'_user n body Eu) in E. discriminate.
      + cbn [cte_env]. rewrite Eu. destruct (mem n vs) eqn:Hv.
        * rewrite <- (view_lookup n Hn Hv Eu). exact E.
        * destruct (base_lookup n Hn Hv Eu 0%nat 0%nat) as [H1 H2]. rewrite H2, <- H1. exact E.
    - destruct (assoc n U) as [body|] eqn:Eu.
      + pose proof (nc1 n body Eu) as Hv. unfold rho, rho_of in E. fold vs in E. rewrite Hv in E.
        cbn [cte_env] in E. rewrite (assoc_C'_user n body Eu) in E.
        cbn [cte_env]. rewrite Eu.
        apply (eval_ren_l rho (cte_env f C' base)); [|exact E].
        intros m r' Hm Em.
        apply (cte_env_mono f f U (view_env f views base)); [lia | apply view_env_mono; lia |].
        apply IH; [eapply body_refs; eauto | exact Em].
      + cbn [cte_env]. rewrite Eu. destruct (mem n vs) eqn:Hv.
        * rewrite <- (view_lookup n Hn Hv Eu). exact E.
        * destruct (base_lookup n Hn Hv Eu (S f) (S f)) as [H1 H2]. rewrite H2, <- H1. exact E.
  Qed.

  (** user's query over the views' meanings => spliced query *)
  Lemma splice_bwd g : forall f n r, In n (refs q) ->
    cte_env f U (view_env g views base) n = Some r -> cte_env (f + g) C' base (rho n) = Some r.
  Proof.
    induction f as [|f IH]; intros n r Hn E.
    - cbn [cte_env] in E. destruct (assoc n U) as [body|] eqn:Eu; [discriminate|].
      destruct (mem n vs) eqn:Hv.
      + rewrite (view_lookup n Hn Hv Eu). exact E.
      + destruct (base_lookup n Hn Hv Eu (0 + g)%nat g) as [H1 H2]. rewrite H1, <- H2. exact E.
    - cbn [cte_env] in E. destruct (assoc n U) as [body|] eqn:Eu.
      + pose proof (nc1 n body Eu) as Hv. unfold rho, rho_of. fold vs. rewrite Hv.
        replace (S f + g)%nat with (S (f + g)) by lia.
        cbn [cte_env]. rewrite (assoc_C'_user n body Eu).
        apply (eval_ren_r rho (cte_env f U (view_env g views base))); [|exact E].
        intros m r' Hm Em. apply IH; [eapply body_refs; eauto | exact Em].
      + destruct (mem n vs) eqn:Hv.
        * rewrite (view_lookup n Hn Hv Eu).
          eapply view_env_mono; [|exact E]. lia.
        * destruct (base_lookup n Hn Hv Eu (S f + g)%nat g) as [H1 H2]. rewrite H1, <- H2. exact E.
  Qed.

  Lemma main_refs m : In m (names_sq (q_main q)) -> In m (refs q).
  Proof. intro H. unfold refs. apply in_or_app. right. exact H. Qed.

  Theorem splice_sound_sect : forall r,
    Run (splice so uo q views) base r <-> exists g, Run q (view_env g views base) r.
  Proof.
    intro r. unfold Run, run. cbn [splice q_ctes q_main]. fold rho. fold A. fold U. fold C'. split.
    - intros [f E]. exists f, f.
      apply (eval_ren_l rho (cte_env f C' base)); [|exact E].
      intros m r' Hm Em. apply splice_fwd; [apply main_refs; exact Hm | exact Em].
    - intros [g [f E]]. exists (f + g)%nat.
      apply (eval_ren_r rho (cte_env f U (view_env g views base))); [|exact E].
      intros m r' Hm Em. apply splice_bwd; [apply main_refs; exact Hm | exact Em].
  Qed.
End SpliceProof.

(** session.sql's splice is a sound substitution: for every query tree (joins, sub-queries, aggregates,
    CTEs, any nesting), every registry and every base environment, in both variants of the splice *)
Theorem splice_sound : forall so uo q views base r, no_capture so uo q views = true ->
  (Run (splice so uo q views) base r <-> exists g, Run q (view_env g views base) r).
Proof. intros so uo q views base r NC. apply (splice_sound_sect so uo q views base NC). Qed.

(** the views' meanings are monotone in the fuel, so "exists g" can be read as "for all large g" *)
Lemma Run_view_env_mono q views base r g g' :
  (g <= g')%nat -> Run q (view_env g views base) r -> Run q (view_env g' views base) r.
Proof.
  intros Hle [f E]. exists f. unfold run in *. eapply eval_sq_mono; [|exact E].
  apply cte_env_mono; [lia | apply view_env_mono; exact Hle].
Qed.

(** * renaming the CTEs of a query (session.sql gives the user's CTEs their hash names when it builds the
    DataFrame): a renaming that is injective on the names of the query and only touches CTE names does
    not change what the query returns *)
Definition sigma_of (names : list (string * string)) : string -> string :=
  fun n => match assoc n names with Some m => m | None => n end.

Definition alpha_ctes (names : list (string * string)) (q : query) : query :=
  let sg := sigma_of names in
  mkQuery (map (fun c => (sg (fst c), ren_sq sg (snd c))) (q_ctes q)) (ren_sq sg (q_main q)).

Definition query_names (q : query) : list string := map fst (q_ctes q) ++ refs q.

Definition alpha_ok (names : list (string * string)) (q : query) : bool :=
  let sg := sigma_of names in
  let l := query_names q in
  forallb (fun k => forallb (fun n => negb (String.eqb (sg k) (sg n)) || String.eqb k n) l) l
  && forallb (fun p => mem (fst p) (map fst (q_ctes q))) names.

Lemma eval_ren_eq_both rho (e1 e2 : env) :
  (forall q, (forall m, In m (names_sq q) -> e1 (rho m) = e2 m) -> eval_sq e1 (ren_sq rho q) = eval_sq e2 q) /\
  (forall f, (forall m, In m (names_from f) -> e1 (rho m) = e2 m) -> eval_from e1 (ren_from rho f) = eval_from e2 f).
Proof.
  apply sq_from_ind; intros; cbn [ren_sq ren_from eval_sq eval_from names_sq names_from] in *.
  - rewrite H; auto.
  - rewrite H; auto.
  - apply H; left; reflexivity.
  - reflexivity.
  - auto.
  - rewrite H, H0; auto; intros m Hm; apply H1; apply in_or_app; auto.
Qed.
Definition eval_ren_eq rho e1 e2 := proj1 (eval_ren_eq_both rho e1 e2).

Section Alpha.
  Variable names : list (string * string).
  Variable q : query.
  Variable base : env.
  Hypothesis OK : alpha_ok names q = true.

  Let sg := sigma_of names.
  Let C := q_ctes q.
  Let C2 := map (fun c => (sg (fst c), ren_sq sg (snd c))) C.

  Lemma sg_inj k n : In k (query_names q) -> In n (query_names q) -> sg k = sg n -> k = n.
  Proof.
    intros Hk Hn E. unfold alpha_ok in OK. apply andb_true_iff in OK. destruct OK as [H _].
    rewrite forallb_forall in H. specialize (H k Hk). rewrite forallb_forall in H. specialize (H n Hn).
    fold sg in H. rewrite E, String.eqb_refl in H. simpl in H. apply String.eqb_eq. exact H.
  Qed.

  Lemma sg_only_ctes n : assoc n C = None -> sg n = n.
  Proof.
    intro Hn. unfold sg, sigma_of. destruct (assoc n names) as [m|] eqn:E; [|reflexivity].
    exfalso. unfold alpha_ok in OK. apply andb_true_iff in OK. destruct OK as [_ H].
    rewrite forallb_forall in H. specialize (H _ (assoc_In _ _ _ E)). cbn [fst] in H.
    apply mem_In in H. apply in_map_iff in H. destruct H as [[k b] [Hk Hin]]. cbn in Hk. subst k.
    clear -Hn Hin. fold C in Hin. induction C as [|[k v] l IH]; [contradiction|].
    simpl in Hn. destruct (String.eqb k n) eqn:Ek; [discriminate|].
    destruct Hin as [Hin|Hin]; [inversion Hin; subst; rewrite String.eqb_refl in Ek; discriminate | auto].
  Qed.

  Lemma key_in_names k v : In (k, v) C -> In k (query_names q).
  Proof. intro H. unfold query_names. apply in_or_app. left. apply in_map_iff. exists (k, v). auto. Qed.

  Lemma assoc_C2 n : In n (query_names q) -> assoc (sg n) C2 = option_map (ren_sq sg) (assoc n C).
  Proof.
    intro Hn. unfold C2.
    assert (H : forall l, (forall k v, In (k, v) l -> In (k, v) C) ->
              assoc (sg n) (map (fun c => (sg (fst c), ren_sq sg (snd c))) l) = option_map (ren_sq sg) (assoc n l)).
    { induction l as [|[k v] l IH]; intro Hl; [reflexivity|]. cbn [map assoc fst snd].
      destruct (String.eqb k n) eqn:Ek.
      - apply String.eqb_eq in Ek. subst k. rewrite String.eqb_refl. reflexivity.
      - destruct (String.eqb (sg k) (sg n)) eqn:Es.
        + apply String.eqb_eq in Es. apply sg_inj in Es; [|eapply key_in_names; apply Hl; left; reflexivity | exact Hn].
          subst k. rewrite String.eqb_refl in Ek. discriminate.
        + apply IH. intros k' v' H'. apply Hl. right. exact H'. }
    apply H. auto.
  Qed.

  Lemma body_names n body m : assoc n C = Some body -> In m (names_sq body) -> In m (query_names q).
  Proof.
    intros H Hm. unfold query_names, refs. apply in_or_app. right. apply in_or_app. left.
    apply in_flat_map. exists (n, body). split; [apply assoc_In; exact H | exact Hm].
  Qed.

  Lemma alpha_env : forall f n, In n (query_names q) -> cte_env f C2 base (sg n) = cte_env f C base n.
  Proof.
    induction f as [|f IH]; intros n Hn; cbn [cte_env]; rewrite (assoc_C2 n Hn);
      destruct (assoc n C) as [body|] eqn:Eb; cbn [option_map]; try reflexivity.
    - rewrite (sg_only_ctes n Eb). reflexivity.
    - apply eval_ren_eq. intros m Hm. apply IH. eapply body_names; eauto.
    - rewrite (sg_only_ctes n Eb). reflexivity.
  Qed.

  Theorem alpha_sound_sect : forall f, run f (alpha_ctes names q) base = run f q base.
  Proof.
    intro f. unfold run, alpha_ctes. cbn [q_ctes q_main]. fold sg. fold C. fold C2.
    apply eval_ren_eq. intros m Hm. apply alpha_env.
    unfold query_names, refs. apply in_or_app. right. apply in_or_app. right. exact Hm.
  Qed.
End Alpha.

Theorem alpha_sound : forall names q base f, alpha_ok names q = true ->
  run f (alpha_ctes names q) base = run f q base.
Proof. intros names q base f OK. apply alpha_sound_sect. exact OK. Qed.
