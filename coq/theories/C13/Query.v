(** C13 -- a small SQL query language with environment semantics.

    [sq]    one SELECT (projection / filter / DISTINCT, or GROUP BY with COUNT-star / sum) over a FROM item
    [from]  a named source (table, view or CTE), a VALUES literal, a sub-query, an inner join of two items
    [query] WITH c1 AS (..), .., cn AS (..) main

    Environment semantics: [eval_sq env q], env : name -> option frame; [None] is "the engine raises".
    WITH follows DuckDB 1.2's scoping (validated by the engine-conformance part of T3): every CTE of the
    list is visible in every body and in the main SELECT, also *before* its definition; a circular
    reference is an error.  [cte_env f ctes base] resolves names with fuel [f] = nesting depth of CTE
    references explored; results are monotone in the fuel ([cte_env_mono]), so [Run q base r]
    (= some fuel yields r) is a partial function ([Run_functional]). *)
From SF Require Export Sql.Norm.
From Coq Require Import Permutation.
Open Scope string_scope.
Open Scope list_scope.

Inductive aggfn := ACountStar | ASum (c : string).

Inductive sq :=
| QSel (f : from) (w : list expr) (sel : option (list (expr * string))) (dist : bool)   (* sel = None: SELECT * *)
| QAgg (f : from) (w : list expr) (keys : list (string * string)) (aggs : list (aggfn * string))
with from :=
| FName (n : string)
| FVal (fr : frame)
| FSub (q : sq)
| FJoin (l : from) (la : string) (r : from) (ra : string) (on : expr).

Scheme sq_mut := Induction for sq Sort Prop
  with from_mut := Induction for from Sort Prop.
Combined Scheme sq_from_ind from sq_mut, from_mut.

Record query := mkQuery { q_ctes : list (string * sq); q_main : sq }.

Definition env := string -> option frame.

(** ** one SELECT over an evaluated FROM item *)
Definition qual (a : string) (cs : list string) : list string := map (fun c => String.append a (String.append "." c)) cs.

Definition join_frames (la ra : string) (on : expr) (l r : frame) : option frame :=
  let cs := qual la (cols l) ++ qual ra (cols r) in
  if cols_in cs on
  then Some (mkFrame cs (filter (fun row => holds cs row on)
                                (flat_map (fun x => map (fun y => x ++ y) (rows r)) (rows l))))
  else None.

Definition sel_frame (w : list expr) (sel : option (list (expr * string))) (dist : bool) (fr : frame)
  : option frame :=
  let cs := cols fr in
  if forallb (cols_in cs) w then
    match sel with
    | None => let rs := filter (all_hold cs w) (rows fr) in
              Some (mkFrame cs (if dist then dedup rs else rs))
    | Some items =>
        if forallb (fun it => cols_in cs (fst it)) items
        then Some (eval_block (mkBlock w items dist [] None) fr)
        else None
    end
  else None.

Definition sum_vals (vs : list val) : val :=
  fold_left (fun acc v => match v, acc with
                          | VInt z, VInt a => VInt (a + z)
                          | VInt z, _ => VInt z
                          | _, _ => acc end) vs VNull.
Definition agg_val (cs : list string) (grp : list row) (a : aggfn) : val :=
  match a with
  | ACountStar => VInt (Z.of_nat (List.length grp))
  | ASum c => sum_vals (map (fun r => eval cs r (ECol c)) grp)
  end.
Definition agg_frame (w : list expr) (keys : list (string * string)) (aggs : list (aggfn * string))
  (fr : frame) : option frame :=
  let cs := cols fr in
  if forallb (cols_in cs) w && forallb (fun k => mem (fst k) cs) keys
     && forallb (fun a => match fst a with ASum c => mem c cs | ACountStar => true end) aggs
  then
    let rs := filter (all_hold cs w) (rows fr) in
    let keyof := fun r => map (fun k => eval cs r (ECol (fst k))) keys in
    let ks := match keys with [] => [[]] | _ => dedup (map keyof rs) end in
    Some (mkFrame (map snd keys ++ map snd aggs)
            (map (fun k => k ++ map (fun a => agg_val cs (filter (fun r => row_eqb (keyof r) k) rs) (fst a)) aggs) ks))
  else None.

Fixpoint eval_sq (e : env) (q : sq) : option frame :=
  match q with
  | QSel f w sel d => match eval_from e f with Some fr => sel_frame w sel d fr | None => None end
  | QAgg f w ks ag => match eval_from e f with Some fr => agg_frame w ks ag fr | None => None end
  end
with eval_from (e : env) (f : from) : option frame :=
  match f with
  | FName n => e n
  | FVal fr => Some fr
  | FSub q => eval_sq e q
  | FJoin l la r ra on =>
      match eval_from e l, eval_from e r with
      | Some a, Some b => join_frames la ra on a b
      | _, _ => None
      end
  end.

(** ** names a query refers to, renaming of table references *)
Fixpoint names_sq (q : sq) : list string :=
  match q with QSel f _ _ _ | QAgg f _ _ _ => names_from f end
with names_from (f : from) : list string :=
  match f with
  | FName n => [n]
  | FVal _ => []
  | FSub q => names_sq q
  | FJoin l _ r _ _ => names_from l ++ names_from r
  end.

Fixpoint ren_sq (rho : string -> string) (q : sq) : sq :=
  match q with
  | QSel f w sel d => QSel (ren_from rho f) w sel d
  | QAgg f w ks ag => QAgg (ren_from rho f) w ks ag
  end
with ren_from (rho : string -> string) (f : from) : from :=
  match f with
  | FName n => FName (rho n)
  | FVal fr => FVal fr
  | FSub q => FSub (ren_sq rho q)
  | FJoin l la r ra on => FJoin (ren_from rho l) la (ren_from rho r) ra on
  end.

(** the substitution lemma on one SELECT tree (all shapes: joins, sub-queries, aggregates):
    if every referenced name, after renaming on either side, resolves at least as well in [e2] as in
    [e1], a successful evaluation is preserved *)
Lemma eval_ren_sim_both rho1 rho2 (e1 e2 : env) :
  (forall q, (forall m r, In m (names_sq q) -> e1 (rho1 m) = Some r -> e2 (rho2 m) = Some r) ->
             forall r, eval_sq e1 (ren_sq rho1 q) = Some r -> eval_sq e2 (ren_sq rho2 q) = Some r) /\
  (forall f, (forall m r, In m (names_from f) -> e1 (rho1 m) = Some r -> e2 (rho2 m) = Some r) ->
             forall r, eval_from e1 (ren_from rho1 f) = Some r -> eval_from e2 (ren_from rho2 f) = Some r).
Proof.
  apply sq_from_ind.
  - intros f IH w sel d H r E. cbn [ren_sq eval_sq names_sq] in *.
    destruct (eval_from e1 (ren_from rho1 f)) as [fr|] eqn:E1; [|discriminate].
    rewrite (IH H _ eq_refl). exact E.
  - intros f IH w ks ag H r E. cbn [ren_sq eval_sq names_sq] in *.
    destruct (eval_from e1 (ren_from rho1 f)) as [fr|] eqn:E1; [|discriminate].
    rewrite (IH H _ eq_refl). exact E.
  - intros n H r E. cbn in *. apply (H n); auto.
  - intros fr _ r E. exact E.
  - intros q IH H r E. cbn [ren_from eval_from names_from] in *. apply IH; assumption.
  - intros l IHl la r0 IHr ra on H r E. cbn [ren_from eval_from names_from] in *.
    destruct (eval_from e1 (ren_from rho1 l)) as [a|] eqn:Ea; [|discriminate].
    destruct (eval_from e1 (ren_from rho1 r0)) as [b|] eqn:Eb; [|discriminate].
    rewrite (IHl (fun m r' Hm => H m r' (in_or_app _ _ _ (or_introl Hm))) _ eq_refl).
    rewrite (IHr (fun m r' Hm => H m r' (in_or_app _ _ _ (or_intror Hm))) _ eq_refl).
    exact E.
Qed.

Lemma ren_id_both :
  (forall q, ren_sq (fun n => n) q = q) /\ (forall f, ren_from (fun n => n) f = f).
Proof.
  apply sq_from_ind; intros; cbn [ren_sq ren_from]; congruence.
Qed.
Definition ren_sq_id := proj1 ren_id_both.

Lemma ren_ext_both rho1 rho2 :
  (forall q, (forall m, In m (names_sq q) -> rho1 m = rho2 m) -> ren_sq rho1 q = ren_sq rho2 q) /\
  (forall f, (forall m, In m (names_from f) -> rho1 m = rho2 m) -> ren_from rho1 f = ren_from rho2 f).
Proof.
  apply sq_from_ind; intros; cbn [ren_sq ren_from names_sq names_from] in *.
  - f_equal; auto.
  - f_equal; auto.
  - f_equal. apply H; left; reflexivity.
  - reflexivity.
  - f_equal; auto.
  - f_equal; [apply H | apply H0]; intros m Hm; apply H1; apply in_or_app; auto.
Qed.

Lemma ren_sq_fix rho q : (forall m, In m (names_sq q) -> rho m = m) -> ren_sq rho q = q.
Proof.
  intro H. rewrite <- (ren_sq_id q) at 2. apply (proj1 (ren_ext_both rho (fun n => n))). exact H.
Qed.

(** renaming on the left only / on the right only *)
Lemma eval_ren_l rho (e1 e2 : env) q r :
  (forall m r', In m (names_sq q) -> e1 (rho m) = Some r' -> e2 m = Some r') ->
  eval_sq e1 (ren_sq rho q) = Some r -> eval_sq e2 q = Some r.
Proof.
  intros H E. rewrite <- (ren_sq_id q).
  exact (proj1 (eval_ren_sim_both rho (fun n => n) e1 e2) q H r E).
Qed.
Lemma eval_ren_r rho (e1 e2 : env) q r :
  (forall m r', In m (names_sq q) -> e1 m = Some r' -> e2 (rho m) = Some r') ->
  eval_sq e1 q = Some r -> eval_sq e2 (ren_sq rho q) = Some r.
Proof.
  intros H E. rewrite <- (ren_sq_id q) in E.
  exact (proj1 (eval_ren_sim_both (fun n => n) rho e1 e2) q H r E).
Qed.

(** evaluation depends only on the names mentioned *)
Lemma eval_ext_both (e1 e2 : env) :
  (forall q, (forall m, In m (names_sq q) -> e1 m = e2 m) -> eval_sq e1 q = eval_sq e2 q) /\
  (forall f, (forall m, In m (names_from f) -> e1 m = e2 m) -> eval_from e1 f = eval_from e2 f).
Proof.
  apply sq_from_ind; intros; cbn [eval_sq eval_from names_sq names_from] in *.
  - rewrite H; auto.
  - rewrite H; auto.
  - apply H; left; reflexivity.
  - reflexivity.
  - auto.
  - rewrite H, H0; auto; intros m Hm; apply H1; apply in_or_app; auto.
Qed.
Definition eval_sq_ext e1 e2 := proj1 (eval_ext_both e1 e2).

Definition env_le (e1 e2 : env) : Prop := forall n r, e1 n = Some r -> e2 n = Some r.

Lemma eval_sq_mono e1 e2 q r : env_le e1 e2 -> eval_sq e1 q = Some r -> eval_sq e2 q = Some r.
Proof.
  intros H E. apply (eval_ren_l (fun n => n) e1 e2); [|rewrite ren_sq_id; exact E].
  intros m r' _ Hm. apply H; exact Hm.
Qed.

(** ** WITH lists *)
Fixpoint assoc {A} (n : string) (l : list (string * A)) : option A :=
  match l with
  | [] => None
  | (k, v) :: l' => if String.eqb k n then Some v else assoc n l'
  end.

Definition is_some {A} (o : option A) : bool := match o with Some _ => true | None => false end.

Fixpoint cte_env (f : nat) (ctes : list (string * sq)) (base : env) : env :=
  fun n => match assoc n ctes with
           | None => base n
           | Some body => match f with
                          | O => None
                          | S f' => eval_sq (cte_env f' ctes base) body
                          end
           end.

Definition run (f : nat) (q : query) (base : env) : option frame :=
  eval_sq (cte_env f (q_ctes q) base) (q_main q).

Definition Run (q : query) (base : env) (r : frame) : Prop := exists f, run f q base = Some r.

Lemma cte_env_mono f : forall f' ctes b1 b2,
  (f <= f')%nat -> env_le b1 b2 -> env_le (cte_env f ctes b1) (cte_env f' ctes b2).
Proof.
  induction f as [|f IH]; intros f' ctes b1 b2 Hle Hb n r E.
  - cbn [cte_env] in *. destruct (assoc n ctes) as [body|] eqn:Ea; [discriminate|].
    destruct f'; cbn [cte_env]; rewrite Ea; auto.
  - destruct f' as [|f']; [lia|]. cbn [cte_env] in *.
    destruct (assoc n ctes) as [body|] eqn:Ea; [|auto].
    eapply eval_sq_mono; [|exact E]. apply IH; [lia | exact Hb].
Qed.

Lemma env_le_refl e : env_le e e.
Proof. intros n r H; exact H. Qed.

Lemma run_mono f f' q base r : (f <= f')%nat -> run f q base = Some r -> run f' q base = Some r.
Proof.
  unfold run. intros Hle E. eapply eval_sq_mono; [|exact E].
  apply cte_env_mono; [exact Hle | apply env_le_refl].
Qed.

(** the engine's answer, when there is one, is unique *)
Theorem Run_functional q base r1 r2 : Run q base r1 -> Run q base r2 -> r1 = r2.
Proof.
  intros [f1 E1] [f2 E2].
  apply (run_mono f1 (Nat.max f1 f2)) in E1; [|lia].
  apply (run_mono f2 (Nat.max f1 f2)) in E2; [|lia].
  congruence.
Qed.

Lemma assoc_map_snd {A B} (g : A -> B) n (l : list (string * A)) :
  assoc n (map (fun c => (fst c, g (snd c))) l) = option_map g (assoc n l).
Proof.
  induction l as [|[k v] l IH]; simpl; [reflexivity|].
  destruct (String.eqb k n); [reflexivity | exact IH].
Qed.

Lemma assoc_app {A} n (l1 l2 : list (string * A)) :
  assoc n (l1 ++ l2) = match assoc n l1 with Some v => Some v | None => assoc n l2 end.
Proof.
  induction l1 as [|[k v] l1 IH]; simpl; [reflexivity|].
  destruct (String.eqb k n); [reflexivity | exact IH].
Qed.

Lemma assoc_In {A} n (l : list (string * A)) v : assoc n l = Some v -> In (n, v) l.
Proof.
  induction l as [|[k w] l IH]; simpl; [discriminate|].
  destruct (String.eqb k n) eqn:E.
  - apply String.eqb_eq in E. intro H; inversion H; subst. left; reflexivity.
  - intro H; right; auto.
Qed.

(** ** structural equality of queries (used by the capture check) *)
Definition frame_eqb (a b : frame) : bool :=
  list_eqb String.eqb (cols a) (cols b) && list_eqb row_eqb (rows a) (rows b).
Definition aggfn_eqb (a b : aggfn) : bool :=
  match a, b with
  | ACountStar, ACountStar => true
  | ASum x, ASum y => String.eqb x y
  | _, _ => false
  end.
Definition opt_items_eqb (a b : option (list (expr * string))) : bool :=
  match a, b with
  | None, None => true
  | Some x, Some y => list_eqb item_eqb x y
  | _, _ => false
  end.
Definition key_eqb (a b : string * string) : bool := String.eqb (fst a) (fst b) && String.eqb (snd a) (snd b).
Definition agg_eqb (a b : aggfn * string) : bool := aggfn_eqb (fst a) (fst b) && String.eqb (snd a) (snd b).

Fixpoint sq_eqb (a b : sq) : bool :=
  match a, b with
  | QSel f w s d, QSel f' w' s' d' =>
      from_eqb f f' && list_eqb expr_eqb w w' && opt_items_eqb s s' && Bool.eqb d d'
  | QAgg f w k g, QAgg f' w' k' g' =>
      from_eqb f f' && list_eqb expr_eqb w w' && list_eqb key_eqb k k' && list_eqb agg_eqb g g'
  | _, _ => false
  end
with from_eqb (a b : from) : bool :=
  match a, b with
  | FName n, FName m => String.eqb n m
  | FVal x, FVal y => frame_eqb x y
  | FSub p, FSub q => sq_eqb p q
  | FJoin l la r ra on, FJoin l' la' r' ra' on' =>
      from_eqb l l' && String.eqb la la' && from_eqb r r' && String.eqb ra ra' && expr_eqb on on'
  | _, _ => false
  end.

Lemma item_eqb_eq x y : item_eqb x y = true -> x = y.
Proof.
  destruct x as [e1 s1], y as [e2 s2]. unfold item_eqb; simpl. intro E.
  apply andb_true_iff in E. destruct E as [E1 E2]. apply expr_eqb_eq in E1. apply String.eqb_eq in E2.
  congruence.
Qed.

Lemma frame_eqb_eq a b : frame_eqb a b = true -> a = b.
Proof.
  destruct a as [c1 r1], b as [c2 r2]. unfold frame_eqb; simpl. intro E.
  apply andb_true_iff in E. destruct E as [E1 E2].
  apply (list_eqb_eq String.eqb) in E1; [|intros x y; apply String.eqb_eq].
  apply (list_eqb_eq row_eqb) in E2; [|intros x y; apply row_eqb_eq].
  congruence.
Qed.

Lemma sq_eqb_eq_both :
  (forall a b, sq_eqb a b = true -> a = b) /\ (forall a b, from_eqb a b = true -> a = b).
Proof.
  apply sq_from_ind.
  - intros f IH w s d [f' w' s' d'|] E; cbn [sq_eqb] in E; [|discriminate].
    repeat (apply andb_true_iff in E; let E2 := fresh "E" in destruct E as [E E2]).
    apply IH in E. apply (list_eqb_eq expr_eqb) in E2; [|intros x y; apply expr_eqb_eq].
    apply Bool.eqb_prop in E0. subst. f_equal.
    destruct s, s'; simpl in E1; try discriminate; auto.
    f_equal. apply (list_eqb_eq item_eqb); auto. intros x y; apply item_eqb_eq.
  - intros f IH w k g [|f' w' k' g'] E; cbn [sq_eqb] in E; [discriminate|].
    repeat (apply andb_true_iff in E; let E2 := fresh "E" in destruct E as [E E2]).
    apply IH in E. apply (list_eqb_eq expr_eqb) in E2; [|intros x y; apply expr_eqb_eq].
    apply (list_eqb_eq key_eqb) in E1.
    2:{ intros [x1 x2] [y1 y2] H. unfold key_eqb in H; simpl in H. apply andb_true_iff in H.
        destruct H as [H1 H2]. apply String.eqb_eq in H1, H2. congruence. }
    apply (list_eqb_eq agg_eqb) in E0.
    2:{ intros [x1 x2] [y1 y2] H. unfold agg_eqb in H; simpl in H. apply andb_true_iff in H.
        destruct H as [H1 H2]. apply String.eqb_eq in H2.
        destruct x1, y1; simpl in H1; try discriminate; [congruence|].
        apply String.eqb_eq in H1. congruence. }
    congruence.
  - intros n [m| | |] E; cbn [from_eqb] in E; try discriminate. apply String.eqb_eq in E. congruence.
  - intros fr [|y| |] E; cbn [from_eqb] in E; try discriminate. apply frame_eqb_eq in E. congruence.
  - intros q IH [| |p|] E; cbn [from_eqb] in E; try discriminate. apply IH in E. congruence.
  - intros l IHl la r IHr ra on [| | |l' la' r' ra' on'] E; cbn [from_eqb] in E; try discriminate.
    repeat (apply andb_true_iff in E; let E2 := fresh "E" in destruct E as [E E2]).
    apply IHl in E. apply String.eqb_eq in E3. apply IHr in E2. apply String.eqb_eq in E1.
    apply expr_eqb_eq in E0. congruence.
Qed.
Definition sq_eqb_eq := proj1 sq_eqb_eq_both.
