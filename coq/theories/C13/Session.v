(** C13 -- the session state machine: temp-view registry, schema cache, heap of DataFrames, and the
    value-semantics specification it is compared with.

    A history is a list of steps: register / re-register a DataFrame under a name, look a name up with
    session.table, run session.sql on a query, transform an existing DataFrame (where, join back),
    observe an existing DataFrame again.  The model is parametric in the facts regenerated from the
    source ([cfg]): add-if-absent schema cache, what createOrReplaceTempView stores and under which key,
    that reader.table looks at temp views first. *)
From SF Require Export C13.Splice.
From Coq Require Import Ascii.
Open Scope string_scope.
Open Scope list_scope.

(** * identifier normalisation (Spark input dialect: unquoted identifiers are lower-cased) *)
Definition lower_ascii (c : ascii) : ascii :=
  let n := nat_of_ascii c in
  if (65 <=? n)%nat && (n <=? 90)%nat then ascii_of_nat (n + 32) else c.
Fixpoint lower (s : string) : string :=
  match s with EmptyString => EmptyString | String c s' => String (lower_ascii c) (lower s') end.

Inductive normk := NLower | NRaw.   (* normalize_string(name, from_dialect="input"[, is_table=True]) | the raw name *)
Definition norm_key (k : normk) (s : string) : string := match k with NLower => lower s | NRaw => s end.
Definition normk_eqb (a b : normk) : bool := match a, b with NLower, NLower | NRaw, NRaw => true | _, _ => false end.

Record cfg := mkCfg {
  c_add_if_absent : bool;    (* catalog.add_table returns early when the table is already cached *)
  c_frozen : bool;           (* createOrReplaceTempView stores <..>._convert_leaf_to_cte() *)
  c_copy : bool;             (* ... of a fresh object (self.copy() / _convert_leaf_to_cte's own copy) *)
  c_views_first : bool;      (* reader.table consults session.temp_views before the catalog *)
  c_reg_norm : normk;        (* key normalisation in createOrReplaceTempView *)
  c_tbl_norm : normk;        (* key normalisation in reader.table *)
  c_assign_first : bool;     (* the registry is written before catalog.add_table is called *)
  c_skip_own_ctes : bool;    (* session.sql: a table reference named like a CTE of the query itself is left alone *)
  c_user_refs_only : bool;   (* session.sql: only the references of the user's query are retargeted, not the equal-
                                looking ones inside the added view CTEs *)
  c_hash_user_ctes : bool }. (* session.sql: the CTEs the user named are renamed (hash names) when the frame is built *)

Definition cfg_ok (c : cfg) : bool :=
  c_frozen c && c_copy c && c_views_first c
  && normk_eqb (c_reg_norm c) NLower && normk_eqb (c_tbl_norm c) NLower.

(** * DataFrames of the model *)
Definition static_cols (q : sq) : list string :=
  match q with
  | QSel _ _ (Some items) _ => map snd items
  | QSel _ _ None _ => ["*"]
  | QAgg _ _ ks ag => map snd ks ++ map snd ag
  end.
Definition has_star (cs : list string) : bool := mem "*" cs.
Definition sel_of_static (cs : list string) : option (list (expr * string)) :=
  if has_star cs then None else Some (passthrough cs).

(** _convert_leaf_to_cte: the open SELECT becomes a CTE; the new leaf selects its columns by name *)
Definition freeze (nm : string) (d : df) : df :=
  mkDf (d_chain d ++ [(nm, d_leaf d)])
       (QSel (FName nm) [] (sel_of_static (static_cols (d_leaf d))) false).

Definition eval_df (f : nat) (d : df) (base : env) : option frame :=
  eval_sq (cte_env f (d_chain d) base) (d_leaf d).

Fixpoint digits (fuel n : nat) (acc : string) : string :=
  match fuel with
  | O => acc
  | S fu => let acc' := String (ascii_of_nat (48 + n mod 10)) acc in
            if (n / 10 =? 0)%nat then acc' else digits fu (n / 10) acc'
  end.
Definition fresh (k : nat) : string := String "t" (digits (S k) k "").

(** * sqlglot's qualify, as far as it depends on the schema cache
    - the columns of a source are known when it is a cached name, a CTE / sub-query whose own columns are
      known, or a VALUES literal;
    - over a source with known columns `*` is expanded to them and a column they do not list is an error;
    - when the cache is not empty, an *unqualified* column over a source with unknown columns (a real table
      the cache has not seen, directly or through `*`) cannot be resolved: error. *)
Definition colinfo := string -> option (list string).

Fixpoint out_cols_sq (info : colinfo) (q : sq) : option (list string) :=
  match q with
  | QSel f _ (Some items) _ => Some (map snd items)
  | QSel f _ None _ => from_cols info f
  | QAgg _ _ ks ag => Some (map snd ks ++ map snd ag)
  end
with from_cols (info : colinfo) (f : from) : option (list string) :=
  match f with
  | FName n => info n
  | FVal fr => Some (cols fr)
  | FSub q => out_cols_sq info q
  | FJoin l la r ra _ =>
      match from_cols info l, from_cols info r with
      | Some a, Some b => Some (qual la a ++ qual ra b)
      | _, _ => None
      end
  end.

Definition cache_cols (cache : list (string * list string)) (n : string) : option (list string) :=
  match assoc n cache with Some [] => None | o => o end.

(** a CTE body sees the cache and the CTEs defined before it (sqlglot's scopes are built in order; the
    CTE's own name inside its body still means the outer table) *)
Definition info_upd (info : colinfo) (n : string) (v : option (list string)) : colinfo :=
  fun m => if String.eqb n m then v else info m.

Definition is_join (f : from) : bool := match f with FJoin _ _ _ _ _ => true | _ => false end.
Definition nonempty {A} (l : list A) : bool := match l with [] => false | _ => true end.

(** a qualified reference a.c is checked against side a when that side's columns are known *)
Definition side_ok (info : colinfo) (s : from) (a : string) (ref : string) : bool :=
  if String.prefix (String.append a ".") ref
  then match from_cols info s with Some cs => mem ref (qual a cs) | None => true end
  else true.
Definition refs_ok (info : colinfo) (schema_nonempty : bool) (f : from) (refs : list string) : bool :=
  match f with
  | FJoin l la r ra _ => forallb (fun x => side_ok info l la x && side_ok info r ra x) refs
  | _ => match from_cols info f with
         | Some cs => forallb (fun x => mem x cs) refs
         | None => negb (schema_nonempty && nonempty refs)
         end
  end.

Definition sel_refs (w : list expr) (sel : option (list (expr * string))) : list string :=
  flat_map ecols w ++ match sel with Some items => flat_map (fun it => ecols (fst it)) items | None => [] end.
Definition agg_refs (w : list expr) (ks : list (string * string)) (ag : list (aggfn * string)) : list string :=
  flat_map ecols w ++ map fst ks
  ++ flat_map (fun a => match fst a with ASum c => [c] | ACountStar => [] end) ag.

(** With an EMPTY schema sqlglot expands references to select aliases before it resolves columns
    (qualify_columns: `schema.empty` => early _expand_alias_refs): an unqualified column of WHERE /
    GROUP BY / a later select item whose name equals an output alias is replaced by that alias's
    expression -- also when the name is a real input column. *)
Fixpoint subst_expr (m : list (string * expr)) (e : expr) : expr :=
  match e with
  | ECol n => match assoc n m with Some x => x | None => e end
  | ELit _ => e
  | EBin o a b => EBin o (subst_expr m a) (subst_expr m b)
  | ENot a => ENot (subst_expr m a)
  | ENeg a => ENeg (subst_expr m a)
  | EIsNull a => EIsNull (subst_expr m a)
  | EIf c t e' => EIf (subst_expr m c) (subst_expr m t) (subst_expr m e')
  | ECoalesce a b => ECoalesce (subst_expr m a) (subst_expr m b)
  end.
Fixpoint expand_items (m : list (string * expr)) (items : list (expr * string))
  : list (expr * string) * list (string * expr) :=
  match items with
  | [] => ([], m)
  | (e, a) :: rest =>
      let e' := subst_expr m e in
      let '(rest', m') := expand_items ((a, e') :: m) rest in
      ((e', a) :: rest', m')
  end.
(** an aggregate that lands in WHERE / GROUP BY makes the engine reject the query *)
Definition agg_in_where : list expr := [ECol "<aggregate in WHERE or GROUP BY>"].

Definition early_alias_expansion (q : sq) : sq :=
  match q with
  | QSel f w (Some items) d =>
      let '(items', m) := expand_items [] items in
      QSel f (map (subst_expr m) w) (Some items') d
  | QSel _ _ None _ => q
  | QAgg f w ks ag =>
      let aggal := map snd ag in
      let km := rev (map (fun k => (snd k, ECol (fst k))) ks) in
      if existsb (fun r => mem r aggal) (flat_map ecols w) || existsb (fun k => mem (fst k) aggal) ks
      then QAgg f agg_in_where ks ag
      else QAgg f (map (subst_expr km) w) ks ag
  end.

Fixpoint qualify_sq (info : colinfo) (ne : bool) (q : sq) : option sq :=
  match q with
  | QSel f w sel d =>
      match qualify_from info ne f with
      | None => None
      | Some f' =>
          if refs_ok info ne f (sel_refs w sel)
          then Some ((if ne then fun x => x else early_alias_expansion)
                       (QSel f' w (match sel with
                                   | None => if is_join f then None
                                             else match from_cols info f with
                                                  | Some cs => Some (passthrough cs)
                                                  | None => None
                                                  end
                                   | s => s end) d))
          else None
      end
  | QAgg f w ks ag =>
      match qualify_from info ne f with
      | None => None
      | Some f' => if refs_ok info ne f (agg_refs w ks ag)
                   then Some ((if ne then fun x => x else early_alias_expansion) (QAgg f' w ks ag)) else None
      end
  end
with qualify_from (info : colinfo) (ne : bool) (f : from) : option from :=
  match f with
  | FName n => Some (FName n)
  | FVal fr => Some (FVal fr)
  | FSub q => option_map FSub (qualify_sq info ne q)
  | FJoin l la r ra on =>
      match qualify_from info ne l, qualify_from info ne r with
      | Some l', Some r' => if refs_ok info ne f (ecols on) then Some (FJoin l' la r' ra on) else None
      | _, _ => None
      end
  end.

Fixpoint qualify_ctes (info : colinfo) (ne : bool) (l : list (string * sq))
  : option (list (string * sq) * colinfo) :=
  match l with
  | [] => Some ([], info)
  | (n, b) :: l' =>
      match qualify_sq info ne b with
      | None => None
      | Some b' =>
          match qualify_ctes (info_upd info n (out_cols_sq info b)) ne l' with
          | Some (l'', info') => Some ((n, b') :: l'', info')
          | None => None
          end
      end
  end.
Definition qualify (cache : list (string * list string)) (q : query) : option query :=
  let ne := nonempty cache in
  match qualify_ctes (cache_cols cache) ne (q_ctes q) with
  | Some (cs, info) =>
      match qualify_sq info ne (q_main q) with
      | Some m => Some (mkQuery cs m)
      | None => None
      end
  | None => None
  end.

(** the parser lower-cases every unquoted identifier of the query (table names, CTE names) *)
Definition lower_query (q : query) : query :=
  mkQuery (map (fun c => (lower (fst c), ren_sq lower (snd c))) (q_ctes q)) (ren_sq lower (q_main q)).

(** the names session.sql gives to the query's own CTEs (model: the counter after the name of the frozen main SELECT) *)
Fixpoint number_from (k : nat) (l : list string) : list (string * string) :=
  match l with [] => [] | n :: l' => (n, fresh k) :: number_from (S k) l' end.
Definition user_cte_names (next : nat) (q1 : query) : list (string * string) :=
  number_from (S next) (map fst (q_ctes q1)).

(** * the model's state machine *)
Record state := mkSt {
  s_views : registry;
  s_cache : list (string * list string);
  s_heap : list (option df);
  s_next : nat }.

Inductive step :=
| SReg (name : string) (h : nat)
| STable (name : string)
| SSql (q : query)
| SWhere (h : nat) (e : expr)
| SJoinB (h1 h2 : nat) (k : string) (rcols : list string)
| SObs (h : nat).

Definition heap_get {A} (heap : list (option A)) (h : nat) : option A :=
  match nth_error heap h with Some (Some d) => Some d | _ => None end.

Definition cache_add (c : cfg) (key : string) (cs : list string) (cache : list (string * list string)) :=
  if c_add_if_absent c && is_some (assoc key cache) then cache else (key, cs) :: cache.

Definition suffix_r (c : string) : string := String.append c "_r".
Definition lq (c : string) : string := String.append "l." c.
Definition rq (c : string) : string := String.append "r." c.

Definition join_leaf (n2 n3 k : string) (lcols rcols : list string) : sq :=
  QSel (FJoin (FName n2) "l" (FName n3) "r" (EBin Eq (ECol (lq k)) (ECol (rq k)))) []
       (Some ((ECol (lq k), k)
              :: map (fun c => (ECol (lq c), c)) (filter (fun c => negb (String.eqb c k)) lcols)
              ++ map (fun c => (ECol (rq (suffix_r c)), suffix_r c)) rcols)) false.
Definition right_sel (n1 k : string) (rcols : list string) : sq :=
  QSel (FName n1) [] (Some ((ECol k, k) :: map (fun c => (ECol c, suffix_r c)) rcols)) false.

(** what a step returns to the caller: nothing (register), a DataFrame, or an exception *)
Inductive outcome := ONone | ODf (d : df) | OErr.

Section Machine.
  Variable c : cfg.
  Variable tables : list (string * frame).

  Definition base : env := fun n => assoc n tables.

  Definition push (st : state) (o : option df) (used : nat) : state :=
    mkSt (s_views st) (s_cache st) (s_heap st ++ [o]) (s_next st + used).

  Definition mstep (st : state) (s : step) : state * outcome :=
    match s with
    | SReg name h =>
        match heap_get (s_heap st) h with
        | Some d =>
            let key := norm_key (c_reg_norm c) name in
            let d' := if c_frozen c then freeze (fresh (s_next st)) d else d in
            let cs := static_cols (d_leaf d') in
            (* temp_views[name] = df happens before catalog.add_table; add_table returns early when the key
               is cached and otherwise raises on a `*` column *)
            let hit := c_add_if_absent c && is_some (assoc key (s_cache st)) in
            if negb hit && has_star cs
            then (mkSt (if c_assign_first c then (key, d') :: s_views st else s_views st)
                       (s_cache st) (s_heap st) (S (s_next st)), OErr)
            else (mkSt ((key, d') :: s_views st) (cache_add c key cs (s_cache st)) (s_heap st) (S (s_next st)), ONone)
        | None => (st, OErr)
        end
    | STable name =>
        let key := norm_key (c_tbl_norm c) name in
        let from_table :=
          match assoc key tables with
          | Some fr =>
              let cache' := cache_add c key (cols fr) (s_cache st) in
              let cs := match assoc key cache' with Some cs => cs | None => cols fr end in
              let d := mkDf [] (QSel (FName key) [] (Some (passthrough cs)) false) in
              (mkSt (s_views st) cache' (s_heap st ++ [Some d]) (s_next st), ODf d)
          | None =>
              (* the engine does not know the table: an existing entry is kept, otherwise an entry without columns is made *)
              (mkSt (s_views st) (if is_some (assoc key (s_cache st)) then s_cache st else (key, []) :: s_cache st)
                    (s_heap st ++ [None]) (s_next st), OErr)
          end in
        match (if c_views_first c then assoc key (s_views st) else None) with
        | Some d => (push st (Some d) 0, ODf d)
        | None =>
            match assoc key tables, assoc key (s_views st) with
            | None, Some d => (push st (Some d) 0, ODf d)
            | _, _ => from_table
            end
        end
    | SSql q =>
        match qualify (s_cache st) (lower_query q) with
        | None => (push st None 0, OErr)
        | Some q1 =>
            if forallb (fun v => match assoc v (s_views st) with
                                 | Some d => is_some (last_name (d_chain d)) | None => true end)
                       (view_refs (c_skip_own_ctes c) q1 (s_views st))
            then
              let sp0 := splice (c_skip_own_ctes c) (c_user_refs_only c) q1 (s_views st) in
              let nm := fresh (s_next st) in
              let k := List.length (q_ctes q1) in
              let sp := if c_hash_user_ctes c then alpha_ctes (user_cte_names (s_next st) q1) sp0 else sp0 in
              let d := mkDf (q_ctes sp ++ [(nm, q_main sp)])
                            (QSel (FName nm) [] (sel_of_static (static_cols (q_main sp))) false) in
              (push st (Some d) (S k), ODf d)
            else (push st None 0, OErr)
        end
    | SWhere h e =>
        match heap_get (s_heap st) h with
        | Some d =>
            let nm := fresh (s_next st) in
            let d' := mkDf (d_chain d ++ [(nm, d_leaf d)])
                           (QSel (FName nm) [e] (sel_of_static (static_cols (d_leaf d))) false) in
            (push st (Some d') 1, ODf d')
        | None => (push st None 0, OErr)
        end
    | SJoinB h1 h2 k rcols =>
        match heap_get (s_heap st) h1, heap_get (s_heap st) h2 with
        | Some d1, Some d2 =>
            (* the left frame's columns must be known to resolve the key; the right one is projected by name first *)
            if has_star (static_cols (d_leaf d1))
            then (push st None 0, OErr)
            else
              let n1 := fresh (s_next st) in
              let n2 := fresh (S (s_next st)) in
              let n3 := fresh (S (S (s_next st))) in
              let chain := add_chain (d_chain d1 ++ [(n2, d_leaf d1)])
                                     (d_chain d2 ++ [(n1, d_leaf d2); (n3, right_sel n1 k rcols)]) in
              let d := mkDf chain (join_leaf n2 n3 k (static_cols (d_leaf d1)) rcols) in
              (push st (Some d) 3, ODf d)
        | _, _ => (push st None 0, OErr)
        end
    | SObs h =>
        match heap_get (s_heap st) h with
        | Some d => (st, ODf d)
        | None => (st, OErr)
        end
    end.

  Fixpoint mrun (st : state) (steps : list step) : state :=
    match steps with [] => st | s :: rest => mrun (fst (mstep st s)) rest end.

  (** session.table after the steps *)
  Definition lookup_table (st : state) (name : string) : option df :=
    match snd (mstep st (STable name)) with ODf d => Some d | _ => None end.

  (** ** history theorems *)

  Lemma heap_get_app {A} (heap : list (option A)) x h d :
    heap_get heap h = Some d -> heap_get (heap ++ x) h = Some d.
  Proof.
    unfold heap_get. intro H. destruct (nth_error heap h) as [o|] eqn:E; [|discriminate].
    rewrite nth_error_app1; [rewrite E; exact H|]. apply nth_error_Some. congruence.
  Qed.

  Ltac break_match :=
    repeat match goal with
           | |- context [match ?x with _ => _ end] => destruct x eqn:?
           end.

  Lemma mstep_heap_grows st s : exists x, s_heap (fst (mstep st s)) = s_heap st ++ x.
  Proof.
    destruct s; cbn [mstep]; break_match; cbn [fst push s_heap];
      first [ exists []; rewrite app_nil_r; reflexivity | eexists; reflexivity ].
  Qed.

  (** what collecting handle h returns (fuel f), None when the handle is dead or the engine raises *)
  Definition meaning (st : state) (h : nat) (f : nat) : option frame :=
    match heap_get (s_heap st) h with Some d => eval_df f d base | None => None end.

  (** DataFrames already built keep their definition -- hence their meaning, which is a function of the
      definition and the base tables only -- through every later history (registrations and
      re-registrations of any name included) *)
  Theorem earlier_frames_unchanged : forall steps st h d,
    heap_get (s_heap st) h = Some d ->
    heap_get (s_heap (mrun st steps)) h = Some d
    /\ forall f, meaning (mrun st steps) h f = meaning st h f.
  Proof.
    assert (H0 : forall steps st h d, heap_get (s_heap st) h = Some d ->
                 heap_get (s_heap (mrun st steps)) h = Some d).
    { induction steps as [|s steps IH]; intros st h d H; cbn [mrun]; [exact H|].
      apply IH. destruct (mstep_heap_grows st s) as [x Hx]. rewrite Hx. apply heap_get_app. exact H. }
    intros steps st h d H. split; [apply H0; exact H|].
    intro f. unfold meaning. rewrite (H0 steps st h d H), H. reflexivity.
  Qed.

  Definition stored (st : state) (d : df) : df := if c_frozen c then freeze (fresh (s_next st)) d else d.

  Lemma lower_idem s : lower (lower s) = lower s.
  Proof.
    induction s as [|a s IH]; cbn [lower]; [reflexivity|]. f_equal; [|exact IH].
    unfold lower_ascii.
    destruct ((65 <=? nat_of_ascii a)%nat && (nat_of_ascii a <=? 90)%nat) eqn:E.
    - apply andb_true_iff in E. destruct E as [E1 E2]. apply Nat.leb_le in E1, E2.
      rewrite nat_ascii_embedding by lia.
      destruct ((65 <=? nat_of_ascii a + 32)%nat && (nat_of_ascii a + 32 <=? 90)%nat) eqn:E3; [|reflexivity].
      apply andb_true_iff in E3. destruct E3 as [_ E4]. apply Nat.leb_le in E4. lia.
    - rewrite E. reflexivity.
  Qed.

  Lemma cfg_ok_inv : cfg_ok c = true ->
    c_frozen c = true /\ c_views_first c = true /\ c_reg_norm c = NLower /\ c_tbl_norm c = NLower.
  Proof.
    unfold cfg_ok. intro Hc.
    repeat (apply andb_true_iff in Hc; let H2 := fresh "Hc" in destruct Hc as [Hc H2]).
    destruct (c_reg_norm c); [|discriminate]. destruct (c_tbl_norm c); [|discriminate]. auto.
  Qed.

  Lemma lookup_table_view st name d : cfg_ok c = true ->
    assoc (lower name) (s_views st) = Some d -> lookup_table st name = Some d.
  Proof.
    intros Hc Ha. destruct (cfg_ok_inv Hc) as [_ [Hvf [_ Ht]]].
    unfold lookup_table. cbn [mstep]. rewrite Ht, Hvf. cbn [norm_key]. rewrite Ha. reflexivity.
  Qed.

  Lemma reg_views st name h d : cfg_ok c = true -> heap_get (s_heap st) h = Some d ->
    snd (mstep st (SReg name h)) = ONone ->
    assoc (lower name) (s_views (fst (mstep st (SReg name h)))) = Some (stored st d).
  Proof.
    intros Hc Hh. destruct (cfg_ok_inv Hc) as [Hf [_ [Hr _]]].
    cbn [mstep]. rewrite Hh, Hr. cbn [norm_key]. unfold stored. rewrite Hf.
    destruct (negb _ && has_star _); cbn [fst snd s_views assoc]; [discriminate|].
    intros _. rewrite String.eqb_refl; reflexivity.
  Qed.

  (** after createOrReplaceTempView(name) of a live DataFrame has returned, session.table(name') finds
      the stored frame for every spelling name' that normalises like name (all case variants) *)
  Theorem register_lookup : forall st name name' h d,
    cfg_ok c = true -> heap_get (s_heap st) h = Some d -> lower name = lower name' ->
    snd (mstep st (SReg name h)) = ONone ->
    lookup_table (fst (mstep st (SReg name h))) name' = Some (stored st d).
  Proof.
    intros st name name' h d Hc Hh Hn Hret. apply lookup_table_view; [exact Hc|].
    rewrite <- Hn. apply reg_views; assumption.
  Qed.

  (** with an update-or-add schema cache (the repaired catalog.add_table) a successful registration leaves
      exactly the stored frame's column list in the cache: the cache cannot go stale by re-registering *)
  Theorem reg_refreshes_cache : forall st name h d,
    c_add_if_absent c = false -> heap_get (s_heap st) h = Some d ->
    snd (mstep st (SReg name h)) = ONone ->
    assoc (norm_key (c_reg_norm c) name) (s_cache (fst (mstep st (SReg name h))))
    = Some (static_cols (d_leaf (stored st d))).
  Proof.
    intros st name h d Ha Hh. cbn [mstep]. rewrite Hh, Ha. cbn [andb negb]. unfold stored.
    destruct (has_star _); cbn [fst snd s_cache]; [discriminate|]. intros _.
    unfold cache_add. rewrite Ha. cbn [andb assoc]. rewrite String.eqb_refl. reflexivity.
  Qed.

  (** steps that do not register the key leave its registry entry alone *)
  Definition registers (key : string) (s : step) : bool :=
    match s with SReg name _ => String.eqb (norm_key (c_reg_norm c) name) key | _ => false end.

  Lemma mstep_views_other st s key : registers key s = false ->
    assoc key (s_views (fst (mstep st s))) = assoc key (s_views st).
  Proof.
    destruct s; cbn [registers mstep]; intro H; break_match; cbn [fst push s_views assoc];
      try rewrite H; reflexivity.
  Qed.

  Lemma mrun_views_other : forall steps st key,
    forallb (fun s => negb (registers key s)) steps = true ->
    assoc key (s_views (mrun st steps)) = assoc key (s_views st).
  Proof.
    induction steps as [|s steps IH]; intros st key H; cbn [mrun]; [reflexivity|].
    cbn [forallb] in H. apply andb_true_iff in H. destruct H as [H1 H2]. apply negb_true_iff in H1.
    rewrite IH by exact H2. apply mstep_views_other. exact H1.
  Qed.

  Lemma mrun_app : forall l1 l2 s0, mrun s0 (l1 ++ l2) = mrun (mrun s0 l1) l2.
  Proof. induction l1 as [|x l1 IH]; intros l2 s0; cbn [mrun app]; [reflexivity | apply IH]. Qed.

  (** re-registration: whatever happened before, after [SReg name h] and any later steps that do not
      register that key again, every spelling of the name resolves to the DataFrame registered last *)
  Theorem rereg_last_wins : forall before after st0 name name' h d,
    cfg_ok c = true ->
    heap_get (s_heap (mrun st0 before)) h = Some d -> lower name = lower name' ->
    snd (mstep (mrun st0 before) (SReg name h)) = ONone ->
    forallb (fun s => negb (registers (lower name) s)) after = true ->
    lookup_table (mrun st0 (before ++ [SReg name h] ++ after)) name' = Some (stored (mrun st0 before) d).
  Proof.
    intros before after st0 name name' h d Hc Hh Hn Hret Hafter.
    rewrite mrun_app. cbn [app mrun].
    apply lookup_table_view; [exact Hc|]. rewrite <- Hn.
    rewrite mrun_views_other by exact Hafter. apply reg_views; assumption.
  Qed.
End Machine.

(** * the specification: value semantics (what the engine returns when every DataFrame is a table) *)
Record sstate := mkSp { p_views : list (string * frame); p_heap : list (option frame) }.

Section Spec.
  Variable tables : list (string * frame).

  Definition senv (sp : sstate) : env :=
    fun n => match assoc n (p_views sp) with Some fr => Some fr | None => assoc n tables end.
  Definition spush (sp : sstate) (o : option frame) : sstate := mkSp (p_views sp) (p_heap sp ++ [o]).
  Definition closed : env := fun _ => None.

  (** None = nothing returned; Some None = error; Some (Some fr) = a DataFrame with that content *)
  Definition sstep (sp : sstate) (s : step) : sstate * option (option frame) :=
    match s with
    | SReg name h =>
        match heap_get (p_heap sp) h with
        | Some fr => (mkSp ((lower name, fr) :: p_views sp) (p_heap sp), None)
        | None => (sp, Some None)
        end
    | STable name => let r := senv sp (lower name) in (spush sp r, Some r)
    | SSql q =>
        let q0 := lower_query q in
        let r := run (S (List.length (q_ctes q0))) q0 (senv sp) in (spush sp r, Some r)
    | SWhere h e =>
        let r := match heap_get (p_heap sp) h with Some fr => sel_frame [e] None false fr | None => None end in
        (spush sp r, Some r)
    | SJoinB h1 h2 k rcols =>
        let r := match heap_get (p_heap sp) h1, heap_get (p_heap sp) h2 with
                 | Some f1, Some f2 =>
                     eval_sq closed
                       (QSel (FJoin (FVal f1) "l" (FSub (QSel (FVal f2) [] (Some ((ECol k, k) :: map (fun c => (ECol c, suffix_r c)) rcols)) false)) "r"
                                    (EBin Eq (ECol (lq k)) (ECol (rq k)))) []
                             (Some ((ECol (lq k), k)
                                    :: map (fun c => (ECol (lq c), c)) (filter (fun c => negb (String.eqb c k)) (cols f1))
                                    ++ map (fun c => (ECol (rq (suffix_r c)), suffix_r c)) rcols)) false)
                 | _, _ => None
                 end in
        (spush sp r, Some r)
    | SObs h => (sp, Some (heap_get (p_heap sp) h))
    end.
End Spec.
