(** Executable glue for the C08 correspondence check. *)
From SF Require Export C08.Window.
Open Scope Z_scope.

Record wcase := mkWCase {
  wc_input : frame;
  wc_spec : uspec;
  wc_fun : wfun;
  wc_impl : option (list row) }.      (* rows incl. the window column, any order; None if the call raised *)

Definition b2s (b : bool) : string := if b then "1" else "0".

Section Check.
  Variable flags : ometh -> bool * bool.
  Variable bare_default : bool * bool.
  Variable gvs : Z -> bvalue * option bside.

  Definition model_rows (k : wcase) : option (list row) :=
    match model_wspec flags bare_default gvs (wc_spec k) with
    | Some w => Some (rows (with_window (wc_input k) "w" w (wc_fun k)))
    | None => None
    end.
  Definition spark_rows (k : wcase) : list row :=
    rows (with_window (wc_input k) "w" (spark_wspec (wc_spec k)) (wc_fun k)).

  (** impl=model | impl=spark | model=spark | explicit keys | impl raised *)
  Definition check (k : wcase) : string :=
    let m := model_rows k in
    let s := spark_rows k in
    let ms := match m with Some mr => bag_eqb mr s | None => false end in
    match wc_impl k with
    | Some got =>
        b2s (match m with Some mr => bag_eqb mr got | None => false end)
        ++ b2s (bag_eqb s got) ++ b2s ms ++ b2s (explicit (wc_spec k)) ++ "0"
    | None => "00" ++ b2s ms ++ b2s (explicit (wc_spec k)) ++ "1"
    end.

  (** the same verdict for a spec given as the list of builder calls the user made: the model builds it with the
      implementation's (regenerated) replace/append behaviour, the specification with Spark's *)
  Variable part_replaces order_replaces : bool.
  Definition check_plan (input : frame) (plan : list sstep) (f : wfun) (impl : option (list row)) : string :=
    let um := build part_replaces order_replaces plan in
    let us := spark_build plan in
    let m := model_rows (mkWCase input um f impl) in
    let s := spark_rows (mkWCase input us f impl) in
    let ms := match m with Some mr => bag_eqb mr s | None => false end in
    match impl with
    | Some got =>
        b2s (match m with Some mr => bag_eqb mr got | None => false end)
        ++ b2s (bag_eqb s got) ++ b2s ms ++ b2s (explicit us) ++ "0"
    | None => "00" ++ b2s ms ++ b2s (explicit us) ++ "1"
    end.
End Check.
