(** C08: executable semantics of SQL/Spark window functions over a partitioned, ordered frame. *)
From SF Require Export Base.Sort.
Open Scope Z_scope.

Inductive ext := NegInf | Fin (z : Z) | PosInf.

Record wspec := mkW {
  w_part : list expr;
  w_order : list okey;
  w_frame : option (bool * ext * ext) }.     (* Some (is_rows, lo, hi); None = the default frame *)

Inductive wfun :=
| WRowNumber | WRank | WDenseRank | WPercentRank | WCumeDist | WNtile (n : Z)
| WLag (e : expr) (off : Z) (d : val) | WLead (e : expr) (off : Z) (d : val)
| WSum (e : expr) | WAvg (e : expr) | WMin (e : expr) | WMax (e : expr)
| WCount (e : expr) | WCountStar | WFirst (e : expr) | WLast (e : expr).

Definition keq (a b : kv) : bool := match cmp_kv a b with Datatypes.Eq => true | _ => false end.
Definition klt (a b : kv) : bool := match cmp_kv a b with Datatypes.Lt => true | _ => false end.

Definition is_null (v : val) : bool := match v with VNull => true | _ => false end.

(** direction-adjusted distance between the first order keys of two rows (RANGE frames with offsets) *)
Definition key_diff (a b : kv) : option Z :=
  match a, b with
  | (VInt x, d, _) :: _, (VInt y, _, _) :: _ => Some (if d then x - y else y - x)
  | _, _ => None
  end.
Definition first_null (a : kv) : bool := match a with (v, _, _) :: _ => is_null v | [] => false end.

Section Partition.
  Variable cs : list string.
  Variable sp : wspec.
  Variable l : list row.                  (* one partition, already sorted by w_order *)
  Let n := Z.of_nat (List.length l).
  Definition keyf (r : row) : kv := eval_keys cs r (w_order sp).
  Definition nthrow (j : Z) : option row := if (j <? 0) then None else nth_error l (Z.to_nat j).
  Definition keyat (j : Z) : kv := match nthrow j with Some r => keyf r | None => [] end.

  Definition the_frame : bool * ext * ext :=
    match w_frame sp with
    | Some f => f
    | None => match w_order sp with
              | [] => (true, NegInf, PosInf)
              | _ => (false, NegInf, Fin 0)
              end
    end.

  (** is position j' inside the frame of position j ? *)
  Definition lo_ok (is_rows : bool) (lo : ext) (j j' : Z) : bool :=
    match lo with
    | NegInf => true
    | PosInf => false
    | Fin d =>
        if is_rows then (d <=? j' - j)
        else if d =? 0 then negb (klt (keyat j') (keyat j))
        else match key_diff (keyat j) (keyat j') with
             | Some df => d <=? df
             | None => if first_null (keyat j) && first_null (keyat j') then true else (j <? j')
             end
    end.
  Definition hi_ok (is_rows : bool) (hi : ext) (j j' : Z) : bool :=
    match hi with
    | PosInf => true
    | NegInf => false
    | Fin d =>
        if is_rows then (j' - j <=? d)
        else if d =? 0 then negb (klt (keyat j) (keyat j'))
        else match key_diff (keyat j) (keyat j') with
             | Some df => df <=? d
             | None => if first_null (keyat j) && first_null (keyat j') then true else (j' <? j)
             end
    end.
  Definition in_frame (j j' : Z) : bool :=
    let '(rw, lo, hi) := the_frame in lo_ok rw lo j j' && hi_ok rw hi j j'.

  Definition positions : list Z := map Z.of_nat (seq 0 (List.length l)).
  Definition frame_rows (j : Z) : list row :=
    map snd (filter (fun p => in_frame j (fst p)) (combine positions l)).

  Definition count_if (f : Z -> bool) : Z := Z.of_nat (List.length (filter f positions)).

  Definition rank_at (j : Z) : Z := 1 + count_if (fun i => klt (keyat i) (keyat j)).
  Definition dense_at (j : Z) : Z :=
    count_if (fun i => (i <=? j) && ((i =? 0) || negb (keq (keyat i) (keyat (i - 1))))).

  Definition mk_rat (a b : Z) : val :=
    if b =? 0 then VNull else
    let g := Z.gcd a b in
    let a' := a / g in let b' := b / g in
    match b' with Zpos p => VRat a' p | Zneg p => VRat (- a') p | Z0 => VNull end.

  Definition nonnull_vals (e : expr) (rs : list row) : list val :=
    filter (fun v => negb (is_null v)) (map (fun r => eval cs r e) rs).
  Definition sum_vals (vs : list val) : Z :=
    fold_left (fun acc v => match v with VInt z => acc + z | _ => acc end) vs 0.
  Definition best (pick_gt : bool) (vs : list val) : val :=
    fold_left (fun acc v =>
      match acc with
      | VNull => v
      | _ => match val_cmp v acc with
             | Datatypes.Gt => if pick_gt then v else acc
             | Datatypes.Lt => if pick_gt then acc else v
             | Datatypes.Eq => acc
             end
      end) vs VNull.

  Definition value_at (f : wfun) (j : Z) : val :=
    match f with
    | WRowNumber => VInt (j + 1)
    | WRank => VInt (rank_at j)
    | WDenseRank => VInt (dense_at j)
    | WPercentRank => if n <=? 1 then VRat 0 1 else mk_rat (rank_at j - 1) (n - 1)
    | WCumeDist => mk_rat (count_if (fun i => negb (klt (keyat j) (keyat i)))) n
    | WNtile b =>
        if b <=? 0 then VNull else
        let q := n / b in let r := n mod b in
        if j <? r * (q + 1) then VInt (j / (q + 1) + 1)
        else if q =? 0 then VInt (j + 1)
        else VInt (r + (j - r * (q + 1)) / q + 1)
    | WLag e off d => match nthrow (j - off) with Some r => eval cs r e | None => d end
    | WLead e off d => match nthrow (j + off) with Some r => eval cs r e | None => d end
    | WSum e => match nonnull_vals e (frame_rows j) with [] => VNull | vs => VInt (sum_vals vs) end
    | WAvg e => match nonnull_vals e (frame_rows j) with
                | [] => VNull
                | vs => mk_rat (sum_vals vs) (Z.of_nat (List.length vs)) end
    | WMin e => best false (nonnull_vals e (frame_rows j))
    | WMax e => best true (nonnull_vals e (frame_rows j))
    | WCount e => VInt (Z.of_nat (List.length (nonnull_vals e (frame_rows j))))
    | WCountStar => VInt (Z.of_nat (List.length (frame_rows j)))
    | WFirst e => match frame_rows j with r :: _ => eval cs r e | [] => VNull end
    | WLast e => match rev (frame_rows j) with r :: _ => eval cs r e | [] => VNull end
    end.
End Partition.

(** group tagged rows by partition key, first appearance first, rows in input order *)
Fixpoint add_to_part (k : row) (t : nat * row) (ps : list (row * list (nat * row))) :=
  match ps with
  | [] => [(k, [t])]
  | (k', ts) :: ps' => if row_eqb k k' then (k', ts ++ [t]) :: ps' else (k', ts) :: add_to_part k t ps'
  end.

Definition eval_window (cs : list string) (rs : list row) (sp : wspec) (f : wfun) : list val :=
  let tagged := combine (seq 0 (List.length rs)) rs in
  let parts := fold_left (fun ps t => add_to_part (map (eval cs (snd t)) (w_part sp)) t ps) tagged [] in
  let results :=
    flat_map (fun p : row * list (nat * row) =>
      let sorted := sort_on (fun t : nat * row => eval_keys cs (snd t) (w_order sp)) (snd p) in
      let l := map snd sorted in
      map (fun q : Z * (nat * row) => (fst (snd q), value_at cs sp l f (fst q)))
          (combine (map Z.of_nat (seq 0 (List.length sorted))) sorted)) parts in
  map (fun i => match find (fun q : nat * val => Nat.eqb (fst q) i) results with
                | Some q => snd q | None => VNull end)
      (seq 0 (List.length rs)).

(** adding a window column leaves every existing column and the row multiset untouched *)
Definition with_window (fr : frame) (name : string) (sp : wspec) (f : wfun) : frame :=
  mkFrame (cols fr ++ [name])
          (map (fun p : row * val => fst p ++ [snd p]) (combine (rows fr) (eval_window (cols fr) (rows fr) sp f))).

Lemma eval_window_length cs rs sp f : List.length (eval_window cs rs sp f) = List.length rs.
Proof. unfold eval_window. rewrite map_length, seq_length. reflexivity. Qed.

Lemma map_fst_combine {A B} (l : list A) (l' : list B) :
  List.length l = List.length l' -> map fst (combine l l') = l.
Proof.
  revert l'; induction l as [|x l IH]; intros [|y l'] H; simpl in *; try discriminate; auto.
  f_equal. apply IH. congruence.
Qed.

Theorem window_keeps_columns fr name sp f :
  (forall r, In r (rows fr) -> List.length r = List.length (cols fr)) ->
  map (firstn (List.length (cols fr))) (rows (with_window fr name sp f)) = rows fr
  /\ List.length (rows (with_window fr name sp f)) = List.length (rows fr).
Proof.
  intro Hwf. unfold with_window; simpl. split.
  - rewrite map_map.
    transitivity (map fst (combine (rows fr) (eval_window (cols fr) (rows fr) sp f))).
    + apply map_ext_in. intros [r v] Hin. simpl.
      assert (Hr : In r (rows fr)) by (eapply in_combine_l; eauto).
      rewrite <- (Hwf r Hr). rewrite firstn_app, Nat.sub_diag, firstn_all. simpl. apply app_nil_r.
    + apply map_fst_combine. symmetry; apply eval_window_length.
  - rewrite map_length, combine_length, eval_window_length. apply Nat.min_id.
Qed.

(** * Frame bounds: what sqlframe writes vs what Spark means *)
Inductive bside := Preceding | Following.
Inductive bvalue := BCurrentRow | BUnbounded | BLit (n : Z).

(** SQL meaning of a (value, side) pair as an offset relative to the current row *)
Definition sql_bound (b : bvalue * option bside) : option ext :=
  match b with
  | (BCurrentRow, None) => Some (Fin 0)
  | (BUnbounded, Some Preceding) => Some NegInf
  | (BUnbounded, Some Following) => Some PosInf
  | (BLit n, Some Preceding) => if 0 <=? n then Some (Fin (- n)) else None
  | (BLit n, Some Following) => if 0 <=? n then Some (Fin n) else None
  | _ => None
  end.

(** Spark: pyspark thresholds, then the JVM maps 0 / Long.MinValue / Long.MaxValue / int literals *)
Definition two63 : Z := 9223372036854775808.
Definition spark_lo (s : Z) : ext := if s <=? - (two63 - 1) then NegInf else Fin s.
Definition spark_hi (e : Z) : ext := if two63 - 1 <=? e then PosInf else Fin e.
Definition int32 (x : Z) : Prop := - 2147483648 <= x <= 2147483647.
Definition dom_start (s : Z) : Prop := s <= - (two63 - 1) \/ int32 s.
Definition dom_end (e : Z) : Prop := two63 - 1 <= e \/ int32 e.

Definition ext_le (lo : ext) (d : Z) : bool :=
  match lo with NegInf => true | PosInf => false | Fin x => x <=? d end.
Definition ext_ge (hi : ext) (d : Z) : bool :=
  match hi with PosInf => true | NegInf => false | Fin x => d <=? x end.
Definition in_ext (lo : ext) (d : Z) (hi : ext) : bool := ext_le lo d && ext_ge hi d.

(** agreement of a bound function with Spark on every distance that can occur (rows: j - i with both
    inside a partition of fewer than 2^63 rows; range: a key difference of magnitude below 2^63 - 1) *)
Definition bounds_agree (gvs : Z -> bvalue * option bside) : Prop :=
  forall s e d, dom_start s -> dom_end e -> - (two63 - 1) < d < two63 - 1 ->
    match sql_bound (gvs s), sql_bound (gvs e) with
    | Some lo, Some hi => in_ext lo d hi = in_ext (spark_lo s) d (spark_hi e)
    | _, _ => False
    end.

(** * Ordering methods *)
Inductive ometh := MBare | MAsc | MDesc | MAscNF | MAscNL | MDescNF | MDescNL.
Definition all_ometh := [MAsc; MDesc; MAscNF; MAscNL; MDescNF; MDescNL].
(** Spark's meaning: (descending, nulls first) *)
Definition spark_flags (m : ometh) : bool * bool :=
  match m with
  | MBare | MAsc | MAscNF => (false, true)
  | MAscNL => (false, false)
  | MDesc | MDescNL => (true, false)
  | MDescNF => (true, true)
  end.

Record uspec := mkU {
  u_part : list expr;
  u_order : list (expr * ometh);
  u_frame : option (bool * Z * Z) }.       (* rowsBetween / rangeBetween (is_rows, start, end) *)

Definition spark_wspec (u : uspec) : wspec :=
  mkW (u_part u)
      (map (fun k => let '(d, nf) := spark_flags (snd k) in mkKey (fst k) d nf) (u_order u))
      (option_map (fun f => let '(rw, s, e) := f in (rw, spark_lo s, spark_hi e)) (u_frame u)).

Section ModelSpec.
  Variable flags : ometh -> bool * bool.          (* generated from column.py for the six methods *)
  Variable bare_default : bool * bool.            (* the execution engine's default for a bare key *)
  Variable gvs : Z -> bvalue * option bside.      (* generated from window.py *)
  Definition model_wspec (u : uspec) : option wspec :=
    let ks := map (fun k => let '(d, nf) := (match snd k with MBare => bare_default | m => flags m end) in
                            mkKey (fst k) d nf) (u_order u) in
    match u_frame u with
    | None => Some (mkW (u_part u) ks None)
    | Some (rw, s, e) =>
        match sql_bound (gvs s), sql_bound (gvs e) with
        | Some lo, Some hi => Some (mkW (u_part u) ks (Some (rw, lo, hi)))
        | _, _ => None
        end
    end.

  (** when every key uses an explicit ordering method with Spark's flags and the bounds agree, the two
      specifications are the same window, hence every window function has Spark's value on every input *)
  Definition explicit (u : uspec) : bool :=
    forallb (fun k => match snd k with MBare => false | _ => true end) (u_order u).
  Definition frame_exact (u : uspec) : Prop :=
    match u_frame u with
    | None => True
    | Some (rw, s, e) => sql_bound (gvs s) = Some (spark_lo s) /\ sql_bound (gvs e) = Some (spark_hi e)
    end.

  Theorem model_is_spark u :
    (forall m, In m all_ometh -> flags m = spark_flags m) ->
    explicit u = true -> frame_exact u ->
    model_wspec u = Some (spark_wspec u).
  Proof.
    intros Hf He Hfr. unfold model_wspec, spark_wspec.
    assert (Hk : map (fun k => let '(d, nf) := (match snd k with MBare => bare_default | m => flags m end) in
                               mkKey (fst k) d nf) (u_order u) =
                 map (fun k => let '(d, nf) := spark_flags (snd k) in mkKey (fst k) d nf) (u_order u)).
    { apply map_ext_in. intros [e m] Hin. simpl.
      unfold explicit in He. rewrite forallb_forall in He. specialize (He _ Hin). simpl in He.
      destruct m; try discriminate; rewrite Hf by (simpl; tauto); reflexivity. }
    rewrite Hk. unfold frame_exact in Hfr.
    destruct (u_frame u) as [[[rw s] e]|]; simpl; [|reflexivity].
    destruct Hfr as [H1 H2]. rewrite H1, H2. reflexivity.
  Qed.

  (** ... and when a bare key is also given Spark's default placement (ascending, NULLs first) by the code that
      builds the spec, no restriction on the keys is left *)
  Theorem model_is_spark_all u :
    (forall m, In m all_ometh -> flags m = spark_flags m) ->
    bare_default = spark_flags MBare -> frame_exact u ->
    model_wspec u = Some (spark_wspec u).
  Proof.
    intros Hf Hb Hfr. unfold model_wspec, spark_wspec.
    assert (Hk : map (fun k => let '(d, nf) := (match snd k with MBare => bare_default | m => flags m end) in
                               mkKey (fst k) d nf) (u_order u) =
                 map (fun k => let '(d, nf) := spark_flags (snd k) in mkKey (fst k) d nf) (u_order u)).
    { apply map_ext_in. intros [e m] Hin. cbn [snd fst].
      destruct m; try (rewrite Hf by (simpl; tauto); reflexivity). rewrite Hb. reflexivity. }
    rewrite Hk. unfold frame_exact in Hfr.
    destruct (u_frame u) as [[[rw s] e]|]; simpl; [|reflexivity].
    destruct Hfr as [H1 H2]. rewrite H1, H2. reflexivity.
  Qed.
End ModelSpec.

(** * Building a spec step by step: Window.partitionBy(..).orderBy(..).rowsBetween(..) in any order, any number of times.
    In Spark every builder method REPLACES its component and keeps the two others (WindowSpec.scala); the flags say what
    the implementation's methods do (regenerated from window.py). *)
Inductive sstep :=
| SPart (l : list expr)
| SOrder (l : list (expr * ometh))
| SFrame (f : bool * Z * Z).

Section Build.
  Variable part_replaces order_replaces : bool.
  Definition apply_sstep (u : uspec) (s : sstep) : uspec :=
    match s with
    | SPart l => mkU (if part_replaces then l else u_part u ++ l) (u_order u) (u_frame u)
    | SOrder l => mkU (u_part u) (if order_replaces then l else u_order u ++ l) (u_frame u)
    | SFrame f => mkU (u_part u) (u_order u) (Some f)
    end.
  Definition build_from (u : uspec) (plan : list sstep) : uspec := fold_left apply_sstep plan u.
  Definition build (plan : list sstep) : uspec := build_from (mkU [] [] None) plan.
End Build.

Definition spark_build : list sstep -> uspec := build true true.

(** what Spark's builder means: the LAST step of each kind decides that component *)
Fixpoint last_part (plan : list sstep) (acc : list expr) : list expr :=
  match plan with [] => acc | SPart l :: t => last_part t l | _ :: t => last_part t acc end.
Fixpoint last_order (plan : list sstep) (acc : list (expr * ometh)) : list (expr * ometh) :=
  match plan with [] => acc | SOrder l :: t => last_order t l | _ :: t => last_order t acc end.
Fixpoint last_frame (plan : list sstep) (acc : option (bool * Z * Z)) : option (bool * Z * Z) :=
  match plan with [] => acc | SFrame f :: t => last_frame t (Some f) | _ :: t => last_frame t acc end.

Theorem spark_build_last_wins plan u :
  build_from true true u plan = mkU (last_part plan (u_part u)) (last_order plan (u_order u)) (last_frame plan (u_frame u)).
Proof.
  revert u. induction plan as [|s t IH]; intros u.
  - destruct u; reflexivity.
  - unfold build_from in *. cbn [fold_left]. rewrite IH. destruct s; reflexivity.
Qed.

Theorem build_is_sparks pr orr plan : pr = true -> orr = true -> build pr orr plan = spark_build plan.
Proof. intros -> ->. reflexivity. Qed.

(** the two behaviours really differ: an implementation that appends is refuted by a two-step plan *)
Example appending_differs :
  build false true [SPart [ECol "a"]; SPart [ECol "b"]] <> spark_build [SPart [ECol "a"]; SPart [ECol "b"]].
Proof. discriminate. Qed.
