(** C18 -- evaluation helpers for the correspondence harness (T3): canonical dumps of what the model predicts for
    a trace, in the same format checks/c18_worker.py prints for the implementation. *)
From Coq Require Import List String ZArith Bool Arith Lia Decimal DecimalString.
From SF Require Import C18.Session C18.Compile C18.NonInterf C18.Statement.
Import ListNotations.
Open Scope string_scope.
Open Scope list_scope.
Infix "+++" := String.append (at level 60, right associativity).

Definition nat_str (n : nat) : string := NilEmpty.string_of_uint (Nat.to_uint n).
Definition z_str (z : Z) : string := match z with Z0 => "0" | Zpos _ => nat_str (Z.to_nat z) | Zneg _ => "-" +++ nat_str (Z.to_nat (Z.opp z)) end.
Definition join (sep : string) (l : list string) : string := String.concat sep l.

Fixpoint index_of {A} (eqb : A -> A -> bool) (x : A) (l : list A) : option nat :=
  match l with
  | [] => None
  | y :: t => if eqb x y then Some 0 else match index_of eqb x t with Some n => Some (S n) | None => None end
  end.

Fixpoint dedup_nat (l : list nat) (seen : list nat) : list nat :=
  match l with
  | [] => []
  | x :: t => if mem_nat x seen then dedup_nat t seen else x :: dedup_nat t (x :: seen)
  end.

Definition cls (order : list nat) (i : nat) : string :=
  match index_of Nat.eqb i order with Some n => nat_str n | None => "?" end.

Definition qidx (names : list tx) (k : qual) : string :=
  match k with
  | QNone => "n"
  | QKeep (IId _) => "?id"
  | QKeep (IName s) => "?" +++ s
  | QCte nm => match index_of tx_eqb nm names with Some n => nat_str n | None => "?cte" end
  end.

Fixpoint count_uu (t : tx) : list nat :=
  match t with
  | TCat (TA (AS "WHERE-DEDUP")) (TCat (TA (ACt u)) _) => [u]
  | TCat l r => count_uu l ++ count_uu r
  | _ => []
  end.

Definition dump_frame (f : frame) : string :=
  let order := dedup_nat (flat_map (fun c => [c_br c; c_sq c]) (f_ctes f) ++ [f_br f; f_sq f]) [] in
  let names := map c_name (f_ctes f) in
  let ctes := join ";" (map (fun c => cls order (c_br c) +++ "," +++ cls order (c_sq c) +++ "," +++ join "." (c_cols c)) (f_ctes f)) in
  let from := match f_src f with
              | SrcValues _ _ => "values"
              | SrcCte nm | SrcCteAs nm _ => match index_of tx_eqb nm names with Some n => nat_str n | None => "?" end
              end in
  let joins := join ";" (map (fun j => qidx names (QCte (fst j)) +++ ">" +++
                                        join "." (flat_map (fun p => [qidx names (q (fst p)); qidx names (q (snd p))]) (snd j)))
                             (f_joins f)) in
  let wh := join "." (map (fun p => qidx names (q (fst p))) (f_where f)) in
  let sel := join "," (map (fun c => qidx names (q c) +++ "." +++ (match cap c with Some _ => "^" | None => cn c end)) (f_sel f)) in
  let uu := List.length (dedup_nat (flat_map (fun c => count_uu (c_body c)) (f_ctes f)) []) in
  "C:" +++ ctes +++ "~F:" +++ from +++ "~J:" +++ joins +++ "~W:" +++ wh +++ "~S:" +++ sel +++ "~B:" +++ cls order (f_br f) +++
  "~Q:" +++ cls order (f_sq f) +++ "~L:" +++ z_str (f_last f) +++ "~U:" +++ nat_str uu.

Fixpoint dedup_str (l : list string) (seen : list string) : list string :=
  match l with
  | [] => []
  | x :: t => if mem_str x seen then dedup_str t seen else x :: dedup_str t (x :: seen)
  end.

Definition dump_regs (g : cfg) (s : st) : string :=
  let r := rg s in
  let names := dedup_str (map fst (amap r)) [] in
  "k" +++ nat_str (List.length (known r)) +++ " b" +++ nat_str (List.length (kbranch r)) +++ " s" +++ nat_str (List.length (kseq r)) +++
  " a[" +++ join "," (map (fun n => n +++ ":" +++ nat_str (List.length (amap_ids r n))) names) +++ "]" +++
  " c" +++ nat_str (counter s) +++
  " v[" +++ join "," (dedup_str (List.rev (map fst (views s))) []) +++ "]" +++
  " sc[" +++ join ";" (map (fun v => v +++ "=" +++ match lookup (scache s) v with Some l => join "." l | None => "" end)
                          (dedup_str (if schema_aia g then map fst (scache s) else List.rev (map fst (scache s))) [])) +++ "]" +++
  " e" +++ nat_str (List.length (eviews s)).

(** canonical fresh values: step i draws 64*i + k *)
Definition canon_dr (i : nat) : nat -> nat := fun k => 64 * i + k.
Fixpoint annot (i : nat) (l : list (bool * step)) : list ev :=
  match l with [] => [] | (b, p) :: t => mkEv b p (canon_dr i) :: annot (S i) t end.

Definition dump_obs (o : option obs) : string :=
  match o with None => "-" | Some OErr => "err" | Some _ => "ok" end.

(** per step: registries after the step # frame bound by the step # action outcome *)
Fixpoint trace_dump (g : cfg) (w : world) (l : list ev) : list string :=
  match l with
  | [] => []
  | e :: t =>
      let '(s', bind, ob) := run_step g (w_st w) (w_env w) (dr e) (op e) in
      (dump_regs g s' +++ "#" +++ (match bind with Some (_, f) => dump_frame f | None => "-" end) +++ "#" +++ dump_obs ob)
        :: trace_dump g (run_ev g w e) t
  end.

Fixpoint tx_beq_list (a b : list obs) : bool :=
  match a, b with
  | [], [] => true
  | OErr :: a', OErr :: b' => tx_beq_list a' b'
  | ORows _ x :: a', ORows _ y :: b' => tx_eqb x y && tx_beq_list a' b'
  | OSchema x :: a', OSchema y :: b' => tx_eqb x y && tx_beq_list a' b'
  | _, _ => false
  end.

(** does the model predict that P observes the same with and without the other events? *)
Definition predicts_same (g : cfg) (l : list ev) : bool :=
  tx_beq_list (obs_of true (run g l)) (obs_of true (run g (filter who l))).

Definition check_trace (g : cfg) (l : list (bool * step)) : string :=
  let evs := annot 0 l in
  join "@" (trace_dump g w0 evs) +++ "$" +++ (if predicts_same g evs then "same" else "differs")
    +++ "," +++ (if independent evs then "independent" else "dependent")
    +++ "," +++ (if full_dom evs then "scoped" else "unscoped").
