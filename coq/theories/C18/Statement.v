(** C18 -- the property as statements over the model, parametric in the regenerated facts [g] and in the domain
    of traces, so that coq/props/C18.v can state it at full strength, prove it on the decidable domain
    [independent] and refute the full-strength version where the faithful model breaks it. *)
From Coq Require Import List String ZArith Bool Arith Lia Cantor.
From SF Require Import C18.Session C18.Compile C18.NonInterf C18.Registry C18.Equivar C18.Repro.
Import ListNotations.
Open Scope list_scope.

(** what PySpark itself promises about view names: a read sees the latest registration.  A trace is view-scoped
    when every view P reads was last registered by P. *)
Fixpoint view_scoped_from (lastw : list (string * bool)) (l : list ev) : bool :=
  match l with
  | [] => true
  | e :: t =>
      match op e with
      | SView _ v => view_scoped_from ((v, who e) :: lastw) t
      | SSql _ v _ =>
          (if who e then match lookup lastw v with Some true => true | _ => false end else true)
          && view_scoped_from lastw t
      | _ => view_scoped_from lastw t
      end
  end.
Definition view_scoped (l : list ev) : bool := view_scoped_from [] l.

(** the full domain of the property: P reads only its own frames and views it registered itself last *)
Definition full_dom (l : list ev) : bool := forallb reads_own l && view_scoped l.

Definition injective (p : nat -> nat) : Prop := forall a b, p a = p b -> a = b.

(** (i) history independence on a domain of traces *)
Definition history_statement (g : cfg) (dom : list ev -> bool) : Prop :=
  forall (A A' : oracle) prog, jointly_injective A -> jointly_injective A' -> dom (annotate A prog) = true ->
  exists (C : list obs) (p1 p2 : nat -> nat), injective p1 /\ injective p2 /\
    obs_of true (run g (annotate A prog)) = map (r_obs p1 p1) C /\
    obs_of true (run g (annotate A' (filter (fun x : bool * step => fst x) prog))) = map (r_obs p2 p2) C.

(** (ii) reproducible text in two fresh sessions *)
Definition repro_statement (g : cfg) : Prop :=
  forall (A1 A2 : oracle) l b, jointly_injective A1 -> jointly_injective A2 -> (forall i k, is_ctr_slot k = true -> A1 i k = A2 i k) ->
    map skel_obs (obs_of b (run g (annotate A1 l))) = map skel_obs (obs_of b (run g (annotate A2 l))) /\
    (forallb closed_obs (obs_of b (run g (annotate A1 l))) = true ->
     obs_of b (run g (annotate A1 l)) = obs_of b (run g (annotate A2 l))).

(** (iii) read-only actions leave nothing behind: views, schema cache and the engine catalog are as before *)
Definition readonly (p : step) : bool := match p with SAct _ _ | SSchema _ => true | _ => false end.
Definition readonly_statement (g : cfg) (acts : step -> bool) : Prop :=
  forall s e d p, acts p = true ->
    let s' := fst (fst (run_step g s e d p)) in
    views s' = views s /\ scache s' = scache s /\ eviews s' = eviews s.

Theorem history_on_independent g : alias_scoped g = true -> history_statement g independent.
Proof. intros Hg A A' prog HA HA' Hd. apply history_independent; auto. Qed.

Theorem repro_holds g : repro_statement g.
Proof.
  intros A1 A2 l b H1 H2 Hc. split.
  - apply text_equal_upto_random_literals; auto.
  - apply text_identical_when_closed; auto.
Qed.

Theorem readonly_on_plain_actions g : readonly_statement g (fun p => match p with SAct _ _ => true | _ => false end).
Proof.
  intros s e d p Hp. destruct p; try discriminate. cbv zeta. rewrite readonly_action_no_write. auto.
Qed.

(* ---- tools for the refutations ---- *)
Definition is_err (o : obs) : bool := match o with OErr => true | _ => false end.
Lemma is_err_r p q o : is_err (r_obs p q o) = is_err o.
Proof. destruct o; reflexivity. Qed.

Lemma canon0_inj : jointly_injective canon0.
Proof.
  intros i k j m H. unfold canon0 in H.
  assert (E : of_nat (to_nat (i, k)) = of_nat (to_nat (j, m))) by (rewrite H; reflexivity).
  rewrite !cancel_of_to in E. inversion E; auto.
Qed.

(** a trace in the domain on which P's error pattern differs between "with history" and "alone" refutes
    history independence on that domain: renamings cannot turn an error into rows *)
Lemma history_refuted_by g (dom : list ev -> bool) prog :
  dom (annotate canon0 prog) = true ->
  map is_err (obs_of true (run g (annotate canon0 prog))) <>
  map is_err (obs_of true (run g (annotate canon0 (filter (fun x : bool * step => fst x) prog)))) ->
  ~ history_statement g dom.
Proof.
  intros Hd Hne H. destruct (H canon0 canon0 prog canon0_inj canon0_inj Hd) as [C [p1 [p2 [_ [_ [E1 E2]]]]]].
  apply Hne. rewrite E1, E2, !map_map. apply map_ext. intros o. rewrite !is_err_r. reflexivity.
Qed.

Lemma readonly_refuted_by g (s : st) (e : env) (d : nat -> nat) src f :
  get e src = Some f -> f_ok f = true -> schema_drops_view g = false -> ~ readonly_statement g readonly.
Proof.
  intros Hg Hok Hd H. destruct (H s e d (SSchema src) eq_refl) as [_ [_ E]].
  rewrite (schema_lookup_leaves g s e d src f Hg Hok), Hd in E.
  assert (L : List.length (eviews s ++ [d 4]) = List.length (eviews s)) by (rewrite E; reflexivity).
  rewrite app_length in L. simpl in L. lia.
Qed.
