(** C18 -- the session registries and normalize.py's two identifier-resolution functions.

    Model conventions
    * Everything "fresh" (random ids `"r" + uuid4().hex`, the uuid literals of `_add_ctes_to_expression`,
      `join_on_uuid`, the `a<n>` VALUES aliases) is a natural number inside a dedicated atom constructor; user
      strings and keywords are [AS], numerals [AN].  So a user name is never equal to a random id *by typing*;
      that is the (standard) freshness assumption "uuid4 does not return a string the user typed".
    * SQL text is a tree of atoms [tx]; the name of a CTE is the text that was hashed when it was named
      (`_create_hash_from_expression` = crc32 of the rendered text): the hash is modelled as injective
      (collision-freeness inside one query is checked on every exported query by the T3 harness). *)
From Coq Require Import List String ZArith Bool Arith Lia.
Import ListNotations.
Open Scope string_scope.
Open Scope list_scope.

(* ---------------------------------------------------------------- text *)
Inductive atom := AId (n : nat) | AUu (n : nat) | ACt (n : nat) | AS (s : string) | AN (n : nat).

Inductive tx :=
| TNil
| TA (a : atom)
| TRef (nm : tx)            (* an identifier that names a CTE; [nm] = the text hashed when the CTE was named *)
| TCat (l r : tx).

Definition atom_eqb (a b : atom) : bool :=
  match a, b with
  | AId x, AId y | AUu x, AUu y | ACt x, ACt y | AN x, AN y => Nat.eqb x y
  | AS x, AS y => String.eqb x y
  | _, _ => false
  end.

Lemma atom_eqb_eq a b : atom_eqb a b = true <-> a = b.
Proof.
  destruct a, b; simpl; try (split; [discriminate|discriminate]);
    rewrite ?Nat.eqb_eq, ?String.eqb_eq; split; congruence.
Qed.

Fixpoint tx_eqb (a b : tx) : bool :=
  match a, b with
  | TNil, TNil => true
  | TA x, TA y => atom_eqb x y
  | TRef x, TRef y => tx_eqb x y
  | TCat x1 x2, TCat y1 y2 => tx_eqb x1 y1 && tx_eqb x2 y2
  | _, _ => false
  end.

Lemma tx_eqb_eq a : forall b, tx_eqb a b = true <-> a = b.
Proof.
  induction a as [|x|x IH|x1 IH1 x2 IH2]; intros [|y|y|y1 y2]; simpl; try (split; discriminate); try tauto.
  - rewrite atom_eqb_eq. split; congruence.
  - rewrite IH. split; congruence.
  - rewrite andb_true_iff, IH1, IH2. split; [intros [-> ->]; reflexivity|intros H; inversion H; auto].
Qed.

Lemma tx_eqb_refl a : tx_eqb a a = true.
Proof. apply tx_eqb_eq; reflexivity. Qed.

Definition mem_nat (x : nat) (l : list nat) : bool := existsb (Nat.eqb x) l.
Definition mem_str (x : string) (l : list string) : bool := existsb (String.eqb x) l.
Definition mem_tx (x : tx) (l : list tx) : bool := existsb (tx_eqb x) l.

Lemma mem_nat_In x l : mem_nat x l = true <-> In x l.
Proof.
  unfold mem_nat. rewrite existsb_exists. split.
  - intros [y [Hy E]]. apply Nat.eqb_eq in E. subst; auto.
  - intros H. exists x. split; auto. apply Nat.eqb_refl.
Qed.

(* ---------------------------------------------------------------- CTEs and the registries *)
Record cte := mkCte {
  c_name : tx;              (* alias of the CTE *)
  c_br : nat;               (* cte.args["branch_id"] *)
  c_sq : nat;               (* cte.args["sequence_id"] *)
  c_cols : list string;     (* cte.this.named_selects *)
  c_body : tx               (* current text of the CTE's SELECT *)
}.

(** The part of the session the resolution functions can see.  [amap] is `name_to_sequence_id_mapping` as an
    append-only association list (a new alias registration is appended). *)
Record regs := mkRegs {
  known : list nat;         (* known_ids *)
  kbranch : list nat;       (* known_branch_ids *)
  kseq : list nat;          (* known_sequence_ids *)
  amap : list (string * nat)
}.

Definition amap_has (r : regs) (s : string) : bool := existsb (fun p => String.eqb (fst p) s) (amap r).
Definition amap_ids (r : regs) (s : string) : list nat :=
  map snd (filter (fun p => String.eqb (fst p) s) (amap r)).

Inductive ident := IName (s : string) | IId (i : nat).
Inductive res := Keep | Found (nm : tx) | Err.

(** what the resolution functions look at in the expression being normalised *)
Record rctx := mkCtx {
  x_ctes : list cte;        (* expression_context.ctes *)
  x_tables : list tx        (* get_tables_from_expression_with_join: [] when the SELECT has no join *)
}.

(** `replace_alias_name_with_cte_name`; [scoped] = the generated fact that the lookup is intersected with the
    sequence ids of the expression's own CTEs (`if cte.args["sequence_id"] in mapping[name]`).  With
    [scoped = false] the model takes the last CTE of the expression as soon as the name has been registered by
    anybody -- the behaviour of the loop without its membership test, a property-breaking edit. *)
Definition resolve_alias (scoped : bool) (r : regs) (x : rctx) (s : string) : res :=
  if amap_has r s then
    if scoped then
      match find (fun c => mem_nat (c_sq c) (amap_ids r s)) (rev (x_ctes x)) with
      | Some c => Found (c_name c)
      | None => Keep
      end
    else
      match rev (x_ctes x) with
      | c :: _ => Found (c_name c)
      | [] => Keep
      end
  else Keep.

Definition scan_ids (x : rctx) (i : nat) : res :=
  match find (fun c => Nat.eqb i (c_br c) || Nat.eqb i (c_sq c)) (rev (x_ctes x)) with
  | Some c => Found (c_name c)
  | None => Keep
  end.

(** `replace_branch_and_sequence_ids_with_cte_name` *)
Definition resolve_id (r : regs) (x : rctx) (i : nat) : res :=
  if mem_nat i (known r) then
    if negb (match x_tables x with [] => true | _ => false end) && mem_nat i (kbranch r) then
      match filter (fun c => mem_tx (c_name c) (x_tables x)) (x_ctes x) with
      | c0 :: c1 :: rest =>
          if Nat.eqb (c_br c0) (c_br c1)
          then match rest with [] => Found (c_name c0) | _ => Err (* assert len(ctes_in_join) == 2 *) end
          else scan_ids x i
      | _ => Err                                      (* ctes_in_join[1]: IndexError *)
      end
    else scan_ids x i
  else Keep.

(** one identifier through both functions, in the order `normalize` applies them.  A user name is never a
    member of known_ids and a random id is never an alias name (freshness, see header); a CTE name is neither. *)
Definition resolve (scoped : bool) (r : regs) (x : rctx) (d : ident) : res :=
  match d with
  | IName s => resolve_alias scoped r x s
  | IId i => resolve_id r x i
  end.

(* ---------------------------------------------------------------- locality *)
(** ids that occur in the expression at hand *)
Definition ids_of (x : rctx) : list nat := flat_map (fun c => [c_br c; c_sq c]) (x_ctes x).

(** two registries agree on what an expression with these ids, asked about this identifier, can observe *)
Definition agree_on (ids : list nat) (d : ident) (r r' : regs) : Prop :=
  match d with
  | IName s => forall i, In i ids -> mem_nat i (amap_ids r s) = mem_nat i (amap_ids r' s)
  | IId i => mem_nat i (known r) = mem_nat i (known r') /\ mem_nat i (kbranch r) = mem_nat i (kbranch r')
  end.

Lemma find_ext_in {A} (f g : A -> bool) l : (forall a, In a l -> f a = g a) -> find f l = find g l.
Proof.
  induction l as [|a l IH]; simpl; intros H; auto.
  rewrite (H a (or_introl eq_refl)). destruct (g a); auto.
Qed.

Lemma find_false {A} (l : list A) : find (fun _ => false) l = None.
Proof. induction l; simpl; auto. Qed.

Lemma amap_ids_nil r s : amap_has r s = false -> amap_ids r s = [].
Proof.
  unfold amap_has, amap_ids. induction (amap r) as [|p l IH]; simpl; auto.
  destruct (String.eqb (fst p) s); simpl; [discriminate|auto].
Qed.

(** with the scoped lookup the `name in mapping` guard is redundant: an absent name has no sequence ids *)
Lemma resolve_alias_scoped r x s :
  resolve_alias true r x s =
  match find (fun c => mem_nat (c_sq c) (amap_ids r s)) (rev (x_ctes x)) with
  | Some c => Found (c_name c) | None => Keep end.
Proof.
  unfold resolve_alias. destruct (amap_has r s) eqn:E; auto.
  rewrite (amap_ids_nil _ _ E). simpl. rewrite find_false. reflexivity.
Qed.

Theorem resolve_local : forall r r' x d,
  agree_on (ids_of x) d r r' -> resolve true r x d = resolve true r' x d.
Proof.
  intros r r' x [s|i] H; simpl in *.
  - rewrite !resolve_alias_scoped.
    rewrite (find_ext_in (fun c => mem_nat (c_sq c) (amap_ids r s)) (fun c => mem_nat (c_sq c) (amap_ids r' s))); auto.
    intros c Hc. apply H. apply in_rev in Hc. unfold ids_of. apply in_flat_map. exists c. simpl; auto.
  - destruct H as [Hk Hb]. unfold resolve_id. rewrite Hk, Hb. reflexivity.
Qed.

(** the unscoped variant is NOT local: a registration made for another expression changes the answer *)
Example resolve_unscoped_not_local :
  let x := mkCtx [mkCte (TA (AS "t1")) 0 1 ["a"] TNil] [] in
  let r := mkRegs [0;1] [0] [1] [] in
  let r' := mkRegs [0;1;7] [0] [1;7] [("x", 7)] in
  agree_on (ids_of x) (IName "x") r r' /\ resolve false r x (IName "x") <> resolve false r' x (IName "x").
Proof. simpl. split; [|discriminate]. intros i [<-|[<-|[]]]; reflexivity. Qed.
